# C16 mutation 3: one probe too many (<= instead of <)
import sys
root=sys.argv[1]
p=root+'/crux_http/src/middleware/redirect.rs'; t=open(p).read()
t=t.replace("        let mut redirect_count: u8 = 0;","        let mut redirect_count: u16 = 0;")
assert "while redirect_count < self.attempts {" in t
t=t.replace("while redirect_count < self.attempts {","while redirect_count <= self.attempts as u16 {")
open(p,'w').write(t)
