# mutation 4: repeated header names overwrite instead of append (drops all but the last value)
import sys
root=sys.argv[1]
p=root+'/crux_http/src/protocol.rs'; t=open(p).read()
assert "            res.append_header(name, value);" in t
t=t.replace("            res.append_header(name, value);","            res.insert_header(name, value);")
open(p,'w').write(t)
