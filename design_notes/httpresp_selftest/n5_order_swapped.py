# C16 mutation 5: per-request middleware runs before client middleware
import sys
root=sys.argv[1]
p=root+'/crux_http/src/client.rs'; t=open(p).read()
old="                mw.extend(middleware.iter().cloned());\n                mw.extend(req_mw);"
assert old in t
t=t.replace(old,"                mw.extend(req_mw);\n                mw.extend(middleware.iter().cloned());")
open(p,'w').write(t)
