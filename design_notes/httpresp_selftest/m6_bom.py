# mutation 6: undo the BOM fix
import sys
root=sys.argv[1]
p=root+'/crux_http/src/response/decode.rs'; t=open(p).read()
assert "Cow::Borrowed(text) if text.len() == bytes.len() => unsafe {" in t
t=t.replace("Cow::Borrowed(text) if text.len() == bytes.len() => unsafe {","Cow::Borrowed(_text) if true => unsafe {")
open(p,'w').write(t)
