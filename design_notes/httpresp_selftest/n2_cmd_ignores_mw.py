# C16 mutation 2: undo d7f6296 in effect - the command API drops the request's middleware
import sys
root=sys.argv[1]
p=root+'/crux_http/src/command.rs'; t=open(p).read()
old="            let response = client.send(req).await?;"
assert old in t
t=t.replace(old,"            let mut req = req;\n            let _ = req.take_middleware();\n            let response = client.send(req).await?;")
open(p,'w').write(t)
