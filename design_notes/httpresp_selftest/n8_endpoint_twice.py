# C16 mutation 8: Next::run skips a middleware when two remain (shell reached, but a middleware never entered)
import sys
root=sys.argv[1]
p=root+'/crux_http/src/middleware.rs'; t=open(p).read()
old="        if let Some((current, next)) = self.next_middleware.split_first() {\n            self.next_middleware = next;"
assert old in t
t=t.replace(old,"        if let Some((current, next)) = self.next_middleware.split_first() {\n            self.next_middleware = if next.len() == 2 { &next[1..] } else { next };")
open(p,'w').write(t)
