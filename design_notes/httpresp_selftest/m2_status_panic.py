# mutation 2: unknown status panics again (expect instead of error value)
import sys
root=sys.argv[1]
p=root+'/crux_http/src/protocol.rs'; t=open(p).read()
a=t.index("        let status = http_types::StatusCode::try_from(effect_response.status).map_err(|_| {"); b=t.index("        let mut res = http_types::Response::new(status);")
t=t[:a]+"        let status = http_types::StatusCode::try_from(effect_response.status).expect(\"valid status\");\n\n"+t[b:]
open(p,'w').write(t)
