# harmless refactor: from_protocol written with explicit matches and a helper, same behaviour
import sys
root=sys.argv[1]
p=root+'/crux_http/src/protocol.rs'; t=open(p).read()
a=t.index("        let mut res = http_types::Response::new(status);\n        for header in effect_response.headers {"); b=t.index("        // Setting a body makes http-types add")
new='''        let mut res = http_types::Response::new(status);
        let mut pairs: Vec<(HeaderName, HeaderValue)> = Vec::with_capacity(effect_response.headers.len());
        for HttpHeader { name: raw_name, value: raw_value } in effect_response.headers {
            let name = match raw_name.parse::<HeaderName>() {
                Ok(n) => n,
                Err(_) => return Err(HttpError::Io(format!("HTTP response header name is not ASCII: {raw_name}"))),
            };
            let value = match raw_value.parse::<HeaderValue>() {
                Ok(v) => v,
                Err(_) => return Err(HttpError::Io(format!("value of HTTP response header {raw_name} is not ASCII"))),
            };
            pairs.push((name, value));
        }
        pairs.into_iter().for_each(|(n, v)| res.append_header(n, v));

'''
t=t[:a]+new+t[b:]
open(p,'w').write(t)
p=root+'/crux_http/src/response/response.rs'; t=open(p).read()
assert "if status.is_client_error() || status.is_server_error() {" in t
t=t.replace("if status.is_client_error() || status.is_server_error() {","if !(status.is_informational() || status.is_success() || status.is_redirection()) {")
open(p,'w').write(t)
