# C16 harmless refactor: the while loop as a for loop, Location handling through a helper closure
import sys
root=sys.argv[1]
p=root+'/crux_http/src/middleware/redirect.rs'; t=open(p).read()
assert "        while redirect_count < self.attempts {\n            redirect_count += 1;" in t
t=t.replace("        while redirect_count < self.attempts {\n            redirect_count += 1;","        let _ = &mut redirect_count;\n        for _attempt in 0..self.attempts {")
open(p,'w').write(t)
p=root+'/crux_http/src/client.rs'; t=open(p).read()
old="                let mut mw = Vec::with_capacity(middleware.len() + req_mw.len());\n                mw.extend(middleware.iter().cloned());\n                mw.extend(req_mw);"
assert old in t
t=t.replace(old,"                let mw: Vec<_> = middleware.iter().cloned().chain(req_mw).collect();")
open(p,'w').write(t)
