# C16 mutation 1: undo ad19b9f - relative Location resolved against the last ABSOLUTE url
import sys
root=sys.argv[1]
p=root+'/crux_http/src/middleware/redirect.rs'; t=open(p).read()
assert "        while redirect_count < self.attempts {" in t
t=t.replace("        while redirect_count < self.attempts {","        let mut base_url = req.url().clone();\n        while redirect_count < self.attempts {")
assert "                        Ok(valid_url) => valid_url," in t
t=t.replace("                        Ok(valid_url) => valid_url,","                        Ok(valid_url) => { base_url = valid_url.clone(); valid_url }")
assert "req.url().join(location.last().as_str())?" in t
t=t.replace("req.url().join(location.last().as_str())?","base_url.join(location.last().as_str())?")
open(p,'w').write(t)
