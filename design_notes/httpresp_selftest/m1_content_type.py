# mutation 1: undo the content-type fix (body set first, nothing removed)
import sys
root=sys.argv[1]
p=root+'/crux_http/src/protocol.rs'; t=open(p).read()
t=t.replace("        if !has_content_type {\n            res.remove_header(CONTENT_TYPE);\n        }\n","        let _ = has_content_type;\n")
open(p,'w').write(t)
