# C16 mutation 4: does not stop at the first non-redirect status
import sys,re
root=sys.argv[1]
p=root+'/crux_http/src/middleware/redirect.rs'; t=open(p).read()
old="            } else {\n                break;\n            }"
assert old in t
t=t.replace(old,"            }")
open(p,'w').write(t)
