# C16 mutation 6: the final request is sent without its body
import sys
root=sys.argv[1]
p=root+'/crux_http/src/middleware/redirect.rs'; t=open(p).read()
old="        Ok(next.run(req, client).await?)"
assert old in t
t=t.replace(old,"        Ok(next.run(req.clone(), client).await?)")
open(p,'w').write(t)
