# mutation 5: capability API maps a shell error to Timeout (not passed through unchanged)
import sys
root=sys.argv[1]
p=root+'/crux_http/src/client.rs'; t=open(p).read()
assert "                    HttpResult::Err(e) => Err(e),\n" in t
t=t.replace("                    HttpResult::Err(e) => Err(e),\n","                    HttpResult::Err(_) => Err(crate::HttpError::Timeout),\n")
open(p,'w').write(t)
