# mutation 3: 5xx no longer classified as an error
import sys
root=sys.argv[1]
p=root+'/crux_http/src/response/response.rs'; t=open(p).read()
assert "if status.is_client_error() || status.is_server_error() {" in t
t=t.replace("if status.is_client_error() || status.is_server_error() {","if status.is_client_error() {")
open(p,'w').write(t)
