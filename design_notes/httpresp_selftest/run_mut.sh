#!/bin/bash
# usage: run_mut.sh <prop> <mutation.py>...   applies each mutation to a fresh /tmp/httpresp-mut and runs the check
prop=$1; shift
(cd /tmp/httpresp-mut && git checkout -q -f --detach $(git -C /repo rev-parse HEAD))
for m in "$@"; do
  (cd /tmp/httpresp-mut && git checkout -q -f HEAD -- . )
  python3 $m /tmp/httpresp-mut || { echo "MUTATION $m did not apply"; continue; }
  echo "=== $m: $(head -1 $m)"
  (cd /verif && VERIF_REPO=/tmp/httpresp-mut timeout 1500 ./check $prop 2>&1 | grep -v "^KNOWN-FINDING" | cut -c1-400 | tail -4)
done
(cd /tmp/httpresp-mut && git checkout -q -f HEAD -- . )
