# mutation 7: command API drops the body expectation (always bytes) - done by skipping decode on json errors: map Json error to Io
import sys
root=sys.argv[1]
p=root+'/crux_http/src/response/response.rs'; t=open(p).read()
old="        serde_json::from_slice(&body_bytes).map_err(crate::HttpError::from)\n    }\n}\n\nimpl<Body> AsRef<http_types::Headers> for Response<Body>"
assert old in t
t=t.replace(old,"        serde_json::from_slice(&body_bytes).map_err(|e| crate::HttpError::Io(e.to_string()))\n    }\n}\n\nimpl<Body> AsRef<http_types::Headers> for Response<Body>")
open(p,'w').write(t)
