# C16 mutation 7: the first Location header is used instead of the last
import sys
root=sys.argv[1]
p=root+'/crux_http/src/middleware/redirect.rs'; t=open(p).read()
assert t.count("location.last().as_str()")==2
t=t.replace("location.last().as_str()","location.iter().next().unwrap().as_str()")
open(p,'w').write(t)
