//! Shared helpers for the C20 (crux_cli codegen) harness.
pub mod renumber;
pub mod rng;
pub mod synth;

use rng::Rng;
use rustdoc_types::Crate;
use serde_json::Value;

pub const APPS: &[&str] = &["bridge_echo", "cat_facts", "counter", "hello_world", "notes", "simple_counter", "tap_to_pay"];
pub const CAPS: &[&str] = &["crux_core", "crux_http", "crux_kv", "crux_platform", "crux_time"];

pub fn repo_root() -> String {
    std::env::var("VERIF_REPO").unwrap_or_else(|_| "/repo".into())
}

pub fn fixture_path(name: &str) -> Option<String> {
    let fx = format!("{}/crux_cli/src/codegen/fixtures", repo_root());
    let p1 = format!("{fx}/{name}/rustdoc.json");
    let p2 = format!("{fx}/{name}.json");
    if std::path::Path::new(&p1).exists() {
        Some(p1)
    } else if std::path::Path::new(&p2).exists() {
        Some(p2)
    } else {
        None
    }
}

pub fn load_fixture(name: &str) -> anyhow::Result<Crate> {
    let p = fixture_path(name).ok_or_else(|| anyhow::anyhow!("no bundled rustdoc JSON for crate {name}"))?;
    Ok(serde_json::from_slice(&std::fs::read(p)?)?)
}

/// Write a JSON value with the keys of every object in a seeded random order.
pub fn write_shuffled(v: &Value, rng: &mut Rng, shuffle: bool, out: &mut String) {
    match v {
        Value::Array(xs) => {
            out.push('[');
            for (i, x) in xs.iter().enumerate() {
                if i > 0 {
                    out.push(',');
                }
                write_shuffled(x, rng, shuffle, out);
            }
            out.push(']');
        }
        Value::Object(m) => {
            let mut keys: Vec<&String> = m.keys().collect();
            if shuffle {
                rng.shuffle(&mut keys);
            }
            out.push('{');
            for (i, k) in keys.iter().enumerate() {
                if i > 0 {
                    out.push(',');
                }
                out.push_str(&serde_json::to_string(k).unwrap());
                out.push(':');
                write_shuffled(&m[*k], rng, shuffle, out);
            }
            out.push('}');
        }
        other => out.push_str(&other.to_string()),
    }
}

/// Rename external crate numbers (`crate_id` fields and the keys of `external_crates`); the local
/// crate keeps number 0.
pub fn renumber_crates(v: &mut Value, f: &dyn Fn(u32) -> u32, top: bool) {
    match v {
        Value::Array(xs) => xs.iter_mut().for_each(|x| renumber_crates(x, f, false)),
        Value::Object(m) => {
            if top {
                if let Some(Value::Object(ext)) = m.get_mut("external_crates") {
                    let old = std::mem::take(ext);
                    for (k, val) in old {
                        let n: u32 = k.parse().expect("crate number");
                        ext.insert(f(n).to_string(), val);
                    }
                }
            }
            for (k, x) in m.iter_mut() {
                if k == "crate_id" {
                    if let Some(n) = x.as_u64() {
                        *x = Value::from(f(n as u32));
                    }
                } else if !(top && k == "external_crates") {
                    renumber_crates(x, f, false);
                }
            }
        }
        _ => {}
    }
}

#[derive(Clone, Debug, serde::Serialize)]
pub struct Transform {
    /// 0 identity, 1 affine bijection of u32, 2 xor mask, 3 dense permutation of the ids that occur
    pub id_style: u8,
    pub id_a: u32,
    pub id_b: u32,
    pub crate_mul: u32,
    pub shuffle_maps: bool,
    pub seed: u64,
}

impl Transform {
    pub fn random(rng: &mut Rng) -> Self {
        Transform {
            id_style: rng.below(4) as u8,
            id_a: (rng.next() as u32) | 1,
            id_b: rng.next() as u32,
            crate_mul: if rng.coin(1, 3) { 1 } else { (rng.next() as u32) | 1 },
            shuffle_maps: rng.coin(3, 4),
            seed: rng.next(),
        }
    }
    pub fn identity() -> Self {
        Transform { id_style: 0, id_a: 1, id_b: 0, crate_mul: 1, shuffle_maps: false, seed: 0 }
    }

    /// The transformed description, and how many ids were renamed.
    pub fn apply(&self, c: &Crate) -> anyhow::Result<(Crate, u64)> {
        let mut rng = Rng::new(self.seed);
        let dense: Vec<u32> = if self.id_style == 3 {
            let mut ids: Vec<u32> = c.index.keys().chain(c.paths.keys()).map(|i| i.0).collect();
            ids.sort();
            ids.dedup();
            let mut img = ids.clone();
            rng.shuffle(&mut img);
            // permutation of the occurring ids, stored as sorted (from, to) pairs
            let mut m = vec![0u32; 0];
            for (a, b) in ids.iter().zip(img.iter()) {
                m.push(*a);
                m.push(*b);
            }
            m
        } else {
            vec![]
        };
        let (a, b, style) = (self.id_a, self.id_b, self.id_style);
        let rename = move |x: u32| -> u32 {
            match style {
                0 => x,
                1 => x.wrapping_mul(a).wrapping_add(b),
                2 => x ^ b,
                _ => {
                    // ids outside the table (none in a well-formed description) keep their value
                    // only if that value is not an image; otherwise fall back to an affine escape
                    let n = dense.len() / 2;
                    let (mut lo, mut hi) = (0usize, n);
                    while lo < hi {
                        let mid = (lo + hi) / 2;
                        if dense[2 * mid] < x { lo = mid + 1 } else { hi = mid }
                    }
                    if lo < n && dense[2 * lo] == x { dense[2 * lo + 1] } else { x.wrapping_add(0x4000_0000) }
                }
            }
        };
        let (mut v, hits) = renumber::renumber_to_value(c, &rename)?;
        let mul = self.crate_mul;
        if mul != 1 {
            renumber_crates(&mut v, &|n| n.wrapping_mul(mul), true);
        }
        let mut s = String::new();
        write_shuffled(&v, &mut rng, self.shuffle_maps, &mut s);
        Ok((serde_json::from_str(&s)?, hits))
    }
}
