//! A serde `Serializer` adapter that forwards everything to an inner serializer except the newtype
//! struct called `Id` (rustdoc_types::Id), whose `u32` payload is sent through a renaming function.
//! Transcoding a `rustdoc_types::Crate` through it renames every occurrence of an item id - map
//! keys, `Path::id`, `links`, `impls`, `Crate::root`, ... - consistently, without a hand-written
//! traversal of the rustdoc schema.
use serde::ser::{self, Serialize, Serializer};
use std::cell::Cell;

pub struct Ctx<'a> {
    pub rename: &'a dyn Fn(u32) -> u32,
    /// number of ids renamed (so the caller can tell the adapter saw them)
    pub hits: Cell<u64>,
}

pub struct Ren<'a, S> {
    pub inner: S,
    pub ctx: &'a Ctx<'a>,
}

struct W<'a, 'b, T: ?Sized> {
    v: &'b T,
    ctx: &'a Ctx<'a>,
}
impl<T: ?Sized + Serialize> Serialize for W<'_, '_, T> {
    fn serialize<S: Serializer>(&self, s: S) -> Result<S::Ok, S::Error> {
        self.v.serialize(Ren { inner: s, ctx: self.ctx })
    }
}

/// Serializer used for the payload of an `Id`: accepts exactly a `u32`.
struct IdPayload<'a, S> {
    inner: S,
    ctx: &'a Ctx<'a>,
}
macro_rules! reject {
    ($($m:ident($($t:ty),*);)*) => { $(fn $m(self, $(_: $t),*) -> Result<S::Ok, S::Error> { Err(ser::Error::custom("Id payload is not a u32")) })* };
}
impl<S: Serializer> Serializer for IdPayload<'_, S> {
    type Ok = S::Ok;
    type Error = S::Error;
    type SerializeSeq = ser::Impossible<S::Ok, S::Error>;
    type SerializeTuple = ser::Impossible<S::Ok, S::Error>;
    type SerializeTupleStruct = ser::Impossible<S::Ok, S::Error>;
    type SerializeTupleVariant = ser::Impossible<S::Ok, S::Error>;
    type SerializeMap = ser::Impossible<S::Ok, S::Error>;
    type SerializeStruct = ser::Impossible<S::Ok, S::Error>;
    type SerializeStructVariant = ser::Impossible<S::Ok, S::Error>;
    fn serialize_u32(self, v: u32) -> Result<S::Ok, S::Error> {
        self.ctx.hits.set(self.ctx.hits.get() + 1);
        // keep the newtype wrapper: serde_json writes a newtype struct as its payload
        self.inner.serialize_newtype_struct("Id", &(self.ctx.rename)(v))
    }
    reject! {
        serialize_bool(bool); serialize_i8(i8); serialize_i16(i16); serialize_i32(i32); serialize_i64(i64);
        serialize_u8(u8); serialize_u16(u16); serialize_u64(u64); serialize_f32(f32); serialize_f64(f64);
        serialize_char(char); serialize_str(&str); serialize_bytes(&[u8]); serialize_none(); serialize_unit();
        serialize_unit_struct(&'static str); serialize_unit_variant(&'static str, u32, &'static str);
    }
    fn serialize_some<T: ?Sized + Serialize>(self, _: &T) -> Result<S::Ok, S::Error> { Err(ser::Error::custom("Id payload")) }
    fn serialize_newtype_struct<T: ?Sized + Serialize>(self, _: &'static str, _: &T) -> Result<S::Ok, S::Error> { Err(ser::Error::custom("Id payload")) }
    fn serialize_newtype_variant<T: ?Sized + Serialize>(self, _: &'static str, _: u32, _: &'static str, _: &T) -> Result<S::Ok, S::Error> { Err(ser::Error::custom("Id payload")) }
    fn serialize_seq(self, _: Option<usize>) -> Result<Self::SerializeSeq, S::Error> { Err(ser::Error::custom("Id payload")) }
    fn serialize_tuple(self, _: usize) -> Result<Self::SerializeTuple, S::Error> { Err(ser::Error::custom("Id payload")) }
    fn serialize_tuple_struct(self, _: &'static str, _: usize) -> Result<Self::SerializeTupleStruct, S::Error> { Err(ser::Error::custom("Id payload")) }
    fn serialize_tuple_variant(self, _: &'static str, _: u32, _: &'static str, _: usize) -> Result<Self::SerializeTupleVariant, S::Error> { Err(ser::Error::custom("Id payload")) }
    fn serialize_map(self, _: Option<usize>) -> Result<Self::SerializeMap, S::Error> { Err(ser::Error::custom("Id payload")) }
    fn serialize_struct(self, _: &'static str, _: usize) -> Result<Self::SerializeStruct, S::Error> { Err(ser::Error::custom("Id payload")) }
    fn serialize_struct_variant(self, _: &'static str, _: u32, _: &'static str, _: usize) -> Result<Self::SerializeStructVariant, S::Error> { Err(ser::Error::custom("Id payload")) }
}

macro_rules! fwd {
    ($($m:ident($($a:ident: $t:ty),*);)*) => { $(fn $m(self, $($a: $t),*) -> Result<S::Ok, S::Error> { self.inner.$m($($a),*) })* };
}

impl<'a, S: Serializer> Serializer for Ren<'a, S> {
    type Ok = S::Ok;
    type Error = S::Error;
    type SerializeSeq = C<'a, S::SerializeSeq>;
    type SerializeTuple = C<'a, S::SerializeTuple>;
    type SerializeTupleStruct = C<'a, S::SerializeTupleStruct>;
    type SerializeTupleVariant = C<'a, S::SerializeTupleVariant>;
    type SerializeMap = C<'a, S::SerializeMap>;
    type SerializeStruct = C<'a, S::SerializeStruct>;
    type SerializeStructVariant = C<'a, S::SerializeStructVariant>;
    fwd! {
        serialize_bool(v: bool); serialize_i8(v: i8); serialize_i16(v: i16); serialize_i32(v: i32); serialize_i64(v: i64);
        serialize_u8(v: u8); serialize_u16(v: u16); serialize_u32(v: u32); serialize_u64(v: u64); serialize_f32(v: f32); serialize_f64(v: f64);
        serialize_char(v: char); serialize_str(v: &str); serialize_bytes(v: &[u8]); serialize_none(); serialize_unit();
        serialize_unit_struct(n: &'static str); serialize_unit_variant(n: &'static str, i: u32, v: &'static str);
    }
    fn serialize_some<T: ?Sized + Serialize>(self, v: &T) -> Result<S::Ok, S::Error> {
        self.inner.serialize_some(&W { v, ctx: self.ctx })
    }
    fn serialize_newtype_struct<T: ?Sized + Serialize>(self, name: &'static str, v: &T) -> Result<S::Ok, S::Error> {
        if name == "Id" {
            v.serialize(IdPayload { inner: self.inner, ctx: self.ctx })
        } else {
            self.inner.serialize_newtype_struct(name, &W { v, ctx: self.ctx })
        }
    }
    fn serialize_newtype_variant<T: ?Sized + Serialize>(self, n: &'static str, i: u32, var: &'static str, v: &T) -> Result<S::Ok, S::Error> {
        self.inner.serialize_newtype_variant(n, i, var, &W { v, ctx: self.ctx })
    }
    fn serialize_seq(self, len: Option<usize>) -> Result<Self::SerializeSeq, S::Error> {
        Ok(C { inner: self.inner.serialize_seq(len)?, ctx: self.ctx })
    }
    fn serialize_tuple(self, len: usize) -> Result<Self::SerializeTuple, S::Error> {
        Ok(C { inner: self.inner.serialize_tuple(len)?, ctx: self.ctx })
    }
    fn serialize_tuple_struct(self, n: &'static str, len: usize) -> Result<Self::SerializeTupleStruct, S::Error> {
        Ok(C { inner: self.inner.serialize_tuple_struct(n, len)?, ctx: self.ctx })
    }
    fn serialize_tuple_variant(self, n: &'static str, i: u32, v: &'static str, len: usize) -> Result<Self::SerializeTupleVariant, S::Error> {
        Ok(C { inner: self.inner.serialize_tuple_variant(n, i, v, len)?, ctx: self.ctx })
    }
    fn serialize_map(self, len: Option<usize>) -> Result<Self::SerializeMap, S::Error> {
        Ok(C { inner: self.inner.serialize_map(len)?, ctx: self.ctx })
    }
    fn serialize_struct(self, n: &'static str, len: usize) -> Result<Self::SerializeStruct, S::Error> {
        Ok(C { inner: self.inner.serialize_struct(n, len)?, ctx: self.ctx })
    }
    fn serialize_struct_variant(self, n: &'static str, i: u32, v: &'static str, len: usize) -> Result<Self::SerializeStructVariant, S::Error> {
        Ok(C { inner: self.inner.serialize_struct_variant(n, i, v, len)?, ctx: self.ctx })
    }
}

pub struct C<'a, I> {
    inner: I,
    ctx: &'a Ctx<'a>,
}
impl<I: ser::SerializeSeq> ser::SerializeSeq for C<'_, I> {
    type Ok = I::Ok;
    type Error = I::Error;
    fn serialize_element<T: ?Sized + Serialize>(&mut self, v: &T) -> Result<(), I::Error> { self.inner.serialize_element(&W { v, ctx: self.ctx }) }
    fn end(self) -> Result<I::Ok, I::Error> { self.inner.end() }
}
impl<I: ser::SerializeTuple> ser::SerializeTuple for C<'_, I> {
    type Ok = I::Ok;
    type Error = I::Error;
    fn serialize_element<T: ?Sized + Serialize>(&mut self, v: &T) -> Result<(), I::Error> { self.inner.serialize_element(&W { v, ctx: self.ctx }) }
    fn end(self) -> Result<I::Ok, I::Error> { self.inner.end() }
}
impl<I: ser::SerializeTupleStruct> ser::SerializeTupleStruct for C<'_, I> {
    type Ok = I::Ok;
    type Error = I::Error;
    fn serialize_field<T: ?Sized + Serialize>(&mut self, v: &T) -> Result<(), I::Error> { self.inner.serialize_field(&W { v, ctx: self.ctx }) }
    fn end(self) -> Result<I::Ok, I::Error> { self.inner.end() }
}
impl<I: ser::SerializeTupleVariant> ser::SerializeTupleVariant for C<'_, I> {
    type Ok = I::Ok;
    type Error = I::Error;
    fn serialize_field<T: ?Sized + Serialize>(&mut self, v: &T) -> Result<(), I::Error> { self.inner.serialize_field(&W { v, ctx: self.ctx }) }
    fn end(self) -> Result<I::Ok, I::Error> { self.inner.end() }
}
impl<I: ser::SerializeMap> ser::SerializeMap for C<'_, I> {
    type Ok = I::Ok;
    type Error = I::Error;
    fn serialize_key<T: ?Sized + Serialize>(&mut self, k: &T) -> Result<(), I::Error> { self.inner.serialize_key(&W { v: k, ctx: self.ctx }) }
    fn serialize_value<T: ?Sized + Serialize>(&mut self, v: &T) -> Result<(), I::Error> { self.inner.serialize_value(&W { v, ctx: self.ctx }) }
    fn end(self) -> Result<I::Ok, I::Error> { self.inner.end() }
}
impl<I: ser::SerializeStruct> ser::SerializeStruct for C<'_, I> {
    type Ok = I::Ok;
    type Error = I::Error;
    fn serialize_field<T: ?Sized + Serialize>(&mut self, k: &'static str, v: &T) -> Result<(), I::Error> { self.inner.serialize_field(k, &W { v, ctx: self.ctx }) }
    fn end(self) -> Result<I::Ok, I::Error> { self.inner.end() }
}
impl<I: ser::SerializeStructVariant> ser::SerializeStructVariant for C<'_, I> {
    type Ok = I::Ok;
    type Error = I::Error;
    fn serialize_field<T: ?Sized + Serialize>(&mut self, k: &'static str, v: &T) -> Result<(), I::Error> { self.inner.serialize_field(k, &W { v, ctx: self.ctx }) }
    fn end(self) -> Result<I::Ok, I::Error> { self.inner.end() }
}

/// Transcode `value` into a `serde_json::Value` with every `Id` renamed. Returns the value and the
/// number of ids that went through the adapter.
pub fn renumber_to_value<T: Serialize>(value: &T, rename: &dyn Fn(u32) -> u32) -> Result<(serde_json::Value, u64), serde_json::Error> {
    let ctx = Ctx { rename, hits: Cell::new(0) };
    let v = value.serialize(Ren { inner: serde_json::value::Serializer, ctx: &ctx })?;
    Ok((v, ctx.hits.get()))
}
