//! Synthetic crate descriptions: a small random "shared library" (an App with Event, ViewModel and
//! optionally an Effect whose operations live in the app crate or in a dependency crate), lowered to
//! `rustdoc_types::Crate` values the way rustdoc describes such code.  Mostly well-formed; the
//! generator deliberately also produces the shapes the properties' side conditions are about:
//! two types with one name, unit structs / empty enums / all-skipped structs used as field types,
//! serde(skip) on fields and variants, serde(rename), rename_all, serde_bytes, Range fields.
use crate::rng::Rng;
use rustdoc_types::*;
use serde::{Deserialize, Serialize};
use std::collections::HashMap;

#[derive(Clone, Debug, Serialize, Deserialize)]
pub enum Ty {
    Prim(String),
    Str,
    Opt(Box<Ty>),
    Vec(Box<Ty>),
    Tuple(Vec<Ty>),
    /// index into `Spec::types`
    Local(usize),
    Range(String),
}

#[derive(Clone, Debug, Serialize, Deserialize)]
pub struct Field {
    pub name: String,
    pub ty: Ty,
    pub skip: bool,
    pub rename: Option<String>,
    pub bytes: bool,
}

#[derive(Clone, Debug, Serialize, Deserialize)]
pub enum VBody {
    Plain,
    Tuple(Vec<Field>),
    Struct(Vec<Field>),
}

#[derive(Clone, Debug, Serialize, Deserialize)]
pub struct Variant {
    pub name: String,
    pub skip: bool,
    pub rename: Option<String>,
    pub body: VBody,
}

#[derive(Clone, Debug, Serialize, Deserialize)]
pub enum Body {
    Unit,
    Plain(Vec<Field>),
    Tuple(Vec<Field>),
    Enum(Vec<Variant>),
}

#[derive(Clone, Debug, Serialize, Deserialize)]
pub struct TypeDef {
    pub name: String,
    pub rename: Option<String>,
    pub rename_all: Option<String>,
    pub body: Body,
    /// true: lives in the dependency crate
    pub in_dep: bool,
}

#[derive(Clone, Debug, Serialize, Deserialize)]
pub struct Spec {
    pub types: Vec<TypeDef>,
    pub event: usize,
    pub view_model: usize,
    /// (operation type, output type); None = the app has no Effect
    pub effect: Option<Vec<(usize, usize)>>,
    pub has_dep: bool,
}

const PRIMS: &[&str] = &["bool", "u8", "u16", "u32", "u64", "i8", "i32", "i64", "usize", "char", "u128"];
const RULES: &[&str] = &["camelCase", "snake_case", "PascalCase", "lowercase", "UPPERCASE", "SCREAMING_SNAKE_CASE"];

fn gen_ty(rng: &mut Rng, n: usize, in_dep: bool, dep_of: &[bool], depth: u32) -> Ty {
    match rng.below(if depth > 2 { 4 } else { 10 }) {
        0 | 1 => Ty::Prim(rng.pick(PRIMS).to_string()),
        2 => Ty::Str,
        3 | 4 | 5 => {
            // a local type of the same crate (relations are crate-local)
            let cands: Vec<usize> = (0..n).filter(|i| dep_of[*i] == in_dep).collect();
            if cands.is_empty() { Ty::Str } else { Ty::Local(*rng.pick(&cands)) }
        }
        6 => Ty::Opt(Box::new(gen_ty(rng, n, in_dep, dep_of, depth + 1))),
        7 => Ty::Vec(Box::new(gen_ty(rng, n, in_dep, dep_of, depth + 1))),
        8 => Ty::Tuple((0..rng.range(2, 3)).map(|_| gen_ty(rng, n, in_dep, dep_of, depth + 1)).collect()),
        _ => {
            if rng.coin(1, 4) { Ty::Range(rng.pick(&["u32", "usize", "u64"]).to_string()) } else { Ty::Prim("u32".into()) }
        }
    }
}

fn gen_fields(rng: &mut Rng, n: usize, in_dep: bool, dep_of: &[bool], tuple: bool, allow_empty: bool) -> Vec<Field> {
    let k = if allow_empty && rng.coin(1, 25) { 0 } else { rng.range(1, 4) };
    let all_skipped = rng.coin(1, 40);
    (0..k)
        .map(|i| {
            let ty = gen_ty(rng, n, in_dep, dep_of, 0);
            let bytes = matches!(&ty, Ty::Vec(t) if matches!(**t, Ty::Prim(ref p) if p == "u8")) && rng.coin(1, 2);
            Field {
                name: if tuple { i.to_string() } else { format!("{}_{}", rng.pick(&["my_field", "value", "item_id", "x"]), i) },
                ty,
                skip: all_skipped || rng.coin(1, 9),
                rename: if !tuple && rng.coin(1, 8) { Some(format!("renamed{i}")) } else { None },
                bytes,
            }
        })
        .collect()
}

pub fn gen_spec(rng: &mut Rng) -> Spec {
    let n = rng.range(3, 9) as usize;
    let has_dep = rng.coin(1, 2);
    let mut dep_of: Vec<bool> = (0..n).map(|_| has_dep && rng.coin(1, 3)).collect();
    // roles: 0 = Event (enum), 1 = ViewModel (struct): always in the app crate
    dep_of[0] = false;
    dep_of[1] = false;
    let collide = rng.coin(1, 6);
    let mut types = vec![];
    for i in 0..n {
        let in_dep = dep_of[i];
        let kind = if i == 0 { 3 } else if i == 1 { 1 } else if rng.coin(1, 14) { 0 } else { 1 + rng.below(4) };
        let body = match kind {
            0 => Body::Unit,
            1 | 4 => Body::Plain(gen_fields(rng, n, in_dep, &dep_of, false, i != 1)),
            2 => Body::Tuple(gen_fields(rng, n, in_dep, &dep_of, true, true)),
            _ => {
                let k = if i != 0 && rng.coin(1, 25) { 0 } else { rng.range(1, 5) };
                Body::Enum(
                    (0..k)
                        .map(|j| Variant {
                            name: format!("{}{}", rng.pick(&["Alpha", "GotData", "SetValue", "Z"]), j),
                            skip: rng.coin(1, 7),
                            rename: if rng.coin(1, 9) { Some(format!("Renamed{j}")) } else { None },
                            body: match rng.below(3) {
                                0 => VBody::Plain,
                                1 => VBody::Tuple(gen_fields(rng, n, in_dep, &dep_of, true, true)),
                                _ => VBody::Struct(gen_fields(rng, n, in_dep, &dep_of, false, true)),
                            },
                        })
                        .collect(),
                )
            }
        };
        let name = if i == 0 {
            "Event".to_string()
        } else if i == 1 {
            "ViewModel".to_string()
        } else if collide && i == n - 1 && n > 3 {
            // same name as another type (another module of the crate, or the other crate)
            format!("T{}", 2 + rng.below(n as u64 - 3))
        } else {
            format!("T{i}")
        };
        types.push(TypeDef {
            name,
            rename: if i > 1 && rng.coin(1, 10) { Some(format!("R{i}")) } else { None },
            rename_all: if rng.coin(1, 5) { Some(rng.pick(RULES).to_string()) } else { None },
            body,
            in_dep,
        });
    }
    let effect = if rng.coin(6, 7) {
        let k = rng.range(1, 3);
        Some(
            (0..k)
                .map(|_| {
                    // operation and output in the same crate (the impl is there)
                    let op = 2 + rng.below(n as u64 - 2) as usize;
                    let outs: Vec<usize> = (0..n).filter(|i| dep_of[*i] == dep_of[op]).collect();
                    (op, *rng.pick(&outs))
                })
                .collect(),
        )
    } else {
        None
    };
    Spec { types, event: 0, view_model: 1, effect, has_dep }
}

// ---------------------------------------------------------------- lowering to rustdoc_types
struct Lower<'a> {
    spec: &'a Spec,
    dep: bool,
    next: u32,
    index: HashMap<Id, Item>,
    paths: HashMap<Id, ItemSummary>,
    type_ids: HashMap<usize, u32>,
    /// ids standing for items of other crates (String, Option, .., and the dependency's types)
    foreign: HashMap<String, u32>,
}

fn no_generics() -> Generics {
    Generics { params: vec![], where_predicates: vec![] }
}
fn no_args() -> Option<Box<GenericArgs>> {
    Some(Box::new(GenericArgs::AngleBracketed { args: vec![], constraints: vec![] }))
}
fn args_of(ts: Vec<Type>) -> Option<Box<GenericArgs>> {
    Some(Box::new(GenericArgs::AngleBracketed { args: ts.into_iter().map(GenericArg::Type).collect(), constraints: vec![] }))
}

impl Lower<'_> {
    fn fresh(&mut self) -> u32 {
        self.next += 1;
        self.next
    }
    fn item(&mut self, id: u32, name: Option<String>, attrs: Vec<String>, inner: ItemEnum) {
        self.index.insert(
            Id(id),
            Item { id: Id(id), crate_id: 0, name, span: None, visibility: Visibility::Public, docs: None, links: HashMap::new(), attrs, deprecation: None, inner },
        );
    }
    fn foreign_id(&mut self, name: &str) -> u32 {
        if let Some(i) = self.foreign.get(name) {
            return *i;
        }
        let i = self.fresh() + 100_000;
        self.foreign.insert(name.to_string(), i);
        i
    }
    fn ty(&mut self, t: &Ty) -> Type {
        match t {
            Ty::Prim(p) => Type::Primitive(p.clone()),
            Ty::Str => Type::ResolvedPath(Path { path: "String".into(), id: Id(self.foreign_id("String")), args: no_args() }),
            Ty::Opt(x) => {
                let a = self.ty(x);
                Type::ResolvedPath(Path { path: "Option".into(), id: Id(self.foreign_id("Option")), args: args_of(vec![a]) })
            }
            Ty::Vec(x) => {
                let a = self.ty(x);
                Type::ResolvedPath(Path { path: "Vec".into(), id: Id(self.foreign_id("Vec")), args: args_of(vec![a]) })
            }
            Ty::Tuple(xs) => Type::Tuple(xs.iter().map(|x| self.ty(x)).collect()),
            Ty::Range(p) => Type::ResolvedPath(Path {
                path: "std::ops::Range".into(),
                id: Id(self.foreign_id("Range")),
                args: args_of(vec![Type::Primitive(p.clone())]),
            }),
            Ty::Local(i) => self.type_ref(*i),
        }
    }
    /// a reference to type `i`: its own id if it lives in this crate, else a foreign id listed in
    /// `paths` under the dependency's crate number
    fn type_ref(&mut self, i: usize) -> Type {
        let def = &self.spec.types[i];
        let name = def.name.clone();
        let id = if def.in_dep == self.dep {
            self.type_ids[&i]
        } else {
            let id = self.foreign_id(&format!("dep::{i}"));
            self.paths.insert(Id(id), ItemSummary { crate_id: 1, path: vec!["dep".into(), name.clone()], kind: ItemKind::Struct });
            id
        };
        Type::ResolvedPath(Path { path: name, id: Id(id), args: no_args() })
    }
    fn fields(&mut self, fs: &[Field]) -> Vec<u32> {
        fs.iter()
            .map(|f| {
                let id = self.fresh();
                let mut attrs = vec![];
                if f.skip {
                    attrs.push("#[serde(skip)]".to_string());
                }
                if let Some(r) = &f.rename {
                    attrs.push(format!("#[serde(rename = \"{r}\")]"));
                }
                if f.bytes {
                    attrs.push("#[serde(with = \"serde_bytes\")]".to_string());
                }
                let t = self.ty(&f.ty);
                self.item(id, Some(f.name.clone()), attrs, ItemEnum::StructField(t));
                id
            })
            .collect()
    }
    fn type_def(&mut self, i: usize) {
        let def = self.spec.types[i].clone();
        let id = self.type_ids[&i];
        let mut attrs = vec!["#[derive(Serialize, Deserialize)]".to_string()];
        if let Some(r) = &def.rename {
            attrs.push(format!("#[serde(rename = \"{r}\")]"));
        }
        if let Some(r) = &def.rename_all {
            attrs.push(format!("#[serde(rename_all = \"{r}\")]"));
        }
        let inner = match &def.body {
            Body::Unit => ItemEnum::Struct(Struct { kind: StructKind::Unit, generics: no_generics(), impls: vec![] }),
            Body::Plain(fs) => {
                let ids = self.fields(fs);
                ItemEnum::Struct(Struct {
                    kind: StructKind::Plain { fields: ids.into_iter().map(Id).collect(), has_stripped_fields: false },
                    generics: no_generics(),
                    impls: vec![],
                })
            }
            Body::Tuple(fs) => {
                let ids = self.fields(fs);
                ItemEnum::Struct(Struct { kind: StructKind::Tuple(ids.into_iter().map(|i| Some(Id(i))).collect()), generics: no_generics(), impls: vec![] })
            }
            Body::Enum(vs) => {
                let mut vids = vec![];
                for v in vs {
                    let vid = self.fresh();
                    let mut vattrs = vec![];
                    if v.skip {
                        vattrs.push("#[serde(skip)]".to_string());
                    }
                    if let Some(r) = &v.rename {
                        vattrs.push(format!("#[serde(rename = \"{r}\")]"));
                    }
                    let kind = match &v.body {
                        VBody::Plain => VariantKind::Plain,
                        VBody::Tuple(fs) => VariantKind::Tuple(self.fields(fs).into_iter().map(|i| Some(Id(i))).collect()),
                        VBody::Struct(fs) => VariantKind::Struct { fields: self.fields(fs).into_iter().map(Id).collect(), has_stripped_fields: false },
                    };
                    // an explicit discriminant (`Low = 5`) now and then: serde's variant index is the position among the
                    // serialized variants whatever the discriminant says
                    let discriminant = if matches!(kind, VariantKind::Plain) && vid % 3 == 0 {
                        let d = (vid % 7 + 2).to_string();
                        Some(rustdoc_types::Discriminant { expr: d.clone(), value: d })
                    } else { None };
                    self.item(vid, Some(v.name.clone()), vattrs, ItemEnum::Variant(rustdoc_types::Variant { kind, discriminant }));
                    vids.push(Id(vid));
                }
                ItemEnum::Enum(Enum { generics: no_generics(), has_stripped_variants: false, variants: vids, impls: vec![] })
            }
        };
        self.item(id, Some(def.name.clone()), attrs, inner);
        let krate = if self.dep { "dep" } else { "app" };
        self.paths.insert(Id(id), ItemSummary { crate_id: 0, path: vec![krate.into(), format!("m{i}"), def.name.clone()], kind: ItemKind::Struct });
    }
    fn trait_impl(&mut self, trait_: &str, for_name: &str, for_id: u32, assoc: Vec<(&str, Type)>) {
        let mut ids = vec![];
        for (name, t) in assoc {
            let id = self.fresh();
            self.item(id, Some(name.to_string()), vec![], ItemEnum::AssocType { generics: no_generics(), bounds: vec![], type_: Some(t) });
            ids.push(Id(id));
        }
        let id = self.fresh();
        let tid = self.foreign_id(&format!("trait::{trait_}"));
        self.item(
            id,
            None,
            vec![],
            ItemEnum::Impl(Impl {
                is_unsafe: false,
                generics: no_generics(),
                provided_trait_methods: vec![],
                trait_: Some(Path { path: trait_.to_string(), id: Id(tid), args: no_args() }),
                for_: Type::ResolvedPath(Path { path: for_name.to_string(), id: Id(for_id), args: no_args() }),
                items: ids,
                is_negative: false,
                is_synthetic: false,
                blanket_impl: None,
            }),
        );
    }
    fn finish(self) -> Crate {
        let mut external_crates = HashMap::new();
        if !self.dep && self.spec.has_dep {
            external_crates.insert(1, ExternalCrate { name: "dep".into(), html_root_url: None });
        }
        Crate { root: Id(0), crate_version: None, includes_private: true, index: self.index, paths: self.paths, external_crates, format_version: FORMAT_VERSION }
    }
}

/// The app crate ("app") and, if the spec has one, the dependency crate ("dep").
pub fn lower(spec: &Spec) -> Vec<(String, Crate)> {
    let mut out = vec![];
    for dep in [false, true] {
        if dep && !spec.has_dep {
            continue;
        }
        let mut l = Lower { spec, dep, next: 0, index: HashMap::new(), paths: HashMap::new(), type_ids: HashMap::new(), foreign: HashMap::new() };
        let mine: Vec<usize> = (0..spec.types.len()).filter(|i| spec.types[*i].in_dep == dep).collect();
        for i in &mine {
            let id = l.fresh();
            l.type_ids.insert(*i, id);
        }
        for i in &mine {
            l.type_def(*i);
        }
        if !dep {
            let app = l.fresh();
            l.item(app, Some("App".into()), vec![], ItemEnum::Struct(Struct { kind: StructKind::Unit, generics: no_generics(), impls: vec![] }));
            l.paths.insert(Id(app), ItemSummary { crate_id: 0, path: vec!["app".into(), "App".into()], kind: ItemKind::Struct });
            let ev = l.type_ref(spec.event);
            let vm = l.type_ref(spec.view_model);
            l.trait_impl("App", "App", app, vec![("Event", ev), ("ViewModel", vm)]);
            if let Some(ops) = &spec.effect {
                let eff = l.fresh();
                l.item(eff, Some("Effect".into()), vec![], ItemEnum::Enum(Enum { generics: no_generics(), has_stripped_variants: false, variants: vec![], impls: vec![] }));
                l.paths.insert(Id(eff), ItemSummary { crate_id: 0, path: vec!["app".into(), "Effect".into()], kind: ItemKind::Enum });
                let ffi = l.fresh();
                let mut vids = vec![];
                for (k, (op, _)) in ops.iter().enumerate() {
                    let t = l.type_ref(*op);
                    let fid = l.fresh();
                    l.item(fid, Some("0".into()), vec![], ItemEnum::StructField(t));
                    let vid = l.fresh();
                    l.item(vid, Some(format!("Op{k}")), vec![], ItemEnum::Variant(rustdoc_types::Variant { kind: VariantKind::Tuple(vec![Some(Id(fid))]), discriminant: None }));
                    vids.push(Id(vid));
                }
                l.item(
                    ffi,
                    Some("EffectFfi".into()),
                    vec!["#[serde(rename = \"Effect\")]".into()],
                    ItemEnum::Enum(Enum { generics: no_generics(), has_stripped_variants: false, variants: vids, impls: vec![] }),
                );
                let ffi_t = Type::ResolvedPath(Path { path: "EffectFfi".into(), id: Id(ffi), args: no_args() });
                l.trait_impl("Effect", "Effect", eff, vec![("Ffi", ffi_t)]);
            }
        }
        if let Some(ops) = &spec.effect {
            for (op, out_) in ops {
                if spec.types[*op].in_dep == dep {
                    let o = l.type_ref(*out_);
                    let name = spec.types[*op].name.clone();
                    let id = l.type_ids[op];
                    l.trait_impl("Operation", &name, id, vec![("Output", o)]);
                }
            }
        }
        out.push((if dep { "dep".to_string() } else { "app".to_string() }, l.finish()));
    }
    out
}

// ---------------------------------------------------------------- what serde would say (independent of crux_cli)
/// serde's `rename_all` rules, written from serde's documentation (serde_derive/src/internals/case.rs
/// semantics): variants are PascalCase in the source, fields snake_case.
fn rename_variant(rule: &str, v: &str) -> String {
    let snake = |v: &str| {
        let mut s = String::new();
        for (i, ch) in v.char_indices() {
            if i > 0 && ch.is_uppercase() {
                s.push('_');
            }
            s.push(ch.to_ascii_lowercase());
        }
        s
    };
    match rule {
        "lowercase" => v.to_ascii_lowercase(),
        "UPPERCASE" => v.to_ascii_uppercase(),
        "camelCase" => v[..1].to_ascii_lowercase() + &v[1..],
        "snake_case" => snake(v),
        "SCREAMING_SNAKE_CASE" => snake(v).to_ascii_uppercase(),
        _ => v.to_string(), // PascalCase
    }
}
fn rename_field(rule: &str, f: &str) -> String {
    let pascal = |f: &str| {
        let mut s = String::new();
        let mut cap = true;
        for ch in f.chars() {
            if ch == '_' {
                cap = true;
            } else if cap {
                s.push(ch.to_ascii_uppercase());
                cap = false;
            } else {
                s.push(ch);
            }
        }
        s
    };
    match rule {
        "UPPERCASE" | "SCREAMING_SNAKE_CASE" => f.to_ascii_uppercase(),
        "PascalCase" => pascal(f),
        "camelCase" => {
            let p = pascal(f);
            p[..1].to_ascii_lowercase() + &p[1..]
        }
        _ => f.to_string(), // lowercase, snake_case
    }
}

fn serde_fmt(spec: &Spec, t: &Ty, bytes: bool) -> serde_json::Value {
    use serde_json::json;
    match t {
        Ty::Prim(p) => json!(match p.as_str() {
            "bool" => "BOOL", "u8" => "U8", "u16" => "U16", "u32" => "U32", "u64" => "U64", "u128" => "U128",
            "i8" => "I8", "i16" => "I16", "i32" => "I32", "i64" => "I64", "usize" => "U64", "isize" => "I64", "char" => "CHAR",
            other => panic!("prim {other}"),
        }),
        Ty::Str => json!("STR"),
        Ty::Opt(x) => json!({"OPTION": serde_fmt(spec, x, false)}),
        Ty::Vec(_) if bytes => json!("BYTES"),
        Ty::Vec(x) => json!({"SEQ": serde_fmt(spec, x, false)}),
        // (serde-reflection would further compress a homogeneous tuple into TUPLEARRAY; not compared)
        Ty::Tuple(xs) => json!({"TUPLE": xs.iter().map(|x| serde_fmt(spec, x, false)).collect::<Vec<_>>()}),
        // references are written with the Rust name, as the CLI does (serde uses the renamed name:
        // known class renamed_type_reference, detected separately as a dangling reference)
        Ty::Local(i) => json!({"TYPENAME": spec.types[*i].name}),
        Ty::Range(_) => json!({"TYPENAME": "Range"}),
    }
}

fn has_homogeneous_tuple(t: &Ty) -> bool {
    match t {
        Ty::Tuple(xs) => xs.len() > 1 && xs.iter().all(|x| format!("{x:?}") == format!("{:?}", xs[0])) || xs.iter().any(has_homogeneous_tuple),
        Ty::Opt(x) | Ty::Vec(x) => has_homogeneous_tuple(x),
        _ => false,
    }
}

/// For every type of the spec whose serde shape is unambiguous, the container serde's derive
/// describes (Deserialize view: skipped variants do not count), keyed by its serde name. Types with
/// a skipped member in a tuple position, no member at all, or a homogeneous tuple are left out
/// (serde and the CLI's conventions legitimately differ or serde-reflection normalises there).
pub fn serde_expected(spec: &Spec) -> serde_json::Map<String, serde_json::Value> {
    use serde_json::{json, Value};
    let mut out = serde_json::Map::new();
    let mut seen: HashMap<String, u32> = HashMap::new();
    let named = |fs: &[Field], rule: Option<&String>| -> Option<Vec<Value>> {
        let live: Vec<&Field> = fs.iter().filter(|f| !f.skip).collect();
        if live.is_empty() || live.iter().any(|f| has_homogeneous_tuple(&f.ty)) {
            return None;
        }
        Some(
            live.iter()
                .map(|f| {
                    let n = f.rename.clone().unwrap_or_else(|| rule.map(|r| rename_field(r, &f.name)).unwrap_or_else(|| f.name.clone()));
                    json!({ n: serde_fmt(spec, &f.ty, f.bytes) })
                })
                .collect(),
        )
    };
    let tuple = |fs: &[Field]| -> Option<Vec<Value>> {
        if fs.is_empty() || fs.iter().any(|f| f.skip || has_homogeneous_tuple(&f.ty)) {
            return None;
        }
        Some(fs.iter().map(|f| serde_fmt(spec, &f.ty, f.bytes)).collect())
    };
    for t in &spec.types {
        let key = t.rename.clone().unwrap_or_else(|| t.name.clone());
        *seen.entry(key.clone()).or_insert(0) += 1;
        let c: Option<Value> = match &t.body {
            Body::Unit => Some(json!("UNITSTRUCT")),
            Body::Plain(fs) => named(fs, t.rename_all.as_ref()).map(|v| json!({"STRUCT": v})),
            Body::Tuple(fs) => tuple(fs).map(|v| if v.len() == 1 { json!({"NEWTYPESTRUCT": v[0]}) } else { json!({"TUPLESTRUCT": v}) }),
            Body::Enum(vs) => {
                let live: Vec<&Variant> = vs.iter().filter(|v| !v.skip).collect();
                let mut m = serde_json::Map::new();
                let mut ok = !live.is_empty();
                for (i, v) in live.iter().enumerate() {
                    let n = v.rename.clone().unwrap_or_else(|| t.rename_all.as_ref().map(|r| rename_variant(r, &v.name)).unwrap_or_else(|| v.name.clone()));
                    let body = match &v.body {
                        VBody::Plain => Some(json!("UNIT")),
                        VBody::Tuple(fs) => tuple(fs).map(|x| if x.len() == 1 { json!({"NEWTYPE": x[0]}) } else { json!({"TUPLE": x}) }),
                        VBody::Struct(fs) => named(fs, None).map(|x| json!({"STRUCT": x})),
                    };
                    match body {
                        Some(b) => {
                            m.insert(i.to_string(), json!({ n: b }));
                        }
                        None => ok = false,
                    }
                }
                if ok { Some(json!({"ENUM": m})) } else { None }
            }
        };
        if let Some(c) = c {
            out.insert(key, c);
        }
    }
    for (k, n) in seen {
        if n > 1 {
            out.remove(&k);
        }
    }
    out
}
