//! C20 driver: runs the real `crux_cli::codegen` (`run`, `Filter`, `Formatter`) through the
//! `verif_run` hook and prints one JSON object per line.
//!
//!   cli_codegen dump                      item/edge facts + registry of every bundled description
//!   cli_codegen trace                     registries traced from the real serde impls (TypeGen)
//!   cli_codegen transform <seed> <count>  real `run` on consistently renumbered / reshuffled descriptions
//!   cli_codegen edges <seed> <count>      real `format` on permuted sub-multisets of the captured edges
//!   cli_codegen synth <seed> <count> <k>   random synthetic descriptions, each run untransformed and k times transformed
//!   cli_codegen synth-one <case_seed> <k>   one synthetic case again (replay)
//!   cli_codegen transform-one <fixture> <case_seed> <identity>   one transform case again (replay)
use std::{cell::RefCell, collections::HashMap};

use crux_cli::codegen::verif::{verif_run, Capture, ContainerFormat, Registry};
use rustdoc_types::Crate;
use serde_json::{json, Value};
use vhc::{rng::Rng, Transform, APPS, CAPS};

fn containers_json(cs: &[(String, ContainerFormat)]) -> Value {
    Value::Array(cs.iter().map(|(n, c)| json!([n, c])).collect())
}

fn result_json(res: &Result<anyhow::Result<Registry>, String>) -> Value {
    match res {
        Ok(Ok(r)) => json!({"ok": r}),
        Ok(Err(e)) => json!({"err": format!("{e:#}")}),
        Err(p) => json!({"panic": p}),
    }
}

struct Fixtures {
    cache: RefCell<HashMap<String, Crate>>,
}
impl Fixtures {
    fn get(&self, name: &str) -> anyhow::Result<Crate> {
        if let Some(c) = self.cache.borrow().get(name) {
            return Ok(c.clone());
        }
        let c = vhc::load_fixture(name)?;
        self.cache.borrow_mut().insert(name.to_string(), c.clone());
        Ok(c)
    }
}

fn plain_run(fx: &Fixtures, root: &str) -> (Result<anyhow::Result<Registry>, String>, Option<Capture>, Vec<String>) {
    let order = RefCell::new(vec![]);
    let (res, cap) = verif_run(root, |n| {
        order.borrow_mut().push(n.to_string());
        fx.get(n)
    });
    (res, cap, order.into_inner())
}

fn dump(fx: &Fixtures) {
    for root in APPS.iter().chain(CAPS.iter()) {
        let (res, cap, order) = plain_run(fx, root);
        let expected: Option<Value> = std::fs::read(format!("{}/crux_cli/src/codegen/fixtures/{root}/expected.json", vhc::repo_root()))
            .ok()
            .and_then(|b| serde_json::from_slice(&b).ok());
        let mut o = json!({"kind": "dump", "fixture": root, "result": result_json(&res), "load_order": order, "expected": expected});
        if let Some(c) = cap {
            o["items"] = serde_json::to_value(&c.items).unwrap();
            o["edges"] = serde_json::to_value(&c.edges).unwrap();
            o["root"] = json!(c.root);
            o["field"] = json!(c.field);
            o["variant"] = json!(c.variant);
            o["local_type_of"] = json!(c.local_type_of);
            o["containers"] = containers_json(&c.containers);
        }
        println!("{o}");
    }
}

fn transform_case(fx: &Fixtures, case: u64, root: &str, case_seed: u64, identity: bool) {
    let order = RefCell::new(vec![]);
    let ops = RefCell::new(serde_json::Map::new());
    let hits = RefCell::new(0u64);
    let (res, cap) = verif_run(root, |n| {
        order.borrow_mut().push(n.to_string());
        let base = fx.get(n)?;
        if identity {
            return Ok(base);
        }
        // an independent transformation per crate, fixed by (case seed, crate name)
        let mut h = case_seed;
        for b in n.bytes() {
            h = h.wrapping_mul(0x100000001b3) ^ b as u64;
        }
        let t = Transform::random(&mut Rng::new(h));
        let (c, k) = t.apply(&base)?;
        *hits.borrow_mut() += k;
        ops.borrow_mut().insert(n.to_string(), serde_json::to_value(&t).unwrap());
        Ok(c)
    });
    // two different containers under one name in the relation the map is collected from
    let ambiguous: Vec<String> = cap
        .as_ref()
        .map(|c| {
            let mut seen: HashMap<&String, &ContainerFormat> = HashMap::new();
            let mut bad = vec![];
            for (n, f) in &c.containers {
                if let Some(g) = seen.insert(n, f) {
                    if g != f && !bad.contains(n) {
                        bad.push(n.clone());
                    }
                }
            }
            bad
        })
        .unwrap_or_default();
    println!(
        "{}",
        json!({"kind": "transform", "case": case, "fixture": root, "case_seed": case_seed.to_string(), "identity": identity,
               "ops": Value::Object(ops.into_inner()), "ids_renamed": hits.into_inner(), "load_order": order.into_inner(),
               "ambiguous_names": ambiguous, "result": result_json(&res)})
    );
}

fn transform(fx: &Fixtures, seed: u64, count: u64) {
    let mut rng = Rng::new(seed);
    let roots: Vec<&str> = APPS.iter().chain(CAPS.iter()).copied().collect();
    for case in 0..count {
        // every fixture in turn; the first round is the identity transformation (the baseline)
        let root = roots[(case % roots.len() as u64) as usize];
        let case_seed = rng.next();
        transform_case(fx, case, root, case_seed, case < roots.len() as u64);
    }
}

fn edges(fx: &Fixtures, seed: u64, count: u64) {
    let mut rng = Rng::new(seed);
    let roots: Vec<&str> = APPS.iter().chain(CAPS.iter()).copied().collect();
    let caps: Vec<(String, Capture)> = roots
        .iter()
        .filter_map(|r| {
            let (_, cap, _) = plain_run(fx, r);
            cap.map(|c| (r.to_string(), c))
        })
        .collect();
    for case in 0..count {
        let (root, cap) = &caps[(case % caps.len() as u64) as usize];
        let n = cap.edges.len();
        let style = rng.below(6);
        let mut picks: Vec<usize> = (0..n).collect();
        match style {
            0 => rng.shuffle(&mut picks), // a permutation of all edges
            1 => {
                // a random subset, in random order
                let keep = rng.range(1, 9);
                picks.retain(|_| rng.below(10) < keep);
                rng.shuffle(&mut picks);
            }
            2 => {
                // one edge dropped (a variant or a field goes missing: indices must close up)
                if n > 0 {
                    picks.remove(rng.below(n as u64) as usize);
                }
                rng.shuffle(&mut picks);
            }
            3 => {
                // duplicates
                for _ in 0..rng.range(1, 5) {
                    if n > 0 {
                        picks.push(rng.below(n as u64) as usize);
                    }
                }
                rng.shuffle(&mut picks);
            }
            4 => {
                // only the edges leaving a few chosen sources
                let k = rng.range(1, 3);
                let srcs: Vec<usize> = (0..k).filter(|_| n > 0).map(|_| cap.edges[rng.below(n as u64) as usize].from).collect();
                picks.retain(|i| srcs.contains(&cap.edges[*i].from) || srcs.contains(&cap.edges[*i].to));
                rng.shuffle(&mut picks);
            }
            _ => picks.reverse(),
        }
        let res = cap.format_edges(&picks);
        let out = match &res {
            Ok((r, cs)) => json!({"ok": r, "containers": containers_json(cs)}),
            Err(p) => json!({"panic": p}),
        };
        let pick_edges: Vec<Value> = picks
            .iter()
            .map(|i| {
                let e = &cap.edges[*i];
                let (a, b) = (&cap.items[e.from], &cap.items[e.to]);
                json!([a.crate_, a.id, b.crate_, b.id])
            })
            .collect();
        println!("{}", json!({"kind": "edges", "case": case, "fixture": root, "style": style, "n_edges": n, "pick_edges": pick_edges, "result": out}));
    }
}

fn ambiguous_in(cap: &Option<Capture>) -> Vec<String> {
    let mut bad = vec![];
    if let Some(c) = cap {
        let mut seen: HashMap<&String, &ContainerFormat> = HashMap::new();
        for (n, f) in &c.containers {
            if let Some(g) = seen.insert(n, f) {
                if g != f && !bad.contains(n) {
                    bad.push(n.clone());
                }
            }
        }
    }
    bad
}

/// One synthetic description: the untransformed run with its dump, then `k` transformed runs.
fn synth_case(case: u64, case_seed: u64, k: u64) {
    let mut rng = Rng::new(case_seed);
    let spec = vhc::synth::gen_spec(&mut rng);
    synth_spec(case, case_seed, k, spec, rng);
}

/// A given spec (generated, or shrunk by the check): untransformed run + dump, then k transformed runs.
fn synth_spec(case: u64, case_seed: u64, k: u64, spec: vhc::synth::Spec, mut rng: Rng) {
    let crates: HashMap<String, Crate> = vhc::synth::lower(&spec).into_iter().collect();
    let order = RefCell::new(vec![]);
    let (res, cap) = verif_run("app", |n| {
        order.borrow_mut().push(n.to_string());
        crates.get(n).cloned().ok_or_else(|| anyhow::anyhow!("unknown crate {n}"))
    });
    let mut o = json!({"kind": "synth", "case": case, "case_seed": case_seed.to_string(), "runs_requested": k, "spec": spec,
                       "fixture": format!("synth_{case_seed}"), "result": result_json(&res), "load_order": order.into_inner(),
                       "ambiguous_names": ambiguous_in(&cap), "serde_expected": Value::Object(vhc::synth::serde_expected(&spec))});
    if let Some(c) = &cap {
        o["items"] = serde_json::to_value(&c.items).unwrap();
        o["edges"] = serde_json::to_value(&c.edges).unwrap();
        o["root"] = json!(c.root);
        o["field"] = json!(c.field);
        o["variant"] = json!(c.variant);
        o["local_type_of"] = json!(c.local_type_of);
        o["containers"] = containers_json(&c.containers);
    }
    let mut runs = vec![];
    // where two containers share a name the result may depend on hash order: look harder
    let k = if o["ambiguous_names"].as_array().map(|a| !a.is_empty()).unwrap_or(false) { k + 9 } else { k };
    for _ in 0..k {
        let run_seed = rng.next();
        let order = RefCell::new(vec![]);
        let (res, cap) = verif_run("app", |n| {
            order.borrow_mut().push(n.to_string());
            let base = crates.get(n).ok_or_else(|| anyhow::anyhow!("unknown crate {n}"))?;
            let mut h = run_seed;
            for b in n.bytes() {
                h = h.wrapping_mul(0x100000001b3) ^ b as u64;
            }
            Ok(Transform::random(&mut Rng::new(h)).apply(base)?.0)
        });
        runs.push(json!({"run_seed": run_seed.to_string(), "result": result_json(&res), "load_order": order.into_inner(), "ambiguous_names": ambiguous_in(&cap)}));
    }
    o["runs"] = Value::Array(runs);
    println!("{o}");
}

fn synth(seed: u64, count: u64, k: u64) {
    let mut rng = Rng::new(seed ^ 0x5157_u64);
    for case in 0..count {
        let case_seed = rng.next();
        synth_case(case, case_seed, k);
    }
}

fn trace() {
    use crux_core::capability::Operation;
    use crux_core::typegen::{State, TypeGen};
    fn reg(name: &str, f: impl FnOnce(&mut TypeGen) -> crux_core::typegen::Result) {
        let mut g = TypeGen::new();
        let r = f(&mut g);
        let out = match (r, g.state) {
            (Ok(()), State::Registering(tracer, _)) => match tracer.registry() {
                Ok(reg) => json!({"ok": reg}),
                Err(e) => json!({"err": format!("{e}")}),
            },
            (Err(e), _) => json!({"err": format!("{e}")}),
            _ => json!({"err": "unexpected TypeGen state"}),
        };
        println!("{}", json!({"kind": "trace", "crate": name, "result": out}));
    }
    reg("crux_http", |g| crux_http::protocol::HttpRequest::register_types(g));
    reg("crux_kv", |g| crux_kv::KeyValueOperation::register_types(g));
    reg("crux_time", |g| crux_time::TimeRequest::register_types(g));
    reg("crux_platform", |g| crux_platform::PlatformRequest::register_types(g));
    reg("crux_core", |g| crux_core::render::RenderOperation::register_types(g));
}

fn main() {
    std::panic::set_hook(Box::new(|_| {}));
    let args: Vec<String> = std::env::args().collect();
    let fx = Fixtures { cache: RefCell::new(HashMap::new()) };
    let num = |i: usize, d: u64| args.get(i).and_then(|s| s.parse().ok()).unwrap_or(d);
    match args.get(1).map(String::as_str) {
        Some("dump") => dump(&fx),
        Some("trace") => trace(),
        Some("transform") => transform(&fx, num(2, 1), num(3, 24)),
        // replay of one transform case: <fixture> <case_seed> <identity 0|1>
        Some("synth") => synth(num(2, 1), num(3, 10), num(4, 3)),
        Some("synth-one") => synth_case(0, num(2, 0), num(3, 3)),
        // a spec from a JSON file (shrinking / replay of a shrunk case): <file> <k> <seed for the transformations>
        Some("synth-spec") => {
            let spec: vhc::synth::Spec = serde_json::from_slice(&std::fs::read(&args[2]).expect("spec file")).expect("spec JSON");
            synth_spec(0, num(4, 1), num(3, 3), spec, Rng::new(num(4, 1)));
        }
        Some("transform-one") => transform_case(&fx, 0, &args[2], num(3, 0), num(4, 0) == 1),
        Some("edges") => edges(&fx, num(2, 1), num(3, 24)),
        _ => {
            eprintln!("usage: cli_codegen dump|trace|transform <seed> <count>|edges <seed> <count>");
            std::process::exit(2);
        }
    }
}
