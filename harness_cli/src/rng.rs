/// splitmix64: every random choice in the harness derives from one state.
#[derive(Clone)]
pub struct Rng(pub u64);
impl Rng {
    pub fn new(seed: u64) -> Self { Rng(seed ^ 0x9E37_79B9_7F4A_7C15) }
    pub fn next(&mut self) -> u64 {
        self.0 = self.0.wrapping_add(0x9E37_79B9_7F4A_7C15);
        let mut z = self.0;
        z = (z ^ (z >> 30)).wrapping_mul(0xBF58_476D_1CE4_E5B9);
        z = (z ^ (z >> 27)).wrapping_mul(0x94D0_49BB_1331_11EB);
        z ^ (z >> 31)
    }
    pub fn below(&mut self, n: u64) -> u64 { if n == 0 { 0 } else { self.next() % n } }
    pub fn range(&mut self, lo: u64, hi: u64) -> u64 { lo + self.below(hi - lo + 1) }
    pub fn coin(&mut self, num: u64, den: u64) -> bool { self.below(den) < num }
    pub fn pick<'a, T>(&mut self, xs: &'a [T]) -> &'a T { &xs[self.below(xs.len() as u64) as usize] }
    pub fn shuffle<T>(&mut self, xs: &mut [T]) {
        for i in (1..xs.len()).rev() { let j = self.below(i as u64 + 1) as usize; xs.swap(i, j); }
    }
}
