"""C18 - every timer has a unique id and at most one outcome.
Proof stage (coq/Properties/C18.v) + correspondence of coq/Timer/{Machine,Legacy}.v against the real
crux_time timers driven by harness/src/bin/timer_*.rs + the proved trace predicate C18_ok evaluated
on the implementation's own observations."""
import os, re, json, glob, collections
import common as C

HOSTS = {
    # host -> (binary, Coq verdict function, extra Require)
    "direct": ("timer_cmd", "verdicts"),
    "core": ("timer_core", "verdicts_core"),
    "legacy": ("timer_legacy", "verdicts_legacy"),
    # one process starting timers through every entry point (both APIs in one app + direct Commands)
    "mixed": ("timer_mixed", "verdicts_mixed"),
}
KNOWN = {101: "legacy_clear_unrequested", 102: "legacy_clear_after_outcome"}   # verdict code 100+k -> class name

def first_id(c):
    m = re.search(r"OStarted (\d+)", c["obs"]) or re.search(r"LStarted (\d+)", c["obs"])
    if not m and c.get("host") == "mixed": m = re.search(r"(\d+)", c["obs"])
    return m.group(1) if m else "0"

def norm_ins(c):
    """input sequence with raw timer ids replaced by their offset from the case's first id"""
    c0 = int(first_id(c))
    return re.sub(r"\b(\d+)\b(?!%nat)", lambda m: "#%d" % (int(m.group(1)) - c0), c["ins"])

def case_text(host, cases):
    fn = HOSTS[host][1]
    t = ["From Coq Require Import List NArith Bool. Import ListNotations.",
         "From Crux Require Import Timer.Machine Timer.Spec%s." % ({"legacy": " Timer.Legacy", "mixed": " Timer.Mixed"}.get(host, "")),
         "Open Scope N_scope.",
         "Definition cs := ["]
    t.append(";\n".join("(%s, %s, %s)" % (first_id(c), c["ins"], c["obs"]) for c in cases))
    t.append("].\nEval vm_compute in (%s cs)." % fn)
    return "\n".join(t)

def shrink_key(c):
    return (c["ins"].count(";"), len(c["ins"]))

def check_C18(run, replay=None):
    quick = run.tier == "quick"
    C.proof_stage(run, "C18")
    profiles = [False] if quick else [False, True]
    # direct host: <seed> <max_len_1> <max_len_2> <n_random> <n_malformed>
    args = {"timer_cmd": "%d 7 4 400 400" if quick else "%d 8 5 20000 20000",
            "timer_core": "%d 6 4 300 300" if quick else "%d 7 5 10000 10000",
            "timer_legacy": "%d 6 4 300 300" if quick else "%d 7 5 10000 10000",
            "timer_mixed": "%d 5 120" if quick else "%d 8 5000"}
    have = [h for h in HOSTS if os.path.exists(os.path.join(C.ROOT, "harness", "src", "bin", HOSTS[h][0] + ".rs"))]
    all_cases = []   # the binaries run corpus/timer/<host>.txt first (class "corpus")
    want = None
    if replay:
        # re-execute: the generators are deterministic, so the recorded input sequences are regenerated
        # and run again on the real code; only if none reappears are the recorded observations re-judged
        rp = json.load(open(replay))
        recorded = rp.get("cases", [])
        want = {(c["host"], norm_ins(c)) for c in recorded}
        all_cases = []
    if True:
        for rel in profiles:
            bins_needed = [HOSTS[h][0] for h in have]
            ok, log, bins = C.harness_build(bins_needed, release=rel)
            run.oblige("harness-build %s (%s) from the repository working tree" % (",".join(bins_needed), "release" if rel else "dev"), ok, log[-1500:])
            if not ok:
                continue
            for h in have:
                b = HOSTS[h][0]
                rc, out = C.sh("TIMER_CORPUS_DIR=%s %s %s" % (os.path.join(C.ROOT, "corpus", "timer"), bins[b], args[b] % run.seed), timeout=1500)
                cases = [json.loads(l) for l in out.splitlines() if l.startswith("{")]
                if rc != 0 or not cases:
                    run.oblige("harness-run %s" % b, False, out[-1500:]); continue
                for c in cases: c["profile"] = "release" if rel else "dev"
                all_cases += cases
    if want is not None:
        rerun = [c for c in all_cases if (c["host"], norm_ins(c)) in want]
        run.oblige("replay: %d of %d recorded input sequences re-executed on the real code" % (len({(c["host"], norm_ins(c)) for c in rerun}), len(want)), True, "")
        all_cases = rerun if rerun else recorded
    # process-wide distinctness: all ids handed out during one run of timer_mixed (one process, every
    # entry point), in order; judged as ONE case by the same Coq predicate when small enough, and
    # always at harness level (duplicates / non-consecutive ids across the whole process run)
    whole = collections.defaultdict(list)
    for c in all_cases:
        if c.get("host") == "mixed" and want is None: whole[c.get("profile", "dev")].append(c)
    for prof, cs in whole.items():
        ids = [int(x) for c in cs for x in re.findall(r"\d+", c["obs"])]
        dup = sorted({x for x in ids if ids.count(x) > 1}) if len(ids) < 20000 else sorted(collections.Counter(ids) - collections.Counter(set(ids)))
        consecutive = all(b == a + 1 for a, b in zip(ids, ids[1:]))
        run.oblige("process-wide (%s): the %d ids handed out in one process through direct Commands, Core-hosted commands and the legacy capability are pairwise distinct and consecutive" % (prof, len(ids)),
                   not dup and consecutive, "duplicates: %s" % dup[:10])
        joined = {"host": "mixed", "class": "whole-process", "profile": prof, "routed": True,
                  "ins": "[" + "; ".join(c["ins"][1:-1] for c in cs if c["ins"] != "[]") + "]",
                  "obs": "[" + "; ".join(c["obs"][1:-1] for c in cs if c["obs"] != "[]") + "]"}
        if dup or not consecutive or len(ids) <= 4000:
            if len(ids) > 4000:   # keep the Coq evaluation small: the prefix up to the first duplicate
                first = min(i for i, x in enumerate(ids) if ids.index(x) != i) if dup else 4000
                k = 0; acc = []
                for c in cs:
                    acc.append(c); k += len(re.findall(r"\d+", c["obs"]))
                    if k > first: break
                joined["ins"] = "[" + "; ".join(c["ins"][1:-1] for c in acc) + "]"
                joined["obs"] = "[" + "; ".join(c["obs"][1:-1] for c in acc) + "]"
            all_cases.append(joined)
    by_host = collections.defaultdict(list)
    for c in all_cases: by_host[c["host"]].append(c)
    texts, shards = [], []
    for h, cs in by_host.items():
        n = max(1, min(16, len(cs) // 300))
        for i in range(n):
            sh = cs[i::n]
            shards.append((h, sh)); texts.append(case_text(h, sh))
    res = C.run_case_files("C18", texts) if texts else []
    hist = collections.Counter(); dist = collections.Counter()
    differ, fail, genbug = [], [], []
    for (h, sh), (ok, vals, raw) in zip(shards, res):
        if not ok or len(vals) != 1 or len(vals[0]) != len(sh):
            run.oblige("case-evaluation shard (%s)" % h, False, raw[-1200:]); continue
        for c, v in zip(sh, vals[0]):
            hist[(h, c.get("class", "?"))] += 1
            o = c["obs"]
            nontrivial = ("Completed" in o) or ("Cleared" in o) or ("EClear" in o) or ("OPanic" in o) or ("LOut" in o) or (h == "mixed" and len(set(re.findall(r"A\w+", c["ins"]))) > 1)
            for tag in ("Completed", "Cleared", "EClear", "OPanic", "true", "ORes 1", "ORes 2"):
                if tag in o: dist[tag] += 1
            run.note_case((h, c["ins"]), nontrivial=nontrivial)
            run.cov["traces_validated_against_impl"] += 1
            if v == 1: differ.append(c)
            elif v == 2: fail.append(c)
            elif v == 9: genbug.append(c)
            elif v >= 100: run.known_seen.setdefault(KNOWN.get(v, "class_%d" % v), {"ins": c["ins"], "obs": c["obs"], "host": h})
    run.oblige("correspondence model = implementation on %d cases (%s)" % (len(all_cases), ", ".join(sorted(by_host))),
               not differ and not genbug, json.dumps((differ + genbug)[:3])[:1500])
    unrouted = [c for c in all_cases if c.get("host") == "mixed" and not c.get("routed", True)]
    for c in unrouted:
        if c not in fail: fail.append(c)
    run.oblige("C18_ok holds on every implementation trace outside known classes", not fail, json.dumps(fail[:3])[:1500])
    run.oblige("process-wide: every request the shell received names exactly one timer of the run (direct + Core command API + legacy API in one process)", not unrouted, json.dumps(unrouted[:2])[:800])
    if fail:
        fail.sort(key=shrink_key)
        fail = fail[:20]
        # shrink: length of the shortest rejected prefix of each failing case (C18_ok is prefix-closed)
        try:
            groups = collections.defaultdict(list)
            for c in fail:
                if c["host"] != "mixed": groups[c["host"]].append(c)
            hs = sorted(groups)
            txt = [case_text(h, groups[h]).replace("(%s cs)" % HOSTS[h][1], "(%s cs)" % ("shortest_fails_legacy" if h == "legacy" else "shortest_fails")) for h in hs]
            for h, (ok, vals, raw) in zip(hs, C.run_case_files("C18_shrink", txt)):
                if ok and len(vals) == 1 and len(vals[0]) == len(groups[h]):
                    for c, n in zip(groups[h], vals[0]): c["first_rejected_step"] = n
        except Exception as ex:
            run.extra["shrink_error"] = str(ex)[:200]
        fail.sort(key=lambda c: (c.get("first_rejected_step", 10**6), shrink_key(c)))
        run.violation("C18_ok", {"property": "C18", "what": "the outcome automaton rejects the implementation's observations (shortest failing sequences first)",
                                 "cases": fail[:20],
                                 "how_to_replay": "./check C18 --replay <this file>; ins/obs are Coq terms of coq/Timer/Machine.v (list sin / list obs), produced by harness/src/bin/timer_*.rs"})
    elif differ or genbug:
        differ.sort(key=shrink_key)
        run.violation("correspondence", {"property": "C18", "what": "model and implementation differ; C18_ok still holds on every implementation trace seen",
                                         "cases": (differ + genbug)[:20], "broken": "correspondence Timer.Machine/Timer.Legacy vs crux_time"}, no_input=True)
    run.cov["rule"] = ("exhaustive: every sequence of enabled inputs (poll, fire, drop request, clear, drop handle, answer clear, drop clear request) "
                       "up to the tier's length over one notify_after and one notify_at timer and over two timers, plus wrong-kind/wrong-id responses up to length 4; "
                       "seeded random sequences over 1-4 timers with interleaved starts, disabled and out-of-range inputs, and a malformed stream of wrong responses; "
                       "hosts: " + ", ".join(sorted(by_host)) + ". A case is counted once per distinct (host, input sequence); non-trivial = an outcome, a Clear request or a panic occurs.")
    run.cov["samples"] = [{"host": c["host"], "ins": c["ins"], "obs": c["obs"]} for c in (all_cases[:2] + all_cases[-2:])]
    run.extra["distribution"] = {"per_host_class": {"%s/%s" % k: v for k, v in hist.items()}, "observations_containing": dict(dist)}
    run.assumptions += ["futures 0.3.31 oneshot/mpsc/select_biased!/Fuse, the Command executor's ready queue and eviction rule, and Rust's async lowering are modelled by hand (coq/Timer/Machine.v header) and tied to the code by correspondence only",
                        "the id counter is a Relaxed fetch_add: atomicity under threads is assumed, not modelled; ids are unique while fewer than 2^64 timers are started (hypothesis of C18_unique_ids)",
                        "sequential interleavings only: a handle dropped by another thread between is_terminated() and poll() of the oneshot receiver (an unwrap on Err(Canceled)) is outside the model"]
    run.trusted += ["hand-written models coq/Timer/Machine.v, coq/Timer/Legacy.v and the automaton coq/Timer/Spec.v",
                    "harness/src/bin/timer_*.rs (drive the real crux_time timers, print inputs and observations as Coq terms)",
                    "lib/common.py parser of coqc output"]
