import os, json, collections
import common as C

def zlit(s):
    s = str(s)
    return "(%s)" % s if s.startswith("-") else s

def check_C19(run, replay=None):
    tier = run.tier
    count = 1500 if tier == "quick" else 60000
    C.proof_stage(run, "C19")
    profiles = [False] if tier == "quick" else [False, True]
    all_cases = []
    for rel in profiles:
        ok, log, bins = C.harness_build(["time_conv"], release=rel)
        run.oblige("harness-build time_conv (%s) from /repo working tree" % ("release" if rel else "dev"), ok, log[-1500:])
        if not ok:
            continue
        rc, out = C.sh("%s %d %d" % (bins["time_conv"], run.seed, count), timeout=900)
        if rc != 0:
            run.oblige("harness-run time_conv", False, out[-1500:]); continue
        cases = [json.loads(l) for l in out.splitlines() if l.startswith("{")]
        for c in cases: c["profile"] = "release" if rel else "dev"
        all_cases += cases
    if replay:
        all_cases = json.load(open(replay)).get("cases", all_cases)
    nsh = 16 if len(all_cases) > 800 else 4
    shards = [all_cases[i::nsh] for i in range(nsh)]
    texts = []
    for sh in shards:
        t = ["From Coq Require Import List ZArith. Import ListNotations. From Crux Require Import Time.Conv.",
             "Open Scope Z_scope.", "Definition cs : list (cop * Z * Z * list Z) := ["]
        t.append(";\n".join("(%s, %s, %s, [%s])" % (c["op"], zlit(c["a"]), zlit(c["b"]), "; ".join(zlit(x) for x in c["impl"])) for c in sh))
        t.append("]. \nEval vm_compute in (verdicts cs).")
        texts.append("\n".join(t))
    res = C.run_case_files("C19", texts)
    hist = collections.Counter(); outcome = collections.Counter()
    bad_model, bad_ok, gen_bugs = [], [], []
    for sh, (ok, vals, raw) in zip(shards, res):
        if not ok or len(vals) != 1 or len(vals[0]) != len(sh):
            run.oblige("case-evaluation shard", False, raw[-800:]); continue
        for c, v in zip(sh, vals[0]):
            hist[c["op"]] += 1
            outcome[{"0": "ok", "1": "err", "2": "panic"}.get(c["impl"][0], "?")] += 1
            run.note_case((c["op"], c["a"], c["b"]), nontrivial=True)
            run.cov["traces_validated_against_impl"] += 1
            if v == 1: bad_model.append(c)
            elif v == 2: bad_ok.append(c)
            elif v == 9: gen_bugs.append(c)
            elif v == 100: run.known_seen.setdefault("instant_invalid_nanos", c)
    run.oblige("correspondence model=implementation on %d cases" % len(all_cases), not bad_model and not gen_bugs,
               json.dumps((bad_model + gen_bugs)[:5]))
    run.oblige("C19_ok holds on every implementation result outside known classes", not bad_ok, json.dumps(bad_ok[:5]))
    if bad_ok:
        bad_ok.sort(key=lambda c: (len(c["a"]) + len(c["b"])))
        run.violation("C19_ok", {"property": "C19", "what": "conversion neither exact nor rejected", "cases": bad_ok[:20],
                                 "how_to_replay": "./check C19 --replay <this file>; op/a/b as in coq/Time/Conv.v; impl = [0,vals]|[1,err]|[2]=panic"})
    elif bad_model or gen_bugs:
        run.violation("correspondence", {"property": "C19", "what": "model and implementation differ; C19_ok still holds on all implementation results seen",
                                         "cases": (bad_model + gen_bugs)[:20], "broken": "correspondence Time.Conv.conv vs crux_time"}, no_input=True)
    run.cov["rule"] = ("all boundary values (0, +-1 around 1e9, 2e9, u32/i64/u64 limits, chrono and TimeDelta limits, leap-second seconds) x 12 conversions, "
                       "plus seeded random magnitudes; a case is counted when its (op,a,b) is distinct; all are non-trivial (each exercises one conversion on a constructible input)")
    run.cov["samples"] = all_cases[:3] + all_cases[-3:]
    run.extra["distribution"] = {"per_op": dict(hist), "impl_outcome": dict(outcome)}
    run.assumptions += ["std::time::Duration::new carry, SystemTime's i64-second range on Linux and chrono 0.4.40's from_timestamp range/leap rule are modelled by hand and tied by correspondence only"]
    run.trusted += ["hand-written model coq/Time/Conv.v", "harness/src/bin/time_conv.rs (drives the real conversions, catch_unwind)", "lib/common.py parser of coqc output"]
