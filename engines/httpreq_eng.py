"""Engine `httpreq`: C14 (an HTTP request reaches the shell as described) and C11 (determinism and
equality of API values).  Model coq/HttpReq/*.v, statements coq/Properties/C14.v, C11.v, harness
binaries harness/src/bin/httpreq_*.rs."""
import os, json, collections, glob, hashlib
import common as C

CORPUS = os.path.join(C.ROOT, "corpus", "httpreq")

# ------------------------------------------------------------------ Coq printing
LONG = 160
def cb(hexs):
    """hex string -> Coq `bytes` literal.  The model only moves header values, bodies and URLs around
    (it inspects nothing but header NAMES and ASCII-ness), so a long byte string is replaced, on the
    description side and on the observation side alike, by a token: its length and SHA-256 in ASCII
    (plus one non-ASCII byte when the original is not ASCII).  Equal strings give equal tokens; unequal
    ones differ unless SHA-256 collides.  This keeps 64 KiB bodies out of coqc's parser."""
    b = bytes.fromhex(hexs)
    if len(b) > LONG:
        tok = b"\x01long:%d:%s" % (len(b), hashlib.sha256(b).hexdigest().encode())
        if any(x >= 128 for x in b): tok += b"\x80"
        b = tok
    return "[" + ";".join(str(x) for x in b) + "]"
def cs(s):
    return cb(s.encode("utf8").hex())
def copt(h):
    return "None" if h is None else "(Some %s)" % cb(h)
def clist(xs):
    return "[" + "; ".join(xs) + "]"

MIME_KIND = {"string": "MPlain", "into_str": "MPlain", "json": "MJson", "into_value": "MJson", "json_bad": "MJson", "json_typed": "MJson",
             "form": "MForm", "form_bad": "MForm", "form_typed": "MForm"}

def coq_op(op, enc):
    t = op["t"]
    if t == "Header":
        return "OHeader %s %s" % (cs(op["name"]), clist(cs(v) for v in op["values"]))
    if t == "Append":
        return "OAppend %s %s" % (cs(op["name"]), clist(cs(v) for v in op["values"]))
    if t == "Remove":
        return "ORemove %s" % cs(op["name"])
    if t == "ContentType":
        return "OContentType %s" % copt(enc["hex"])
    if t == "Body":
        return "OBody %s %s" % (MIME_KIND.get(op["kind"], "MOctet"), copt(enc["hex"]))
    if t == "Query":
        return "OQuery %s" % copt(enc["hex"])
    raise ValueError(t)

def coq_obs(j):
    if j["outcome"] == "panic": return "ObsPanic"
    if j["outcome"] == "refused": return "ObsRefused"
    reqs = []
    for e in j["effects"]:
        hs = clist("(%s, %s)" % (cb(n), cb(v)) for n, v in e["headers"])
        reqs.append("{| q_method := %s; q_url := %s; q_headers := %s; q_body := %s |}" % (cs(e["method"]), cb(e["url"]), hs, cb(e["body"])))
    return "(ObsSent %s)" % clist(reqs)

def coq_case(j):
    d = j["desc"]
    ops = [coq_op(o, e) for o, e in zip(d["ops"], j["enc"])]
    split = d["split"]
    urls = clist("(%s, %s)" % (copt(k), copt(v)) for k, v in j["urls"])
    return "{| c_api := %s; c_method := %s; c_urls := %s; c_ops1 := %s; c_ops2 := %s; c_obs := %s |}" % (
        "Cmd" if d["api"] == "cmd" else "Cap", cs(d["method"]), urls, clist(ops[:split]), clist(ops[split:]), coq_obs(j))

def case_file(cases):
    t = ["From Coq Require Import List NArith. Import ListNotations. From Crux Require Import Base.Res HttpReq.Model.",
         "Open Scope N_scope.", "Definition cs : list case := ["]
    t.append(";\n".join(coq_case(j) for j in cases))
    t.append("].\nEval vm_compute in (verdicts cs).")
    return "\n".join(t)

def shards(cases, n):
    """balance by size: big bodies make some cases far heavier than others"""
    order = sorted(range(len(cases)), key=lambda i: -len(json.dumps(cases[i])))
    out = [[] for _ in range(n)]
    for k, i in enumerate(order):
        out[k % n].append(cases[i])
    return [s for s in out if s]

def desc_size(j):
    return len(j["desc"]["ops"]) * 1000 + len(json.dumps(j["desc"]))

# ------------------------------------------------------------------ C14
def run_harness(run, bins, name, args, timeout=900):
    rc, out = C.sh("%s %s" % (bins[name], args), timeout=timeout)
    if rc != 0:
        run.oblige("harness-run %s %s" % (name, args[:60]), False, out[-1500:])
        return []
    return [json.loads(l) for l in out.splitlines() if l.startswith("{")]

def replay_lines(path, prop):
    """A replay file written by run.violation is one JSON object with a `cases` list; corpus files are
    JSON lines.  Either way hand the harness a JSON-lines file."""
    txt = open(path).read()
    try:
        j = json.loads(txt)
        cases = j.get("cases", []) if isinstance(j, dict) else j
    except ValueError:
        return path
    d = os.path.join(C.ALT or C.CACHE, "cases"); os.makedirs(d, exist_ok=True)
    out = os.path.join(d, "replay_%s.jsonl" % prop)
    with open(out, "w") as fh:
        for c in cases: fh.write(json.dumps(c) + "\n")
    return out

def verdicts_C14(cases, tag="C14shrink"):
    res = C.run_case_files(tag, [case_file(cases)])
    ok, vals, raw = res[0]
    return vals[0] if ok and len(vals) == 1 and len(vals[0]) == len(cases) else None

def shrink_C14(run, bins, j, want, budget=40):
    """Greedy one-call-at-a-time reduction of a failing description: each round plays every description
    with one call removed through the real code and keeps the first that still has verdict `want`."""
    d = j["desc"]; best = j
    for _ in range(budget):
        cands = []
        for i in range(len(d["ops"])):
            e = dict(d); e["ops"] = d["ops"][:i] + d["ops"][i + 1:]; e["split"] = d["split"] - (1 if i < d["split"] else 0)
            cands.append(e)
        if not cands: break
        p = os.path.join(C.ALT or C.CACHE, "cases", "shrink_C14.jsonl"); os.makedirs(os.path.dirname(p), exist_ok=True)
        with open(p, "w") as fh:
            for e in cands: fh.write(json.dumps({"desc": e}) + "\n")
        outs = run_harness(run, bins, "httpreq_build", "--replay " + p)
        vs = verdicts_C14(outs) if len(outs) == len(cands) else None
        if not vs: break
        hit = [o for o, v in zip(outs, vs) if v == want]
        if not hit: break
        best = hit[0]; d = best["desc"]
    return best

def check_C14(run, replay=None):
    tier = run.tier
    count = 3000 if tier == "quick" else 50000
    C.proof_stage(run, "C14")
    ok, log, bins = C.harness_build(["httpreq_build"])
    run.oblige("harness-build httpreq_build from %s working tree" % C.REPO, ok, log[-1500:])
    cases = []
    if ok:
        corpus = sorted(glob.glob(os.path.join(CORPUS, "c14_*.jsonl")))
        if replay:
            cases += run_harness(run, bins, "httpreq_build", "--replay " + replay_lines(replay, "C14"))
        else:
            if corpus:
                cases += run_harness(run, bins, "httpreq_build", "--replay " + " ".join(corpus))
            # batches keep memory bounded (64 KiB bodies appear twice, in hex, in every case that has one)
            B = 3000; nb = (count + B - 1) // B
            for b in range(1, nb):
                evaluate_C14(run, run_harness(run, bins, "httpreq_build", "%d %d" % (run.seed * 1000003 + b, B), timeout=1800), bins)
            cases += run_harness(run, bins, "httpreq_build", "%d %d" % (run.seed, min(B, count)), timeout=1800)
    evaluate_C14(run, cases, bins if ok else None)
    run.cov["rule"] = ("request descriptions = entry point (9 verb shorthands with a URL string | request(Method, Url) over all 39 methods, "
                       "URLs built from schemes/hosts/ports/paths/queries/fragments incl. unicode, percent-escapes, dot segments, base joins) x call list "
                       "(header as &str/String/&[HeaderValue]/&HeaderValues, mixed-case repeated names, 0..40 calls; content_type; ten body kinds incl. 64 KiB and "
                       "unknown-length readers; query map/struct) x API (command | capability, the latter with request-stage calls append/remove/... made in a "
                       "per-request middleware); every 8th case has one injected defect (bad URL, non-ASCII name or value, bad MIME, refusing encoder). "
                       "A case counts as non-trivial when it has at least one call or is malformed; distinct by description.")
    run.assumptions += ["url crate serialisation (parse, set_query, to_string), serde_json::to_vec, Mime parse/Display are oracles: the harness evaluates them directly on the description (never through crux_http) and the model takes their answers",
                        "form and query-string encodings are computed by an independent encoder in the harness and cross-checked against serde_urlencoded / serde_qs on every case",
                        "a description with non-ASCII header text, an unparsable URL or MIME string is malformed: the documented panic, with nothing sent, is the expected outcome; a refusing encoder is an Err with nothing sent"]
    run.trusted += ["hand-written model coq/HttpReq/Model.v of crux_http request building and of http-types' header map / set_body rule",
                    "harness/src/bin/httpreq_build.rs (plays descriptions through the real APIs inside Command and Core, catch_unwind)",
                    "engines/httpreq_eng.py printer of cases as Coq terms; lib/common.py parser of coqc output"]

def evaluate_C14(run, cases, bins=None):
    if not cases:
        run.oblige("C14 cases produced", False, "no cases"); return
    disagree = [j for j in cases if any(e.get("oracle_disagree") for e in j["enc"])]
    run.oblige("independent form/query encoder agrees with serde_urlencoded/serde_qs on every case", not disagree,
               json.dumps([j["desc"] for j in disagree[:3]])[:1500])
    # at most ~400 cases per coqc process (memory), at least 4 files; run_case_files runs 16 at a time
    nsh = max(4, 16 if len(cases) > 200 else 4, (len(cases) + 399) // 400)
    sh = shards(cases, nsh)
    res = C.run_case_files("C14", [case_file(s) for s in sh])
    hist = collections.Counter(); sizes = collections.Counter(); opk = collections.Counter()
    bad_model, bad_ok, gen_bugs, rust_bad = [], [], [], []
    for s, (ok, vals, raw) in zip(sh, res):
        if not ok or len(vals) != 1 or len(vals[0]) != len(s):
            run.oblige("case-evaluation shard", False, raw[-1200:]); continue
        for j, v in zip(s, vals[0]):
            d = j["desc"]
            hist[(j["origin"], d["api"], d["entry"], j["outcome"])] += 1
            sizes[min(len(d["ops"]) // 5 * 5, 40)] += 1
            for o in d["ops"]: opk[o["t"] + (":" + o["kind"] if "kind" in o else "")] += 1
            run.note_case(json.dumps(d, sort_keys=True), nontrivial=bool(d["ops"]) or j["origin"] != "valid")
            run.cov["traces_validated_against_impl"] += 1
            if v == 1: bad_model.append(j)
            elif v == 2: bad_ok.append(j)
            elif v == 9: gen_bugs.append(j)
            elif v == 100: run.known_seen.setdefault("body_replaced_keeps_first_mime", slim(j))
            if v == 0 and not j["rust_ok"]: rust_bad.append(j)
    run.oblige("correspondence model=implementation on %d descriptions" % len(cases), not bad_model and not gen_bugs,
               json.dumps([slim(j) for j in (bad_model + gen_bugs)[:3]])[:3000])
    run.oblige("C14_ok holds on every implementation observation outside known classes", not bad_ok, json.dumps([slim(j) for j in bad_ok[:3]])[:3000])
    run.oblige("second independent description (plain Rust, harness) agrees wherever the Coq verdict is 0", not rust_bad, json.dumps([slim(j) for j in rust_bad[:3]])[:3000])
    if bad_ok:
        bad_ok.sort(key=desc_size)
        if bins:
            try: bad_ok[0] = shrink_C14(run, bins, bad_ok[0], 2)
            except Exception as ex: run.extra["shrink_error"] = repr(ex)
        run.violation("C14_ok", {"property": "C14", "what": "the request that reached the shell is not the one described (or a malformed description was not rejected)",
                                 "cases": [slim(j, full=True) for j in bad_ok[:20]],
                                 "how_to_replay": "./check C14 --replay <this file>; each case has desc (the calls), enc/urls (oracle answers) and the observed effects; hex fields are bytes"})
    elif bad_model or gen_bugs or rust_bad:
        run.violation("correspondence", {"property": "C14", "what": "model and implementation differ; C14_ok still holds on every implementation observation seen",
                                         "cases": [slim(j, full=True) for j in (bad_model + gen_bugs + rust_bad)[:20]], "broken": "correspondence HttpReq.Model vs crux_http"}, no_input=True)
    run.cov["samples"] = [slim(j) for j in cases[:2] + cases[-2:]]
    if not hasattr(run, "_c14acc"): run._c14acc = [collections.Counter(), collections.Counter(), collections.Counter()]
    acc = run._c14acc
    acc[0].update({"/".join(k): v for k, v in hist.items()}); acc[1].update({str(k): v for k, v in sizes.items()}); acc[2].update(opk)
    run.extra["distribution"] = {"by_origin_api_entry_outcome": dict(sorted(acc[0].items())),
                                 "calls_per_description": dict(acc[1]), "call_kinds": dict(acc[2])}

def slim(j, full=False):
    """a case without megabytes of hex (full=True keeps what a replay needs: the description)"""
    def cut(x):
        if isinstance(x, str) and len(x) > 300: return x[:300] + "...(%d chars)" % len(x)
        if isinstance(x, list): return [cut(y) for y in x]
        if isinstance(x, dict): return {k: cut(v) for k, v in x.items()}
        return x
    if full:
        return {"desc": j["desc"], "outcome": j["outcome"], "msg": j.get("msg", "")[:300], "effects": cut(j["effects"]), "enc": cut(j["enc"]), "urls": cut(j["urls"])}
    return cut({"desc": j["desc"], "outcome": j["outcome"], "effects": j["effects"]})

# ------------------------------------------------------------------ C11
def capi(a): return "Cap" if a == "cap" else "Cmd"
def coq_kv(o):
    t = o["t"]
    if t == "Get": return "KGet %s" % cs(o["key"])
    if t == "Set": return "KSet %s %s" % (cs(o["key"]), cb(o["hex"]))
    if t == "Delete": return "KDelete %s" % cs(o["key"])
    if t == "Exists": return "KExists %s" % cs(o["key"])
    return "KList %s %s" % (cs(o["prefix"]), o["cursor"])

def coq_aop(o, oracles):
    t = o["t"]
    if t == "Http":
        d = o["desc"]; orc = oracles.pop(0)
        ops = [coq_op(x, e) for x, e in zip(d["ops"], orc["enc"])]
        urls = clist("(%s, %s)" % (copt(k), copt(v)) for k, v in orc["urls"])
        return "AHttp %s %s (tbl_url_ok %s) (tbl_url_str %s) %s %s" % (capi(d["api"]), cs(d["method"]), urls, urls, clist(ops[:d["split"]]), clist(ops[d["split"]:]))
    if t == "Kv": return "AKv %s (%s)" % (capi(o["api"]), coq_kv(o["op"]))
    if t == "Now": return "ANow %s" % capi(o["api"])
    if t == "After": return "AAfter %s %s" % (capi(o["api"]), o["nanos"])
    if t == "At": return "AAt %s %s %s" % (capi(o["api"]), o["secs"], o["nanos"])
    if t == "Clear": return "AClear %s" % o["j"]
    if t == "Render": return "ARender %s" % capi(o["api"])
    raise ValueError(t)

def coq_effect(e):
    k = e["k"]
    if k == "http":
        hs = clist("(%s, %s)" % (cb(n), cb(v)) for n, v in e["headers"])
        return "EHttp {| q_method := %s; q_url := %s; q_headers := %s; q_body := %s |}" % (cs(e["method"]), cb(e["url"]), hs, cb(e["body"]))
    if k == "kv": return "EKv (%s)" % coq_kv(e)
    if k == "render": return "ERender"
    t = e["t"]
    if t == "Now": return "ETime TNow"
    if t == "At": return "ETime (TAt %s %s %s)" % (e["id"], e["secs"], e["nanos"])
    if t == "After": return "ETime (TAfter %s %s)" % (e["id"], e["nanos"])
    return "ETime (TClear %s)" % e["id"]

def coq_replay_case(j):
    oracles = list(j["oracles"])
    steps = []
    for st in j["hist"]:
        if st["t"] == "Event": steps.append("SEvent %s" % clist(coq_aop(o, oracles) for o in st["ops"]))
        elif st["t"] == "Resolve": steps.append("SResolve %d" % st["k"])
        else: steps.append("SView")
    obs = clist(clist(coq_effect(e) for e in b) for b in j["obs"])
    return "{| rc_hist := %s; rc_obs := %s; rc_agree := %s |}" % (clist(steps), obs, "true" if j["agree"] else "false")

def coq_val(v):
    if "n" in v: return "VN %s" % v["n"]
    if "b" in v: return "VB %s" % cb(v["b"])
    return "VC %d %s" % (v["c"], clist("(%s)" % coq_val(x) if ("c" in x or "n" in x or "b" in x) else coq_val(x) for x in v["a"]))

def coq_resp_desc(d):
    calls = [coq_op(o, {"hex": None}) for o in d["calls"]]
    return "{| rd_version := None; rd_status := %d; rd_calls := %s; rd_body := %s |}" % (d["status"], clist(calls), copt(d["body"]))

def coq_eq_case(j):
    b = lambda x: "true" if x else "false"
    if j["kind"] == "eq_resp":
        return "EqResp %s %s %s %s" % (coq_resp_desc(j["a"]), coq_resp_desc(j["b"]), b(j["ab"]), b(j["ba"]))
    return "EqVal (%s) (%s) %s %s" % (coq_val(j["a"]), coq_val(j["b"]), b(j["ab"]), b(j["ba"]))

def c11_file(replays, eqs):
    t = ["From Coq Require Import List NArith. Import ListNotations. From Crux Require Import Base.Res HttpReq.Model HttpReq.Eq HttpReq.Replay.",
         "Open Scope N_scope.", "Definition rs : list replay_case := ["]
    t.append(";\n".join(coq_replay_case(j) for j in replays))
    t.append("].\nDefinition es : list eq_case := [")
    t.append(";\n".join(coq_eq_case(j) for j in eqs))
    t.append("].\nEval vm_compute in (replay_verdicts rs).\nEval vm_compute in (eq_verdicts es).")
    return "\n".join(t)

def shrink_C11(run, bins, j, budget=30):
    """Greedy reduction of a history whose replays differ: drop one step, or one operation of an event, or one
    call of an HTTP description per round; candidates are replayed (3 in-process + 2 processes) by the harness
    and the first that still differs is kept.  Needs no coqc: `agree` is decided on the implementation alone."""
    best = j
    for _ in range(budget):
        h = best["hist"]; cands = []
        for i in range(len(h)):
            cands.append(h[:i] + h[i + 1:])
            if h[i]["t"] == "Event":
                ops = h[i]["ops"]
                for k in range(len(ops)):
                    if len(ops) > 1: cands.append(h[:i] + [dict(h[i], ops=ops[:k] + ops[k + 1:])] + h[i + 1:])
                    if ops[k]["t"] == "Http":
                        d = ops[k]["desc"]
                        for c in range(len(d["ops"])):
                            e = dict(d, ops=d["ops"][:c] + d["ops"][c + 1:], split=d["split"] - (1 if c < d["split"] else 0))
                            cands.append(h[:i] + [dict(h[i], ops=ops[:k] + [dict(ops[k], desc=e)] + ops[k + 1:])] + h[i + 1:])
        cands = [c for c in cands if c][:400]
        if not cands: break
        p = os.path.join(C.ALT or C.CACHE, "cases", "shrink_C11.jsonl"); os.makedirs(os.path.dirname(p), exist_ok=True)
        with open(p, "w") as fh:
            for c in cands: fh.write(json.dumps({"hist": c}) + "\n")
        outs = [o for o in run_harness(run, bins, "httpreq_replay", "--replay " + p) if o["kind"] == "replay"]
        hit = [o for o in outs if not o["agree"]]
        if not hit: break
        best = min(hit, key=lambda o: len(json.dumps(o["hist"])))
    return best

def check_C11(run, replay=None):
    tier = run.tier
    nh, ne = (500, 2000) if tier == "quick" else (10000, 40000)
    C.proof_stage(run, "C11")
    ok, log, bins = C.harness_build(["httpreq_replay"])
    run.oblige("harness-build httpreq_replay from %s working tree" % C.REPO, ok, log[-1500:])
    cases = []
    if ok:
        corpus = sorted(glob.glob(os.path.join(CORPUS, "c11_*.jsonl")))
        if replay:
            cases += run_harness(run, bins, "httpreq_replay", "--replay " + replay_lines(replay, "C11"))
        else:
            for f in corpus:
                cases += run_harness(run, bins, "httpreq_replay", "--replay " + f)
            BH, BE = 500, 2000; nb = (nh + BH - 1) // BH
            for b in range(1, nb):
                evaluate_C11(run, run_harness(run, bins, "httpreq_replay", "%d %d %d" % (run.seed * 1000003 + b, BH, BE), timeout=2400), bins)
            cases += run_harness(run, bins, "httpreq_replay", "%d %d %d" % (run.seed, min(BH, nh), min(BE, ne)), timeout=2400)
    evaluate_C11(run, cases, bins if ok else None)
    run.cov["rule"] = ("(a) histories of 2..8 steps: events issuing 1..5 operations each (HTTP descriptions with >= 2 extra headers through the command or capability API, key-value get/set/delete/exists/list, "
                       "time now/notify_after/notify_at/clear, render), resolutions of the k-th outstanding request with a seeded response, view reads; every history is replayed against a fresh Core 3x in-process and "
                       "once in each of 2 further processes (the binary re-executes itself), and the bincode bytes of all effect batches (timer ids renumbered by first occurrence) and views (which contain the last HTTP Response as a serialized API value) are compared byte for byte; each child process also runs the history through the real Bridge and the RAW bytes it returns (effect ids, timer ids, view) are compared between the two processes; "
                       "(b) pairs of crux_http::Response built from header-call descriptions (same content respelled in shuffled order / mixed case / insert+append, single mutations, independent) with == evaluated both ways; "
                       "(c) pairs of protocol values with derived equality (10 types) from small domains, == both ways. A replay case is non-trivial when it has an event issuing an HTTP request or a timer; every eq case is; distinct by content.")
    run.assumptions += ["the app's update function is itself deterministic (the harness app is); address-, time- and thread-dependence cannot appear in a functional model and are covered only by the cross-process replays",
                        "url crate, serde encoders: oracles as in C14",
                        "usize/u64 wrap-around of the timer counter is not modelled (N is unbounded)"]
    run.trusted += ["hand-written models coq/HttpReq/{Model,Eq,Replay}.v (request building, Response::eq, the harness app's effect order, crux_time's id counter and cleared set)",
                    "harness/src/bin/httpreq_replay.rs (app, replays in 3+2 runs, renumbering, byte comparison, encoders of protocol values as trees)",
                    "engines/httpreq_eng.py printer of cases as Coq terms; lib/common.py parser of coqc output"]

def evaluate_C11(run, cases, bins=None):
    reps = [j for j in cases if j["kind"] == "replay"]
    eqs = [j for j in cases if j["kind"] != "replay"]
    if not reps and not eqs:
        run.oblige("C11 cases produced", False, "no cases"); return
    n = max(16 if len(cases) > 400 else 4, (len(cases) + 399) // 400)
    texts = [c11_file(reps[i::n], eqs[i::n]) for i in range(n)]
    res = C.run_case_files("C11", texts)
    hist = collections.Counter(); opk = collections.Counter()
    bad_model, bad_ok, gen_bugs = [], [], []
    for i, (ok, vals, raw) in enumerate(res):
        rs, es = reps[i::n], eqs[i::n]
        if not ok or len(vals) != 2 or len(vals[0]) != len(rs) or len(vals[1]) != len(es):
            run.oblige("case-evaluation shard", False, raw[-1200:]); continue
        for j, v in zip(rs, vals[0]):
            kinds = [o["t"] for st in j["hist"] if st["t"] == "Event" for o in st["ops"]]
            for k in kinds: opk[k] += 1
            hist[("replay", "agree" if j["agree"] else "DIFFER")] += 1
            run.note_case(json.dumps(j["hist"], sort_keys=True), nontrivial=any(k in ("Http", "After", "At") for k in kinds))
            run.cov["traces_validated_against_impl"] += j.get("replays", 1)
            if v == 1: bad_model.append(j)
            elif v == 2: bad_ok.append(j)
            elif v == 9: gen_bugs.append(j)
        for j, v in zip(es, vals[1]):
            hist[(j["kind"], j.get("ty", "Response"), "eq" if j["ab"] else "ne")] += 1
            run.note_case(json.dumps([j["a"], j["b"]], sort_keys=True))
            run.cov["traces_validated_against_impl"] += 1
            if v == 1: bad_model.append(j)
            elif v == 2: bad_ok.append(j)
            elif v == 9: gen_bugs.append(j)
    run.oblige("correspondence model=implementation on %d histories (effect batches) and %d equality cases" % (len(reps), len(eqs)),
               not bad_model and not gen_bugs, json.dumps([slim11(j) for j in (bad_model + gen_bugs)[:3]])[:3000])
    run.oblige("C11_ok: all replays (3 in-process + 2 processes) byte-identical, and == is content equality, on every case", not bad_ok,
               json.dumps([slim11(j) for j in bad_ok[:3]])[:3000])
    if bad_ok:
        bad_ok.sort(key=lambda j: len(json.dumps(j)))
        if bins and bad_ok[0]["kind"] == "replay":
            try: bad_ok[0] = shrink_C11(run, bins, bad_ok[0])
            except Exception as ex: run.extra["shrink_error"] = repr(ex)
        run.violation("C11_ok", {"property": "C11", "what": "replays of one history differ (after timer renumbering), or == disagrees with equality of contents",
                                 "cases": [slim11(j) for j in bad_ok[:20]],
                                 "how_to_replay": "./check C11 --replay <this file>: histories are re-run 3x in-process and in 2 child processes, eq_resp pairs are rebuilt and compared"})
    elif bad_model or gen_bugs:
        run.violation("correspondence", {"property": "C11", "what": "model and implementation differ; replays agree and == is content equality on everything seen",
                                         "cases": [slim11(j) for j in (bad_model + gen_bugs)[:20]], "broken": "correspondence HttpReq.Replay / HttpReq.Eq vs crux"}, no_input=True)
    run.cov["samples"] = [slim11(j) for j in reps[:2] + eqs[:2]]
    if not hasattr(run, "_c11acc"): run._c11acc = [collections.Counter(), collections.Counter()]
    acc = run._c11acc
    acc[0].update({"/".join(map(str, k)): v for k, v in hist.items()}); acc[1].update(opk)
    run.extra["distribution"] = {"cases": dict(sorted(acc[0].items())), "operations_in_histories": dict(acc[1])}

def slim11(j):
    def cut(x):
        if isinstance(x, str) and len(x) > 300: return x[:300] + "...(%d chars)" % len(x)
        if isinstance(x, list): return [cut(y) for y in x]
        if isinstance(x, dict): return {k: cut(v) for k, v in x.items() if k not in ("oracles",)}
        return x
    keep = dict(j)
    return cut(keep) if j["kind"] != "replay" else dict(cut(keep), hist=j["hist"])
