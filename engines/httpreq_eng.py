"""Engine `httpreq`: C14 (an HTTP request reaches the shell as described) and C11 (determinism and
equality of API values).  Model coq/HttpReq/*.v, statements coq/Properties/C14.v, C11.v, harness
binaries harness/src/bin/httpreq_*.rs."""
import os, json, collections, glob, hashlib
import common as C

CORPUS = os.path.join(C.ROOT, "corpus", "httpreq")

# ------------------------------------------------------------------ Coq printing
LONG = 160
def cb(hexs):
    """hex string -> Coq `bytes` literal.  The model only moves header values, bodies and URLs around
    (it inspects nothing but header NAMES and ASCII-ness), so a long byte string is replaced, on the
    description side and on the observation side alike, by a token: its length and SHA-256 in ASCII
    (plus one non-ASCII byte when the original is not ASCII).  Equal strings give equal tokens; unequal
    ones differ unless SHA-256 collides.  This keeps 64 KiB bodies out of coqc's parser."""
    b = bytes.fromhex(hexs)
    if len(b) > LONG:
        tok = b"\x01long:%d:%s" % (len(b), hashlib.sha256(b).hexdigest().encode())
        if any(x >= 128 for x in b): tok += b"\x80"
        b = tok
    return "[" + ";".join(str(x) for x in b) + "]"
def cs(s):
    return cb(s.encode("utf8").hex())
def copt(h):
    return "None" if h is None else "(Some %s)" % cb(h)
def clist(xs):
    return "[" + "; ".join(xs) + "]"

MIME_KIND = {"string": "MPlain", "into_str": "MPlain", "json": "MJson", "into_value": "MJson", "json_bad": "MJson",
             "form": "MForm", "form_bad": "MForm"}

def coq_op(op, enc):
    t = op["t"]
    if t == "Header":
        return "OHeader %s %s" % (cs(op["name"]), clist(cs(v) for v in op["values"]))
    if t == "Append":
        return "OAppend %s %s" % (cs(op["name"]), clist(cs(v) for v in op["values"]))
    if t == "Remove":
        return "ORemove %s" % cs(op["name"])
    if t == "ContentType":
        return "OContentType %s" % copt(enc["hex"])
    if t == "Body":
        return "OBody %s %s" % (MIME_KIND.get(op["kind"], "MOctet"), copt(enc["hex"]))
    if t == "Query":
        return "OQuery %s" % copt(enc["hex"])
    raise ValueError(t)

def coq_obs(j):
    if j["outcome"] == "panic": return "ObsPanic"
    if j["outcome"] == "refused": return "ObsRefused"
    reqs = []
    for e in j["effects"]:
        hs = clist("(%s, %s)" % (cb(n), cb(v)) for n, v in e["headers"])
        reqs.append("{| q_method := %s; q_url := %s; q_headers := %s; q_body := %s |}" % (cs(e["method"]), cb(e["url"]), hs, cb(e["body"])))
    return "(ObsSent %s)" % clist(reqs)

def coq_case(j):
    d = j["desc"]
    ops = [coq_op(o, e) for o, e in zip(d["ops"], j["enc"])]
    split = d["split"]
    urls = clist("(%s, %s)" % (copt(k), copt(v)) for k, v in j["urls"])
    return "{| c_api := %s; c_method := %s; c_urls := %s; c_ops1 := %s; c_ops2 := %s; c_obs := %s |}" % (
        "Cmd" if d["api"] == "cmd" else "Cap", cs(d["method"]), urls, clist(ops[:split]), clist(ops[split:]), coq_obs(j))

def case_file(cases):
    t = ["From Coq Require Import List NArith. Import ListNotations. From Crux Require Import Base.Res HttpReq.Model.",
         "Open Scope N_scope.", "Definition cs : list case := ["]
    t.append(";\n".join(coq_case(j) for j in cases))
    t.append("].\nEval vm_compute in (verdicts cs).")
    return "\n".join(t)

def shards(cases, n):
    """balance by size: big bodies make some cases far heavier than others"""
    order = sorted(range(len(cases)), key=lambda i: -len(json.dumps(cases[i])))
    out = [[] for _ in range(n)]
    for k, i in enumerate(order):
        out[k % n].append(cases[i])
    return [s for s in out if s]

def desc_size(j):
    return len(j["desc"]["ops"]) * 1000 + len(json.dumps(j["desc"]))

# ------------------------------------------------------------------ C14
def run_harness(run, bins, name, args, timeout=900):
    rc, out = C.sh("%s %s" % (bins[name], args), timeout=timeout)
    if rc != 0:
        run.oblige("harness-run %s %s" % (name, args[:60]), False, out[-1500:])
        return []
    return [json.loads(l) for l in out.splitlines() if l.startswith("{")]

def check_C14(run, replay=None):
    tier = run.tier
    count = 3000 if tier == "quick" else 50000
    C.proof_stage(run, "C14")
    ok, log, bins = C.harness_build(["httpreq_build"])
    run.oblige("harness-build httpreq_build from %s working tree" % C.REPO, ok, log[-1500:])
    cases = []
    if ok:
        corpus = sorted(glob.glob(os.path.join(CORPUS, "c14_*.jsonl")))
        if replay:
            cases += run_harness(run, bins, "httpreq_build", "--replay " + replay)
        else:
            if corpus:
                cases += run_harness(run, bins, "httpreq_build", "--replay " + " ".join(corpus))
            cases += run_harness(run, bins, "httpreq_build", "%d %d" % (run.seed, count), timeout=1800)
    evaluate_C14(run, cases)
    run.cov["rule"] = ("request descriptions = entry point (9 verb shorthands with a URL string | request(Method, Url) over all 39 methods, "
                       "URLs built from schemes/hosts/ports/paths/queries/fragments incl. unicode, percent-escapes, dot segments, base joins) x call list "
                       "(header as &str/String/&[HeaderValue]/&HeaderValues, mixed-case repeated names, 0..40 calls; content_type; ten body kinds incl. 64 KiB and "
                       "unknown-length readers; query map/struct) x API (command | capability, the latter with request-stage calls append/remove/... made in a "
                       "per-request middleware); every 8th case has one injected defect (bad URL, non-ASCII name or value, bad MIME, refusing encoder). "
                       "A case counts as non-trivial when it has at least one call or is malformed; distinct by description.")
    run.assumptions += ["url crate serialisation (parse, set_query, to_string), serde_json::to_vec, Mime parse/Display are oracles: the harness evaluates them directly on the description (never through crux_http) and the model takes their answers",
                        "form and query-string encodings are computed by an independent encoder in the harness and cross-checked against serde_urlencoded / serde_qs on every case",
                        "a description with non-ASCII header text, an unparsable URL or MIME string is malformed: the documented panic, with nothing sent, is the expected outcome; a refusing encoder is an Err with nothing sent"]
    run.trusted += ["hand-written model coq/HttpReq/Model.v of crux_http request building and of http-types' header map / set_body rule",
                    "harness/src/bin/httpreq_build.rs (plays descriptions through the real APIs inside Command and Core, catch_unwind)",
                    "engines/httpreq_eng.py printer of cases as Coq terms; lib/common.py parser of coqc output"]

def evaluate_C14(run, cases):
    if not cases:
        run.oblige("C14 cases produced", False, "no cases"); return
    disagree = [j for j in cases if any(e.get("oracle_disagree") for e in j["enc"])]
    run.oblige("independent form/query encoder agrees with serde_urlencoded/serde_qs on every case", not disagree,
               json.dumps([j["desc"] for j in disagree[:3]])[:1500])
    nsh = 16 if len(cases) > 200 else 4
    sh = shards(cases, nsh)
    res = C.run_case_files("C14", [case_file(s) for s in sh])
    hist = collections.Counter(); sizes = collections.Counter(); opk = collections.Counter()
    bad_model, bad_ok, gen_bugs, rust_bad = [], [], [], []
    for s, (ok, vals, raw) in zip(sh, res):
        if not ok or len(vals) != 1 or len(vals[0]) != len(s):
            run.oblige("case-evaluation shard", False, raw[-1200:]); continue
        for j, v in zip(s, vals[0]):
            d = j["desc"]
            hist[(j["origin"], d["api"], d["entry"], j["outcome"])] += 1
            sizes[min(len(d["ops"]) // 5 * 5, 40)] += 1
            for o in d["ops"]: opk[o["t"] + (":" + o["kind"] if "kind" in o else "")] += 1
            run.note_case(json.dumps(d, sort_keys=True), nontrivial=bool(d["ops"]) or j["origin"] != "valid")
            run.cov["traces_validated_against_impl"] += 1
            if v == 1: bad_model.append(j)
            elif v == 2: bad_ok.append(j)
            elif v == 9: gen_bugs.append(j)
            elif v == 100: run.known_seen.setdefault("body_replaced_keeps_first_mime", slim(j))
            if v == 0 and not j["rust_ok"]: rust_bad.append(j)
    run.oblige("correspondence model=implementation on %d descriptions" % len(cases), not bad_model and not gen_bugs,
               json.dumps([slim(j) for j in (bad_model + gen_bugs)[:3]])[:3000])
    run.oblige("C14_ok holds on every implementation observation outside known classes", not bad_ok, json.dumps([slim(j) for j in bad_ok[:3]])[:3000])
    run.oblige("second independent description (plain Rust, harness) agrees wherever the Coq verdict is 0", not rust_bad, json.dumps([slim(j) for j in rust_bad[:3]])[:3000])
    if bad_ok:
        bad_ok.sort(key=desc_size)
        run.violation("C14_ok", {"property": "C14", "what": "the request that reached the shell is not the one described (or a malformed description was not rejected)",
                                 "cases": [slim(j, full=True) for j in bad_ok[:20]],
                                 "how_to_replay": "./check C14 --replay <this file>; each case has desc (the calls), enc/urls (oracle answers) and the observed effects; hex fields are bytes"})
    elif bad_model or gen_bugs or rust_bad:
        run.violation("correspondence", {"property": "C14", "what": "model and implementation differ; C14_ok still holds on every implementation observation seen",
                                         "cases": [slim(j, full=True) for j in (bad_model + gen_bugs + rust_bad)[:20]], "broken": "correspondence HttpReq.Model vs crux_http"}, no_input=True)
    run.cov["samples"] = [slim(j) for j in cases[:2] + cases[-2:]]
    run.extra["distribution"] = {"by_origin_api_entry_outcome": {"/".join(k): v for k, v in sorted(hist.items())},
                                 "calls_per_description": {str(k): v for k, v in sorted(sizes.items())}, "call_kinds": dict(opk)}

def slim(j, full=False):
    """a case without megabytes of hex (full=True keeps what a replay needs: the description)"""
    def cut(x):
        if isinstance(x, str) and len(x) > 300: return x[:300] + "...(%d chars)" % len(x)
        if isinstance(x, list): return [cut(y) for y in x]
        if isinstance(x, dict): return {k: cut(v) for k, v in x.items()}
        return x
    if full:
        return {"desc": j["desc"], "outcome": j["outcome"], "msg": j.get("msg", "")[:300], "effects": cut(j["effects"]), "enc": cut(j["enc"]), "urls": cut(j["urls"])}
    return cut({"desc": j["desc"], "outcome": j["outcome"], "effects": j["effects"]})
