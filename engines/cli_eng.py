"""C20 - the CLI's type registry is a pure, closed function of the crate description.
Translator (rustdoc fixtures -> coq/Gen/CliItems_*.v, traced serde schema -> coq/Gen/CliTraced.v),
proof stage, and correspondence of the Coq model Cli/Format.v + Cli/Closure.v with crux_cli::codegen."""
import os, json, collections, hashlib, shutil, re
import common as C

APPS = ["bridge_echo", "cat_facts", "counter", "hello_world", "notes", "simple_counter", "tap_to_pay"]
CAPS = ["crux_core", "crux_http", "crux_kv", "crux_platform", "crux_time"]
SUITE = ["bridge_echo", "cat_facts", "counter", "hello_world", "simple_counter"]   # the fixtures crux_cli's own test runs
FIXTURES = APPS + CAPS

# ---------------------------------------------------------------- JSON (serde-reflection schema) -> Coq terms
PRIMS = {"UNIT": "PUnit", "BOOL": "PBool", "I8": "PI8", "I16": "PI16", "I32": "PI32", "I64": "PI64", "I128": "PI128",
         "U8": "PU8", "U16": "PU16", "U32": "PU32", "U64": "PU64", "U128": "PU128", "F32": "PF32", "F64": "PF64",
         "CHAR": "PChar", "STR": "PStr", "BYTES": "PBytes"}

def cstr(s):
    if any(ord(ch) < 32 or ord(ch) > 126 for ch in s):
        raise ValueError("non-printable character in a name: %r" % s)
    return '"%s"' % s.replace('"', '""')

def clist(xs):
    return "[" + "; ".join(xs) + "]"

def copt(x):
    return "None" if x is None else "(Some %s)" % x

def cN(n):
    return "%d%%N" % int(n)

def cfmt(f):
    if isinstance(f, str):
        return "(FPrim %s)" % PRIMS[f]
    (k, v), = f.items()
    if k == "TYPENAME": return "(FTypeName %s)" % cstr(v)
    if k == "OPTION": return "(FOption %s)" % cfmt(v)
    if k == "SEQ": return "(FSeq %s)" % cfmt(v)
    if k == "MAP": return "(FMap %s %s)" % (cfmt(v["KEY"]), cfmt(v["VALUE"]))
    if k == "TUPLE": return "(FTuple %s)" % clist([cfmt(x) for x in v])
    if k == "TUPLEARRAY": return "(FTupleArray %s %s)" % (cfmt(v["CONTENT"]), cN(v["SIZE"]))
    raise ValueError("unknown format %r" % (f,))

def cnamed(nf, val):
    (n, v), = nf.items()
    return "(%s, %s)" % (cstr(n), val(v))

def cvfmt(v):
    if v == "UNIT": return "VUnit"
    (k, x), = v.items()
    if k == "NEWTYPE": return "(VNewType %s)" % cfmt(x)
    if k == "TUPLE": return "(VTuple %s)" % clist([cfmt(y) for y in x])
    if k == "STRUCT": return "(VStruct %s)" % clist([cnamed(y, cfmt) for y in x])
    raise ValueError("unknown variant format %r" % (v,))

def ccontainer(c):
    if c == "UNITSTRUCT": return "CUnitStruct"
    (k, x), = c.items()
    if k == "NEWTYPESTRUCT": return "(CNewTypeStruct %s)" % cfmt(x)
    if k == "TUPLESTRUCT": return "(CTupleStruct %s)" % clist([cfmt(y) for y in x])
    if k == "STRUCT": return "(CStruct %s)" % clist([cnamed(y, cfmt) for y in x])
    if k == "ENUM": return "(CEnum %s)" % clist(["(%s, %s)" % (cN(i), cnamed(nv, cvfmt)) for i, nv in x.items()])
    raise ValueError("unknown container %r" % (c,))

def cregistry(reg):
    """reg: JSON object in the implementation's own (BTreeMap) iteration order."""
    return clist(["(%s, %s)" % (cstr(k), ccontainer(v)) for k, v in reg.items()])

def ccontainers(cs):
    return clist(["(%s, %s)" % (cstr(k), ccontainer(v)) for k, v in cs])

def ckind(k):
    if isinstance(k, str):
        return {"StructUnit": "KStructUnit", "VariantPlain": "KVariantPlain", "Field": "KField", "Other": "KOther"}[k]
    (n, ids), = k.items()
    return "(K%s %s)" % (n, clist([cN(i) for i in ids]))

HEADER = ("From Coq Require Import List String NArith.\nFrom Crux Require Import Cli.Format Cli.Pipeline.\n"
          "Import ListNotations.\nOpen Scope string_scope.\n")

def wire_names(d):
    """wire name of each item = field_name/variant_name computed by the CLI against the parent it hangs
    under in the edge relation; a child with two different wire names would make the item-level dump
    ambiguous (reported)."""
    wire, clash = {}, []
    for e in d["edges"]:
        if e["has_field"] or e["has_variant"]:
            w = e["wire_name"]
            if e["to"] in wire and wire[e["to"]] != w:
                clash.append((e["to"], wire[e["to"]], w))
            wire[e["to"]] = w
    return wire, clash

def canonical(d):
    """The dump with items sorted by (crate, id) and every relation sorted: the order in which the code
    happened to intern them depends on hash iteration order; the generated file should only change
    when the description or the code changes."""
    order = sorted(range(len(d["items"])), key=lambda i: (d["items"][i]["crate_"], d["items"][i]["id"]))
    new = {old: k for k, old in enumerate(order)}
    c = dict(d)
    c["items"] = [d["items"][i] for i in order]
    c["edges"] = sorted(({**e, "from": new[e["from"]], "to": new[e["to"]]} for e in d["edges"]), key=lambda e: (e["from"], e["to"]))
    c["root"] = sorted(new[i] for i in d["root"])
    for r in ("field", "variant", "local_type_of"):
        c[r] = sorted((new[a], new[b]) for a, b in d[r])
    c["containers"] = sorted(d["containers"], key=lambda kc: (kc[0], json.dumps(kc[1], sort_keys=True)))
    return c

def items_file(d):
    """The Coq source for one fixture dump."""
    d = canonical(d)
    name = d["fixture"]
    wire, clash = wire_names(d)
    out = ["(* GENERATED on every run by engines/cli_eng.py from crux_cli::codegen::verif::verif_run(%s): do not edit. *)" % name, HEADER]
    todo = []
    for i, it in enumerate(d["items"]):
        f = it["format"]
        if f is None: fm = "None"
        elif "Ok" in f: fm = "(Some %s)" % cfmt(f["Ok"])
        else: fm = "(Some FTodo)"; todo.append(i)
        rg = copt(ccontainer(it["range"]) if it["range"] is not None else None)
        out.append("Definition i%d : item := mkItem (%s, %s) %s %s %s %s %s %s." % (
            i, cstr(it["crate_"]), cN(it["id"]), copt(cstr(it["name"]) if it["name"] is not None else None), ckind(it["kind"]),
            "true" if it["skip"] else "false", copt(cstr(wire[i]) if wire.get(i) is not None else None), fm, rg))
    pair = lambda a, b: "(i%d, i%d)" % (a, b)
    out.append("Definition items : list item := %s." % clist(["i%d" % i for i in range(len(d["items"]))]))
    out.append("Definition edge_list : edges := %s." % clist([pair(e["from"], e["to"]) for e in d["edges"]]))
    out.append("Definition edge_flags : list (bool * bool) := %s." % clist(
        ["(%s, %s)" % ("true" if e["has_field"] else "false", "true" if e["has_variant"] else "false") for e in d["edges"]]))
    out.append("Definition f_root : list item := %s." % clist(["i%d" % i for i in d["root"]]))
    out.append("Definition f_field : edges := %s." % clist([pair(a, b) for a, b in d["field"]]))
    out.append("Definition f_variant : edges := %s." % clist([pair(a, b) for a, b in d["variant"]]))
    out.append("Definition f_type : edges := %s." % clist([pair(a, b) for a, b in d["local_type_of"]]))
    out.append("Definition the_dump : dump := mkDump items f_root f_field f_variant f_type.")
    out.append("Definition crates : list string := %s." % clist([cstr(c) for c in sorted({it["crate_"] for it in d["items"]})]))
    out.append("Definition real_containers : list (string * container) := %s." % ccontainers(d["containers"]))
    out.append("Definition real_registry : registry := %s." % cregistry(d["result"]["ok"]))
    return "\n".join(out) + "\n", clash, todo

def traced_file(traces):
    out = ["(* GENERATED on every run by engines/cli_eng.py from crux_core::typegen::TypeGen (serde-reflection) on the real serde impls: do not edit. *)", HEADER]
    for t in traces:
        out.append("Definition traced_%s : registry := %s." % (t["crate"], cregistry(t["result"]["ok"])))
    return "\n".join(out) + "\n"

def write_if_changed(path, text):
    old = open(path).read() if os.path.exists(path) else None
    if old != text:
        os.makedirs(os.path.dirname(path), exist_ok=True)
        tmp = path + ".tmp"
        open(tmp, "w").write(text)
        os.replace(tmp, path)
        return True
    return False
