"""C20 - the CLI's type registry is a pure, closed function of the crate description.
Translator (rustdoc fixtures -> coq/Gen/CliItems_*.v, traced serde schema -> coq/Gen/CliTraced.v),
proof stage, and correspondence of the Coq model Cli/Format.v + Cli/Closure.v with crux_cli::codegen."""
import os, json, collections, hashlib, shutil, re
import common as C

APPS = ["bridge_echo", "cat_facts", "counter", "hello_world", "notes", "simple_counter", "tap_to_pay"]
CAPS = ["crux_core", "crux_http", "crux_kv", "crux_platform", "crux_time"]
SUITE = ["bridge_echo", "cat_facts", "counter", "hello_world", "simple_counter"]   # the fixtures crux_cli's own test runs
FIXTURES = APPS + CAPS

# ---------------------------------------------------------------- JSON (serde-reflection schema) -> Coq terms
PRIMS = {"UNIT": "PUnit", "BOOL": "PBool", "I8": "PI8", "I16": "PI16", "I32": "PI32", "I64": "PI64", "I128": "PI128",
         "U8": "PU8", "U16": "PU16", "U32": "PU32", "U64": "PU64", "U128": "PU128", "F32": "PF32", "F64": "PF64",
         "CHAR": "PChar", "STR": "PStr", "BYTES": "PBytes"}

def cstr(s):
    if any(ord(ch) < 32 or ord(ch) > 126 for ch in s):
        raise ValueError("non-printable character in a name: %r" % s)
    return '"%s"' % s.replace('"', '""')

def clist(xs):
    return "[" + "; ".join(xs) + "]"

def copt(x):
    return "None" if x is None else "(Some %s)" % x

def cN(n):
    return "%d%%N" % int(n)

def cfmt(f):
    if isinstance(f, str):
        return "(FPrim %s)" % PRIMS[f]
    (k, v), = f.items()
    if k == "TYPENAME": return "(FTypeName %s)" % cstr(v)
    if k == "OPTION": return "(FOption %s)" % cfmt(v)
    if k == "SEQ": return "(FSeq %s)" % cfmt(v)
    if k == "MAP": return "(FMap %s %s)" % (cfmt(v["KEY"]), cfmt(v["VALUE"]))
    if k == "TUPLE": return "(FTuple %s)" % clist([cfmt(x) for x in v])
    if k == "TUPLEARRAY": return "(FTupleArray %s %s)" % (cfmt(v["CONTENT"]), cN(v["SIZE"]))
    raise ValueError("unknown format %r" % (f,))

def cnamed(nf, val):
    (n, v), = nf.items()
    return "(%s, %s)" % (cstr(n), val(v))

def cvfmt(v):
    if v == "UNIT": return "VUnit"
    (k, x), = v.items()
    if k == "NEWTYPE": return "(VNewType %s)" % cfmt(x)
    if k == "TUPLE": return "(VTuple %s)" % clist([cfmt(y) for y in x])
    if k == "STRUCT": return "(VStruct %s)" % clist([cnamed(y, cfmt) for y in x])
    raise ValueError("unknown variant format %r" % (v,))

def ccontainer(c):
    if c == "UNITSTRUCT": return "CUnitStruct"
    (k, x), = c.items()
    if k == "NEWTYPESTRUCT": return "(CNewTypeStruct %s)" % cfmt(x)
    if k == "TUPLESTRUCT": return "(CTupleStruct %s)" % clist([cfmt(y) for y in x])
    if k == "STRUCT": return "(CStruct %s)" % clist([cnamed(y, cfmt) for y in x])
    if k == "ENUM": return "(CEnum %s)" % clist(["(%s, %s)" % (cN(i), cnamed(nv, cvfmt)) for i, nv in x.items()])
    raise ValueError("unknown container %r" % (c,))

def cregistry(reg):
    """reg: JSON object in the implementation's own (BTreeMap) iteration order."""
    return clist(["(%s, %s)" % (cstr(k), ccontainer(v)) for k, v in reg.items()])

def ccontainers(cs):
    return clist(["(%s, %s)" % (cstr(k), ccontainer(v)) for k, v in cs])

def ckind(k):
    if isinstance(k, str):
        return {"StructUnit": "KStructUnit", "VariantPlain": "KVariantPlain", "Field": "KField", "Other": "KOther"}[k]
    (n, ids), = k.items()
    return "(K%s %s)" % (n, clist([cN(i) for i in ids]))

HEADER = ("From Coq Require Import List String NArith.\nFrom Crux Require Import Cli.Format Cli.Pipeline.\n"
          "Import ListNotations.\nOpen Scope string_scope.\n")

def wire_names(d):
    """wire name of each item = field_name/variant_name computed by the CLI against the parent it hangs
    under in the edge relation; a child with two different wire names would make the item-level dump
    ambiguous (reported)."""
    wire, clash = {}, []
    for e in d["edges"]:
        if e["has_field"] or e["has_variant"]:
            w = e["wire_name"]
            if e["to"] in wire and wire[e["to"]] != w:
                clash.append((e["to"], wire[e["to"]], w))
            wire[e["to"]] = w
    return wire, clash

def canonical(d):
    """The dump with items sorted by (crate, id) and every relation sorted: the order in which the code
    happened to intern them depends on hash iteration order; the generated file should only change
    when the description or the code changes."""
    order = sorted(range(len(d["items"])), key=lambda i: (d["items"][i]["crate_"], d["items"][i]["id"]))
    new = {old: k for k, old in enumerate(order)}
    c = dict(d)
    c["items"] = [d["items"][i] for i in order]
    c["edges"] = sorted(({**e, "from": new[e["from"]], "to": new[e["to"]]} for e in d["edges"]), key=lambda e: (e["from"], e["to"]))
    c["root"] = sorted(new[i] for i in d["root"])
    for r in ("field", "variant", "local_type_of"):
        c[r] = sorted((new[a], new[b]) for a, b in d[r])
    c["containers"] = sorted(d["containers"], key=lambda kc: (kc[0], json.dumps(kc[1], sort_keys=True)))
    return c

def dump_defs(d, px=""):
    """Coq definitions for one dump (already canonical); every name gets the prefix px."""
    wire, clash = wire_names(d)
    out, todo = [], []
    for i, it in enumerate(d["items"]):
        f = it["format"]
        if f is None: fm = "None"
        elif "Ok" in f: fm = "(Some %s)" % cfmt(f["Ok"])
        else: fm = "(Some FTodo)"; todo.append(i)
        rg = copt(ccontainer(it["range"]) if it["range"] is not None else None)
        out.append("Definition %si%d : item := mkItem (%s, %s) %s %s %s %s %s %s %s." % (
            px, i, cstr(it["crate_"]), cN(it["id"]), copt(cstr(it["name"]) if it["name"] is not None else None),
            copt(cstr(it["raw_name"]) if it["raw_name"] is not None else None), ckind(it["kind"]),
            "true" if it["skip"] else "false", copt(cstr(wire[i]) if wire.get(i) is not None else None), fm, rg))
    I = lambda i: "%si%d" % (px, i)
    pair = lambda a, b: "(%s, %s)" % (I(a), I(b))
    out.append("Definition %sitems : list item := %s." % (px, clist([I(i) for i in range(len(d["items"]))])))
    out.append("Definition %sedge_list : edges := %s." % (px, clist([pair(e["from"], e["to"]) for e in d["edges"]])))
    out.append("Definition %sedge_flags : list (bool * bool) := %s." % (px, clist(
        ["(%s, %s)" % ("true" if e["has_field"] else "false", "true" if e["has_variant"] else "false") for e in d["edges"]])))
    out.append("Definition %sf_root : list item := %s." % (px, clist([I(i) for i in d["root"]])))
    out.append("Definition %sf_field : edges := %s." % (px, clist([pair(a, b) for a, b in d["field"]])))
    out.append("Definition %sf_variant : edges := %s." % (px, clist([pair(a, b) for a, b in d["variant"]])))
    out.append("Definition %sf_type : edges := %s." % (px, clist([pair(a, b) for a, b in d["local_type_of"]])))
    out.append("Definition %sthe_dump : dump := mkDump %sitems %sf_root %sf_field %sf_variant %sf_type." % ((px,) * 6))
    out.append("Definition %scrates : list string := %s." % (px, clist([cstr(c) for c in sorted({it["crate_"] for it in d["items"]})])))
    out.append("Definition %sreal_containers : list (string * container) := %s." % (px, ccontainers(d["containers"])))
    out.append("Definition %sreal_registry : registry := %s." % (px, cregistry(d["result"]["ok"])))
    return out, clash, todo

def items_file(d):
    """The Coq source for one fixture dump."""
    d = canonical(d)
    out, clash, todo = dump_defs(d)
    head = ["(* GENERATED on every run by engines/cli_eng.py from crux_cli::codegen::verif::verif_run(%s): do not edit. *)" % d["fixture"], HEADER]
    return "\n".join(head + out) + "\n", clash, todo

def traced_file(traces):
    out = ["(* GENERATED on every run by engines/cli_eng.py from crux_core::typegen::TypeGen (serde-reflection) on the real serde impls: do not edit. *)", HEADER]
    for t in traces:
        out.append("Definition traced_%s : registry := %s." % (t["crate"], cregistry(t["result"]["ok"])))
    return "\n".join(out) + "\n"

def write_if_changed(path, text):
    old = open(path).read() if os.path.exists(path) else None
    if old != text:
        os.makedirs(os.path.dirname(path), exist_ok=True)
        tmp = path + ".tmp"
        open(tmp, "w").write(text)
        os.replace(tmp, path)
        return True
    return False

# ---------------------------------------------------------------- the check
KNOWN_BITS = [(1, "request_without_effect"), (2, "name_collision"), (4, "childless_enum_undefined"),
              (8, "nested_range_undefined"), (16, "renamed_type_reference")]

CASE_HEADER = ("From Coq Require Import List String NArith Bool.\nFrom Crux Require Import Cli.Format Cli.Pipeline.\n"
               "From Crux Require %s Gen.CliTraced.\nImport ListNotations.\nOpen Scope string_scope.\n"
               % " ".join("Gen.CliItems_%s" % f for f in FIXTURES))

def use_alt_coq_tree():
    """With VERIF_REPO the regenerated Gen files must not overwrite the ones of the main tree: work on a
    copy of coq/ under .cache/alt/<hash>/coq (timestamps kept, so the build stays incremental)."""
    if C.ALT and not C.COQ.startswith(C.ALT):
        dst = os.path.join(C.ALT, "coq")
        os.makedirs(dst, exist_ok=True)
        with C.Lock("coq"):
            C.sh("rsync -a --delete %s/ %s/" % (os.path.join(C.ROOT, "coq"), dst))
        C.COQ = dst

def jhash(x):
    return hashlib.sha1(json.dumps(x, sort_keys=False).encode()).hexdigest()[:12]

class RegTable:
    """Distinct observed registries, each defined once in a case file."""
    def __init__(self):
        self.by_hash, self.defs = {}, []
    def name(self, reg):
        h = jhash(reg)
        if h not in self.by_hash:
            self.by_hash[h] = "r%d" % len(self.defs)
            self.defs.append("Definition r%d : registry := %s." % (len(self.defs), cregistry(reg)))
        return self.by_hash[h]

def obs_term(tab, result):
    return "(Some %s)" % tab.name(result["ok"]) if "ok" in result else "None"

def run_harness(binp, args, timeout=2400):
    rc, out = C.sh("%s %s" % (binp, args), timeout=timeout)
    rows = []
    for l in out.splitlines():
        if l.startswith("{"):
            try: rows.append(json.loads(l))
            except ValueError: pass
    return rc, rows, out

# ---------------------------------------------------------------- shrinking of a failing synthetic case
def _map_ty(t, f):
    """Apply f to every Local index inside a spec type; f returns a replacement Ty or None (keep)."""
    if isinstance(t, dict):
        (k, v), = t.items()
        if k == "Local":
            r = f(v)
            return t if r is None else r
        if k in ("Opt", "Vec"): return {k: _map_ty(v, f)}
        if k == "Tuple": return {k: [_map_ty(x, f) for x in v]}
    return t

def _fields_of(body):
    if isinstance(body, dict):
        (k, v), = body.items()
        if k in ("Plain", "Tuple"): return [v]
        if k == "Enum":
            out = []
            for var in v:
                b = var["body"]
                if isinstance(b, dict):
                    (_, fs), = b.items(); out.append(fs)
            return out
    return []

def _drop_type(spec, i):
    """Remove type i (>= 2): references become u8, effect entries mentioning it go, indices shift."""
    sp = json.loads(json.dumps(spec))
    def f(j):
        if j == i: return {"Prim": "u8"}
        if j > i: return {"Local": j - 1}
        return None
    del sp["types"][i]
    for t in sp["types"]:
        for fs in _fields_of(t["body"]):
            for fld in fs: fld["ty"] = _map_ty(fld["ty"], f)
    if sp["effect"] is not None:
        sp["effect"] = [[a - (a > i), b - (b > i)] for a, b in sp["effect"] if a != i and b != i]
    return sp

def spec_candidates(spec):
    """Smaller specs, most aggressive first."""
    if spec["effect"]:
        sp = json.loads(json.dumps(spec)); sp["effect"] = None; yield sp
        for k in range(len(spec["effect"])):
            sp = json.loads(json.dumps(spec)); del sp["effect"][k]; yield sp
    for i in range(len(spec["types"]) - 1, 1, -1):
        yield _drop_type(spec, i)
    for i, t in enumerate(spec["types"]):
        body = t["body"]
        if isinstance(body, dict):
            (k, v), = body.items()
            for j in range(len(v)):
                if len(v) > 1 or i > 1:
                    sp = json.loads(json.dumps(spec)); del sp["types"][i]["body"][k][j]; yield sp
            if k == "Enum":
                for j, var in enumerate(v):
                    if isinstance(var["body"], dict):
                        sp = json.loads(json.dumps(spec)); sp["types"][i]["body"][k][j]["body"] = "Plain"; yield sp
        for key in ("rename", "rename_all"):
            if t.get(key) is not None:
                sp = json.loads(json.dumps(spec)); sp["types"][i][key] = None; yield sp
    for i, t in enumerate(spec["types"]):
        for n, fs in enumerate(_fields_of(t["body"])):
            for j, fld in enumerate(fs):
                for key, val in (("skip", False), ("rename", None), ("bytes", False)):
                    if fld.get(key):
                        sp = json.loads(json.dumps(spec)); _fields_of(sp["types"][i]["body"])[n][j][key] = val; yield sp
                if fld["ty"] != {"Prim": "u8"} and not (isinstance(fld["ty"], dict) and "Local" in fld["ty"]):
                    sp = json.loads(json.dumps(spec)); _fields_of(sp["types"][i]["body"])[n][j]["ty"] = {"Prim": "u8"}; yield sp

def synth_entry(c, px):
    """(coq term, definitions) for one synthetic row; None when the untransformed run failed."""
    if "ok" not in c["result"] or "items" not in c:
        return None
    defs, clash, todo = dump_defs(canonical(c), px)
    obs = []
    for j, r in enumerate(c["runs"]):
        if "ok" not in r["result"]: obs.append("None")
        elif r["result"]["ok"] == c["result"]["ok"]: obs.append("(Some %sreal_registry)" % px)
        else:
            defs.append("Definition %so%d : registry := %s." % (px, j, cregistry(r["result"]["ok"])))
            obs.append("(Some %so%d)" % (px, j))
    defs.append("Definition %sserde : registry := %s." % (px, cregistry(c.get("serde_expected", {}))))
    return ("verdict_synth %sthe_dump %sedge_list %sedge_flags %sreal_registry %sserde %scrates %s" % (px, px, px, px, px, px, clist(obs)), defs)

def shrink_synth(binp, case, budget=40):
    """Greedy delta-debugging over the generator's spec: keep a smaller spec while the verdict stays 2."""
    d = os.path.join(C.ALT or C.CACHE, "shrink-cli"); os.makedirs(d, exist_ok=True)
    k = int(case.get("runs_requested", 3)) + (9 if case.get("ambiguous_names") else 0)
    def verdict_of(spec):
        fp = os.path.join(d, "spec.json"); json.dump(spec, open(fp, "w"))
        rc, rows, _ = run_harness(binp, "synth-spec %s %d %s" % (fp, k, case["case_seed"]), timeout=120)
        if rc != 0 or not rows: return None, None
        ent = synth_entry(rows[0], "z_")
        if ent is None: return None, rows[0]
        text = "\n".join([CASE_HEADER] + ent[1] + ["Eval vm_compute in ([%s] : list N)." % ent[0]])
        fv = os.path.join(d, "probe.v"); open(fv, "w").write(text)
        rc, out = C.sh("coqc -noglob -Q %s Crux %s" % (C.COQ, fv), timeout=300, cwd=d)
        m = re.search(r"=\s*\[([^\]]*)\]", out)
        return (int(re.sub(r"%N", "", m.group(1)).strip()) if rc == 0 and m and m.group(1).strip() else None), rows[0]
    best, best_row, probes = case["spec"], None, 0
    progress = True
    while progress and probes < budget:
        progress = False
        for cand in spec_candidates(best):
            if probes >= budget: break
            probes += 1
            v, row = verdict_of(cand)
            if v == 2:
                best, best_row, progress = cand, row, True
                break
    return best, best_row, probes

def run_harness_chunks(binp, mode, seed, count, extra="", nproc=1):
    """Several harness processes with seeds derived from the run seed (thorough tier)."""
    if nproc <= 1:
        return run_harness(binp, "%s %d %d %s" % (mode, seed, count, extra))
    from concurrent.futures import ThreadPoolExecutor
    per = (count + nproc - 1) // nproc
    with ThreadPoolExecutor(max_workers=nproc) as ex:
        parts = list(ex.map(lambda i: run_harness(binp, "%s %d %d %s" % (mode, seed + 7919 * i, per, extra)), range(nproc)))
    rows = []
    for i, (rc, rs, out) in enumerate(parts):
        for r in rs: r["chunk"] = i
        rows += rs
    return max(p[0] for p in parts), rows[:count] if len(rows) >= count else rows, "\n".join(p[2][-400:] for p in parts if p[0])

def check_C20(run, replay=None):
    tier = run.tier
    n_transform = 300 if tier == "quick" else 5000
    n_edges = 240 if tier == "quick" else 3000
    n_synth, k_synth = (90, 3) if tier == "quick" else (1500, 5)
    use_alt_coq_tree()
    ok, log, bins = C.harness_build(["cli_codegen"], crate="harness_cli")
    run.oblige("harness-build cli_codegen (crux_cli + capability crates from the working tree, --cfg crux_verif)", ok, log[-2500:])
    if not ok:
        # the hook or the API it drives no longer compiles: nothing can be regenerated
        C.proof_stage(run, "C20")
        return
    binp = bins["cli_codegen"]

    # ---- translator: regenerate coq/Gen from the current code
    rc, dumps, out = run_harness(binp, "dump")
    rc2, traces, out2 = run_harness(binp, "trace")
    dumps = {d["fixture"]: d for d in dumps if d.get("kind") == "dump"}
    traces = {t["crate"]: t for t in traces if t.get("kind") == "trace"}
    good = rc == 0 and all(f in dumps and "ok" in dumps[f]["result"] and "items" in dumps[f] for f in FIXTURES)
    run.oblige("translator: verif_run succeeds on the %d bundled descriptions" % len(FIXTURES), good,
               out[-1200:] if not good else "")
    goodt = rc2 == 0 and all(c in traces and "ok" in traces[c]["result"] for c in CAPS)
    run.oblige("translator: TypeGen traces the protocol types of %s" % ", ".join(CAPS), goodt, json.dumps(list(traces.values()))[:1200] if not goodt else "")
    if not (good and goodt):
        failing = [{"fixture": f, "result": dumps.get(f, {}).get("result")} for f in FIXTURES if not (f in dumps and "ok" in dumps[f]["result"])]
        run.violation("translator", {"property": "C20", "what": "codegen run fails or panics on a bundled description / tracing fails",
                                     "cases": failing, "traces": [t for t in traces.values() if "ok" not in t["result"]]})
        return
    canon = {f: canonical(dumps[f]) for f in FIXTURES}
    clashes, todos = {}, {}
    with C.Lock("coq"):
        for f in FIXTURES:
            txt, clash, todo = items_file(dumps[f])
            if clash: clashes[f] = clash
            write_if_changed(os.path.join(C.COQ, "Gen", "CliItems_%s.v" % f), txt)
        write_if_changed(os.path.join(C.COQ, "Gen", "CliTraced.v"), traced_file([traces[c] for c in CAPS]))
    run.oblige("translator: one wire name per dumped field/variant", not clashes, json.dumps(clashes)[:600])
    suite_ok = [f for f in SUITE if dumps[f]["expected"] == dumps[f]["result"]["ok"]]
    run.oblige("the five descriptions crux_cli's own test runs give the expected.json registry", len(suite_ok) == len(SUITE),
               "differs: %s" % [f for f in SUITE if f not in suite_ok])

    # ---- proofs (after regeneration: Properties/C20.v states theorems about the regenerated terms)
    proofs_ok = C.proof_stage(run, "C20")

    # ---- correspondence runs
    cases = []
    if replay:
        rp = json.load(open(replay))
        for c in rp.get("cases", []):
            if c.get("kind") == "transform":
                rc, rows, _ = run_harness(binp, "transform-one %s %s %d" % (c["fixture"], c["case_seed"], 1 if c.get("identity") else 0))
                cases += rows
            elif c.get("kind") == "synth":
                rc, rows, _ = run_harness(binp, "synth-one %s %d" % (c["case_seed"], int(c.get("runs_requested", 3))))
                cases += rows
        tr_rows = [c for c in cases if c.get("kind") == "transform"]
        sy_rows = [c for c in cases if c.get("kind") == "synth"]
        ed_rows = []
    else:
        # corpus first: past disagreements and the real-code replays of the known classes
        corpus_rows = []
        cp = os.path.join(C.ROOT, "corpus", "cli", "cases.jsonl")
        if os.path.exists(cp):
            for l in open(cp):
                if not l.strip(): continue
                c = json.loads(l)
                if c["kind"] == "synth":
                    rc, rows, _ = run_harness(binp, "synth-one %s %d" % (c["case_seed"], int(c.get("runs_requested", 3))))
                elif c["kind"] == "spec":
                    fp = os.path.join(C.ALT or C.CACHE, "corpus-spec-cli.json"); json.dump(c["spec"], open(fp, "w"))
                    rc, rows, _ = run_harness(binp, "synth-spec %s %d %s" % (fp, int(c.get("k", 3)), c.get("seed", "1")))
                else:
                    rc, rows, _ = run_harness(binp, "transform-one %s %s %d" % (c["fixture"], c["case_seed"], 1 if c.get("identity") else 0))
                for r in rows: r["corpus"] = True
                corpus_rows += rows
        nproc = 1 if tier == "quick" else 5
        rc, sy_rows, out = run_harness_chunks(binp, "synth", run.seed, n_synth, str(k_synth), nproc)
        run.oblige("harness-run synth (%d synthetic descriptions x %d transformed runs)" % (n_synth, k_synth), rc == 0 and len(sy_rows) == n_synth, out[-800:] if rc else "")
        rc, tr_rows, out = run_harness_chunks(binp, "transform", run.seed, n_transform, "", nproc)
        run.oblige("harness-run transform (%d cases)" % n_transform, rc == 0 and len(tr_rows) == n_transform, out[-800:] if rc else "")
        rc, ed_rows, out = run_harness_chunks(binp, "edges", run.seed, n_edges, "", nproc)
        run.oblige("harness-run edges (%d cases)" % n_edges, rc == 0 and len(ed_rows) == n_edges, out[-800:] if rc else "")
        sy_rows = [c for c in corpus_rows if c.get("kind") == "synth"] + sy_rows
        tr_rows = tr_rows + [c for c in corpus_rows if c.get("kind") == "transform"]
        run.extra["corpus_cases"] = len(corpus_rows)

    base = {f: dumps[f]["result"]["ok"] for f in FIXTURES}
    # entries: (kind, payload, coq term producing the verdict)
    entries = []
    for f in FIXTURES:
        m = "CliItems_%s" % f
        entries.append(("fixture", {"kind": "fixture", "fixture": f, "registry": base[f]},
                        "verdict_fixture %s %s.the_dump %s.edge_list %s.edge_flags %s.real_registry %s.crates" % ("true" if f in APPS else "false", m, m, m, m, m), []))
    for c in CAPS:
        m = "CliItems_%s" % c
        entries.append(("trace", {"kind": "trace", "crate": c, "cli": base[c], "traced": traces[c]["result"]["ok"]},
                        "verdict_trace %s.edge_list %s.real_registry CliTraced.traced_%s" % (m, m, c), []))
    tab = RegTable()
    for c in tr_rows:
        m = "CliItems_%s" % c["fixture"]
        entries.append(("transform", c, "verdict_transform (format %s.edge_list) %s.real_registry %s" % (m, m, obs_term(tab, c["result"])), []))
    edge_index = {f: {(canon[f]["items"][e["from"]]["crate_"], canon[f]["items"][e["from"]]["id"],
                       canon[f]["items"][e["to"]]["crate_"], canon[f]["items"][e["to"]]["id"]): k
                      for k, e in enumerate(canon[f]["edges"])} for f in FIXTURES}
    for c in ed_rows:
        f = c["fixture"]; m = "CliItems_%s" % f
        picks = [edge_index[f][tuple(p)] for p in c["pick_edges"]]
        c["picks"] = picks
        entries.append(("edges", c, "verdict_edges %s.edge_list %s.real_registry %s %s" % (m, m, clist([str(p) for p in picks]), obs_term(tab, c["result"])), []))
    invalid_synth = []
    for n, c in enumerate(sy_rows):
        ent = synth_entry(c, "s%d_" % n)
        if ent is None:
            invalid_synth.append(c); continue
        entries.append(("synth", c, ent[0], ent[1]))

    nsh = 16 if len(entries) > 64 else 4
    shards = [entries[i::nsh] for i in range(nsh)]
    texts = []
    for sh in shards:
        t = [CASE_HEADER] + tab.defs
        for e in sh: t += e[3]
        t.append("Eval vm_compute in (%s : list N)." % clist(["(%s)" % e[2] for e in sh]))
        texts.append("\n".join(t))
    res = C.run_case_files("C20", texts, timeout=2400)

    classes = collections.Counter()
    hist = collections.Counter(); load_orders = collections.defaultdict(set); styles = collections.Counter()
    bad_ok, bad_model, lossy = [], [], []
    for sh, (ok, vals, raw) in zip(shards, res):
        if not ok or len(vals) != 1 or len(vals[0]) != len(sh):
            run.oblige("case-evaluation shard", False, raw[-1200:]); continue
        for (kind, c, _, _), v in zip(sh, vals[0]):
            hist[kind] += 1
            key = (kind, c.get("fixture", c.get("crate")), c.get("case_seed"), tuple(c.get("picks", [])))
            run.note_case(key, nontrivial=not c.get("identity", False))
            run.cov["traces_validated_against_impl"] += 1
            if kind == "transform":
                load_orders[c["fixture"]].add(tuple(c["load_order"]))
                for cr, op in c["ops"].items():
                    styles["id_style_%d" % op["id_style"]] += 1
                    if op["shuffle_maps"]: styles["shuffled_maps"] += 1
                    if op["crate_mul"] != 1: styles["crate_numbers_renamed"] += 1
                same_json = c["result"].get("ok") == base[c["fixture"]]
                # the translator must not blur a difference: JSON comparison and Coq verdict agree
                if same_json != (v in (0, 1) or 100 < v < 132):
                    lossy.append({"case": c, "verdict": v, "json_equal": same_json})
                if c["ambiguous_names"]:
                    bad_ok.append({**c, "why": "two different containers share a name: the collected map depends on the visiting order"})
            if kind == "edges":
                styles["edges_style_%d" % c["style"]] += 1
            if v == 2: bad_ok.append({**c, "verdict": 2})
            elif v == 1: bad_model.append({**c, "verdict": 1})
            elif 100 < v < 132:
                for bitv, cls in KNOWN_BITS:
                    if (v - 100) & bitv:
                        run.known_seen.setdefault(cls, {"kind": kind, "fixture": c.get("fixture", c.get("crate")), "case_seed": c.get("case_seed"),
                                                        "replay": ("cli_codegen synth-one %s %s" % (c.get("case_seed"), c.get("runs_requested"))) if kind == "synth" else "capability crate as root"})
                        classes[cls] += 1
            elif v != 0: bad_model.append({**c, "verdict": v})
            if kind == "synth":
                styles["synth_types_%d" % len(c["spec"]["types"])] += 1
                styles["synth_with_dep" if c["spec"]["has_dep"] else "synth_single_crate"] += 1
                styles["synth_loaded_%d_crates" % len(c["load_order"])] += 1
                if any(r["result"] != c["result"] for r in c["runs"]): styles["synth_order_dependent_result_seen"] += 1
    run.oblige("translator is not lossy: JSON equality of registries agrees with the Coq verdicts", not lossy, json.dumps(lossy[:2])[:800])
    run.oblige("correspondence: Formatter/closure models = implementation (%d fixtures, %d edge multisets, %d transformed descriptions, %d traced crates)"
               % (hist["fixture"], hist["edges"], hist["transform"], hist["trace"]), not bad_model, json.dumps(bad_model[:2])[:1200])
    run.oblige("C20_ok on every registry the implementation returned, outside known classes", not bad_ok, json.dumps(bad_ok[:2])[:1200])
    run.oblige("synthetic descriptions: the untransformed run succeeds (generator validity)", len(invalid_synth) * 20 <= max(1, len(sy_rows)),
               json.dumps([{k: c.get(k) for k in ("case_seed", "result")} for c in invalid_synth[:3]])[:800])
    slim = lambda c: {k: v for k, v in c.items() if k not in ("items", "edges", "root", "field", "variant", "local_type_of", "containers", "picks")}
    size = lambda c: len(json.dumps(c.get("spec", c.get("pick_edges", ""))))
    bad_ok.sort(key=size); bad_model.sort(key=size)
    shrunk = None
    first_synth = next((c for c in bad_ok if c.get("kind") == "synth" and c.get("verdict") == 2), None)
    if first_synth is not None:
        try:
            spec, row, probes = shrink_synth(binp, first_synth)
            shrunk = {"spec": spec, "probes": probes, "types": len(spec["types"]),
                      "result": (row or {}).get("result"), "serde_expected": (row or {}).get("serde_expected"),
                      "runs": [(r.get("result")) for r in (row or {}).get("runs", [])][:3],
                      "how_to_run": "write spec to a file; harness_cli cli_codegen synth-spec <file> <k> %s" % first_synth["case_seed"]}
        except Exception as ex:
            shrunk = {"error": repr(ex)}
    if bad_ok:
        run.violation("C20_ok", {"property": "C20", "what": "registry differs from the untransformed description's / is not closed / variant indices not contiguous / differs from the traced serde schema",
                                 "cases": [slim(c) for c in bad_ok[:10]], "shrunk_first_synthetic_case": shrunk,
                                 "how_to_replay": "./check C20 --replay <this file> re-runs each transform case (fixture, case_seed) / synthetic case (case_seed) on the current tree: harness_cli cli_codegen transform-one <fixture> <case_seed> <identity> | synth-one <case_seed> <k>"})
    elif bad_model:
        run.violation("correspondence", {"property": "C20", "what": "model and implementation differ; C20_ok still holds on all implementation results seen",
                                         "cases": [slim(c) for c in bad_model[:10]], "broken": "correspondence Cli/Format.v + Cli/Closure.v vs crux_cli::codegen"}, no_input=True)
    run.cov["rule"] = ("every bundled rustdoc description (7 apps + 5 capability crates, each as root) x {identity, random per-crate transformation = injective id renumbering "
                       "(affine mod 2^32 / xor / dense permutation) through a serde adapter on the Id newtype + external crate renumbering + shuffled JSON map orders}; the dependent crates are "
                       "loaded in whatever order run() asks (hash order varies per run, orders seen are recorded); plus the real format() on permuted sub-multisets of each description's edges "
                       "(permutation / subset / one edge dropped / duplicates / neighbourhood / reversed); plus random synthetic descriptions (an App with Event/ViewModel/optional Effect, 3-9 types, optional dependency crate, "
                       "serde skip/rename/rename_all/serde_bytes, unit/empty/all-skipped shapes, same-named types, Range fields) lowered to rustdoc_types::Crate, each run untransformed (dumped, model-checked, every container whose serde shape is unambiguous compared with what serde's derive describes, computed from the generator's spec) and 3/5 times transformed. A case is counted when (kind, fixture, case seed, picks) is distinct; identity cases are trivial.")
    run.cov["samples"] = [slim({k: v for k, v in c.items() if k not in ("result", "runs", "pick_edges")}) for c in (tr_rows[12:14] + ed_rows[:2] + sy_rows[:1])]
    run.extra["distribution"] = {"cases_per_kind": dict(hist), "known_class_hits": dict(classes), "synthetic_invalid": len(invalid_synth), "transform_and_edge_styles": dict(styles),
                                 "distinct_crate_load_orders_seen": {f: len(s) for f, s in load_orders.items()},
                                 "ids_renamed_total": sum(c["ids_renamed"] for c in tr_rows)}
    run.assumptions += ["item-level predicates of the CLI (kind, field_ids/variant_ids, serde rename/skip, rename_all, Type -> Format, is_range) are dumped from the code, not modelled; tied by correspondence",
                        "ascent evaluates a Datalog program to its least fixpoint (model: Closure.iterate, proved to compute the least fixpoint; compared with the real edge relation per fixture)",
                        "rustdoc JSON parsing (rustdoc_types, serde_json) is outside the model; the bundled descriptions are snapshots, the traced schemas come from the current sources"]
    run.trusted += ["hand-written models coq/Cli/Format.v, Closure.v, Pipeline.v", "translator engines/cli_eng.py (JSON -> Coq terms; checked not lossy against JSON equality each run)",
                    "harness_cli (cli_codegen.rs, renumber.rs serde adapter, lib.rs transformations)", "the verif_run hook crux_cli/src/codegen/verif.rs (dump code)", "lib/common.py parser of coqc output"]
