import os, json, collections
import common as C

HEADER = ("From Coq Require Import List Arith Bool NArith. Import ListNotations.\n"
          "From Crux Require Import Rt.Lang Rt.Rt Rt.Host Rt.Legacy Rt.Check.\n")

def gen_cases(run, count, release=True):
    ok, log, bins = C.harness_build(["rt_run"], release=release)
    run.oblige("harness-build rt_run (%s) from /repo working tree" % ("release" if release else "dev"), ok, log[-1500:])
    if not ok: return []
    rc, out = C.sh("timeout 600 %s %d %d" % (bins["rt_run"], run.seed, count), timeout=700)
    if rc != 0:
        run.oblige("harness-run rt_run", False, out[-1500:]); return []
    return corpus_cases(bins["rt_run"]) + [json.loads(l) for l in out.splitlines() if l.startswith("{")]

def corpus_cases(binary):
    """corpus/rt/*.json: minimized cases kept from earlier disagreements; replayed on the implementation first."""
    import glob, subprocess
    out = []
    for f in sorted(glob.glob(os.path.join(C.ROOT, "corpus", "rt", "*.json"))):
        c = json.load(open(f))
        try:
            r = subprocess.run([binary, "1", "0", "", "replay", c["host"], c["prog"], c["handlers"], c["acts"]], capture_output=True, text=True, timeout=60)
            obs = r.stdout.strip() if r.returncode == 0 and r.stdout.strip().startswith("[") else "[OPanic]"
        except Exception:
            obs = "[OPanic]"
        out.append({"idx": -1, "seed": 0, "drained": bool(c.get("drained")), "host": c["host"], "prog": c["prog"], "handlers": c["handlers"], "acts": c["acts"],
                    "impl": obs, "size": 6, "depth": 1, "hist": {}, "ahist": {}, "corpus": os.path.basename(f)})
    return out

def gen_enum_cases(run, stride):
    """Exhaustive small scope (rt_run enum mode): every stride-th case of the full enumeration, offset by the seed."""
    ok, log, bins = C.harness_build(["rt_run"], release=True)
    if not ok: return []
    rc, out = C.sh("timeout 1200 %s %d %d '' enum" % (bins["rt_run"], run.seed, stride), timeout=1300)
    if rc != 0:
        run.oblige("harness-run rt_run enum", False, out[-800:]); return []
    m = [l for l in out.splitlines() if l.startswith("enum:")]
    run.extra["small_scope"] = (m[0] if m else "") + "; every %d-th case evaluated" % stride
    return [json.loads(l) for l in out.splitlines() if l.startswith("{")]

def case_term(c):
    return "(%s, %s, %s, %s, %s, %s)" % ("true" if c["host"] == "core" else "false", "true" if c.get("drained") else "false",
                                         c["prog"], c["handlers"], c["acts"], c["impl"])

LEGACY_FN = {"verdicts_C01": "verdicts_legacy_C01", "verdicts_C01R": "verdicts_legacy_C01", "verdicts_C03": "verdicts_legacy_C03", "verdicts_C03R": "verdicts_legacy_C03"}
def eval_cases(run, prop, cases, fn):
    """Command-API cases (direct / core hosts) go through `fn`; cases of the legacy capability API host go
    through the matching legacy verdict function (model = Rt/Legacy.v)."""
    legacy = [c for c in cases if c["host"] == "legacy"]
    cases = [c for c in cases if c["host"] != "legacy"]
    # at most ~2500 cases and ~1.5 MB of case text per coqc process (memory); at least 16 shards
    nsh = max(16, (len(cases) + 2499) // 2500, sum(len(c["impl"]) + len(c["acts"]) + len(c["handlers"]) + len(c["prog"]) for c in cases) // 1500000 + 1)
    shards = [s for s in (cases[i::nsh] for i in range(nsh)) if s]
    texts = [HEADER + "Definition cs : list rtcase := [\n" + ";\n".join(case_term(c) for c in sh) + "].\nEval vm_compute in (%s cs).\n" % fn for sh in shards]
    lfn = LEGACY_FN.get(fn, "verdicts_legacy_any") if fn not in ("fragment_flags", "core_fragment_flags") else None
    lshards = [s for s in (legacy[i::4] for i in range(4)) if s] if lfn else []
    texts += [HEADER + "Definition cs : list lcase := [\n" + ";\n".join("(%s, %s, %s)" % (c["handlers"], c["acts"], c["impl"]) for c in sh) + "].\nEval vm_compute in (%s cs).\n" % lfn for sh in lshards]
    res = C.run_case_files(prop, texts)
    out = []
    for sh, (ok, vals, raw) in zip(shards + lshards, res):
        if not ok or len(vals) != 1 or len(vals[0]) != len(sh):
            run.oblige("case-evaluation shard (%s)" % prop, False, raw[-1200:]); continue
        out += list(zip(sh, vals[0]))
    if fn in ("fragment_flags", "core_fragment_flags"):
        out += [(c, 0) for c in legacy]
    return out

RULES = {
 "C01": "(a) seeded random: programs of the task/command language (coq/Rt/Lang.v) generated from the seed: depth 0-4 combinator trees over tasks with emit/notify/request/stream-loop/spawn/join/abort-task/self-wake; one third run under a real Core with a handler table (events trigger further commands), a Noop probe after every call in half of those; schedule chosen while the implementation runs (resolve live/late/repeated, drop, abort, events). Non-trivial = the case contains at least one request, stream, spawn or nested command (size >= 4) - counted distinct by (program, schedule). (b) exhaustive small scope: every stride-th case (stride 400 quick / 8 thorough / VERIF_ENUM_STRIDE=1 for all) of ALL commands built from tasks of <= 2 statements over 23 statement forms, an optional extra task and 5 wrappers (5065 commands) x ALL input sequences of length <= 3 over {resolve oldest, resolve newest, drop oldest, abort, spawn from outside} (156 schedules).",
}
def nontrivial(c):
    return c["size"] >= 4 and any(k in c["acts"] for k in ("AResolve", "ADropReq", "AAbort"))

def check_generic(run, prop, fn, only_host=None, replay=None):
    C.proof_stage(run, prop)
    count = 3000 if run.tier == "quick" else 60000
    cases = gen_cases(run, count)
    stride = int(os.environ.get("VERIF_ENUM_STRIDE", "400" if run.tier == "quick" else "8"))
    cases += gen_enum_cases(run, stride)
    if replay:
        cases = json.load(open(replay)).get("cases", cases)
    res = eval_cases(run, prop, cases, fn)
    hist = collections.Counter(); ahist = collections.Counter(); hosts = collections.Counter(); sizes = collections.Counter()
    v1, v2, v3 = [], [], []
    for c, v in res:
        hosts[c["host"]] += 1; sizes[min(c["size"] // 5 * 5, 40)] += 1
        for k, n in c.get("hist", {}).items(): hist[k] += n
        for k, n in c.get("ahist", {}).items(): ahist[k] += n
        run.note_case((c["prog"], c["handlers"], c["acts"]), nontrivial=nontrivial(c))
        run.cov["traces_validated_against_impl"] += 1
        if v == 1: v1.append(c)
        elif v == 2: v2.append(c)
        elif v == 3: v3.append(c)
        elif v == 101: run.known_seen.setdefault("flat_task_never_evicted", {k: c.get(k) for k in ("idx", "seed", "prog", "handlers", "acts", "impl")})
    key = lambda c: c["size"] + len(c["acts"])
    v1.sort(key=key); v2.sort(key=key)
    slim = lambda c: {k: c.get(k) for k in ("idx", "seed", "host", "prog", "handlers", "acts", "impl", "drained", "enum")}
    run.oblige("correspondence: runtime model trace = implementation trace on %d cases" % len(res), not v1 and len(res) == len(cases),
               json.dumps([slim(c) for c in v1[:3]]))
    run.oblige("%s_ok holds of every implementation trace" % prop, not v2, json.dumps([slim(c) for c in v2[:3]]))
    run.oblige("model fuel sufficient on every case", not v3, json.dumps([slim(c) for c in v3[:2]]))
    if v2:
        run.violation(prop + "_ok", {"property": prop, "what": "the trace predicate %s_ok (coq/Rt/Check.v) fails on the implementation's own trace" % prop,
                                     "cases": [slim(c) for c in v2[:10]],
                                     "how_to_replay": "harness/src/bin/rt_run.rs <seed> <count> <idx> regenerates and re-runs the case; ./check %s --replay <this file> re-evaluates the stored traces" % prop})
    elif v1 or v3:
        run.violation("correspondence", {"property": prop, "what": "model and implementation traces differ; the property's trace predicate still holds on every implementation trace seen",
                                         "broken": "correspondence Rt.Host (direct / under_core) vs crux_core", "cases": [slim(c) for c in (v1 + v3)[:10]]}, no_input=True)
    run.cov["rule"] = RULES["C01"]
    run.cov["samples"] = [slim(c) for c in cases[:2] + cases[-1:]]
    run.extra["distribution"] = {"hosts": dict(hosts), "size_buckets": {str(k): v for k, v in sorted(sizes.items())},
                                 "constructors": dict(hist), "actions": dict(ahist)}
    run.assumptions += ["Rust async lowering, futures 0.3 (mpsc unbounded, AtomicWaker, forward), crossbeam-channel, slab and Arc counts are modelled by hand (coq/Rt/Rt.v) and tied by correspondence only",
                        "in the task language: join!/select_biased! of two requests, legacy capability requests awaited inside command tasks (alone and joined with a context request); a separate host runs apps written against the legacy capability API only (coq/Rt/Legacy.v)",
                        "user futures honour the Future/Waker contract; a CommandContext is used only inside its own command's subtree"]
    run.trusted += ["hand-written model coq/Rt/{Lang,Rt,Host}.v", "harness/src/bin/rt_run.rs (interpreter building real Commands through the public API, generator, schedule chooser)", "lib/common.py parser of coqc output"]

def check_C01(run, replay=None):
    check_generic(run, "C01", "verdicts_C01R", replay=replay)
    run.assumptions += ["under a Core, cancellation-free apps are also compared call by call with the reference semantics coq/Rt/RefCore.v (RC_ok: the effects a call returns and the events applied are exactly the reference's, as multisets)"]
def check_C03(run, replay=None):
    check_generic(run, "C03", "verdicts_C03R", replay=replay)
    run.assumptions += ["under a Core, cancellation-free apps are also compared call by call with the reference semantics coq/Rt/RefCore.v (RC_ok: the events applied so far are exactly the reference's, as a multiset - none lost, none applied twice, none left for a later call)"]
def check_C06(run, replay=None): check_generic(run, "C06", "verdicts_C06", replay=replay)
def check_C07(run, replay=None): check_generic(run, "C07", "verdicts_C07", replay=replay)

def check_C05(run, replay=None):
    prop = "C05"
    C.proof_stage(run, prop)
    count = 1200 if run.tier == "quick" else 20000
    ok, log, bins = C.harness_build(["rt_run"], release=True)
    run.oblige("harness-build rt_run (release) from /repo working tree", ok, log[-1500:])
    cases = []
    if ok:
        rc, out = C.sh("timeout 900 %s %d %d '' hosts" % (bins["rt_run"], run.seed, count), timeout=1000)
        run.oblige("harness-run rt_run hosts", rc == 0, out[-800:])
        cases = [json.loads(l) for l in out.splitlines() if l.startswith("{")]
    if replay:
        cases = json.load(open(replay)).get("cases", cases)
    panics = [c for c in cases if c.get("panic")]
    cases = [c for c in cases if not c.get("panic")]
    nsh = max(16, (len(cases) + 249) // 250)      # 12 traces per case: at most ~250 cases per coqc process (memory)
    shards = [s for s in (cases[i::nsh] for i in range(nsh)) if s]
    texts = [HEADER + "Definition cs : list hcase := [\n" + ";\n".join("(%s, %s, %s, %s)" % (c["prog"], c["inputs"], c["acts"], c["traces"]) for c in sh)
             + "].\nEval vm_compute in (verdicts_C05 cs).\n" for sh in shards]
    res = C.run_case_files(prop, texts)
    v1, v2, v3 = [], [], []; n = 0
    hist = collections.Counter(); ahist = collections.Counter()
    for sh, (okk, vals, raw) in zip(shards, res):
        if not okk or len(vals) != 1 or len(vals[0]) != len(sh):
            run.oblige("case-evaluation shard (C05)", False, raw[-1200:]); continue
        for c, v in zip(sh, vals[0]):
            n += 1
            for k, m in c.get("hist", {}).items(): hist[k] += m
            for k, m in c.get("ahist", {}).items(): ahist[k] += m
            run.note_case((c["prog"], c["inputs"]), nontrivial=(c["size"] >= 4 and c["inputs"] != "[]"))
            run.cov["traces_validated_against_impl"] += len(c["hosts"])
            if v == 1: v1.append(c)
            elif v == 2: v2.append(c)
            elif v == 3: v3.append(c)
    key = lambda c: c["size"] + len(c["inputs"])
    v1.sort(key=key); v2.sort(key=key)
    slim = lambda c: {k: c[k] for k in ("idx", "seed", "prog", "inputs", "hosts", "traces")}
    run.oblige("no host panicked", not panics, json.dumps(panics[:3]))
    run.oblige("C05_ok: all %d hosts show the same effects and events at the same points (%d programs)" % (12, n), not v2, json.dumps([slim(c) for c in v2[:2]])[:3000])
    run.oblige("correspondence: model direct trace = implementation direct trace", not v1 and not v3 and n == len(cases), json.dumps([slim(c) for c in (v1 + v3)[:2]])[:3000])
    if v2 or panics:
        run.violation("C05_ok", {"property": prop, "what": "hosts disagree on the effects/events a command produces at some step (or a host panicked)", "cases": [slim(c) for c in v2[:8]] + panics[:3],
                                 "how_to_replay": "rt_run <seed> <count> <idx> hosts"})
    elif v1 or v3:
        run.violation("correspondence", {"property": prop, "what": "model and implementation differ on the direct host; all implementation hosts agree with each other",
                                         "broken": "correspondence Rt.Host.direct vs crux_core", "cases": [slim(c) for c in (v1 + v3)[:8]]}, no_input=True)
    run.cov["rule"] = ("one generated command (depth 0-3) and one generated list of shell inputs (resolve live/late/repeated, drop, abort) replayed under 12 hosts: direct, map_effect(id), map_event(id), "
                       "then(done,c), then(c,done), all[c], into, and(done,c), nesting depth 3 and 5, hand-polled Stream, real Core (probe after every input); non-trivial = size >= 4 and at least one input; distinct by (program, inputs)")
    run.cov["samples"] = [slim(c) for c in cases[:1]]
    run.extra["distribution"] = {"constructors": dict(hist), "inputs": dict(ahist), "hosts_per_case": 12}
    run.assumptions += ["legacy capability API host and the serialized Bridge hosts are covered by C09's twin runs (builder `bridge`), not here"]
    run.trusted += ["hand-written model coq/Rt/{Lang,Rt,Host}.v", "harness/src/bin/rt_run.rs hosts mode"]

def check_C04(run, replay=None):
    check_generic(run, "C04", "verdicts_C04R", replay=replay)
    # how many cases were inside the abort-free fragment on which the reference semantics speaks
    try:
        cases = gen_cases(run, 3000 if run.tier == "quick" else 60000)
        fr = eval_cases(run, "C04", cases, "fragment_flags")
        run.extra["in_reference_fragment"] = sum(v for _, v in fr)
        fk = collections.Counter(v for _, v in eval_cases(run, "C04", cases, "core_fragment_flags"))
        run.extra["in_core_reference_fragment"] = {"compared": fk.get(2, 0), "ambiguous_request_names": fk.get(1, 0), "outside": fk.get(0, 0)}
        run.obligations = [o for o in run.obligations if not o[0].startswith("harness-build") or o[1]][:]  # keep list as is
    except Exception as ex:
        run.extra["in_reference_fragment"] = "not measured: %s" % ex
    run.assumptions += ["the reference semantics covers the abort-free fragment (no AbortHandle / JoinHandle::abort); cancellation is C06's",
                        "outputs within one step are compared as multisets; per-strand event order is compared only through the runtime model"]


def rc_stage(run, prop, count, replay_cases=None):
    """Apps under a real Core (command API, legacy capability requests mixed in) against the reference
    semantics coq/Rt/RefCore.v and against the runtime model; used by C02 beside its own engine."""
    ok, log, bins = C.harness_build(["rt_run"], release=True)
    run.oblige("harness-build rt_run (release) from /repo working tree", ok, log[-1500:])
    if not ok: return
    rc, out = C.sh("timeout 900 %s %d %d '' core" % (bins["rt_run"], run.seed, count), timeout=1000)
    run.oblige("harness-run rt_run core", rc == 0, out[-800:])
    cases = [json.loads(l) for l in out.splitlines() if l.startswith("{")]
    # the stored minimal cases (direct host: long bursts into one stream, stale wakers ...) are replayed too and
    # compared with the reference semantics of a command (C04_ok) beside the one of an app (RC_ok)
    # bursts of more than a thousand outputs (generated for C01/C03/C04/C05: nothing may be parked on the way up) cost the
    # reference semantics tens of seconds and gigabytes each and say nothing about routing: they are left to those checks
    cases = [c for c in cases if (c["handlers"] + c["prog"]).count("TEmit") < 600]
    cases = corpus_cases(bins["rt_run"]) + cases
    if replay_cases:
        cases = [dict(c, size=c.get("size", 4)) for c in replay_cases]
    res = eval_cases(run, prop, cases, "verdicts_C04R")
    v1 = [c for c, v in res if v == 1]; v2 = [c for c, v in res if v == 2]; v3 = [c for c, v in res if v == 3]
    for c, v in res:
        if v == 101: run.known_seen.setdefault("flat_task_never_evicted", {k: c.get(k) for k in ("idx", "seed", "prog", "handlers", "acts", "impl")})
    key = lambda c: c["size"] + len(c["acts"])
    v1.sort(key=key); v2.sort(key=key)
    slim = lambda c: {k: c.get(k) for k in ("idx", "seed", "host", "prog", "handlers", "acts", "impl")}
    fk = collections.Counter(v for _, v in eval_cases(run, prop, cases, "core_fragment_flags"))
    for c, v in res:
        run.note_case((c["handlers"], c["acts"]), nontrivial=nontrivial(c)); run.cov["traces_validated_against_impl"] += 1
    run.oblige("RC_ok: every call of the implementation under a Core returns the reference semantics' effects and applies its events (%d apps x histories, %d inside the cancellation-free fragment)" % (len(res), fk.get(2, 0)),
               not v2 and len(res) == len(cases), json.dumps([slim(c) for c in v2[:3]])[:4000])
    run.oblige("correspondence: runtime model trace = implementation trace under a Core on %d cases" % len(res), not v1 and not v3, json.dumps([slim(c) for c in (v1 + v3)[:3]])[:4000])
    if v2:
        run.violation("RC_ok", {"property": prop, "what": "under a Core the implementation's calls differ from the reference semantics (coq/Rt/RefCore.v): a value did not reach the continuation of the task that asked, or an effect/event was lost, duplicated or changed",
                                "cases": [slim(c) for c in v2[:10]], "how_to_replay": "harness/src/bin/rt_run.rs <seed> <count> <idx> core"})
    elif v1 or v3:
        run.violation("correspondence_rt", {"property": prop, "what": "runtime model and implementation traces differ under a Core; the reference-semantics predicate still holds on every implementation trace seen",
                                            "broken": "correspondence Rt.Host.under_core vs crux_core", "cases": [slim(c) for c in (v1 + v3)[:10]]}, no_input=True)
    run.extra["rt_core_stage"] = {"cases": len(res), "compared_with_reference": fk.get(2, 0), "ambiguous_request_names": fk.get(1, 0), "outside_fragment": fk.get(0, 0)}
    run.trusted += ["hand-written reference semantics coq/Rt/{Ref,RefCore}.v and runtime model coq/Rt/{Lang,Rt,Host}.v", "harness/src/bin/rt_run.rs core mode"]


def release_stage(run, prop, count):
    """Command programs on the direct host with the harness's drain phase (everything outstanding is resolved
    or dropped until nothing new appears): C07_ok on the implementation's traces - a command that reports done
    holds no task, and once everything has been resolved or dropped it is done with no task left (nothing is
    retained by finished work).  Used by C13 beside its own engine."""
    cases = [c for c in gen_cases(run, count) if c["host"] == "direct"]
    res = eval_cases(run, prop, cases, "verdicts_C07")
    v1 = [c for c, v in res if v == 1]; v2 = [c for c, v in res if v == 2]; v3 = [c for c, v in res if v == 3]
    for c, v in res:
        if v == 101: run.known_seen.setdefault("flat_task_never_evicted", {k: c.get(k) for k in ("idx", "seed", "prog", "handlers", "acts", "impl")})
        run.note_case((c["prog"], c["acts"]), nontrivial=nontrivial(c)); run.cov["traces_validated_against_impl"] += 1
    key = lambda c: c["size"] + len(c["acts"])
    v1.sort(key=key); v2.sort(key=key)
    slim = lambda c: {k: c.get(k) for k in ("idx", "seed", "host", "prog", "handlers", "acts", "impl", "drained")}
    drained = sum(1 for c in cases if c.get("drained"))
    run.oblige("release on the command runtime: done => no task held, and after everything was resolved or dropped the command is done with no task left "
               "(%d programs x schedules, %d with the drain phase)" % (len(res), drained), not v2 and len(res) == len(cases), json.dumps([slim(c) for c in v2[:3]])[:4000])
    run.oblige("correspondence: runtime model trace = implementation trace on these %d cases" % len(res), not v1 and not v3, json.dumps([slim(c) for c in (v1 + v3)[:3]])[:4000])
    if v2:
        run.violation("rt_release", {"property": prop, "what": "a command retains a task although everything it could wait for has been resolved or dropped (or reports done while holding a task)",
                                     "cases": [slim(c) for c in v2[:10]], "how_to_replay": "harness/src/bin/rt_run.rs <seed> <count> <idx>"})
    elif v1 or v3:
        run.violation("correspondence_rt", {"property": prop, "what": "runtime model and implementation traces differ on the direct host; the release predicate still holds on every implementation trace seen",
                                            "broken": "correspondence Rt.Host.direct vs crux_core", "cases": [slim(c) for c in (v1 + v3)[:10]]}, no_input=True)
    run.extra["rt_release_stage"] = {"cases": len(res), "with_drain_phase": drained}
    run.trusted += ["hand-written runtime model coq/Rt/{Lang,Rt,Host}.v", "harness/src/bin/rt_run.rs (drain phase)"]
