import os, json, collections
import common as C

HEADER = ("From Coq Require Import List Arith Bool NArith. Import ListNotations.\n"
          "From Crux Require Import Rt.Lang Rt.Rt Rt.Host Rt.Check.\n")

def gen_cases(run, count, release=True):
    ok, log, bins = C.harness_build(["rt_run"], release=release)
    run.oblige("harness-build rt_run (%s) from /repo working tree" % ("release" if release else "dev"), ok, log[-1500:])
    if not ok: return []
    rc, out = C.sh("timeout 600 %s %d %d" % (bins["rt_run"], run.seed, count), timeout=700)
    if rc != 0:
        run.oblige("harness-run rt_run", False, out[-1500:]); return []
    return [json.loads(l) for l in out.splitlines() if l.startswith("{")]

def case_term(c):
    return "(%s, %s, %s, %s, %s)" % ("true" if c["host"] == "core" else "false", c["prog"], c["handlers"], c["acts"], c["impl"])

def eval_cases(run, prop, cases, fn="verdicts_rt"):
    nsh = 16
    shards = [cases[i::nsh] for i in range(nsh)]
    shards = [s for s in shards if s]
    texts = [HEADER + "Definition cs : list rtcase := [\n" + ";\n".join(case_term(c) for c in sh) + "].\nEval vm_compute in (%s cs).\n" % fn for sh in shards]
    res = C.run_case_files(prop, texts)
    out = []
    for sh, (ok, vals, raw) in zip(shards, res):
        if not ok or len(vals) != 1 or len(vals[0]) != len(sh):
            run.oblige("case-evaluation shard (%s)" % prop, False, raw[-1200:]); continue
        out += list(zip(sh, vals[0]))
    return out
