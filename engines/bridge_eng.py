"""Engine `bridge`: C09 (serialized bridge = faithful, correctly routed image of the core),
C02 (response routing and arity), C13 (finished work is released).
Coq: coq/Bridge/*.v, coq/Properties/C09.v|C02.v|C13.v.  Harness: harness/src/bin/bridge_*.rs."""
import os, json, collections, glob
import common as C

BIG_ID = 5000          # nat numerals above this are never written into a case file (see coq_id)

# ---------------------------------------------------------------- JSON observation -> Coq term (coq/Bridge/Twin.v)
KIND = {0: "KNever", 1: "KOnce", 2: "KMany"}
def n(x): return "%d" % int(x)
def nat(x):
    # unary numerals make the parsed term as large as the number: anything above 3 is written as N.to_nat of a
    # binary literal and evaluated by vm_compute with the rest of the case
    x = int(x)
    return "%d%%nat" % x if x <= 3 else "(N.to_nat %d%%N)" % x
def zlit(x): return ("(%d)%%Z" % int(x)) if int(x) < 0 else ("%d%%Z" % int(x))
def coq_id(i):
    """ids far beyond anything the slab can hold in a generated history (the harness also sends 65536,
    2^31, u32::MAX) are represented by a small stand-in: the model only ever asks whether the id is
    occupied, and a history of <= 60 calls with <= 10 effects each cannot occupy ids >= BIG_ID."""
    i = int(i)
    return i if i < BIG_ID else BIG_ID + (i % 7)
def lst(xs): return "[" + "; ".join(xs) + "]"
def nlist(xs): return lst([n(x) for x in xs])

def coq_view(v):
    if isinstance(v, list) and all(isinstance(x, int) for x in v): return nlist(v)
    return "[999999999999; 1]"          # view() failed / undecodable: can never equal a typed view

def coq_call(st):
    i = st["in"]
    if i[0] == "ev": cin = "OEvent %s %s" % ("true" if i[1] else "false", n(i[2]))
    else: cin = "OResp %s %s" % (nat(coq_id(i[1])), "None" if int(i[2]) < 0 else "(Some %s)" % n(i[2]))
    t = st["tin"]
    if t is None: tin = "None"
    elif t[0] == "ev": tin = "(Some (OTEvent %s))" % n(t[1])
    elif t[0] == "res": tin = "(Some (OTResolve %s %s))" % (nat(t[1]), n(t[2]))
    else: tin = "(Some (OTDrop %s))" % nat(t[1])
    o = st["tout"]
    if o[0] == "effs": tout = "OTEffects " + lst(["((%s, %s), %s)" % (n(e[0]), n(e[1]), KIND[e[2]]) for e in o[1]])
    elif o[0] == "err": tout = "OTErr %s" % zlit(o[1])
    else: tout = "OTUnit"
    b = st["bout"]
    if b[0] == "ok": bout = "OBOk " + lst(["(%s, (%s, %s))" % (nat(coq_id(r[0])), n(r[1]), n(r[2])) for r in b[1]])
    elif b[0] == "err": bout = "OBErr %s" % zlit(b[1])
    else: bout = "OBPanic"
    snap = st["snap"]
    if snap and snap[0][0] == "panic": snap_s = "[(77777%nat, KNever)]"
    else: snap_s = lst(["(%s, %s)" % (nat(coq_id(s[0])), KIND[s[1]]) for s in snap])
    return "mkO (%s) %s (%s) (%s) %s %s %s" % (cin, tin, tout, bout, nlist(st["tview"]), coq_view(st["bview"]), snap_s)

def coq_case(c):
    return "(%s, %s)" % (nlist(c["init_view"]), lst([coq_call(s) for s in c["steps"]]))

TWIN_HEADER = ("From Coq Require Import List ZArith NArith. Import ListNotations.\n"
               "From Crux Require Import Bridge.Bridge Bridge.Twin.\nOpen Scope N_scope.\n")
def twin_case_file(cases):
    return TWIN_HEADER + "Definition cs : list (aview * list ocall) := [\n" + ";\n".join(coq_case(c) for c in cases) + \
        "].\nEval vm_compute in (diags cs).\n"

def corpus_cases(prop):
    out = []
    for f in sorted(glob.glob(os.path.join(C.ROOT, "corpus", "bridge", prop + "_*.json"))):
        if f.endswith("_seeds.json"): continue
        try:
            d = json.load(open(f))
            out += d if isinstance(d, list) else d.get("cases", [])
        except Exception:
            pass
    return out

def corpus_seeds(prop):
    f = os.path.join(C.ROOT, "corpus", "bridge", prop + "_seeds.json")
    try: return json.load(open(f))
    except Exception: return []

def shrink_case(c, upto):
    """a prefix of the history that still contains the offending call"""
    d = dict(c); d["steps"] = c["steps"][:upto + 1]; return d

DIFF_FIELD = {1: "typed mirror call", 2: "typed core output", 3: "bridge output", 4: "typed view", 5: "bridge view",
              6: "registry snapshot", 7: "length / replay tables not exhausted"}
OK_FIELD = {1: "image: decoded bridge output differs from the typed core's effects/error",
            2: "ids: an id handed out was in use, duplicated, not registered or registered with another arity",
            3: "view: bridge view differs from typed view (a continuation saw a different value)"}

def eval_twin(run, prop, cases):
    """evaluate cases in coqc; returns list of (case, verdict, step, code)"""
    nsh = 16 if len(cases) > 64 else max(1, min(4, len(cases)))
    shards = [cases[i::nsh] for i in range(nsh)]
    shards = [s for s in shards if s]
    res = C.run_case_files(prop, [twin_case_file(s) for s in shards])
    out = []
    for sh, (ok, vals, raw) in zip(shards, res):
        if not ok or len(vals) != 1 or len(vals[0]) != 3 * len(sh):
            run.oblige("case-evaluation shard (coqc vm_compute)", False, raw[-800:]); continue
        for k, c in enumerate(sh):
            v, step, code = vals[0][3 * k: 3 * k + 3]
            out.append((c, v, step, code))
    return out

# ---------------------------------------------------------------- C09
def atomicity_stage(run, prop, reps):
    """The bridge model's steps are atomic on the registry (in the code: the registry mutex is held across
    ResolveRegistry::resume).  Validate that on the real code: responses / events delivered to one bridge from
    two or three shell threads, the others started while the first sits inside the deserialization of its body,
    must have the outcome of SOME sequential order of the same calls (the sequential outcomes are produced by
    the implementation itself, in every order)."""
    ok, log, bins = C.harness_build(["bridge_conc"])
    run.oblige("harness-build bridge_conc (dev, --cfg crux_verif) from the repository's working tree", ok, log[-1500:])
    if not ok: return
    rc, out = C.sh("timeout 600 %s %d" % (bins["bridge_conc"], reps), timeout=700)
    rows = [json.loads(l) for l in out.splitlines() if l.startswith("{")]
    bad = [r for r in rows if not r.get("ok")]
    run.oblige("registry steps are atomic under concurrent shell threads: every concurrent outcome equals that of some sequential order "
               "(%d runs: 5 scenarios x bincode/JSON x %d)" % (len(rows), reps), rc == 0 and len(rows) == 10 * reps and not bad, json.dumps(bad[:2])[:3000] or out[-600:])
    for r in rows:
        run.note_case(("atomicity", r["scenario"], r["codec"], r.get("rep")), nontrivial=True); run.cov["traces_validated_against_impl"] += 1
    if bad:
        run.violation("registry_atomicity", {"property": prop, "kind": "atomicity",
            "what": "calls made to one bridge from several shell threads have an outcome that no sequential order of the same calls has: a response was refused, "
                    "delivered to the wrong request, or a live stream / a new request was lost",
            "cases": bad[:6], "how_to_replay": ".cache/target/debug/bridge_conc <repetitions> (harness/src/bin/bridge_conc.rs): call 0 carries the value whose deserialization pauses; "
                                               "the other calls start while it sits there"})
    run.extra["atomicity_stage"] = {"runs": len(rows), "overlapped_inside_window": sum(1 for r in rows if r.get("overlapped"))}
    run.assumptions += ["SC / lock-based reasoning only: the window is the deserialization of a response body inside ResolveRegistry::resume; windows elsewhere in the bridge are not opened"]
    run.trusted += ["harness/src/bin/bridge_conc.rs (own small app, pausable Deserialize, sequential reference runs of the implementation itself)"]

def check_C09(run, replay=None):
    tier = run.tier
    histories = 150 if tier == "quick" else 2500
    max_steps = 36 if tier == "quick" else 60
    C.proof_stage(run, "C09")
    cases = []
    for c in corpus_cases("C09"):
        c = dict(c); c["origin"] = "corpus"; cases.append(c)
    ok, log, bins = C.harness_build(["bridge_twin"])
    run.oblige("harness-build bridge_twin (dev, --cfg crux_verif) from the repository's working tree", ok, log[-1500:])
    seed = run.seed
    rp = json.load(open(replay)) if replay else None
    if rp and rp.get("rerun") and "histories" in rp["rerun"]:
        seed, histories, max_steps = rp["rerun"]["seed"], rp["rerun"]["histories"], rp["rerun"]["max_steps"]
    if ok:
        rc, out = C.sh("%s %d %d %d" % (bins["bridge_twin"], seed, histories, max_steps), timeout=1200)
        crashed = 0
        for l in out.splitlines():
            if l.startswith("{"):
                c = json.loads(l)
                if c.get("harness_panic"): crashed += 1; continue
                c["origin"] = "generated seed=%d" % seed; cases.append(c)
        if not rp:
            for cs in corpus_seeds("C09"):      # the corpus: seeds that exhibited past defects, re-executed on the current code
                rc2, out2 = C.sh("%s %d %d %d" % (bins["bridge_twin"], cs["seed"], cs["count"], cs["max_steps"]), timeout=600)
                for l in out2.splitlines():
                    if l.startswith("{"):
                        c = json.loads(l)
                        if c.get("harness_panic"): crashed += 1; continue
                        c["case"] = "corpus%d-%s" % (cs["seed"], c.get("case")); c["origin"] = "corpus seed=%d" % cs["seed"]; cases.insert(0, c)
        run.oblige("harness-run bridge_twin completed every history", rc == 0 and crashed == 0,
                   "rc=%d, histories on which the harness's own bookkeeping broke: %d; %s" % (rc, crashed, out[-300:] if rc else ""))
    if rp:
        # re-execute: the same seed regenerates the same histories against the current code; keep the recorded ones
        sel = {(c.get("case"), c.get("codec"), c.get("app")) for c in rp.get("cases", [])}
        again = [c for c in cases if (c.get("case"), c.get("codec"), c.get("app")) in sel and c.get("origin") != "corpus"]
        cases = again if (ok and again) else rp.get("cases", cases)
    rerun = {"seed": seed, "histories": histories, "max_steps": max_steps}
    results = eval_twin(run, "C09", cases)
    hist_in = collections.Counter(); hist_out = collections.Counter(); sizes = collections.Counter()
    bad_ok, bad_model = [], []
    for c, v, step, code in results:
        key = (c["app"], c["codec"], json.dumps(c["steps"], sort_keys=True))
        kinds = set()
        for s in c["steps"]:
            i = s["in"]; b = s["bout"]
            if i[0] == "ev": k = "event" if i[1] else "event-malformed"
            else:
                t = s["tin"]
                k = {None: "response-no-entry-or-stream-malformed", "res": "response-delivered", "drop": "response-forgets-entry"}[t[0] if t else None]
                if b[0] == "err" and b[1] == 4: k = "response-finished-stream"
            hist_in[k] += 1; kinds.add(k)
            hist_out[b[0] if b[0] != "err" else "err%d" % b[1]] += 1
        sizes[min(len(c["steps"]) // 10 * 10, 60)] += 1
        # non-trivial: the history contains an out-of-order/late/malformed response or id reuse
        reuse = any(s["bout"][0] == "ok" and s["in"][0] == "resp" and any(r[0] == s["in"][1] for r in s["bout"][1]) for s in c["steps"])
        nontrivial = reuse or bool(kinds & {"response-forgets-entry", "response-finished-stream", "response-no-entry-or-stream-malformed"})
        run.note_case(key, nontrivial=nontrivial)
        run.cov["traces_validated_against_impl"] += 1
        if v == 2: bad_ok.append((c, step, code))
        elif v != 0: bad_model.append((c, step, code))
    run.oblige("correspondence coq/Bridge model = Bridge(bincode) = BridgeWithSerializer(serde_json) = typed Core on %d histories" % len(results),
               not bad_model and len(results) > 0,
               json.dumps([{"app": c["app"], "codec": c["codec"], "case": c.get("case"), "step": s, "differs": DIFF_FIELD.get(k, k)} for c, s, k in bad_model[:5]]))
    run.oblige("C09_ok holds on every implementation trace", not bad_ok,
               json.dumps([{"app": c["app"], "codec": c["codec"], "case": c.get("case"), "step": s, "fails": OK_FIELD.get(k, k)} for c, s, k in bad_ok[:5]]))
    if bad_ok:
        bad_ok.sort(key=lambda x: x[1])
        c, s, k = bad_ok[0]
        run.violation("C09_ok", {"property": "C09", "what": OK_FIELD.get(k, str(k)), "first_offending_call": s, "rerun": rerun,
                                 "cases": [shrink_case(c, s)] + [shrink_case(cc, ss) for cc, ss, _ in bad_ok[1:6]],
                                 "how_to_replay": "./check C09 --replay <this file> regenerates the same histories from `rerun` against the current code and re-evaluates them (prefixes of the recorded cases are listed for reading); each case is a history with the observations of "
                                                  "the typed Core (tin/tout/tview) and of the bridge (bout/bview/snap) per call; see coq/Bridge/Twin.v ocall"})
    elif bad_model:
        bad_model.sort(key=lambda x: x[1])
        run.violation("correspondence", {"property": "C09", "what": "bridge model and implementation differ; C09_ok still holds on every trace seen",
                                         "broken": "correspondence coq/Bridge/Bridge.v vs crux_core::bridge", "rerun": rerun,
                                         "cases": [dict(shrink_case(c, s), differs=DIFF_FIELD.get(k, k), at_call=s) for c, s, k in bad_model[:8]]}, no_input=True)
    if not replay or (rp and rp.get("kind") == "atomicity"):
        atomicity_stage(run, "C09", 2 if tier == "quick" else 12)
    if ok and (not replay or (rp and rp.get("rerun", {}).get("long_session"))):
        ls = (rp or {}).get("rerun", {}).get("long_session") or {"seed": run.seed, "hist": 2 if tier == "quick" else 8, "steps": 2400 if tier == "quick" else 2600}
        long_session_stage(run, "C09", bins, ls["seed"], ls["hist"], ls["steps"])
    run.cov["rule"] = ("histories of 4..%d calls over two apps (Command API + #[effect]; legacy capabilities + derive(Effect)) x two codecs "
                       "(bincode Bridge, serde_json BridgeWithSerializer), each run in lockstep with a typed Core: events with 0..9 effects "
                       "(render, notifications, one-shot u64/String requests with follow-up chains, streams), responses to outstanding requests in "
                       "random order, malformed bodies, responses to notifications, to already answered ids (possibly reissued), to never issued ids, "
                       "malformed events. A history is counted when distinct; non-trivial when it reuses an id inside the responding call or contains a "
                       "forgetting / rejected / late response." % max_steps)
    run.cov["samples"] = [{"app": c["app"], "codec": c["codec"], "steps": c["steps"][:3]} for c, _, _, _ in results[:2]]
    run.extra["distribution"] = {"calls_by_kind": dict(hist_in), "bridge_outcomes": dict(hist_out), "history_length_bucket": dict(sizes),
                                 "histories": len(results)}
    run.assumptions += ["the app with its executor and the codec are Section variables of every C09 theorem (all apps, all lawful codecs); "
                        "bincode/serde_json themselves are not modelled here (C10/C12): the harness decodes with the real serde implementations",
                        "ids >= %d in a case are represented by a stand-in id that is equally unoccupied (nat numerals stay small)" % BIG_ID]
    run.trusted += ["hand-written models coq/Bridge/Slab.v (slab 0.4.9) and coq/Bridge/Bridge.v", "harness/src/bin/bridge_twin.rs + bridge_common (test apps, "
                    "typed mirror rule = Bridge.translate, real serde decoding, catch_unwind)", "verif hook Bridge::verif_registry (read-only)",
                    "lib/common.py parser of coqc output, engines/bridge_eng.py JSON->Coq printer"]

# ---------------------------------------------------------------- C02
def coq_arity_step(st):
    a = st["act"]
    k = a[0]
    if k == "run": act = "ORun"
    elif k == "resolve": act = "OResolve %s %s" % (nat(a[1]), n(a[2]))
    elif k == "ser": act = "OSer %s %s" % (nat(a[1]), "None" if int(a[2]) < 0 else "(Some %s)" % n(a[2]))
    elif k == "ser_vacant": act = "OSerVacant"
    elif k == "drop": act = "ODrop %s" % nat(a[1])
    elif k == "poll": act = "OPoll"
    elif k == "abort": act = "OAbort"
    else: act = "ODropAll"
    evs = lst(["(%s, %s)" % (nat(e[0]), n(e[1])) for e in st["events"]])
    new = lst(["(%s, %s, %s)" % (nat(x[0]), KIND[x[1]], "None" if int(x[2]) < 0 else "(Some %s)" % nat(x[2])) for x in st["new"]])
    return "mkStep (%s) %s %s %s" % (act, zlit(st["res"]), evs, new)

ARITY_HEADER = ("From Coq Require Import List ZArith NArith. Import ListNotations.\n"
                "From Crux Require Import Bridge.Bridge Bridge.Resolve Bridge.Arity.\nOpen Scope N_scope.\n")
def arity_case_file(cases):
    return ARITY_HEADER + "Definition cs : list (bool * bool * list ostep) := [\n" + \
        ";\n".join("(%s, %s, %s)" % ("true" if c["auto_poll"] else "false", "true" if c["host"].endswith("_old") else "false",
                                      lst([coq_arity_step(s) for s in c["steps"]])) for c in cases) + \
        "].\nEval vm_compute in (diags cs).\n"

def eval_arity(run, cases):
    nsh = 16 if len(cases) > 64 else max(1, min(4, len(cases)))
    shards = [s for s in (cases[i::nsh] for i in range(nsh)) if s]
    res = C.run_case_files("C02", [arity_case_file(s) for s in shards])
    out = []
    for sh, (ok, vals, raw) in zip(shards, res):
        if not ok or len(vals) != 1 or len(vals[0]) != 2 * len(sh):
            run.oblige("case-evaluation shard (coqc vm_compute)", False, raw[-800:]); continue
        for k, c in enumerate(sh):
            out.append((c, vals[0][2 * k], vals[0][2 * k + 1]))
    return out

def check_C02(run, replay=None):
    tier = run.tier
    count = 420 if tier == "quick" else 7000
    max_steps = 30 if tier == "quick" else 60
    C.proof_stage(run, "C02")
    profiles = [False] if tier == "quick" else [False, True]
    rp = json.load(open(replay)) if replay else None
    seed = run.seed
    from engines import rt_eng
    rt_replay = [c for c in (rp.get("cases") or []) if "handlers" in c] if rp else None
    if rt_replay:        # a replay written by the rt stage below: re-evaluate those apps x histories only
        rt_eng.rc_stage(run, "C02", 10, replay_cases=rt_replay); return
    if rp and rp.get("rerun"):
        seed, count, max_steps = rp["rerun"]["seed"], rp["rerun"]["count"], rp["rerun"]["max_steps"]
        profiles = [bool(rp["rerun"].get("release"))]
    cases = []
    for c in corpus_cases("C02"):
        c = dict(c); c["origin"] = "corpus"; c.setdefault("profile", "corpus"); cases.append(c)
    built = False
    for rel in profiles:
        prof = "release" if rel else "dev"
        ok, log, bins = C.harness_build(["bridge_arity"], release=rel)
        run.oblige("harness-build bridge_arity (%s, --cfg crux_verif) from the repository's working tree" % prof, ok, log[-1500:])
        if not ok: continue
        built = True
        rc, out = C.sh("%s %d %d %d" % (bins["bridge_arity"], seed, count, max_steps), timeout=1200)
        crashed = 0
        for l in out.splitlines():
            if l.startswith("{"):
                c = json.loads(l)
                if c.get("harness_panic"): crashed += 1; continue
                c["profile"] = prof; c["origin"] = "generated seed=%d" % seed; cases.append(c)
        if not rp:
            for cs in corpus_seeds("C02"):
                rc2, out2 = C.sh("%s %d %d %d" % (bins["bridge_arity"], cs["seed"], cs["count"], cs["max_steps"]), timeout=600)
                for l in out2.splitlines():
                    if l.startswith("{"):
                        c = json.loads(l)
                        if c.get("harness_panic"): crashed += 1; continue
                        c["case"] = "corpus%d-%s" % (cs["seed"], c.get("case")); c["profile"] = prof; c["origin"] = "corpus seed=%d" % cs["seed"]; cases.insert(0, c)
        run.oblige("harness-run bridge_arity (%s) completed every case" % prof, rc == 0 and crashed == 0,
                   "rc=%d, cases on which the harness's own bookkeeping broke: %d; %s" % (rc, crashed, out[-300:] if rc else ""))
    if rp:
        sel = {(c.get("case"), c.get("host"), c.get("profile")) for c in rp.get("cases", [])}
        again = [c for c in cases if (c.get("case"), c.get("host"), c.get("profile")) in sel and c.get("origin") != "corpus"]
        cases = again if (built and again) else rp.get("cases", cases)
    results = eval_arity(run, cases)
    acts = collections.Counter(); codes = collections.Counter(); hosts = collections.Counter()
    bad_ok, bad_model = [], []
    for c, v, step in results:
        hosts["%s/%s" % (c["host"], c.get("profile"))] += 1
        rejected = late = 0
        for s in c["steps"]:
            acts[s["act"][0]] += 1
            if s["act"][0] in ("resolve", "ser", "ser_vacant"):
                codes[s["res"]] += 1
                if s["res"] != 0: rejected += 1
        run.note_case((c["host"], c.get("profile"), json.dumps(c["steps"], sort_keys=True)), nontrivial=rejected > 0)
        run.cov["traces_validated_against_impl"] += 1
        if v == 2: bad_ok.append((c, step))
        elif v != 0: bad_model.append((c, step))
    run.oblige("correspondence coq/Bridge/Resolve.v = Core::resolve / Request::resolve / Bridge::handle_response on %d cases" % len(results),
               not bad_model and len(results) > 0,
               json.dumps([{"host": c["host"], "profile": c.get("profile"), "case": c.get("case"), "step": s, "observed": c["steps"][s] if s < len(c["steps"]) else None} for c, s in bad_model[:4]]))
    run.oblige("C02_ok holds on every implementation trace (result class = arity automaton, every continuation got exactly the values resolved into its own requests)",
               not bad_ok, json.dumps([{"host": c["host"], "profile": c.get("profile"), "case": c.get("case"), "step": s, "observed": c["steps"][s] if s < len(c["steps"]) else None} for c, s in bad_ok[:4]]))
    def rerun_of(c): return {"seed": seed, "count": count, "max_steps": max_steps, "release": c.get("profile") == "release"}
    if bad_ok:
        bad_ok.sort(key=lambda x: x[1])
        c, s = bad_ok[0]
        run.violation("C02_ok", {"property": "C02", "what": "a resolution was accepted/rejected against the declared arity, or a task received a value "
                                 "that was not resolved into its own request (or not in order / not once)", "first_offending_step": s, "rerun": rerun_of(c),
                                 "cases": [shrink_case(c, s)] + [shrink_case(cc, ss) for cc, ss in bad_ok[1:6]],
                                 "how_to_replay": "./check C02 --replay <this file> regenerates the cases from `rerun` against the current code; step = "
                                                  "{act, res (0 ok | error code | 9 panic), events [(task serial, value)], new [(owner serial, arity, limit)]}, see coq/Bridge/Arity.v"})
    elif bad_model:
        bad_model.sort(key=lambda x: x[1])
        c0 = bad_model[0][0]
        run.violation("correspondence", {"property": "C02", "what": "request-layer model and implementation differ (error code or end-of-stream mark); C02_ok still holds on every trace seen",
                                         "broken": "correspondence coq/Bridge/Resolve.v vs crux_core", "rerun": rerun_of(c0),
                                         "cases": [dict(shrink_case(c, s), at_step=s) for c, s in bad_model[:8]]}, no_input=True)
    # second tie: whole apps under a real Core (requests from command tasks, legacy capability requests awaited
    # alone or joined with a context request inside command tasks) against the reference semantics, in which a
    # value reaches exactly the continuation of the strand that asked (coq/Rt/RefCoreProps.v)
    if not rp:
        rt_eng.rc_stage(run, "C02", 1500 if tier == "quick" else 40000)
        # routing by id when responses arrive from several shell threads at once (shared with C09)
        atomicity_stage(run, "C02", 1 if tier == "quick" else 8)
    run.cov["rule"] = ("7 hosts (typed Core::resolve on the Command-API app and on the legacy-capability app; Bridge bincode and BridgeWithSerializer json on both; "
                       "a bare Command with explicit poll/abort/drop) x histories of 4..%d steps: events spawning 1..7 tasks (one-shot u64/String requests with chains, "
                       "streams with consumers that end after 1..3 values or never, notifications; few labels so operations are often equal), resolutions of outstanding, "
                       "already answered and notification requests, undecodable bodies, vacant ids, dropped requests, late resolutions after abort/drop/finish. "
                       "A case is counted when distinct; non-trivial when at least one resolution is rejected." % max_steps)
    run.cov["samples"] = [{"host": c["host"], "steps": c["steps"][:3]} for c, _, _ in results[:2]]
    run.extra["distribution"] = {"steps_by_action": dict(acts), "resolution_results": {str(k): v for k, v in codes.items()}, "cases_by_host_profile": dict(hosts)}
    run.assumptions += ["what a task does with a value (send it on as an event) and when it ends are the test apps' (harness/src/bin/bridge_common); the order in which "
                        "tasks run inside one call is not compared (events are sorted by task) - that is C01/C03's subject",
                        "legacy capabilities: a stream whose request the shell drops is never ended (nothing wakes its task); modelled as such (ch_legacy)"]
    run.trusted += ["hand-written model coq/Bridge/Resolve.v", "harness/src/bin/bridge_arity.rs + bridge_common (test apps, Mark notifications linking a request to its task, "
                    "real serde for bodies, catch_unwind)", "verif hook Bridge::verif_registry (read-only, to tell which request an id addresses)",
                    "lib/common.py parser of coqc output, engines/bridge_eng.py JSON->Coq printer"]

# ---------------------------------------------------------------- C13
K_BITS = {1: "registry_keeps_notifications", 2: "registry_keeps_finished_streams",
          4: "legacy_task_kept_after_unresolvable_request", 8: "cleared_timer_id_kept_for_ever"}

RELEASE_HEADER = ("From Coq Require Import List ZArith NArith. Import ListNotations.\n"
                  "From Crux Require Import Bridge.Bridge Bridge.Resolve Bridge.Arity Bridge.Twin Bridge.Timer Bridge.Release.\nOpen Scope N_scope.\n")

def release_task_file(cases):
    def one(c):
        steps = lst(["mkRstep (%s) %s %s" % (coq_arity_step(s), zlit(s["tok"]), zlit(s["exec"])) for s in c["steps"]])
        return "(%s, %s, %s)" % ("true" if c["auto_poll"] else "false", "true" if c["host"].endswith("_old") else "false", steps)
    return RELEASE_HEADER + "Definition cs : list (bool * bool * list rstep) := [\n" + ";\n".join(one(c) for c in cases) + \
        "].\nEval vm_compute in (release_diags cs).\n"

def compress_reg_case(c):
    """replace the full registry snapshot of every call by its difference to the previous one (memory and case-file size)"""
    prev = {}
    for s in c["steps"]:
        snap = s.pop("snap")
        cur = {} if (snap and snap[0][0] == "panic") else {int(i): int(k) for i, k in snap}
        s["snap_removed"] = [i for i, k in prev.items() if cur.get(i) != k]
        s["snap_added"] = sorted((i, k) for i, k in cur.items() if prev.get(i) != k)
        s["snap_len"] = len(cur)
        prev = cur
    return c

def release_reg_file(cases):
    def one(c):
        xs = []
        for s in c["steps"]:
            xs.append("mkD (%s) %s %s %s %s %s %s" % (coq_call(dict(s, snap=[])), lst([nat(coq_id(i)) for i in s["snap_removed"]]),
                      lst(["(%s, %s)" % (nat(coq_id(i)), KIND[k]) for i, k in s["snap_added"]]),
                      zlit(s["exec"]), zlit(s["tok"]), zlit(s["texec"]), zlit(s["ttok"])))
        return "(%s, %s)" % (nlist(c["init_view"]), lst(xs))
    return RELEASE_HEADER + "Definition cs : list (aview * list dcall) := [\n" + ";\n".join(one(c) for c in cases) + \
        "].\nEval vm_compute in (reg_diags cs).\n"

def release_timer_file(cases):
    # ids are renumbered relative to the first id of the case (the counter is process-wide)
    def one(c):
        base = int(c["first_id"]) - 1
        def act(a):
            if a[0] == "set": return "TSet"
            return "%s %s" % ("TClear" if a[0] == "clear" else "TRespond", n(int(a[1]) - base))
        return "(1, %s)" % lst(["(%s, %s, %s)" % (act(s["act"]), zlit(s["cleared"]), zlit(s["waiting"])) for s in c["steps"]])
    return RELEASE_HEADER + "Definition cs : list (N * list (taction * Z * Z)) := [\n" + ";\n".join(one(c) for c in cases) + \
        "].\nEval vm_compute in (timer_diags cs).\n"

def long_reg_file(cases):
    return release_reg_file(cases).replace("Eval vm_compute in (reg_diags cs).", "Eval vm_compute in (long_diags cs).")

def long_session_stage(run, prop, bins, seed, hist, steps, replay_rerun=None):
    """Sessions long enough for the registry to grow past the slab's initial capacity (1024 entries; notifications keep
    their slot for ever): a few histories of `steps` calls in lockstep with the typed core, registry snapshots sent as
    differences, judged by C09's verdict (Bridge/Release.v long_diags = Twin.diag on the rebuilt history)."""
    rc, out = C.sh("%s %d %d %d %d" % (bins["bridge_twin"], seed + 77, hist, steps, steps - 50), timeout=1200)
    cases = []
    for l in out.splitlines():
        if l.startswith("{"):
            c = json.loads(l)
            if c.get("harness_panic"): continue
            cases.append(compress_reg_case(c))
    run.oblige("long-session stage: harness produced %d long histories" % len(cases), rc == 0 and len(cases) >= 2, out[-300:] if rc else "")
    if not cases: return
    res = eval_release(run, prop, cases, long_reg_file, nsh_max=8)
    peak = max((s["snap_len"] for c in cases for s in c["steps"]), default=0)
    bad_ok = [(c, st, k) for c, v, st, k in res if v == 2]
    bad_model = [(c, st, k) for c, v, st, k in res if v not in (0, 2)]
    run.cov["traces_validated_against_impl"] += len(res)
    run.extra["long_session_stage"] = {"histories": len(res), "calls_each": steps, "peak_registry_occupancy": peak}
    run.oblige("long-session stage: registry occupancy went past the slab's initial capacity (peak %d > 1024)" % peak, peak > 1024, "")
    run.oblige("long-session stage: model = bridges = typed core on %d histories of ~%d calls" % (len(res), steps), not bad_model and len(res) == len(cases),
               json.dumps([{"app": c["app"], "codec": c["codec"], "step": s, "differs": DIFF_FIELD.get(k, k)} for c, s, k in bad_model[:4]]))
    run.oblige("long-session stage: C09_ok holds on every long implementation trace", not bad_ok,
               json.dumps([{"app": c["app"], "codec": c["codec"], "step": s, "fails": OK_FIELD.get(k, k)} for c, s, k in bad_ok[:4]]))
    def window(c, s):
        lo = max(0, int(s) - 3)
        return {"app": c["app"], "codec": c["codec"], "case": c.get("case"), "calls_before": lo, "steps": c["steps"][lo:int(s) + 1]}
    rerun = {"long_session": {"seed": seed, "hist": hist, "steps": steps}}
    if bad_ok:
        bad_ok.sort(key=lambda x: x[1]); c, s, k = bad_ok[0]
        run.violation("C09_ok_long_session", {"property": prop, "what": OK_FIELD.get(k, str(k)), "first_offending_call": s, "rerun": rerun,
                      "how_to_replay": "harness/bridge_twin %d %d %d %d regenerates the histories (bincode + json bridge in lockstep with a typed core); the window below shows the calls around the first offending one (registry snapshots as differences)" % (seed + 77, hist, steps, steps - 50),
                      "cases": [window(c, s)]})
    elif bad_model:
        bad_model.sort(key=lambda x: x[1]); c, s, k = bad_model[0]
        run.violation("correspondence_long_session", {"property": prop, "what": "bridge model and implementation differ on a long session; C09_ok still holds", "rerun": rerun,
                      "broken": "correspondence coq/Bridge/Bridge.v vs crux_core::bridge (long session)", "cases": [dict(window(c, s), differs=DIFF_FIELD.get(k, k), at_call=s)]}, no_input=True)

def eval_release(run, prop_dir, cases, filefn, nsh_max=16):
    nsh = nsh_max if len(cases) >= nsh_max else max(1, len(cases))
    shards = [s for s in (cases[i::nsh] for i in range(nsh)) if s]
    res = C.run_case_files(prop_dir, [filefn(s) for s in shards], timeout=2400)
    out = []
    for sh, (ok, vals, raw) in zip(shards, res):
        if not ok or len(vals) != 1 or len(vals[0]) != 3 * len(sh):
            run.oblige("case-evaluation shard %s (coqc vm_compute)" % prop_dir, False, raw[-800:]); continue
        for k, c in enumerate(sh):
            out.append((c, vals[0][3 * k], vals[0][3 * k + 1], vals[0][3 * k + 2]))
    return out

def check_C13(run, replay=None):
    tier = run.tier
    thorough = tier != "quick"
    # long histories: quick ~1e3 calls per history, thorough ~1e5 calls in total per kind
    task_cases, task_steps = (28, 1000) if not thorough else (210, 1200)
    reg_hist, reg_steps = (4, 1000) if not thorough else (48, 1400)
    tm_cases, tm_steps = (16, 1000) if not thorough else (100, 2000)
    C.proof_stage(run, "C13", extra_targets=("Rt/Check.vo",))
    rp = json.load(open(replay)) if replay else None
    seed = run.seed
    if rp and rp.get("rerun"):
        r = rp["rerun"]; seed = r["seed"]
        task_cases, task_steps, reg_hist, reg_steps, tm_cases, tm_steps = r["task"][0], r["task"][1], r["reg"][0], r["reg"][1], r["timer"][0], r["timer"][1]
    rerun = {"seed": seed, "task": [task_cases, task_steps], "reg": [reg_hist, reg_steps], "timer": [tm_cases, tm_steps]}
    ok, log, bins = C.harness_build(["bridge_arity", "bridge_twin", "bridge_timers"])
    run.oblige("harness-build bridge_arity, bridge_twin, bridge_timers (dev, --cfg crux_verif) from the repository's working tree", ok, log[-1500:])
    kinds = {"task": [], "reg": [], "timer": []}
    for c in corpus_cases("C13"):
        if c.get("kind") in kinds: kinds[c["kind"]].append(dict(c, origin="corpus"))
    if ok:
        for kind, cmd in (("task", "%s %d %d %d %d" % (bins["bridge_arity"], seed, task_cases, task_steps, task_steps // 2)),
                          ("reg", "%s %d %d %d %d" % (bins["bridge_twin"], seed, reg_hist, reg_steps, reg_steps // 2)),
                          ("timer", "%s %d %d %d" % (bins["bridge_timers"], seed, tm_cases, tm_steps))):
            rc, out = C.sh(cmd, timeout=2400)
            crashed = 0
            for l in out.splitlines():
                if l.startswith("{"):
                    if kind == "reg" and '"codec":"json"' in l[:200] and not rp: continue   # identical to bincode here (C09 compares them)
                    c = json.loads(l)
                    if c.get("harness_panic"): crashed += 1; continue
                    if kind == "reg": c = compress_reg_case(c)
                    c["kind"] = kind; c["origin"] = "generated seed=%d" % seed; kinds[kind].append(c)
            del out
            run.oblige("harness-run %s histories completed" % kind, rc == 0 and crashed == 0, "rc=%d crashed=%d %s" % (rc, crashed, out[-300:] if rc else ""))
    if rp:
        sel = {(c.get("kind"), c.get("case"), c.get("host"), c.get("codec")) for c in rp.get("cases", [])}
        for k in kinds:
            again = [c for c in kinds[k] if (c.get("kind"), c.get("case"), c.get("host"), c.get("codec")) in sel]
            kinds[k] = again if again else [c for c in rp.get("cases", []) if c.get("kind") == k]
    for c in kinds["reg"]:
        if c["steps"] and "snap" in c["steps"][0]: compress_reg_case(c)     # cases from a replay / corpus file
    results = []
    results += [("task",) + r for r in eval_release(run, "C13_task", kinds["task"], release_task_file)]
    results += [("reg",) + r for r in eval_release(run, "C13_reg", kinds["reg"], release_reg_file)]
    results += [("timer",) + r for r in eval_release(run, "C13_timer", kinds["timer"], release_timer_file)]
    bad_ok, bad_model = [], []
    lens = collections.Counter(); calls = collections.Counter(); peak = collections.Counter()
    for kind, c, v, step, mask in results:
        n_steps = len(c["steps"])
        calls[kind] += n_steps; lens["%s:%d+" % (kind, n_steps // 250 * 250)] += 1
        if kind == "reg": peak["max registry occupancy"] = max(peak["max registry occupancy"], max((s["snap_len"] for s in c["steps"]), default=0))
        if kind == "task": peak["max live task futures"] = max(peak["max live task futures"], max((s["tok"] for s in c["steps"]), default=0))
        run.note_case((kind, c.get("host"), c.get("codec"), c.get("case"), n_steps, json.dumps(c["steps"][-3:], sort_keys=True)), nontrivial=n_steps >= 100)
        run.cov["traces_validated_against_impl"] += 1
        for bit, name in K_BITS.items():
            if mask & bit:
                run.known_seen.setdefault(name, {"kind": kind, "host": c.get("host"), "case": c.get("case"), "calls": n_steps})
        if v == 2: bad_ok.append((kind, c, step))
        elif v != 0: bad_model.append((kind, c, step))
    total = sum(calls.values())
    run.oblige("correspondence over long histories: model = implementation after every call (%d calls in %d histories: live task futures, "
               "registry snapshots, cleared-timer set)" % (total, len(results)), not bad_model and len(results) > 0,
               json.dumps([{"kind": k, "host": c.get("host"), "case": c.get("case"), "step": s, "observed": c["steps"][s] if s < len(c["steps"]) else None} for k, c, s in bad_model[:4]])[:1500])
    run.oblige("C13_ok holds after every call outside the known classes (live task futures <= resolvable requests once the tasks have run, executor "
               "occupancy, one-shot entries = outstanding one-shots, a response releases its one-shot entry, cleared set <= waiting timers)",
               not bad_ok, json.dumps([{"kind": k, "host": c.get("host"), "case": c.get("case"), "step": s, "observed": c["steps"][s] if s < len(c["steps"]) else None} for k, c, s in bad_ok[:4]])[:1500])
    if bad_ok:
        bad_ok.sort(key=lambda x: x[2])
        k, c, s = bad_ok[0]
        run.violation("C13_ok", {"property": "C13", "what": "something finished was not released (or the bound by outstanding work fails) outside the known classes",
                                 "kind": k, "first_offending_step": s, "rerun": rerun,
                                 "cases": [shrink_case(c, s)] + [shrink_case(cc, ss) for _, cc, ss in bad_ok[1:4]],
                                 "how_to_replay": "./check C13 --replay <this file> regenerates the histories from `rerun`; kind task: steps as in C02 plus tok (task futures alive) and exec "
                                                  "(executor live tasks); kind reg: calls as in C09 plus exec/tok of bridge and typed twin; kind timer: act, cleared (set size), waiting"})
    elif bad_model:
        bad_model.sort(key=lambda x: x[2])
        run.violation("correspondence", {"property": "C13", "what": "release model and implementation differ; C13_ok still holds on every trace seen",
                                         "rerun": rerun, "cases": [dict(shrink_case(c, s), at_step=s) for _, c, s in bad_model[:4]]}, no_input=True)
    if not rp:
        from engines import rt_eng
        rt_eng.release_stage(run, "C13", 2000 if not thorough else 30000)
    run.cov["rule"] = ("long histories (quick: ~1e3 calls each; thorough: ~1e5 calls per kind in total): (task) 7 hosts as in C02 with drop counters on a value captured by every task "
                       "future and the executor/command live-task hooks read after every call; (reg) twin runs as in C09 with the registry hook read after every call: event/response "
                       "cycles, renders, subscribe / consumer-ends; (timer) legacy crux_time set / clear / fire with the cleared-set hook. A history is non-trivial when it has >= 100 calls.")
    run.cov["samples"] = [{"kind": k, "host": c.get("host"), "steps": c["steps"][:2]} for k, c, _, _, _ in results[:3]]
    run.extra["distribution"] = {"calls_by_kind": dict(calls), "histories_by_kind_and_length": dict(lens), "peaks": dict(peak), "total_calls": total}
    run.assumptions += ["that dropping a future frees its memory is Rust's; the models show unreachability (receiver gone, nothing buffered, nothing delivered later)",
                        "task futures are counted through a value every task of the test apps captures; tasks of real apps capture arbitrary values - the theorems are about the runtime's bookkeeping"]
    run.trusted += ["hand-written models coq/Bridge/{Slab,Bridge,Resolve,Timer}.v", "harness bridge_arity.rs / bridge_twin.rs / bridge_timers.rs + bridge_common (drop counters)",
                    "verif hooks Bridge::verif_registry, Core::verif_executor_tasks, Command::verif_live_tasks, crux_time::verif_cleared_len (read-only)",
                    "lib/common.py parser of coqc output, engines/bridge_eng.py JSON->Coq printer"]
