"""C08 - concurrent shells lose nothing (engine `conc`).

Proof stage: coq/Properties/C08.v (interleaving models Conc/*.v, invariants Conc/*Proofs.v).
Correspondence: harness/src/bin/conc_run.rs parks real threads at the crux_core::verif schedule
points and releases them in a prescribed order; each run is translated into the label sequence of
the Coq model, the model is run on the same labels inside coqc (vm_compute) and compared with what
the implementation did; the outcome predicates (C08_evict_ok / C08_e2e_p2 / ...) are evaluated on
the implementation's own observations."""
import os, json, collections
import common as C

CORPUS = os.path.join(C.ROOT, "corpus", "conc", "schedules.txt")

def coq_bool(b): return "true" if b else "false"
def coq_natlist(xs): return "[" + "; ".join(str(int(x)) for x in xs) + "]"

def p2_term(c):
    sl = "; ".join("(%s, %s, (%d, %d, %d, %d))" % (s["order"], s["labels"], s["dec"], s["w"], s["c"], s["sent"]) for s in c["slices"])
    st = "; ".join("(%s, %s, %s, %d)" % (coq_natlist(s["ok"]), coq_natlist(s["got"]), coq_bool(s["spent"]), s["probe"]) for s in c["streams"])
    return "([%s], [%s], %d, %s)" % (sl, st, c["ends"], coq_bool(c["done"]))

def coq_ev(n):
    n = int(n)
    return "Direct %d" % n if n < 1000 else "Emitted %d %d" % ((n - 1000) // 100, (n - 1000) % 100)
def coq_evlist(xs): return "[" + "; ".join(coq_ev(x) for x in xs) + "]"

def core_term(c):
    p3 = "(%s, %s, [%s], [%s], %s)" % (c["p3labels"], coq_evlist(c["log"]), "; ".join(coq_evlist(v) for v in c["views"]),
                                       "; ".join("(%d, %d)" % (k, n) for k, n in c["sent"]), coq_natlist(c["directs"]))
    p1 = "(%s, %s, [%s], (%d, %d, %d, %d), %d, %s)" % (c["p1labels"], coq_natlist(c["expected_effects"]),
                                                      "; ".join("(%d, %d)" % (t, e) for t, e in c["returned"]),
                                                      c["lens"][0], c["lens"][1], c["lens"][2], c["lens"][3], c["probe_effects"], coq_bool(c["probes_ok"]))
    return "(%s, %s)" % (p3, p1)

PROTOS = {
    "P2": dict(term=p2_term, typ="p2case", fn="p2_verdicts"),
    "P3": dict(term=core_term, typ="ccase", fn="core_verdicts"),
    "P1": dict(term=core_term, typ="ccase", fn="core_verdicts"),
    "P1F": dict(term=core_term, typ="ccase", fn="core_verdicts"),
}

def nontrivial(c):
    """a run is non-trivial when it is not a sequential composition of the threads: some thread is
    preempted (another thread's event lies between two of its events)"""
    seen_done = set(); last = None
    for e in c["trace"]:
        t = e[0]
        if e[1] in ("start",): continue
        if t != last:
            if t in seen_done: return True
            if last is not None: seen_done.add(last)
            last = t
    return False

def key_of(c):
    return (c["proto"], c["scen"], tuple((e[0], e[1]) for e in c["trace"] if e[1] != "start"))

def slim(c):
    d = {k: v for k, v in c.items() if k != "trace"}
    d["trace"] = [[e[0], e[1], e[2] if not e[1].startswith("cmd.wake") and e[1] != "cmd.run_task.gen" else 0] for e in c["trace"]]
    return d

def evaluate(run, cases):
    """returns list of verdicts aligned with cases (None where evaluation failed)"""
    by = collections.defaultdict(list)
    for i, c in enumerate(cases):
        by[c["proto"]].append(i)
    nsh = 16 if len(cases) > 400 else 4
    texts, index = [], []
    for sh in range(nsh):
        t = ["From Coq Require Import List Arith Bool NArith. Import ListNotations.",
             "From Crux Require Import Conc.Events Conc.Slots Conc.Waker Conc.Check."]
        idx = []
        for proto in sorted(by):
            ids = by[proto][sh::nsh]
            spec = PROTOS[proto]
            t.append("Definition cs_%s : list %s := [" % (proto, spec["typ"]))
            t.append(";\n".join(spec["term"](cases[i]) for i in ids))
            t.append("].\nEval vm_compute in (%s cs_%s)." % (spec["fn"], proto))
            idx.append(ids)
        texts.append("\n".join(t)); index.append(idx)
    res = C.run_case_files("C08", texts)
    verd = [None] * len(cases)
    for idx, (ok, vals, raw) in zip(index, res):
        if not ok or len(vals) != len(idx) or any(len(v) != len(ids) for v, ids in zip(vals, idx)):
            run.oblige("case-evaluation shard", False, raw[-800:]); continue
        for ids, vs in zip(idx, vals):
            for i, v in zip(ids, vs): verd[i] = v
    return verd

def check_C08(run, replay=None):
    tier = run.tier
    C.proof_stage(run, "C08")
    ok, log, bins = C.harness_build(["conc_run"])
    run.oblige("harness-build conc_run from the repository working tree (--cfg crux_verif)", ok, log[-1500:])
    if not ok:
        return
    if replay:
        rp = json.load(open(replay))
        lines = "\n".join(json.dumps({"proto": c["proto"], "scen": c["scen"], "sched": c["sched"]}) for c in rp.get("cases", []))
        rf = os.path.join(C.ALT or C.CACHE, "conc_replay.jsonl"); open(rf, "w").write(lines + "\n")
        cmd = "%s replay %s" % (bins["conc_run"], rf)
    else:
        cmd = "%s all %s %d %s" % (bins["conc_run"], tier, run.seed, CORPUS)
    rc, out = C.sh(cmd, timeout=3000)
    if rc != 0:
        run.oblige("harness-run conc_run", False, out[-1500:]); return
    cases, summaries = [], []
    for l in out.splitlines():
        if l.startswith("{"): cases.append(json.loads(l))
        elif l.startswith("#"): summaries.append(l[1:].strip())
    run.oblige("harness-run conc_run produced cases", len(cases) > 0, out[-400:])
    hung = [c for c in cases if c["hung"]]
    panicked = [c for c in cases if c["panic"]]
    infeasible = [c for c in cases if not c["feasible"] and not c["hung"]]
    good = [c for c in cases if c["feasible"] and not c["hung"]]
    verd = evaluate(run, good)
    hist = collections.Counter(); per_scen = collections.Counter(); vh = collections.Counter()
    bad_ok, bad_model = [], []
    for c, v in zip(good, verd):
        hist[c["proto"]] += 1; per_scen[c["proto"] + ":" + c["scen"]] += 1; vh[str(v)] += 1
        run.note_case(key_of(c), nontrivial=nontrivial(c))
        run.cov["traces_validated_against_impl"] += 1
        if v == 2 or c["panic"]: bad_ok.append(c)
        elif v == 1: bad_model.append(c)
    for c in hung: bad_ok.append(c)
    run.oblige("no controlled run deadlocked or panicked (%d runs)" % len(cases), not hung and not panicked,
               json.dumps([slim(c) for c in (hung + panicked)[:2]]))
    run.oblige("correspondence model=implementation on %d controlled interleavings" % len(good), not bad_model and None not in verd,
               json.dumps([slim(c) for c in bad_model[:3]]))
    run.oblige("C08_ok holds on every implementation run", not bad_ok, json.dumps([slim(c) for c in bad_ok[:3]]))
    if bad_ok:
        bad_ok.sort(key=lambda c: len(c["sched"]))
        run.violation("C08_ok", {"property": "C08", "what": "a controlled interleaving of the real code loses/duplicates a wake-up, event, stream item or effect, tears down a live subscription, deadlocks or panics",
                                 "cases": [slim(c) for c in bad_ok[:10]],
                                 "how_to_replay": "./check C08 --replay <this file>: re-runs every case's (proto, scen, sched) against the current code; sched = the thread released at each step, threads parked at the crux_core::verif points named in the trace"})
    elif bad_model:
        bad_model.sort(key=lambda c: len(c["sched"]))
        run.violation("correspondence", {"property": "C08", "what": "model and implementation differ on a controlled interleaving; the outcome predicates still hold on every implementation run seen",
                                         "cases": [slim(c) for c in bad_model[:10]], "broken": "correspondence Conc/*.v vs crux_core under the schedule controller"}, no_input=True)
    run.cov["rule"] = ("depth-first enumeration of every interleaving (thread released at each schedule point) of small scenarios per protocol, "
                       "corpus schedules first, thorough adds three-thread scenarios and seeded random schedules; a case is distinct by its sequence of "
                       "(thread, point) events and non-trivial when some thread is preempted between two of its points (not a sequential composition)")
    run.cov["samples"] = [slim(c) for c in (good[:2] + good[-1:])]
    run.cov["exhaustive"] = all("exhaustive=true" in s for s in summaries) if summaries else False
    run.extra["distribution"] = {"per_protocol": dict(hist), "per_scenario": dict(per_scen), "verdicts": dict(vh),
                                 "infeasible_schedules": len(infeasible), "enumerations": summaries}
    run.assumptions += [
        "sequentially consistent interleaving semantics: weak-memory behaviour (Arc::strong_count is a Relaxed load; the repaired code adds fence(Acquire); Acquire/Release pairs elsewhere) is outside the model",
        "OS preemption inside a region between two schedule points is not controlled: a region is treated as atomic by the controller (the model has finer steps)",
        "the busy loop of QueuingExecutor::run_all on RunTask::Unavailable is a liveness matter: stated, not proved",
        "return values are not claimed linearisable: effects one call returns may have been caused by the other caller's input",
        "futures-channel mpsc, AtomicWaker, crossbeam-channel, std RwLock/Mutex are modelled as atomic operations, tied by correspondence only"]
    run.trusted += ["hand-written models coq/Conc/*.v", "harness/src/conc/*.rs: schedule controller, scenarios, translation of point traces to model labels",
                    "crux_core::verif schedule points (cfg crux_verif)", "lib/common.py parser of coqc output"]
