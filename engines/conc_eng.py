import json
"""C08 - concurrent shells lose nothing (engine `conc`).

Proof stage: coq/Properties/C08.v (interleaving models Conc/*.v, invariants Conc/*Proofs.v).
Correspondence: harness/src/bin/conc_run.rs parks real threads at the crux_core::verif schedule
points and releases them in a prescribed order; each run is translated into the label sequence of
the Coq model, the model is run on the same labels inside coqc (vm_compute) and compared with what
the implementation did; the outcome predicates (C08_evict_ok / C08_e2e_p2 / ...) are evaluated on
the implementation's own observations."""
import os, json, collections
import common as C

CORPUS = os.path.join(C.ROOT, "corpus", "conc", "schedules.txt")

def coq_bool(b): return "true" if b else "false"
def coq_natlist(xs): return "[" + "; ".join(str(int(x)) for x in xs) + "]"

def p2_term(c):
    sl = "; ".join("(%s, %s, (%d, %d, %d, %d))" % (s["order"], s["labels"], s["dec"], s["w"], s["c"], s["sent"]) for s in c["slices"])
    st = "; ".join("(%s, %s, %s, %d)" % (coq_natlist(s["ok"]), coq_natlist(s["got"]), coq_bool(s["spent"]), s["probe"]) for s in c["streams"])
    return "([%s], [%s], (%d, %d), %s)" % (sl, st, c["ends"], c["expect_ends"], coq_bool(c["done"]))

def coq_ev(n):
    n = int(n)
    return "Direct %d" % n if n < 1000 else "Emitted %d %d" % ((n - 1000) // 100, (n - 1000) % 100)
def coq_evlist(xs): return "[" + "; ".join(coq_ev(x) for x in xs) + "]"

def core_term(c):
    p3 = "(%s, %s, [%s], [%s], %s)" % (c["p3labels"], coq_evlist(c["log"]), "; ".join(coq_evlist(v) for v in c["views"]),
                                       "; ".join("(%d, %d)" % (k, n) for k, n in c["sent"]), coq_natlist(c["directs"]))
    p1 = "(%s, %s, [%s], (%d, %d, %d, %d), %d, %s)" % (c["p1labels"], coq_natlist(c["expected_effects"]),
                                                      "; ".join("(%d, %d)" % (t, e) for t, e in c["returned"]),
                                                      c["lens"][0], c["lens"][1], c["lens"][2], c["lens"][3], c["probe_effects"], coq_bool(c["probes_ok"]))
    return "(%s, %s)" % (p3, p1)

def gate_term(c):
    return "(%s, [%s])" % (core_term(c), "; ".join("(%d, %d, %d)" % tuple(x) for x in c.get("samples", [])))

PROTOS = {
    "PG": dict(term=gate_term, typ="gcase", fn="gate_verdicts"),
    "PF": dict(term=gate_term, typ="gcase", fn="gate_verdicts"),
    "PW": dict(term=core_term, typ="ccase", fn="core_verdicts"),
    "P2": dict(term=p2_term, typ="p2case", fn="p2_verdicts"),
    "P2H": dict(term=p2_term, typ="p2case", fn="p2_verdicts"),
    "P3": dict(term=core_term, typ="ccase", fn="core_verdicts"),
    "P1": dict(term=core_term, typ="ccase", fn="core_verdicts"),
    "P1F": dict(term=core_term, typ="ccase", fn="core_verdicts"),
}

def nontrivial(c):
    """a run is non-trivial when it is not a sequential composition of the threads: some thread is
    preempted (another thread's event lies between two of its events)"""
    seen_done = set(); last = None
    for e in c["trace"]:
        t = e[0]
        if e[1] in ("start",): continue
        if t != last:
            if t in seen_done: return True
            if last is not None: seen_done.add(last)
            last = t
    return False

def key_of(c):
    return (c["proto"], c["scen"], tuple((e[0], e[1]) for e in c["trace"] if e[1] != "start"))

def slim(c):
    d = {k: v for k, v in c.items() if k != "trace"}
    d["trace"] = [[e[0], e[1], e[2] if not e[1].startswith("cmd.wake") and e[1] != "cmd.run_task.gen" else 0] for e in c["trace"]]
    return d

def evaluate(run, cases):
    """returns list of verdicts aligned with cases (None where evaluation failed)"""
    by = collections.defaultdict(list)
    for i, c in enumerate(cases):
        by[c["proto"]].append(i)
    nsh = 16 if len(cases) > 400 else 4
    texts, index = [], []
    for sh in range(nsh):
        t = ["From Coq Require Import List Arith Bool NArith. Import ListNotations.",
             "From Crux Require Import Conc.Events Conc.Slots Conc.Waker Conc.Check."]
        idx = []
        for proto in sorted(by):
            ids = by[proto][sh::nsh]
            spec = PROTOS[proto]
            t.append("Definition cs_%s : list %s := [" % (proto, spec["typ"]))
            t.append(";\n".join(spec["term"](cases[i]) for i in ids))
            t.append("].\nEval vm_compute in (%s cs_%s)." % (spec["fn"], proto))
            idx.append(ids)
        texts.append("\n".join(t)); index.append(idx)
    res = C.run_case_files("C08", texts)
    verd = [None] * len(cases)
    for idx, (ok, vals, raw) in zip(index, res):
        if not ok or len(vals) != len(idx) or any(len(v) != len(ids) for v, ids in zip(vals, idx)):
            run.oblige("case-evaluation shard", False, raw[-800:]); continue
        for ids, vs in zip(idx, vals):
            for i, v in zip(ids, vs): verd[i] = v
    return verd

def run_harness(binp, jobs, outdir):
    """jobs: list of (proto, tier, seed, scen); runs conc_run for each (5 at a time), output to files"""
    from concurrent.futures import ThreadPoolExecutor
    os.makedirs(outdir, exist_ok=True)
    def one(j):
        proto, tier, seed, scen = j
        f = os.path.join(outdir, "%s_%s.jsonl" % (proto, scen))
        rc, out = C.sh("%s %s %s %d %s %s > %s" % (binp, proto, tier, seed, CORPUS, scen, f), timeout=2400)
        return (j, f, rc, out)
    with ThreadPoolExecutor(max_workers=5) as ex:
        return list(ex.map(one, jobs))

def legacy_stream_stage(run, reps):
    """capability/shell_stream.rs: the stream's channel check and waker registration are one critical section with the
    resolve callback's send-and-wake.  One shell thread is parked inside the consuming task's first poll at the moment
    the waker is cloned (a waker whose clone can be paused - no hook), while another thread's call is handed the stream
    request and answers it: the value must be applied, exactly as in every sequential order of the two calls."""
    ok, log, bins = C.harness_build(["legacy_conc"])
    run.oblige("harness-build legacy_conc (dev, --cfg crux_verif) from the repository's working tree", ok, log[-1500:])
    if not ok: return
    rc, out = C.sh("timeout 300 %s %d" % (bins["legacy_conc"], reps), timeout=400)
    rows = [json.loads(l) for l in out.splitlines() if l.startswith("{")]
    bad = [r for r in rows if not r.get("ok")]
    run.oblige("legacy ShellStream: a value resolved while the consuming task is parking is not lost (%d runs)" % len(rows),
               rc == 0 and len(rows) == reps and not bad, json.dumps(bad[:2])[:2000] or out[-500:])
    for r in rows:
        run.note_case(("legacy_stream", r.get("rep")), nontrivial=True); run.cov["traces_validated_against_impl"] += 1
    if bad:
        run.violation("legacy_stream_lost_value", {"property": "C08", "what": "a stream value that the legacy capability API accepted while another shell thread was inside the consuming task's poll was never applied (lost wake-up between the channel check and the waker registration of ShellStream::poll_next)",
                                                    "cases": bad[:5], "how_to_replay": ".cache/target/debug/legacy_conc <repetitions> (harness/src/bin/legacy_conc.rs)"})
    run.trusted += ["harness/src/bin/legacy_conc.rs (own app on the legacy capability API, pausable waker clone)"]

def check_C08(run, replay=None):
    tier = run.tier
    C.proof_stage(run, "C08", extra_targets=["Conc/Check.vo"])
    ok, log, bins = C.harness_build(["conc_run"])
    run.oblige("harness-build conc_run from the repository working tree (--cfg crux_verif)", ok, log[-1500:])
    if not ok:
        return
    outdir = os.path.join(C.ALT or C.CACHE, "conc_out")
    import shutil
    shutil.rmtree(outdir, ignore_errors=True); os.makedirs(outdir, exist_ok=True)
    files = []
    if replay:
        rp = json.load(open(replay))
        lines = "\n".join(json.dumps({"proto": c["proto"], "scen": c["scen"], "sched": c["sched"]}) for c in rp.get("cases", []))
        rf = os.path.join(outdir, "replay_in.jsonl"); open(rf, "w").write(lines + "\n")
        f = os.path.join(outdir, "replay.jsonl")
        rc, out = C.sh("%s replay %s > %s" % (bins["conc_run"], rf, f), timeout=1200)
        run.oblige("harness-run conc_run replay", rc == 0, out[-800:])
        files.append(f)
    else:
        rc, out = C.sh("%s list %s" % (bins["conc_run"], tier), timeout=60)
        jobs = [("all", tier, run.seed, "corpus")] + [(l.split()[0], tier, run.seed, l.split()[1]) for l in out.splitlines() if len(l.split()) == 2]
        res = run_harness(bins["conc_run"], jobs, outdir)
        bad = [(j, o[-300:]) for j, f, rc, o in res if rc != 0]
        run.oblige("harness-run conc_run (%d scenario runs)" % len(jobs), not bad, json.dumps(bad[:3]))
        files = [f for j, f, rc, o in res]
    summaries = []
    hist = collections.Counter(); per_scen = collections.Counter(); vh = collections.Counter(); tags = collections.Counter()
    labels = collections.Counter()
    def count_labels(c):
        txt = []
        if "slices" in c:
            for sl in c["slices"]:
                txt.append(sl["labels"]); labels["decision_%d" % sl["dec"]] += 1
        else:
            txt += [c["p1labels"], c["p3labels"]]
        for t in txt:
            for item in t.strip("[]").split(";"):
                w = item.strip().split(" ")[0]
                if w: labels[w] += 1
    bad_ok, bad_model, hung, panicked, samples = [], [], [], [], []
    n_cases = n_infeasible = n_good = 0
    eval_failed = False
    batch = []
    def flush():
        nonlocal batch, eval_failed, n_good
        if not batch: return
        verd = evaluate(run, batch)
        for c, v in zip(batch, verd):
            hist[c["proto"]] += 1; per_scen[c["proto"] + ":" + c["scen"]] += 1; vh[str(v)] += 1; tags[c["tag"]] += 1
            run.note_case(key_of(c), nontrivial=nontrivial(c))
            run.cov["traces_validated_against_impl"] += 1
            count_labels(c)
            n_good += 1
            if v is None: eval_failed = True
            elif v == 2 or c["panic"]:
                if len(bad_ok) < 200: bad_ok.append(c)
            elif v == 1:
                if len(bad_model) < 200: bad_model.append(c)
        if len(samples) < 3: samples.append(slim(batch[0]))
        batch = []
    for f in files:
        if not os.path.exists(f): continue
        for l in open(f):
            if l.startswith("{"):
                c = json.loads(l); n_cases += 1
                if c["hung"]: hung.append(c)
                elif not c["feasible"]: n_infeasible += 1
                else:
                    if c["panic"]: panicked.append(c)
                    batch.append(c)
                    if len(batch) >= 6000: flush()
            elif l.startswith("#"): summaries.append(l[1:].strip())
    flush()
    run.oblige("harness produced cases", n_cases > 0, "")
    for c in hung: bad_ok.append(c)
    run.oblige("no controlled run deadlocked or panicked (%d runs)" % n_cases, not hung and not panicked,
               json.dumps([slim(c) for c in (hung + panicked)[:2]]))
    run.oblige("correspondence model=implementation on %d controlled interleavings" % n_good, not bad_model and not eval_failed,
               json.dumps([slim(c) for c in bad_model[:3]]))
    run.oblige("C08_ok holds on every implementation run", not bad_ok, json.dumps([slim(c) for c in bad_ok[:3]]))
    if bad_ok:
        # deterministic (fully controlled) cases first, then gated, then uncontrolled stress runs
        rank = {"PG": 1, "PF": 2}
        bad_ok.sort(key=lambda c: (rank.get(c["proto"], 0), len(c["sched"])))
        run.violation("C08_ok", {"property": "C08", "what": "a controlled interleaving of the real code loses/duplicates a wake-up, event, stream item or effect, tears down a live subscription, deadlocks or panics",
                                 "cases": [slim(c) for c in bad_ok[:10]],
                                 "how_to_replay": "./check C08 --replay <this file>: re-runs every case's (proto, scen, sched) against the current code; sched = the thread released at each step, threads parked at the crux_core::verif points named in the trace"})
    elif bad_model:
        bad_model.sort(key=lambda c: len(c["sched"]))
        run.violation("correspondence", {"property": "C08", "what": "model and implementation differ on a controlled interleaving; the outcome predicates still hold on every implementation run seen",
                                         "cases": [slim(c) for c in bad_model[:10]], "broken": "correspondence Conc/*.v vs crux_core under the schedule controller"}, no_input=True)
    if not replay:
        legacy_stream_stage(run, 3 if run.tier == "quick" else 25)
    run.cov["rule"] = ("corpus schedules first; then depth-first enumeration of every interleaving (thread released at each schedule point) with at most k preemptions of each scenario "
                       "(quick: k=3 for P2, k=2 for the Core-level scenarios under the P3 and P1 park sets, two callers; thorough: three-caller scenarios, larger k, the full P1 point set, and seeded random schedules); "
                       "a case is distinct by its sequence of (thread, point) events and non-trivial when some thread is preempted between two of its points (the run is not a sequential composition of the calls)")
    run.cov["samples"] = samples
    # complete only within the preemption bound, so not claimed as an exhaustive enumeration
    run.cov["exhaustive"] = False
    run.extra["exhaustive_within_preemption_bound"] = bool(summaries) and all("exhaustive=true" in s for s in summaries)
    run.extra["model_branch_coverage"] = dict(labels)
    run.extra["distribution"] = {"per_protocol": dict(hist), "per_scenario": dict(per_scen), "verdicts": dict(vh), "by_origin": dict(tags),
                                 "infeasible_schedules": n_infeasible, "enumerations": summaries}
    run.assumptions += [
        "sequentially consistent interleaving semantics: weak-memory behaviour (Arc::strong_count is a Relaxed load; the repaired code adds fence(Acquire); Acquire/Release pairs elsewhere) is outside the model",
        "OS preemption inside a region between two schedule points is not controlled: a region is treated as atomic by the controller (the model has finer steps)",
        "the busy loop of QueuingExecutor::run_all on RunTask::Unavailable is a liveness matter: stated, not proved; the controller bounds it by a fairness rule (a thread that has spun twice is not scheduled while another thread can move)",
        "return values are not claimed linearisable: effects one call returns may have been caused by the other caller's input",
        "futures-channel mpsc, AtomicWaker, crossbeam-channel, std RwLock/Mutex are modelled as atomic operations, tied by correspondence only"]
    run.trusted += ["hand-written models coq/Conc/*.v", "harness/src/conc/*.rs: schedule controller, scenarios, translation of point traces to model labels",
                    "crux_core::verif schedule points (cfg crux_verif)", "lib/common.py parser of coqc output"]
