"""Engine `httpresp`: C15 (every HTTP result yields exactly one well-classified outcome) and
C16 (middleware order, redirects bounded and exact).  Coq model coq/HttpResp/*.v, statements
coq/Properties/C15.v / C16.v, drivers harness/src/bin/httpresp_c15.rs / httpresp_c16.rs."""
import os, json, collections, glob
import common as C

# ---------------------------------------------------------------- JSON (harness) -> Gallina
def raw_bytes(h):
    """hex string -> Gallina term of type bytes: a list of Byte.byte constructors under Resp.bb"""
    return "(bb [" + ";".join("x" + h[i:i + 2] for i in range(0, len(h), 2)) + "])"

class Interner:
    """Textual sharing inside one generated .v: a byte string that occurs several times (or starts
    with a registered prefix) is written once as a Definition and referred to by name.  Lossless:
    a name is definitionally the literal it abbreviates."""
    def __init__(self):
        self.names = {}      # hex -> name
        self.prefixes = []   # (hex, name), longest first
        self.defs = []
    def define(self, h):
        if h not in self.names:
            n = "b%d" % len(self.names)
            self.names[h] = n
            self.defs.append('Definition %s : bytes := Eval vm_compute in %s.' % (n, raw_bytes(h)))
        return self.names[h]
    def prefix(self, h):
        n = self.define(h)
        self.prefixes.append((h, n)); self.prefixes.sort(key=lambda p: -len(p[0]))
    def term(self, h):
        if not h: return "[]"
        if h in self.names: return self.names[h]
        for ph, n in self.prefixes:
            if h.startswith(ph) and len(h) > len(ph): return '(%s ++ %s)' % (n, raw_bytes(h[len(ph):]))
        return raw_bytes(h)

INTERN = Interner()

def collect_hex(x, acc):
    """every hex byte string occurring in a harness JSON value"""
    if isinstance(x, str):
        if len(x) % 2 == 0 and all(ch in "0123456789abcdef" for ch in x): acc.append(x)
    elif isinstance(x, list):
        for y in x: collect_hex(y, acc)
    elif isinstance(x, dict):
        for k, y in x.items():
            if k not in ("k", "t", "e", "bk", "profile", "anomalies"): collect_hex(y, acc)

def common_prefix(strs):
    if not strs: return ""
    a, b = min(strs), max(strs)
    i = 0
    while i < len(a) and a[i] == b[i]: i += 1
    return a[:i - (i % 2)]

def bl(h):
    """hex string -> Gallina byte string (decoded by Resp.hx, shared through INTERN)"""
    return INTERN.term(h or "")

def opt(x, f):
    return "None" if x is None else "(Some %s)" % f(x)

def lst(xs):
    return "[" + ";".join(xs) + "]"

def err_term(e):
    k = e["e"]
    if k == "http": return "(EHttp %d %s %s)" % (e["code"], bl(e["msg"]), opt(e["body"], bl))
    if k == "json": return "(EJson %s)" % bl(e["msg"])
    if k == "url": return "(EUrl %s)" % bl(e["msg"])
    if k == "io": return "(EIo %s)" % bl(e["msg"])
    if k == "timeout": return "ETimeout"
    raise ValueError(k)

def result_term(r):
    if r["t"] == "ok":
        return "(Rsp %d %s %s)" % (r["status"], lst("Hd %s %s" % (bl(n), bl(v)) for n, v in r["headers"]), bl(r["body"]))
    return "(RErr %s)" % err_term(r)

def sum_term(d, okkey, errkey):
    return "(L %s)" % bl(d[okkey]) if okkey in d else "(R %s)" % bl(d[errkey])

def oracle_term(o):
    return "(Tbl %s %s %s)" % (lst("Me %s %s" % (bl(v), opt(c, bl)) for v, c in o["mime"]),
                               lst("De %s %s" % (opt(l, bl), sum_term(r, "ok", "fail")) for l, r in o["decode"]),
                               sum_term(o["json"], "ok", "err"))

BK = {"bytes": "BBytes", "string": "BString", "json": "BJson"}
def outcome_term(ev):
    if ev["t"] == "ok":
        hs = lst("Hv %s %s" % (bl(n), lst(bl(v) for v in vs)) for n, vs in ev["headers"])
        body = "None" if ev["body"] is None else "(Some (%s %s))" % (BK[ev["bk"]], bl(ev["body"]))
        return "(OkR %d %s %s %s)" % (ev["status"], "None" if ev["version"] is None else "(Some 0)", hs, body)
    if ev["t"] == "err":
        return "(HErr %s)" % err_term(ev)
    return "HPanic"   # an event that is not a result event cannot be an outcome

def trace_term(im):
    panicked = im["panicked"] or bool(im.get("anomalies"))
    if not panicked and len(im["events"]) == 1:
        return "(T1 %s)" % outcome_term(im["events"][0])
    return "(Tn %s %s)" % (lst(outcome_term(e) for e in im["events"]), "true" if panicked else "false")

API = {0: "ACmd", 1: "ACap"}
EXP = {0: "XBytes", 1: "XString", 2: "XJson"}

C15_HEAD = ("From Coq Require Import List NArith Bool Init.Byte. Import ListNotations. From Crux Require Import HttpResp.Resp.\n"
            "Open Scope N_scope.\n")

def c15_case_term(c):
    return "Cs %s %s %s %s %s" % (API[c["api"]], EXP[c["exp"]], result_term(c["result"]), oracle_term(c["oracle"]), trace_term(c["impl"]))

def c15_text(cases, fixed=None):
    """A complete .v evaluating the verdicts of `cases` (generated/corpus cases, printed in full) and
    of the sweep runs among them (grouped into runs of consecutive statuses per API)."""
    global INTERN
    INTERN = Interner()
    gen = [c for c in cases if c["k"] != "sweep"]
    sweep = [c for c in cases if c["k"] == "sweep"]
    # sharing: strings that occur more than once and are long enough to matter
    acc = []
    for c in gen: collect_hex({k: c[k] for k in ("result", "oracle", "impl")}, acc)
    cnt = collections.Counter(h for h in acc if len(h) >= 16)
    for h, n in cnt.items():
        if n >= 2: INTERN.define(h)
    if sweep:
        sacc = []
        for c in sweep: collect_hex(c["impl"], sacc)
        scnt = collections.Counter(sacc)
        for h, n in scnt.items():
            if n >= 8 and len(h) >= 4: INTERN.define(h)
        msgs = [e["msg"] for c in sweep for e in c["impl"]["events"] if e.get("e") == "io"]
        pre = common_prefix(msgs)
        if len(pre) >= 16: INTERN.prefix(pre)
    body = []
    if fixed is not None and sweep:
        body.append("Definition sw_tbl : oracle_tables := %s." % oracle_term(fixed["oracle"]))
        body.append("Definition sw_hs : list (bytes * bytes) := %s." % lst("Hd %s %s" % (bl(n), bl(v)) for n, v in fixed["headers"]))
        body.append("Definition sw_body : bytes := %s." % bl(fixed["body"]))
    body.append("Definition cs : list case := [\n" + ";\n".join(c15_case_term(c) for c in gen) + "\n].")
    evals = ["Eval vm_compute in (verdicts cs)."]
    # runs of consecutive statuses of one API
    sweep.sort(key=lambda c: (c["api"], c["status"]))
    runs = []
    for c in sweep:
        if runs and runs[-1][-1]["api"] == c["api"] and runs[-1][-1]["status"] + 1 == c["status"]: runs[-1].append(c)
        else: runs.append([c])
    for i, r in enumerate(runs):
        body.append("Definition sw%d : list trace := [\n%s\n]." % (i, ";\n".join(trace_term(c["impl"]) for c in r)))
        evals.append("Eval vm_compute in (sweep_verdicts %s sw_hs sw_body sw_tbl %d sw%d)." % (API[r[0]["api"]], r[0]["status"], i))
    order = gen + [c for r in runs for c in r]
    return "\n".join([C15_HEAD] + INTERN.defs + body + evals), order

def make_shards_c15(allc, fixed, nsh=16):
    """generated cases are dealt round-robin, the sweep is cut into contiguous blocks"""
    gen = [c for c in allc if c["k"] != "sweep"]
    sweep = sorted([c for c in allc if c["k"] == "sweep"], key=lambda c: (c["api"], c["status"]))
    if len(allc) <= 400: nsh = 4
    parts = [gen[i::nsh] for i in range(nsh)]
    blk = (len(sweep) + nsh - 1) // nsh if sweep else 0
    for i in range(nsh):
        parts[i] = parts[i] + sweep[i * blk:(i + 1) * blk]
    parts = [p for p in parts if p]
    shards, texts = [], []
    for p in parts:
        text, order = c15_text(p, fixed)
        shards.append(order); texts.append(text)
    return shards, texts

def classify_c15(c):
    """distribution key of a case (for the evidence file only)"""
    r = c.get("result") or {"t": "ok", "status": c["status"]}
    if r["t"] != "ok": return "shell-err:" + r["e"]
    s = r["status"]
    band = "1xx-3xx" if 100 <= s < 400 else "4xx-5xx" if 400 <= s < 600 else "outside"
    im = c["impl"]
    out = "panic" if im["panicked"] else ("n=%d" % len(im["events"]) if len(im["events"]) != 1 else
          (im["events"][0]["t"] + (":" + im["events"][0]["e"] if im["events"][0]["t"] == "err" else "")))
    return "%s->%s" % (band, out)

def coqchk_stage(run, prop):
    """thorough tier: the compiled library is re-checked by the independent checker"""
    rc, out = C.sh("coqchk -silent -o -Q %s Crux Crux.Properties.%s" % (C.COQ, prop), timeout=1800)
    bad = [l for l in out.splitlines() if "relying on" in l or "assumed" in l or "Axioms" in l]
    clean = rc == 0 and all(l.rstrip().endswith("<none>") for l in bad)
    run.oblige("coqchk Crux.Properties.%s (no axioms, nothing assumed)" % prop, clean, out[-800:])

def corpus_path(name):
    return os.path.join(C.ROOT, "corpus", "httpresp", name + "_inputs.jsonl")

def run_lines(cmd, timeout=1500):
    rc, out = C.sh(cmd, timeout=timeout)
    if rc != 0: return None, out
    return [json.loads(l) for l in out.splitlines() if l.startswith("{")], out

def shrink(prop, case, to_input, candidates, rerun, evaluate, budget=40):
    """Greedy delta-debugging on the INPUT of a failing case: every candidate reduction is re-run on the
    real code by the harness (rerun) and re-judged inside coqc (evaluate -> verdict); a candidate is kept
    when its verdict is still 2.  Returns the smallest failing case found (with the implementation's
    observation for it)."""
    best = case
    for _ in range(budget):
        cands = candidates(to_input(best))
        if not cands: break
        tmp = os.path.join(C.ALT or C.CACHE, "shrink_%s.jsonl" % prop)
        open(tmp, "w").write("".join(json.dumps(c) + "\n" for c in cands))
        got = rerun(tmp)
        if not got or len(got) != len(cands): break
        verdicts = evaluate(got)
        if verdicts is None: break
        hit = [g for g, v in zip(got, verdicts) if v == 2]
        if not hit: break
        best = min(hit, key=lambda c: len(json.dumps(to_input(c))))
    return best

# ---- C15 shrinking
def c15_input(c):
    return {"name": c.get("name"), "api": c["api"], "exp": c["exp"], "result": c["result"]}

def c15_candidates(inp):
    r = inp["result"]; out = []
    if r["t"] != "ok": return out
    hs = r["headers"]
    for i in range(len(hs)):
        out.append(dict(inp, result=dict(r, headers=hs[:i] + hs[i + 1:])))
    b = r["body"]
    if b:
        out.append(dict(inp, result=dict(r, body="")))
        half = (len(b) // 4) * 2
        if half and half != len(b):
            out.append(dict(inp, result=dict(r, body=b[:half])))
            out.append(dict(inp, result=dict(r, body=b[half:])))
    for i, (n, v) in enumerate(hs):
        for k, s in ((0, n), (1, v)):
            if len(s) > 4:
                h2 = list(hs); e = list(h2[i]); e[k] = s[:(len(s) // 4) * 2]; h2[i] = e
                out.append(dict(inp, result=dict(r, headers=h2)))
    return [c for c in out if json.dumps(c, sort_keys=True) != json.dumps(inp, sort_keys=True)]

def c15_evaluate(cases):
    text, order = c15_text(cases, None)
    res = C.run_case_files("C15shrink", [text])
    if not res or not res[0][0]: return None
    flat = [v for l in res[0][1] for v in l]
    idx = {id(c): v for c, v in zip(order, flat)}
    return [idx.get(id(c)) for c in cases] if len(flat) == len(cases) else None

# ---- C16 shrinking
def c16_input(d):
    return {"name": d.get("name"), "case": d["case"]}

def c16_candidates(inp):
    c = inp["case"]; out = []
    def put(**kw): out.append({"name": inp.get("name"), "case": dict(c, **kw)})
    for key in ("client_stack", "req_stack"):
        s = c[key]
        for i in range(len(s)):
            put(**{key: s[:i] + s[i + 1:]})
            m = s[i]
            if m["t"] == "redirect" and m["attempts"] > 0:
                put(**{key: s[:i] + [dict(m, attempts=m["attempts"] // 2)] + s[i + 1:]})
                put(**{key: s[:i] + [dict(m, attempts=m["attempts"] - 1)] + s[i + 1:]})
            if m["t"] == "pass" and m["add"] is not None: put(**{key: s[:i] + [dict(m, add=None)] + s[i + 1:]})
            if m["t"] == "retry" and m["n"] > 1: put(**{key: s[:i] + [dict(m, n=m["n"] - 1)] + s[i + 1:]})
            if m["t"] == "issue":
                for side in ("pre", "post"):
                    for j in range(len(m[side])):
                        put(**{key: s[:i] + [dict(m, **{side: m[side][:j] + m[side][j + 1:]})] + s[i + 1:]})
    g = c["graph"]
    for i in range(len(g)): put(graph=g[:i] + g[i + 1:])
    if c.get("has_body"): put(has_body=False, request=dict(c["request"], body=""))
    dh = c.get("desc_headers", [])
    for i in range(len(dh)): put(desc_headers=dh[:i] + dh[i + 1:])
    return out

def c16_evaluate(cases):
    res = C.run_case_files("C16shrink", [c16_text(cases)])
    if not res or not res[0][0] or len(res[0][1]) != 1 or len(res[0][1][0]) != len(cases): return None
    return res[0][1][0]

def check_C15(run, replay=None):
    tier = run.tier
    count = 0 if replay else (3000 if tier == "quick" else 60000)
    C.proof_stage(run, "C15")
    if tier == "thorough" and not replay: coqchk_stage(run, "C15")
    known_list, _ = C.known_findings("C15")
    profiles = [False] if tier == "quick" else [False, True]
    cases, table, fixed = [], None, None
    for rel in profiles:
        ok, log, bins = C.harness_build(["httpresp_c15"], release=rel)
        run.oblige("harness-build httpresp_c15 (%s) from the repository working tree" % ("release" if rel else "dev"), ok, log[-1500:])
        if not ok:
            continue
        got, out = run_lines("%s %d %d %s %s" % (bins["httpresp_c15"], run.seed + (7 if rel else 0), count, "sweep" if not (rel or replay) else "nosweep",
                                                   corpus_path("c15") if not replay else "/dev/null"))
        if got is None:
            run.oblige("harness-run httpresp_c15", False, out[-1500:]); continue
        for d in got:
            if d["k"] == "table": table = d["known_status"]
            elif d["k"] == "sweep_fixed": fixed = d
            else:
                d["profile"] = "release" if rel else "dev"; cases.append(d)
    if replay:
        # a replay file carries inputs AND the observation that failed; the inputs are also run again on
        # the current tree so that both "it failed then" and "what it does now" are judged
        rp = json.load(open(replay))
        old_cases = rp.get("cases", []); fixed = rp.get("sweep_fixed", fixed)
        tmp = os.path.join(C.ALT or C.CACHE, "replay_C15.jsonl")
        open(tmp, "w").write("".join(json.dumps(c15_input(c)) + "\n" for c in old_cases if c["k"] == "case"))
        again = []
        if ok:
            again, _ = run_lines("%s 1 0 nosweep %s" % (bins["httpresp_c15"], tmp)); again = again or []
        cases = old_cases + [d for d in again if d["k"] == "case"]
    corpus = [c for c in cases if c.get("corpus")]
    # the status table of the model against the one http-types accepts today
    model_table = None
    res = C.run_case_files("C15tbl", [C15_HEAD + "Eval vm_compute in known_status_table."])
    if res and res[0][0] and res[0][1]: model_table = res[0][1][0]
    if table is not None:
        run.oblige("known_status_table of the model = the codes http_types::StatusCode::try_from accepts (%d codes)" % len(table),
                   model_table == table, "model %s\nlibrary %s" % (model_table, table))
    allc = cases
    shards, texts = make_shards_c15(allc, fixed)
    res = C.run_case_files("C15", texts)
    dist = collections.Counter(); verd = collections.Counter()
    bad_model, bad_ok, gen_bugs = [], [], []
    for s, (ok, vals, raw) in zip(shards, res):
        flat = [v for l in vals for v in l]
        if not ok or len(flat) != len(s):
            run.oblige("case-evaluation shard", False, raw[-800:]); continue
        for c, v in zip(s, flat):
            dist[classify_c15(c)] += 1; verd[v] += 1
            key = (c["k"], c["api"], c.get("exp", 0), json.dumps(c.get("result", c.get("status")), sort_keys=True))
            # the out-of-range part of the sweep (status < 100 or >= 600) exercises one model branch 130k
            # times: it is evaluated and compared, but only its edges are counted as distinct non-trivial cases
            run.note_case(key, nontrivial=(c["k"] != "sweep" or 100 <= c["status"] < 600 or c["status"] in (0, 1, 99, 600, 999, 1000, 65535)))
            run.cov["traces_validated_against_impl"] += 1
            if v == 1: bad_model.append(c)
            elif v == 2: bad_ok.append(c)
            elif v == 9: gen_bugs.append(c)
            elif v == 100: run.known_seen.setdefault("unknown_status", slim(c))
            elif v == 101: run.known_seen.setdefault("non_ascii_header", slim(c))
    n = len(allc)
    run.oblige("correspondence: model trace = implementation trace on %d cases (full status sweep 0..65535 in both APIs + generated)" % n,
               not bad_model and not gen_bugs, json.dumps([slim(c) for c in (bad_model + gen_bugs)[:4]]))
    run.oblige("C15_ok holds on every implementation trace outside the known classes", not bad_ok, json.dumps([slim(c) for c in bad_ok[:4]]))
    how = ("./check C15 --replay <this file>; each case: api 0=command 1=capability, exp 0=bytes 1=string 2=json, result = what the shell "
           "answered (hex byte strings), impl = events the app received / panicked; sweep cases use sweep_fixed's headers and body")
    if bad_ok:
        bad_ok.sort(key=lambda c: len(json.dumps(c)))
        gen = [c for c in bad_ok if c["k"] == "case"]
        if gen and not replay and ok:
            small = shrink("C15", gen[0], c15_input, c15_candidates,
                           lambda f: [d for d in (run_lines("%s 1 0 nosweep %s" % (bins["httpresp_c15"], f))[0] or []) if d["k"] == "case"], c15_evaluate)
            small["shrunk_from"] = len(json.dumps(c15_input(gen[0]))); bad_ok.insert(0, small)
        run.violation("C15_ok", {"property": "C15", "what": "an HTTP result did not yield exactly one well-classified outcome",
                                 "cases": bad_ok[:20], "sweep_fixed": fixed, "how_to_replay": how})
    elif bad_model or gen_bugs:
        both = sorted(bad_model + gen_bugs, key=lambda c: len(json.dumps(c)))
        run.violation("correspondence", {"property": "C15", "what": "model and implementation differ; C15_ok still holds on all implementation traces seen",
                                         "cases": both[:20], "sweep_fixed": fixed, "broken": "correspondence HttpResp.Resp.run vs crux_http", "how_to_replay": how}, no_input=True)
    run.cov["rule"] = ("exhaustive: every status 0..=65535 x {command API, capability API} with a fixed header and body; generated: "
                       "status (known codes, edges of every class, random u16) x header lists (repeated and mixed-case names, content types "
                       "with odd charsets, every fifth case from the malformed stream: non-ASCII / control bytes / empty names) x bodies "
                       "(empty, JSON, UTF-8, invalid UTF-8, BOMs, legacy encodings, kilobytes) x the five shell error variants x "
                       "{bytes,string,json} x both APIs; a case is counted once per distinct (api, expectation, shell result); every generated case is non-trivial "
                       "(it resolves one real HTTP effect and reads the single event); of the sweep only statuses 100..599 and the edges 0,1,99,600,999,1000,65535 "
                       "are counted as non-trivial, the remaining out-of-range statuses all take the same 'unsupported status' branch")
    run.cov["samples"] = [slim(c) for c in (cases[:2] + cases[-3:])]
    run.extra["distribution"] = {"by_class_and_outcome": dict(dist), "verdicts": {str(k): v for k, v in verd.items()},
                                 "corpus_cases": len(corpus)}
    run.assumptions += [
        "oracles (Section variables of the theorems; tables in the cases): http-types' Mime parser + param(charset), encoding_rs label lookup and decode, serde_json::from_slice; each is computed by the harness with the library itself and handed to the model as data",
        "http-types behaviour modelled by hand and tied by correspondence only: status table (also compared as a list every run), ASCII check and lower-casing of header names, Headers::append/insert/remove, set_body/take_body inventing a content type, HeaderValues::last",
        "HttpResponse header names/values and HttpError messages are Rust Strings (valid UTF-8); arbitrary non-UTF-8 bytes cannot reach this code (serde rejects them earlier, C12)"]
    run.trusted += ["hand-written model coq/HttpResp/Resp.v", "harness/src/bin/httpresp_c15.rs + httpresp_util (drive the real crux_http through AppTester, catch_unwind, canonical JSON observation)",
                    "engines/httpresp_eng.py (JSON -> Gallina printer) and lib/common.py parser of coqc output"]

def slim(c):
    d = {k: v for k, v in c.items() if k != "oracle"}
    s = json.dumps(d)
    return d if len(s) < 3000 else {"k": c["k"], "api": c["api"], "exp": c.get("exp"), "truncated": s[:3000]}

# ================================================================ C16
C16_HEAD = ("From Coq Require Import List NArith Bool Init.Byte. Import ListNotations. From Crux Require Import HttpResp.Resp HttpResp.Mw.\n"
            "Open Scope N_scope.\n")
API16 = {0: "ACapSend", 1: "ACmdBuild", 2: "ACapAsync"}

def side_term(s):
    return "Side %s %s" % (bl(s[0]), "None" if s[1] is None else "(Some %d)" % s[1])

def mw_term(m):
    t = m["t"]
    if t == "pass": return "MPass %d %s" % (m["id"], "None" if m["add"] is None else "(Some (Hd %s %s))" % (bl(m["add"][0]), bl(m["add"][1])))
    if t == "short": return "MShort %d %s" % (m["id"], result_term(m["result"]))
    if t == "issue": return "MIssue %d %s %s" % (m["id"], lst(side_term(s) for s in m["pre"]), lst(side_term(s) for s in m["post"]))
    if t == "retry": return "MRetry %d %d" % (m["id"], m["n"])
    if t == "redirect": return "MRedirect %d" % m["attempts"]
    raise ValueError(t)

def request_term(r):
    return "(Rq %s %s %s %s)" % (bl(r["method"]), bl(r["url"]), lst("Hd %s %s" % (bl(n), bl(v)) for n, v in r["headers"]), bl(r["body"]))

def mark_term(m):
    if m["m"] == "enter": return "Enter %d" % m["id"]
    if m["m"] == "exit": return "Exit %d" % m["id"]
    return "Shell %s" % request_term(m)

def parse_term(p):
    if "abs" in p: return "(UAbs %s)" % bl(p["abs"])
    if "rel" in p: return "URel"
    return "(UErr %s)" % bl(p["err"])

def trace16_term(im):
    panicked = im["panicked"] or bool(im.get("anomalies"))
    return "(T16 %s %s %s)" % (lst(mark_term(m) for m in im["log"]), lst(outcome_term(e) for e in im["events"]), "true" if panicked else "false")

def c16_case_term(d):
    c, o = d["case"], d["oracle"]
    return "C16 %s %s %s %s %s %s %s %s %s" % (
        API16[c["api"]], lst(mw_term(m) for m in c["client_stack"]), lst(mw_term(m) for m in c["req_stack"]), request_term(c["request"]),
        lst("Ge %s %s" % (bl(u), result_term(r)) for u, r in c["graph"]), result_term(c["default"]),
        lst("Pe %s %s" % (bl(l), parse_term(p)) for l, p in o["parse"]),
        lst("Je %s %s %s" % (bl(u), bl(l), sum_term(r, "ok", "err")) for u, l, r in o["join"]),
        trace16_term(d["impl"]))

def c16_text(cases):
    global INTERN
    INTERN = Interner()
    acc = []
    for d in cases: collect_hex({k: d[k] for k in ("case", "oracle", "impl")}, acc)
    cnt = collections.Counter(h for h in acc if len(h) >= 8)
    for h, n in cnt.items():
        if n >= 2: INTERN.define(h)
    body = "Definition cs : list case16 := [\n" + ";\n".join(c16_case_term(d) for d in cases) + "\n]."
    return "\n".join([C16_HEAD] + INTERN.defs + [body, "Eval vm_compute in (verdicts16 cs)."])

def classify_c16(d):
    c = d["case"]
    kinds = sorted({m["t"] for m in c["client_stack"] + c["req_stack"]})
    log = d["impl"]["log"]
    nshell = sum(1 for m in log if m["m"] == "shell")
    return "api%d %s shells=%s" % (c["api"], "+".join(kinds) or "none", nshell if nshell < 6 else "6+")

def check_C16(run, replay=None):
    tier = run.tier
    count = 0 if replay else (1200 if tier == "quick" else 30000)
    C.proof_stage(run, "C16")
    if tier == "thorough" and not replay: coqchk_stage(run, "C16")
    ok, log, bins = C.harness_build(["httpresp_c16"])
    run.oblige("harness-build httpresp_c16 (dev) from the repository working tree", ok, log[-1500:])
    cases = []
    if ok:
        got, out = run_lines("%s %d %d %s" % (bins["httpresp_c16"], run.seed, count, corpus_path("c16") if not replay else "/dev/null"))
        if got is None:
            run.oblige("harness-run httpresp_c16", False, out[-1500:])
        else:
            cases = got
    if replay:
        old_cases = json.load(open(replay)).get("cases", [])
        tmp = os.path.join(C.ALT or C.CACHE, "replay_C16.jsonl")
        open(tmp, "w").write("".join(json.dumps(c16_input(d)) + "\n" for d in old_cases))
        again = (run_lines("%s 1 0 %s" % (bins["httpresp_c16"], tmp))[0] or []) if ok else []
        cases = old_cases + again
    corpus = [d for d in cases if d.get("corpus")]
    allc = cases
    nsh = 48 if len(allc) > 4000 else 16 if len(allc) > 200 else 4     # smaller files elaborate faster than proportionally
    shards = [s for s in (allc[i::nsh] for i in range(nsh)) if s]
    res = C.run_case_files("C16", [c16_text(s) for s in shards])
    dist = collections.Counter(); verd = collections.Counter()
    bad_model, bad_ok, gen_bugs = [], [], []
    for s, (okk, vals, raw) in zip(shards, res):
        if not okk or len(vals) != 1 or len(vals[0]) != len(s):
            run.oblige("case-evaluation shard", False, raw[-800:]); continue
        for d, v in zip(s, vals[0]):
            dist[classify_c16(d)] += 1; verd[v] += 1
            c = d["case"]
            nontrivial = bool(c["client_stack"] or c["req_stack"])
            run.note_case(json.dumps(c, sort_keys=True), nontrivial=nontrivial)
            run.cov["traces_validated_against_impl"] += 1
            if v == 1: bad_model.append(d)
            elif v == 2: bad_ok.append(d)
            elif v == 9: gen_bugs.append(d)
    run.oblige("correspondence: model of the code = implementation (log of marks and shell requests, final event) on %d cases" % len(allc),
               not bad_model and not gen_bugs, json.dumps([slim16(d) for d in (bad_model + gen_bugs)[:3]]))
    run.oblige("C16_ok (implementation trace = reference semantics) on every case", not bad_ok, json.dumps([slim16(d) for d in bad_ok[:3]]))
    how = ("./check C16 --replay <this file>; each case: api 0=capability send 1=command build 2=capability send_async; client_stack/req_stack = "
           "middleware descriptions (pass/short/issue/retry/redirect); graph = the shell as url -> answer (hex byte strings), default otherwise; "
           "impl.log = enter/exit marks and the requests the shell received, in order; impl.events = what the app got")
    if bad_ok:
        bad_ok.sort(key=lambda d: len(json.dumps(d["case"])))
        if not replay and ok:
            small = shrink("C16", bad_ok[0], c16_input, c16_candidates,
                           lambda f: run_lines("%s 1 0 %s" % (bins["httpresp_c16"], f))[0], c16_evaluate)
            small["shrunk_from"] = len(json.dumps(bad_ok[0]["case"])); bad_ok.insert(0, small)
        run.violation("C16_ok", {"property": "C16", "what": "middleware order / redirect behaviour differs from the reference semantics",
                                 "cases": bad_ok[:10], "how_to_replay": how})
    elif bad_model or gen_bugs:
        both = sorted(bad_model + gen_bugs, key=lambda d: len(json.dumps(d["case"])))
        run.violation("correspondence", {"property": "C16", "what": "model of the code and implementation differ (or a generated case is malformed); C16_ok holds on all implementation traces seen",
                                         "cases": both[:10], "broken": "correspondence HttpResp.Mw.run_impl vs crux_http", "how_to_replay": how}, no_input=True)
    run.cov["rule"] = ("generated: API {capability send, command build, capability send_async} x client stack (0..5, through the cfg(crux_verif) hook) x request stack (0..5) of "
                       "pass-through (optionally adding a header) / short-circuit / request-issuing (side GETs, optionally with Redirect) / retrying / Redirect(attempts in 0,1,2,3,4,5,8,255) "
                       "x request (7 methods, headers, body or none) x shell = redirect graph built by walking: absolute, relative (18 forms incl. ../, ?q, #f, //host), loops, self-loops, "
                       "missing Location, two Location headers, invalid and non-ASCII Location (malformed stream, every fifth case), 3xx that are not redirects, errors, unknown status; "
                       "plus the two-relative-redirects witness in every API; a case is counted once per distinct description and is non-trivial when some middleware is installed")
    run.cov["samples"] = [slim16(d) for d in cases[:2] + cases[-2:]]
    run.extra["distribution"] = {"by_api_kinds_shells": dict(dist), "verdicts": {str(k): v for k, v in verd.items()}, "corpus_cases": len(corpus)}
    run.assumptions += [
        "oracles (Section variables of the theorems; tables in the cases): Url::parse (absolute / relative-without-base / other error) and Url::join of the url crate, computed by the harness with the crate itself; the shell is a function of the request (here: of its URL)",
        "user middleware is represented by the four kinds of the model's language; arbitrary middleware code (state, timing, reading response bodies) is outside the theorems",
        "Request::clone dropping the body, header map behaviour and from_protocol are modelled as in C15 and tied by correspondence"]
    run.trusted += ["hand-written model coq/HttpResp/Mw.v (+ Resp.v)", "harness/src/bin/httpresp_c16.rs (middleware built from descriptions, shell loop, url-crate oracles)",
                    "engines/httpresp_eng.py (JSON -> Gallina printer) and lib/common.py parser of coqc output"]

def slim16(d):
    x = {"case": d["case"], "impl": d["impl"]}
    s = json.dumps(x)
    return x if len(s) < 4000 else {"truncated": s[:4000]}
