"""Table of claimed properties: which engine module decides each, and the MANIFEST text."""
PROPS = {}
def reg(pid, module, engine, text, note, technique, design_ref, func="check"):
    PROPS[pid] = dict(module=module, engine=engine, text=text, note=note, technique=technique,
                      design_ref=design_ref, func=func)

import os, glob
for _f in sorted(glob.glob(os.path.join(os.path.dirname(os.path.abspath(__file__)), "props.d", "*.py"))):
    exec(compile(open(_f).read(), _f, "exec"), {"reg": reg})
