"""Table of claimed properties: which engine module decides each, and the MANIFEST text."""
PROPS = {}
def reg(pid, module, engine, text, note, technique, design_ref, func="check"):
    PROPS[pid] = dict(module=module, engine=engine, text=text, note=note, technique=technique,
                      design_ref=design_ref, func=func)

reg("C19", "time_eng", "time",
    "Coq theorems over all of Z (every u64, every (secs,nanos), every TimeDelta/DateTime in range): each conversion of the model returns exactly the denoted value when representable and rejects otherwise (C19_exact_or_rejected_partial + six round-trip/rejection theorems), kernel-checked; the hand-written model is tied to crux_time on every run by evaluating model and implementation on ~4k boundary and seeded random inputs per run (vm_compute inside coqc) and by evaluating the proved trace predicate C19_ok on the implementation's own results.",
    "Trusted: Coq kernel; hand-written model of duration.rs/instant.rs/chrono.rs (std Duration::new carry, SystemTime i64 range, chrono from_timestamp range and leap-second rule are modelled, tied by correspondence only); Rust harness. No axioms. One known class (Instant deserialised with nanos>=1e9) is excluded from the partial theorem and listed in KNOWN_FINDINGS.txt.",
    "Coq proof (lia over Z) + model/implementation correspondence by vm_compute", "DESIGN.md section 6 C19", func="check_C19")
