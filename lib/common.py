"""Shared machinery for the /verif checks: Coq build, assumption audit, harness build,
sharded evaluation of generated case files inside coqc, evidence and the violation protocol."""
import os, re, sys, json, time, subprocess, fcntl, glob, hashlib, shutil
from concurrent.futures import ThreadPoolExecutor

ROOT = os.path.dirname(os.path.dirname(os.path.abspath(__file__)))
COQ = os.path.join(ROOT, "coq")
CACHE = os.path.join(ROOT, ".cache")
REPO = os.path.abspath(os.environ.get("VERIF_REPO", "/repo"))
# VERIF_REPO=<scratch copy or worktree of /repo> runs a check against that tree instead (used to try
# seeded changes without touching /repo): the harness crate is copied with its path dependencies
# rewritten, and target dir, case files, evidence and replays go under .cache/alt/<name>/.
ALT = None if REPO == "/repo" else os.path.join(CACHE, "alt", hashlib.sha1(REPO.encode()).hexdigest()[:10])
TARGET = os.path.join(ALT or CACHE, "target")
OUT = ALT or ROOT          # where evidence/ and replays/ go
GUARD = "crux_verif"
NCPU = 16

ALLOWED_AXIOMS = {
    # name -> where it comes from (each is declared by the standard library itself)
    "functional_extensionality_dep": "Coq.Logic.FunctionalExtensionality",
    "Eqdep.Eq_rect_eq.eq_rect_eq": "Coq.Logic.Eqdep",
    "proof_irrelevance": "Coq.Logic.ProofIrrelevance",
    "JMeq_eq": "Coq.Logic.JMeq",
}

def env_base():
    e = dict(os.environ)
    e["CARGO_NET_OFFLINE"] = "true"
    e["RUSTUP_TOOLCHAIN"] = "stable-x86_64-unknown-linux-gnu"
    e["CARGO_TARGET_DIR"] = TARGET
    e["RUSTFLAGS"] = "--cfg " + GUARD
    e.pop("CONDA_PREFIX", None)
    return e

def sh(cmd, timeout=1800, cwd=ROOT, env=None, stdin=None):
    try:
        p = subprocess.run(cmd, shell=isinstance(cmd, str), cwd=cwd, env=env or env_base(),
                           stdout=subprocess.PIPE, stderr=subprocess.STDOUT, timeout=timeout,
                           input=stdin, text=True, errors="replace")
        return p.returncode, p.stdout
    except subprocess.TimeoutExpired as ex:
        out = ex.stdout if isinstance(ex.stdout, str) else (ex.stdout or b"").decode("utf8", "replace")
        return 124, (out or "") + "\n[timeout after %ss]" % timeout

class Lock:
    def __init__(self, name):
        os.makedirs(CACHE, exist_ok=True)
        self.path = os.path.join(CACHE, name + ".lock")
    def __enter__(self):
        self.f = open(self.path, "w"); fcntl.flock(self.f, fcntl.LOCK_EX); return self
    def __exit__(self, *a):
        fcntl.flock(self.f, fcntl.LOCK_UN); self.f.close()

# ---------------------------------------------------------------- Coq side
def coq_files():
    fs = []
    for d, _, names in os.walk(COQ):
        for n in names:
            if n.endswith(".v") and not n.startswith("."):
                fs.append(os.path.relpath(os.path.join(d, n), COQ))
    return sorted(fs)

def coq_prepare():
    """(Re)generate _CoqProject and the Makefile when the set of files changed."""
    files = coq_files()
    proj = "-Q . Crux\n-arg -w -arg -notation-overridden,-deprecated-hint-without-locality,-deprecated-instance-without-locality\n" + "\n".join(files) + "\n"
    pj = os.path.join(COQ, "_CoqProject")
    old = open(pj).read() if os.path.exists(pj) else ""
    if old != proj or not os.path.exists(os.path.join(COQ, "Makefile")):
        open(pj, "w").write(proj)
        rc, out = sh("coq_makefile -f _CoqProject -o Makefile", cwd=COQ, timeout=120)
        if rc != 0:
            raise RuntimeError("coq_makefile failed: " + out)

def coq_make(targets, timeout=3000):
    """Full .vo build of the given targets (paths relative to coq/, .vo). Returns (ok, log)."""
    # The Makefile is regenerated under a global lock; the build itself only under a per-target lock
    # (different properties build disjoint files apart from small shared bases), so one slow proof
    # file cannot stall every other check.
    with Lock("coq"):
        coq_prepare()
    key = hashlib.sha1(" ".join(sorted(targets)).encode()).hexdigest()[:8]
    with Lock("coq-" + key):
        rc, out = sh("make -j%d %s" % (8, " ".join(targets)), cwd=COQ, timeout=timeout)
        if rc != 0 and "inconsistent assumptions" in out:
            # two concurrent builds raced on a shared dependency: rebuild once, serialised
            with Lock("coq"):
                rc, out = sh("make -j%d %s" % (8, " ".join(targets)), cwd=COQ, timeout=timeout)
    return rc == 0, out

FORBIDDEN = re.compile(r"\b(Admitted|admit|Axiom|Axioms|Parameter|Parameters|Conjecture|Conjectures|Abort All)\b|Unset\s+Guard|bypass_check|Admit\s+Obligations|Unset\s+Positivity|Unset\s+Universe\s+Checking|type-in-type|impredicative-set")
def strip_comments(s):
    out = []; depth = 0; i = 0
    while i < len(s):
        if s.startswith("(*", i): depth += 1; i += 2; continue
        if s.startswith("*)", i) and depth > 0: depth -= 1; i += 2; continue
        if depth == 0: out.append(s[i])
        i += 1
    return "".join(out)

def audit_sources():
    """Forbidden-construct scan over every .v file that belongs to the development
    (Variable/Hypothesis are allowed only inside Sections; checked by counting)."""
    bad = []
    for f in coq_files():
        src = strip_comments(open(os.path.join(COQ, f)).read())
        src_nostr = re.sub(r'"[^"]*"', '""', src)
        for m in FORBIDDEN.finditer(src_nostr):
            bad.append("%s: %s" % (f, m.group(0)))
        depth = 0
        for m in re.finditer(r"^\s*(Section|End|Module|Variable|Variables|Hypothesis|Hypotheses|Context)\b\s*(\w*)", src_nostr, re.M):
            k = m.group(1)
            if k == "Section": depth += 1
            elif k == "End" and depth > 0: depth -= 1   # (Module End also decrements; conservative enough with next rule)
            elif k == "Module": depth += 1
            elif k in ("Variable", "Variables", "Hypothesis", "Hypotheses", "Context") and depth == 0:
                bad.append("%s: %s outside a section" % (f, k))
    return bad

def theorems_of(prop):
    src = strip_comments(open(os.path.join(COQ, "Properties", prop + ".v")).read())
    return re.findall(r"^\s*(?:Theorem|Lemma|Corollary|Example|Definition)\s+(" + prop + r"_\w+)", src, re.M)

def coq_assumptions(prop):
    """Print Assumptions for every C<nn>_* statement in Properties/<prop>.v, run in a fresh coqc.
    Returns (ok, {thm: [axioms]}, log)."""
    thms = theorems_of(prop)
    d = os.path.join(CACHE, "assume"); os.makedirs(d, exist_ok=True)
    f = os.path.join(d, "Assume_%s.v" % prop)
    with open(f, "w") as fh:
        fh.write("Require Import Crux.Properties.%s.\n" % prop)
        for t in thms:
            fh.write('Print Assumptions %s.\n' % t)
    rc, out = sh("coqc -noglob -Q %s Crux %s" % (COQ, f), timeout=600)
    res = {}
    if rc != 0:
        return False, res, out
    chunks = re.split(r"(?=Closed under the global context|Axioms:)", out)
    chunks = [c for c in chunks if c.startswith("Closed") or c.startswith("Axioms:")]
    ok = len(chunks) == len(thms)
    for t, c in zip(thms, chunks):
        if c.startswith("Closed"):
            res[t] = []
        else:
            names = re.findall(r"^([A-Za-z_][\w\.']*)\s*:", c[len("Axioms:"):], re.M)
            res[t] = names
            for n in names:
                if n not in ALLOWED_AXIOMS and n.split(".")[-1] not in ALLOWED_AXIOMS:
                    ok = False
    return ok, res, out

# ---------------------------------------------------------------- Rust side
def harness_build(bins, release=False, crate="harness", timeout=3000, features=None):
    """Rebuild the harness (and with it the crux crates from /repo's working tree, hooks on)."""
    cdir = os.path.join(ROOT, crate)
    if ALT:
        adir = os.path.join(ALT, crate)
        os.makedirs(adir, exist_ok=True)
        sh("rsync -a --delete --exclude target %s/ %s/" % (cdir, adir))
        for f in glob.glob(os.path.join(adir, "**", "Cargo.toml"), recursive=True):
            t = open(f).read().replace('"/repo/', '"%s/' % REPO)
            open(f, "w").write(t)
        cdir = adir
    lock = os.path.join(cdir, "Cargo.lock")
    if not os.path.exists(lock):
        shutil.copy(os.path.join(REPO, "Cargo.lock"), lock)
    cmd = "cargo build --offline %s %s" % ("--release" if release else "", " ".join("--bin " + b for b in bins))
    with Lock("cargo-" + crate + ("-rel" if release else "")):
        rc, out = sh(cmd, cwd=cdir, timeout=timeout)
    prof = "release" if release else "debug"
    return rc == 0, out, {b: os.path.join(TARGET, prof, b) for b in bins}

# ---------------------------------------------------------------- cases in coqc
def mem_available_gb():
    """Memory this process may still use: MemAvailable, capped by the cgroup limit if there is one."""
    avail = 8.0
    try:
        for line in open("/proc/meminfo"):
            if line.startswith("MemAvailable:"):
                avail = int(line.split()[1]) / 1048576.0
    except Exception: pass
    for lim, cur in (("/sys/fs/cgroup/memory.max", "/sys/fs/cgroup/memory.current"),
                     ("/sys/fs/cgroup/memory/memory.limit_in_bytes", "/sys/fs/cgroup/memory/memory.usage_in_bytes")):
        try:
            l = open(lim).read().strip()
            if l != "max":
                room = (int(l) - int(open(cur).read().strip())) / 1073741824.0
                avail = min(avail, room)
        except Exception: pass
    return max(1.0, avail)

def case_workers(texts):
    """coqc needs roughly 0.4 GB plus up to 1 GB per MB of case text; never start more evaluators than fit."""
    if not texts: return 1
    per = 0.4 + max(len(t) for t in texts) / 1.0e6 * 1.0
    return max(1, min(NCPU, len(texts), int(mem_available_gb() * 0.7 / per)))

def run_case_files(prop, texts, timeout=1500, stack_unlimited=True):
    """texts: list of complete .v sources, each printing with `Eval vm_compute in (...)` one or
    more `list N` values. Evaluated in parallel; returns list of (ok, [list of int lists], raw)."""
    d = os.path.join(ALT or CACHE, "cases", prop)
    shutil.rmtree(d, ignore_errors=True); os.makedirs(d, exist_ok=True)
    paths = []
    for i, t in enumerate(texts):
        p = os.path.join(d, "cases_%03d.v" % i)
        open(p, "w").write(t); paths.append(p)
    def one(p):
        pre = "ulimit -s unlimited; " if stack_unlimited else ""
        rc, out = sh(pre + "coqc -noglob -Q %s Crux %s" % (COQ, p), timeout=timeout, cwd=d)
        if rc != 0:
            return (False, [], out)
        vals = []
        for m in re.finditer(r"=\s*(\[[^\]]*\])\s*:\s*list (?:N|nat|Z)", out, re.S):
            body = m.group(1)
            vals.append([int(x) for x in re.findall(r"-?\d+", re.sub(r"%[NZ]|%nat", "", body))])
        return (True, vals, out)
    with ThreadPoolExecutor(max_workers=case_workers(texts)) as ex:
        res = list(ex.map(one, paths))
    # a coqc killed from outside (rc 137 / "Killed": the kernel's OOM killer when the machine is busy with other work) says
    # nothing about the cases: evaluate those shards again, one at a time
    for i, (ok, vals, out) in enumerate(res):
        if not ok and out.strip().endswith("Killed"):
            res[i] = one(paths[i])
    return res

# ---------------------------------------------------------------- known findings
def known_findings(prop):
    known, fixed = [], []
    p = os.path.join(ROOT, "KNOWN_FINDINGS.txt")
    if os.path.exists(p):
        for line in open(p):
            line = line.strip()
            m = re.match(r"known:\s+property=(\w+)\s+class=(\S+)\s+(.*)", line)
            if m and m.group(1) == prop: known.append((m.group(2), m.group(3)))
            m = re.match(r"fixed:\s+property=(\w+)\s+(\S+)\s+(.*)", line)
            if m and m.group(1) == prop: fixed.append((m.group(2), m.group(3)))
    return known, fixed

# ---------------------------------------------------------------- result object
class Run:
    def __init__(self, prop, tier, seed):
        self.prop, self.tier, self.seed = prop, tier, seed
        self.t0 = time.time()
        self.obligations = []      # (name, ok, detail)
        self.violations = []       # (replay_path, no_input_found)
        self.known_seen = {}       # class -> example
        self.cov = {"evaluations": 0, "distinct_nontrivial": 0, "samples": [], "rule": "",
                    "traces_validated_against_impl": 0}
        self.assumptions = []
        self.trusted = []
        self.distinct = set()
        self.extra = {}
    def oblige(self, name, ok, detail=""):
        self.obligations.append((name, bool(ok), detail))
        return ok
    def replay_path(self, tag):
        d = os.path.join(OUT, "replays", self.prop); os.makedirs(d, exist_ok=True)
        return os.path.join(d, "%s_%s_%d.json" % (tag, self.tier, self.seed))
    def violation(self, tag, payload, no_input=False):
        p = self.replay_path(tag)
        json.dump(payload, open(p, "w"), indent=1, default=str)
        self.violations.append((p, no_input))
    def note_case(self, key, nontrivial=True):
        self.cov["evaluations"] += 1
        if nontrivial:
            self.distinct.add(hashlib.sha1(repr(key).encode()).hexdigest())
    def finish(self, level="proof", checker_cmd=""):
        self.cov["distinct_nontrivial"] = len(self.distinct)
        n_ob = len(self.obligations); n_ok = sum(1 for o in self.obligations if o[1])
        self.cov.update({"obligations": n_ob, "discharged": n_ok, "checker_cmd": checker_cmd,
                         "trusted_base": self.trusted,
                         "obligation_list": [{"name": n, "ok": ok, "detail": d[:400]} for n, ok, d in self.obligations]})
        self.cov.update(self.extra)
        known, fixed = known_findings(self.prop)
        known_classes = {k for k, _ in known}
        unlisted = [c for c in self.known_seen if c not in known_classes]
        for c in unlisted:
            self.violation("unlisted_" + c, {"property": self.prop, "class": c, "example": self.known_seen[c],
                           "note": "a failing class the model defines but KNOWN_FINDINGS.txt does not list"})
        broken = [o for o in self.obligations if not o[1]]
        if broken and not self.violations:
            self.violation("obligation", {"property": self.prop, "broken_obligations": [
                {"name": n, "detail": d} for n, ok, d in broken],
                "note": "a theorem or correspondence batch no longer checks and the search found no input on which the property's trace predicate fails"}, no_input=True)
        ev = {"property_id": self.prop, "tier": self.tier, "seed": self.seed, "level": level,
              "coverage": self.cov, "assumptions": self.assumptions,
              "wall_s": round(time.time() - self.t0, 2), "violations": len(self.violations)}
        os.makedirs(os.path.join(OUT, "evidence"), exist_ok=True)
        json.dump(ev, open(os.path.join(OUT, "evidence", self.prop + ".json"), "w"), indent=1, default=str)
        for cls, what in known:
            if cls in self.known_seen:
                print("KNOWN-FINDING: property=%s %s [class %s; e.g. %s]" % (self.prop, what, cls, str(self.known_seen[cls])[:160]))
        for n, ok, d in broken[:6]:
            # said on stderr as well, so that a log of the run shows WHAT no longer checks
            sys.stderr.write("BROKEN-OBLIGATION property=%s %s :: %s\n" % (self.prop, n, " | ".join(str(d)[-900:].splitlines()[-12:])))
        for p, no_input in self.violations:
            print("VIOLATION property=%s replay=%s%s" % (self.prop, p, " no-failing-input-found" if no_input else ""))
        print("%s %s tier=%s seed=%d obligations=%d/%d evaluations=%d nontrivial=%d wall=%.1fs" % (
            "FAIL" if self.violations else "PASS", self.prop, self.tier, self.seed, n_ok, n_ob,
            self.cov["evaluations"], self.cov["distinct_nontrivial"], time.time() - self.t0))
        return 1 if self.violations else 0

def proof_stage(run, prop, extra_targets=()):
    """Obligations common to every property: sources audited, Properties/<prop>.vo built by a full
    make, Print Assumptions inside the allow-list."""
    bad = audit_sources()
    run.oblige("source-audit(no Admitted/Axiom/Parameter/guard-off)", not bad, "; ".join(bad))
    ok, log = coq_make(["Properties/%s.vo" % prop] + list(extra_targets))
    run.oblige("coq-make Properties/%s.vo" % prop, ok, log[-1500:])
    if not ok:
        return False
    ok2, ax, log2 = coq_assumptions(prop)
    used = sorted({a for v in ax.values() for a in v})
    run.oblige("print-assumptions %s (axioms used: %s)" % (prop, ", ".join(used) or "none"), ok2, log2[-800:])
    for t in ax:
        run.oblige("theorem " + t, True, "axioms: " + (", ".join(ax[t]) or "closed under the global context"))
    run.extra["axioms_used"] = used
    run.trusted += ["Coq 8.16.1 kernel (coqc, full .vo build; vm_compute used for closed finite witnesses and case evaluation; no native_compute)"]
    return ok2
