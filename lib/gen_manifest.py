#!/usr/bin/env python3
"""Regenerates MANIFEST.json from lib/props.py (claimed) and lib/not_applicable.json."""
import json, os, sys
sys.path.insert(0, os.path.dirname(os.path.abspath(__file__)))
from props import PROPS
ROOT = os.path.dirname(os.path.dirname(os.path.abspath(__file__)))
all_ids = [json.loads(l)["id"] for l in open(os.path.join(ROOT, "properties.jsonl"))]
na_path = os.path.join(ROOT, "lib", "not_applicable.json")
na = json.load(open(na_path)) if os.path.exists(na_path) else {}
hooks_path = os.path.join(ROOT, "lib", "hook_commits.json")
hook_commits = json.load(open(hooks_path)) if os.path.exists(hooks_path) else []
engines = {}
for pid, p in PROPS.items():
    engines.setdefault(p["engine"], []).append(pid)
m = {
 "version": 1,
 "setup_cmd": "./setup.sh",
 "hooks": {"guard": "crux_verif", "enable": "RUSTFLAGS=\"--cfg crux_verif\" (set by lib/common.py for every harness build; harness crates link /repo/crux_* by path)",
           "baseline_off_cmd": "cd /repo && RUSTUP_TOOLCHAIN=stable-x86_64-unknown-linux-gnu CARGO_NET_OFFLINE=true cargo test --workspace --no-fail-fast --offline",
           "source_commits": hook_commits, "add_only": True},
 "engines": [{"name": e, "path": "engines/%s_eng.py + coq/ + harness/" % e, "serves_properties": sorted(ps),
              "kind_free_text": "hand-written Coq model + kernel-checked theorems + model/implementation correspondence by vm_compute on harness-generated cases"} for e, ps in sorted(engines.items())],
 "checks": [],
 "notes": "Every check = (1) full .vo build of coq/Properties/<id>.v with source audit and Print Assumptions allow-list, (2) harness rebuilt from /repo's working tree with --cfg crux_verif, (3) model vs implementation on generated cases inside coqc, (4) the proved trace predicate evaluated on the implementation's observations. See DESIGN.md.",
 "not_applicable": [],
}
for pid in all_ids:
    if pid in PROPS:
        p = PROPS[pid]
        m["checks"].append({
            "property_id": pid, "quick_cmd": "./check %s --tier quick" % pid, "thorough_cmd": "./check %s --tier thorough" % pid,
            "evidence_file": "/verif/evidence/%s.json" % pid, "replay_cmd_template": "./check %s --replay {path}" % pid,
            "engine": p["engine"], "level_claimed": {"category": "proof", "text": p["text"], "design_ref": p["design_ref"]},
            "level_note": p["note"], "technique": p["technique"]})
    else:
        m["not_applicable"].append({"property_id": pid, "reason": na.get(pid, "not yet claimed: model and theorems for this property are still being built (see DESIGN.md section 9); no check is registered so nothing is asserted about it")})
json.dump(m, open(os.path.join(ROOT, "MANIFEST.json"), "w"), indent=1)
print("MANIFEST.json: %d checks, %d not_applicable" % (len(m["checks"]), len(m["not_applicable"])))
