#!/bin/bash
# Build the framework offline after a fresh restore: whole Coq development (full .vo) and the harness.
set -e
cd "$(dirname "$0")"
export CARGO_NET_OFFLINE=true RUSTUP_TOOLCHAIN=stable-x86_64-unknown-linux-gnu
# start from sources only: compiled Coq files copied over from somewhere else (or cut short by an interrupted
# build) would be taken for up to date by make and then fail to load
find coq \( -name '*.vo' -o -name '*.vos' -o -name '*.vok' -o -name '*.glob' -o -name '.*.aux' -o -name '.lia.cache' \) -delete 2>/dev/null || true
rm -f coq/Makefile coq/Makefile.conf coq/.Makefile.d
python3 - <<'PY'
import sys; sys.path.insert(0, "lib")
import common as C
C.coq_prepare()
# -k: one broken file must not keep the other properties from being built; each check rebuilds
# its own target and reports a broken one as a failed obligation.
rc, out = C.sh("make -k -j16", cwd=C.COQ, timeout=7000)
print(out[-3000:])
import os, glob
for crate in ("harness", "harness_cli"):
    if not os.path.isdir(os.path.join(C.ROOT, crate)): continue
    bins = [os.path.basename(f)[:-3] for f in glob.glob(os.path.join(C.ROOT, crate, "src", "bin", "*.rs"))]
    for rel in (False, True):
        ok, log, _ = C.harness_build([], release=rel, crate=crate)
        print(log[-600:])
        if not ok:
            for b in bins:
                ok1, log1, _ = C.harness_build([b], release=rel, crate=crate)
                print(b, ok1)
PY
echo setup done
