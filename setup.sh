#!/bin/bash
# Build the framework offline after a fresh restore: whole Coq development (full .vo) and the harness.
set -e
cd "$(dirname "$0")"
export CARGO_NET_OFFLINE=true RUSTUP_TOOLCHAIN=stable-x86_64-unknown-linux-gnu
python3 - <<'PY'
import sys; sys.path.insert(0, "lib")
import common as C
C.coq_prepare()
rc, out = C.sh("make -j16", cwd=C.COQ, timeout=7000)
print(out[-3000:])
if rc != 0: sys.exit(1)
for crate, rel in (("harness", False), ("harness", True)):
    ok, log, _ = C.harness_build([], release=rel, crate=crate)
    print(log[-800:])
    if not ok: sys.exit(1)
PY
echo setup done
