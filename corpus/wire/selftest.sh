#!/bin/bash
# usage: wire-selftest.sh  -> applies each mutation to /tmp/wire-st1, runs the listed checks, resets
W=/tmp/wire-st1
LOG=/tmp/wire-selftest.log
: > $LOG
run() { # name, checks, python-patch
  name="$1"; checks="$2"; patch="$3"
  (cd $W && git reset -q --hard HEAD && python3 -c "$patch") || { echo "PATCH FAILED $name" >> $LOG; return; }
  echo "=== $name :: $(cd $W && git diff --stat | tail -1)" >> $LOG
  for c in $checks; do
    out=$(cd /verif && VERIF_REPO=$W ./check $c 2>&1 | grep -E "^(PASS|FAIL|VIOLATION|KNOWN)" | cut -c1-260)
    echo "$out" >> $LOG
  done
  (cd $W && git reset -q --hard HEAD)
}
P='import re,sys
def sub(path, old, new, count=1):
    s=open(path).read()
    assert old in s, (path, old)
    open(path,"w").write(s.replace(old,new,count))
'
run "M0 baseline (unchanged tree)" "C10 C17 C12" "$P"
run "M2 bridge uses varint instead of fixint" "C10 C12" "$P
sub('crux_core/src/bridge/mod.rs','            .with_fixint_encoding()\n','')"
run "M3 harmless: drop serde_bytes on KeyValueOperation::Set.value and HttpRequest.body (schema Bytes->Seq U8, same wire)" "C10" "$P
sub('crux_kv/src/lib.rs','        #[serde(with = \"serde_bytes\")]\n        value: Vec<u8>,','        value: Vec<u8>,')
sub('crux_http/src/protocol.rs','    #[serde(with = \"serde_bytes\")]\n    pub body: Vec<u8>,\n}\n\nimpl std::fmt::Debug for HttpRequest','    pub body: Vec<u8>,\n}\n\nimpl std::fmt::Debug for HttpRequest')"
run "M4 harmless: swap field order method/url in HttpRequest (schema and wire change together)" "C10" "$P
sub('crux_http/src/protocol.rs','    pub method: String,\n    pub url: String,\n    #[builder(setter(custom))]','    pub url: String,\n    pub method: String,\n    #[builder(setter(custom))]')"
run "M5 Instant.nanos skipped when zero on serialize" "C10" "$P
sub('crux_time/src/protocol/instant.rs','    pub(crate) nanos: u32,\n}','    #[serde(default, skip_serializing_if = \"nanos_is_zero\")]\n    pub(crate) nanos: u32,\n}\nfn nanos_is_zero(n: &u32) -> bool { *n == 0 }')"
run "M6 KeyValueOperation::register_types forgets Value" "C10" "$P
sub('crux_kv/src/lib.rs','        generator.register_type::<Value>()?;\n','')"
run "M7 command API list_keys passes cursor+1" "C17" "$P
sub('crux_kv/src/command.rs','            prefix: prefix.into(),\n            cursor,','            prefix: prefix.into(),\n            cursor: cursor.wrapping_add(1),')"
run "M8 Value->Option conflates empty with absent" "C17" "$P
sub('crux_kv/src/value.rs','            Value::Bytes(bytes) => Some(bytes),','            Value::Bytes(bytes) => if bytes.is_empty() { None } else { Some(bytes) },')"
run "M9 unwrap_exists accepts a Get response" "C17" "$P
sub('crux_kv/src/lib.rs','                KeyValueResponse::Exists { is_present } => Ok(is_present),','                KeyValueResponse::Exists { is_present } => Ok(is_present),\n                KeyValueResponse::Get { value } => Ok(value != Value::None),')"
run "M10 harmless: unwrap_delete rewritten with let-else" "C17" "$P
sub('crux_kv/src/lib.rs','''    fn unwrap_delete(self) -> Result<Option<Vec<u8>>, KeyValueError> {
        match self {
            KeyValueResult::Ok { response } => match response {
                KeyValueResponse::Delete { previous } => Ok(previous.into()),
                _ => panic!(
                    \"attempt to convert KeyValueResponse other than Delete to Option<Vec<u8>>\"
                ),
            },
            KeyValueResult::Err { error } => Err(error.clone()),
        }
    }''','''    fn unwrap_delete(self) -> Result<Option<Vec<u8>>, KeyValueError> {
        let response = match self { KeyValueResult::Err { error } => return Err(error), KeyValueResult::Ok { response } => response };
        let KeyValueResponse::Delete { previous } = response else { panic!(\"not a Delete response\") };
        Ok(Option::<Vec<u8>>::from(previous))
    }''')"
run "M11 resume removes the entry of a stream too" "C12" "$P
sub('crux_core/src/bridge/registry.rs','        if let ResolveSerialized::Never = entry {\n            registry_lock.remove(id.0 as usize);\n        }','        registry_lock.remove(id.0 as usize);')"
run "M12 event deserialization failure panics" "C12" "$P
sub('crux_core/src/bridge/mod.rs','erased_serde::deserialize(data).map_err(BridgeError::DeserializeEvent)?;','erased_serde::deserialize(data).expect(\"bad event\");')"
run "M13 bridge rejects trailing bytes" "C12" "$P
sub('crux_core/src/bridge/mod.rs','            .with_fixint_encoding()\n            .allow_trailing_bytes()','            .with_fixint_encoding()')"
run "M14 harmless: resolve() match arms reordered" "C12" "$P
sub('crux_core/src/bridge/request_serde.rs','''            ResolveSerialized::Never => Err(BridgeError::ProcessResponse(ResolveError::Never)),
            ResolveSerialized::Many(f) => f(bytes),''','''            ResolveSerialized::Many(f) => f(bytes),
            ResolveSerialized::Never => Err(BridgeError::ProcessResponse(ResolveError::Never)),''')"
echo DONE >> $LOG
