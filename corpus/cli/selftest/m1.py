p='crux_cli/src/codegen/filter.rs'; s=open(p).read()
i=s.index("    // structs with nothing to serialise"); j=s.index("    relation crates(String);")
s=s[:i]+s[j:]; open(p,'w').write(s)
