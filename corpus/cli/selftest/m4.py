# a renamed field keeps its Rust name (serde(rename) on fields ignored)
p='crux_cli/src/codegen/formatter.rs'; s=open(p).read()
old='''    if let Some((_whole, rename)) = field_attrs.iter().find_map(|attr| {
        lazy_regex::regex_captures!(r#"\\[serde\\(rename\\s*=\\s*"(\\w+)"\\)\\]"#, attr.as_ref())
    }) {
        return rename.to_string();
    }

    if let Some((_whole, rename_all)) = struct_attrs'''
new='''    if let Some((_whole, rename_all)) = struct_attrs'''
assert old in s, "pattern"; s=s.replace(old,new); open(p,'w').write(s)
