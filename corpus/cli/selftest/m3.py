# forget to sort the collected field formats of a plain struct (hash order leaks into field order)
p='crux_cli/src/codegen/formatter.rs'; s=open(p).read()
old='''fn make_struct_plain(fields: &[(&Indexed<Named<Format>>,)]) -> ContainerFormat {
    let mut fields = fields.to_owned();
    fields.sort();'''
new='''fn make_struct_plain(fields: &[(&Indexed<Named<Format>>,)]) -> ContainerFormat {
    let fields = fields.to_owned();'''
assert old in s; s=s.replace(old,new); open(p,'w').write(s)
