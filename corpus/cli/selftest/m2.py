# variant index = position among the DECLARED variants instead of among the present ones
p='crux_cli/src/codegen/node.rs'; s=open(p).read()
old='''        variant_ids(&self.item)
            .iter()
            .filter_map(|id| {
                variants
                    .iter()
                    .find(|(v,)| !v.should_skip() && id == &v.item.id)
                    .map(|found| found.0.clone())
            })
            .collect()'''
new='''        variant_ids(&self.item)
            .iter()
            .map(|id| {
                variants
                    .iter()
                    .find(|(v,)| !v.should_skip() && id == &v.item.id)
                    .map(|found| found.0.clone())
                    .unwrap_or_else(|| self.clone())
            })
            .collect()'''
assert old in s; s=s.replace(old,new); open(p,'w').write(s)
