# harmless: sort by the index explicitly, iterate declared ids with a loop, reorder two Datalog rules
p='crux_cli/src/codegen/formatter.rs'; s=open(p).read()
old='''fn make_struct_plain(fields: &[(&Indexed<Named<Format>>,)]) -> ContainerFormat {
    let mut fields = fields.to_owned();
    fields.sort();'''
new='''fn make_struct_plain(fields: &[(&Indexed<Named<Format>>,)]) -> ContainerFormat {
    let mut fields = fields.to_owned();
    fields.sort_by_key(|(f,)| f.index);'''
assert old in s; s=s.replace(old,new); open(p,'w').write(s)
p='crux_cli/src/codegen/filter.rs'; s=open(p).read()
a='''    edge(type_, field) <--
        edge(_, type_),
        field(type_, field);
'''
b='''    edge(type_, variant) <--
        edge(_, type_),
        variant(type_, variant);
'''
assert a+b in s; s=s.replace(a+b,b+a); open(p,'w').write(s)
p='crux_cli/src/codegen/node.rs'; s=open(p).read()
old='''        field_ids(&self.item)
            .iter()
            .filter_map(|id| {
                fields
                    .iter()
                    .find(|(f,)| !f.should_skip() && id == &f.item.id)
                    .map(|found| found.0.clone())
            })
            .collect()'''
new='''        let mut out = Vec::new();
        for id in field_ids(&self.item) {
            if let Some((f,)) = fields.iter().find(|(f,)| id == f.item.id && !f.should_skip()) {
                out.push((*f).clone());
            }
        }
        out'''
assert old in s; s=s.replace(old,new); open(p,'w').write(s)
