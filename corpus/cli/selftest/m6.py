# the protocol type changes in the source but the bundled description is not regenerated
p='crux_http/src/protocol.rs'; s=open(p).read()
old='''pub struct HttpHeader {
    pub name: String,
    pub value: String,
}'''
new='''pub struct HttpHeader {
    pub value: String,
    pub name: String,
}'''
assert old in s; s=s.replace(old,new); open(p,'w').write(s)
