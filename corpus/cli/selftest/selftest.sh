#!/bin/bash
# usage: selftest.sh <name> <python-edit-snippet-file>
name=$1; edit=$2
wt=/tmp/cli-st-$name
flock /tmp/git.lock git -C /repo worktree remove --force $wt 2>/dev/null
flock /tmp/git.lock git -C /repo worktree add --detach $wt HEAD >/dev/null 2>&1
(cd $wt && python3 $edit) || { echo "edit failed"; exit 1; }
(cd $wt && git diff --stat | tail -3)
cd /verif && VERIF_REPO=$wt timeout 1500 ./check C20 2>&1 | grep -v "^KNOWN-FINDING" | tail -6
h=$(python3 -c "import hashlib;print(hashlib.sha1('$wt'.encode()).hexdigest()[:10])")
ls /verif/.cache/alt/$h/replays/C20/ 2>/dev/null
echo "alt dir: /verif/.cache/alt/$h"
