//! Request description language shared by the httpreq_* drivers: types, oracles, independent encoders,
//! playing a description against the real crux_http through both APIs, generators.  See httpreq_build.rs.
#![allow(dead_code)]
use std::collections::BTreeMap;
use std::sync::Arc;

use crux_core::Command;
use crux_http::http::headers::{HeaderValue, HeaderValues};
use crux_http::http::{Body, Method, Url};
use crux_http::protocol::HttpRequest;
use serde::{Deserialize, Serialize};
use serde_json::{json, Value};
use vh::rng::Rng;


/// A body source that, like a file or a socket, hands its content over a few bytes per read: a reader of
/// known or unknown length need not deliver everything in one `read`.
pub struct Pieces { data: Vec<u8>, pos: usize, step: usize }
impl Pieces {
    pub fn new(data: Vec<u8>) -> Self { let step = 1 + data.len() / 3; Pieces { data, pos: 0, step } }
}
impl futures::io::AsyncRead for Pieces {
    fn poll_read(mut self: std::pin::Pin<&mut Self>, _cx: &mut std::task::Context<'_>, buf: &mut [u8]) -> std::task::Poll<std::io::Result<usize>> {
        let n = buf.len().min(self.step).min(self.data.len() - self.pos);
        let p = self.pos; buf[..n].copy_from_slice(&self.data[p..p + n]); self.pos += n;
        std::task::Poll::Ready(Ok(n))
    }
}
impl futures::io::AsyncBufRead for Pieces {
    fn poll_fill_buf(self: std::pin::Pin<&mut Self>, _cx: &mut std::task::Context<'_>) -> std::task::Poll<std::io::Result<&[u8]>> {
        let this = self.get_mut(); let n = this.step.min(this.data.len() - this.pos);
        std::task::Poll::Ready(Ok(&this.data[this.pos..this.pos + n]))
    }
    fn consume(mut self: std::pin::Pin<&mut Self>, amt: usize) { self.pos += amt; }
}

// ------------------------------------------------------------------ description language
#[derive(Serialize, Deserialize, Clone, Debug, PartialEq)]
pub struct Desc {
    pub api: String,   // "cmd" | "cap"
    pub entry: String, // "verb" (Http::get(&str) ...) | "request" (Http::request(Method, Url))
    pub method: String,
    pub url: String,
    pub split: usize, // ops[split..] are applied to the Request itself, inside a per-request middleware
    pub ops: Vec<Op>,
}

#[derive(Serialize, Deserialize, Clone, Debug, PartialEq)]
#[serde(tag = "t")]
pub enum Op {
    /// insert_header: `form` = "str" (&str), "string" (String), "slice" (&[HeaderValue]), "values" (&HeaderValues)
    Header { name: String, values: Vec<String>, form: String },
    /// Request::append_header (request stage only)
    Append { name: String, values: Vec<String>, form: String },
    /// Request::remove_header (request stage only)
    Remove { name: String },
    ContentType { mime: String },
    /// kind: string | bytes | json | form | into_str | into_vec | into_value | reader_none | reader_len |
    ///       empty | json_bad | form_bad | json_typed | form_typed (typed serde structs, field values = the
    ///       TSpec in `json`); `hex` = raw payload for the byte/string kinds
    Body { kind: String, hex: String, json: Option<Value>, pairs: Option<Vec<(String, String)>> },
    /// kind: map (BTreeMap<String,String>) | struct ({page,q,tags}) | typed (TQuery: renamed / optional /
    ///       non-alphabetical fields built from these fields) | bad (a bare string: serde_qs refuses)
    Query { kind: String, pairs: Vec<(String, String)>, page: u32, q: String, tags: Vec<String> },
}

#[derive(Serialize)]
pub struct QStruct { pub page: u32, pub q: String, pub tags: Vec<String> }

// ---- typed payloads: serde structs whose direct serialisation is NOT what a detour through
// serde_json::Value / a sorted map would give (field order not alphabetical, renames, f32, u128, Option,
// nesting).  The documented encoding of body_json / body_form / query is the direct serialisation of the
// value the app passed.  A typed body op carries its field values as a `TSpec` in the op's `json` slot
// (integers and strings only, floats as bit patterns, so a replay file reproduces the value exactly).
#[derive(Serialize, Deserialize, Clone, Debug, Default)]
pub struct TSpec { pub strs: Vec<String>, pub f32s: Vec<u32>, pub f64s: Vec<u64>, pub us: Vec<u64>, pub is: Vec<Option<i64>>, pub flag: bool }
impl TSpec {
    fn s(&self, i: usize) -> String { if self.strs.is_empty() { String::new() } else { self.strs[i % self.strs.len()].clone() } }
    fn f32(&self, i: usize) -> f32 { let v = if self.f32s.is_empty() { 0 } else { self.f32s[i % self.f32s.len()] }; let f = f32::from_bits(v); if f.is_finite() { f } else { 0.1 } }
    fn f64(&self, i: usize) -> f64 { let v = if self.f64s.is_empty() { 0 } else { self.f64s[i % self.f64s.len()] }; let f = f64::from_bits(v); if f.is_finite() { f } else { 0.1 } }
    fn u(&self, i: usize) -> u64 { if self.us.is_empty() { 0 } else { self.us[i % self.us.len()] } }
    fn i(&self, i: usize) -> Option<i64> { if self.is.is_empty() { None } else { self.is[i % self.is.len()] } }
}
#[derive(Serialize, Clone, Debug)]
pub struct TInner { pub y: f32, #[serde(rename = "x")] pub ex: u64, pub name: String }
#[derive(Serialize, Clone, Debug)]
#[serde(rename_all = "camelCase")]
pub enum TMode { FastPath, Slow(u8), Named { zz: u8, aa: f32 } }
#[derive(Serialize, Clone, Debug)]
pub struct TJson {
    pub zeta: String,
    #[serde(rename = "Alpha-Key")] pub alpha: f32,
    pub mid: u64,
    pub beta: Option<i64>,
    pub inner: TInner,
    pub list: Vec<TInner>,
    pub ratio: f64,
    pub big: u128,
    pub flag: bool,
    pub mode: TMode,
    pub neg: i64,
}
#[derive(Serialize, Clone, Debug)]
pub struct TForm { pub zed: String, #[serde(rename = "B-b")] pub b: u32, pub opt: Option<String>, pub flag: bool, pub amount: i64, pub aa: String }
#[derive(Serialize, Clone, Debug)]
pub struct TQuery { pub zoom: String, #[serde(rename = "Page-No")] pub page: u32, pub after: Option<String>, pub tags: Vec<String>, pub limit: u64 }

pub fn tspec_of(json: &Option<Value>) -> TSpec { json.as_ref().and_then(|v| serde_json::from_value(v.clone()).ok()).unwrap_or_default() }
pub fn typed_json(t: &TSpec) -> TJson {
    let inner = |k: usize| TInner { y: t.f32(k), ex: t.u(k + 1), name: t.s(k + 1) };
    TJson { zeta: t.s(0), alpha: t.f32(0), mid: t.u(0), beta: t.i(0), inner: inner(1), list: (0..(t.u(2) % 4) as usize).map(|k| inner(k + 2)).collect(),
            ratio: t.f64(0), big: ((t.u(3) as u128) << 40) | t.u(4) as u128, flag: t.flag,
            mode: match t.u(5) % 3 { 0 => TMode::FastPath, 1 => TMode::Slow(t.u(6) as u8), _ => TMode::Named { zz: t.u(6) as u8, aa: t.f32(3) } },
            neg: t.i(1).unwrap_or(-1) }
}
pub fn typed_form(t: &TSpec) -> TForm {
    TForm { zed: t.s(0), b: t.u(0) as u32, opt: if t.flag { Some(t.s(1)) } else { None }, flag: t.u(1) % 2 == 0, amount: t.i(0).unwrap_or(i64::MIN), aa: t.s(2) }
}
/// the pairs a TForm stands for, in field order (None is skipped), for the independent encoder
pub fn typed_form_pairs(f: &TForm) -> Vec<(String, String)> {
    let mut v = vec![("zed".to_string(), f.zed.clone()), ("B-b".to_string(), f.b.to_string())];
    if let Some(o) = &f.opt { v.push(("opt".into(), o.clone())); }
    v.push(("flag".into(), f.flag.to_string())); v.push(("amount".into(), f.amount.to_string())); v.push(("aa".into(), f.aa.clone()));
    v
}
pub fn typed_query(pairs: &[(String, String)], page: u32, q: &str, tags: &[String]) -> TQuery {
    TQuery { zoom: q.to_string(), page, after: pairs.first().map(|p| p.1.clone()), tags: tags.to_vec(), limit: (page as u64) << 31 | 7 }
}
pub fn typed_query_encode(t: &TQuery) -> String {
    let mut o = String::from("zoom="); form_byte(&mut o, &t.zoom);
    o.push_str(&format!("&Page-No={}", t.page));
    if let Some(a) = &t.after { o.push_str("&after="); form_byte(&mut o, a); }
    for (i, x) in t.tags.iter().enumerate() { o.push_str(&format!("&tags[{}]=", i)); form_byte(&mut o, x); }
    o.push_str(&format!("&limit={}", t.limit));
    o
}

pub fn hex(b: &[u8]) -> String { b.iter().map(|x| format!("{:02x}", x)).collect() }
pub fn unhex(s: &str) -> Vec<u8> { (0..s.len() / 2).map(|i| u8::from_str_radix(&s[2 * i..2 * i + 2], 16).unwrap()).collect() }

// ------------------------------------------------------------------ independent encoders (oracle-free)
/// application/x-www-form-urlencoded byte serialisation: alphanumerics and * - . _ stay, space is '+',
/// everything else %XX (upper-case hex).  Written from the WHATWG description, not from the crates.
fn form_byte(out: &mut String, s: &str) {
    for &b in s.as_bytes() {
        match b {
            b'0'..=b'9' | b'a'..=b'z' | b'A'..=b'Z' | b'*' | b'-' | b'.' | b'_' => out.push(b as char),
            b' ' => out.push('+'),
            _ => out.push_str(&format!("%{:02X}", b)),
        }
    }
}
pub fn form_encode(pairs: &[(String, String)]) -> String {
    let mut o = String::new();
    for (i, (k, v)) in pairs.iter().enumerate() {
        if i > 0 { o.push('&'); }
        form_byte(&mut o, k); o.push('='); form_byte(&mut o, v);
    }
    o
}
fn qs_struct_encode(page: u32, q: &str, tags: &[String]) -> String {
    let mut o = format!("page={}&q=", page);
    form_byte(&mut o, q);
    for (i, t) in tags.iter().enumerate() { o.push_str(&format!("&tags[{}]=", i)); form_byte(&mut o, t); }
    o
}

/// What the oracles say about one op; `None` = the call itself is refused (Err) or panics.
#[derive(Serialize, Clone, Debug, Default)]
pub struct Enc {
    /// body bytes / query string / rendered mime
    pub hex: Option<String>,
    /// independent encoder and library encoder disagree (reported, never silently accepted)
    pub oracle_disagree: bool,
}

pub struct BadJson;
impl Serialize for BadJson {
    fn serialize<S: serde::Serializer>(&self, s: S) -> Result<S::Ok, S::Error> {
        let mut m: BTreeMap<(u8, u8), u8> = BTreeMap::new(); m.insert((1, 2), 3); m.serialize(s)
    }
}

pub fn enc_of(op: &Op) -> Enc {
    match op {
        Op::Body { kind, hex: h, json, pairs } => match kind.as_str() {
            "string" | "bytes" | "into_str" | "into_vec" | "reader_none" | "reader_len" => Enc { hex: Some(h.clone()), ..Default::default() },
            "empty" => Enc { hex: Some(String::new()), ..Default::default() },
            "json" | "into_value" => Enc { hex: Some(hex(&serde_json::to_vec(json.as_ref().unwrap_or(&serde_json::Value::Null)).unwrap())), ..Default::default() },
            // the documented encoding of body_json: the direct serialisation of the typed value
            "json_typed" => Enc { hex: Some(hex(&serde_json::to_vec(&typed_json(&tspec_of(json))).unwrap())), ..Default::default() },
            "form_typed" => {
                let f = typed_form(&tspec_of(json));
                let mine = form_encode(&typed_form_pairs(&f));
                let lib = serde_urlencoded::to_string(&f).ok();
                Enc { oracle_disagree: lib.as_deref() != Some(&mine), hex: Some(hex(mine.as_bytes())) }
            }
            "form" => {
                let mine = form_encode(pairs.as_ref().unwrap());
                let lib = serde_urlencoded::to_string(pairs.as_ref().unwrap()).ok();
                Enc { oracle_disagree: lib.as_deref() != Some(&mine), hex: Some(hex(mine.as_bytes())) }
            }
            _ => Enc::default(), // json_bad, form_bad
        },
        Op::Query { kind, pairs, page, q, tags } => match kind.as_str() {
            "map" => {
                let mine = form_encode(pairs);
                let m: BTreeMap<String, String> = pairs.iter().cloned().collect();
                let lib = serde_qs::to_string(&m).ok();
                Enc { oracle_disagree: lib.as_deref() != Some(&mine), hex: Some(hex(mine.as_bytes())) }
            }
            "typed" => {
                let t = typed_query(pairs, *page, q, tags);
                let mine = typed_query_encode(&t);
                let lib = serde_qs::to_string(&t).ok();
                Enc { oracle_disagree: lib.as_deref() != Some(&mine), hex: Some(hex(mine.as_bytes())) }
            }
            "struct" => {
                let mine = qs_struct_encode(*page, q, tags);
                let lib = serde_qs::to_string(&QStruct { page: *page, q: q.clone(), tags: tags.clone() }).ok();
                Enc { oracle_disagree: lib.as_deref() != Some(&mine), hex: Some(hex(mine.as_bytes())) }
            }
            _ => Enc::default(),
        },
        Op::ContentType { mime } => match mime.parse::<crux_http::http::Mime>() {
            Ok(m) => Enc { hex: Some(hex(m.to_string().as_bytes())), ..Default::default() },
            Err(_) => Enc::default(),
        },
        _ => Enc::default(),
    }
}

/// URL oracle: the `url` crate's serialisation of `u0` with its query replaced by each query string the
/// description mentions (`None` = untouched).  `None` result = `u0` does not parse.
pub fn url_table(d: &Desc, encs: &[Enc]) -> Vec<(Option<String>, Option<String>)> {
    let mut keys: Vec<Option<String>> = vec![None];
    for (op, e) in d.ops.iter().zip(encs) {
        if let (Op::Query { .. }, Some(h)) = (op, &e.hex) {
            let k = Some(h.clone());
            if !keys.contains(&k) { keys.push(k); }
        }
    }
    let base = Url::parse(&d.url).ok();
    keys.into_iter().map(|k| {
        let r = base.clone().map(|mut u| {
            if let Some(q) = &k { u.set_query(Some(std::str::from_utf8(&unhex(q)).unwrap())); }
            hex(u.to_string().as_bytes())
        });
        (k, r)
    }).collect()
}

// ------------------------------------------------------------------ playing a description against crux_http
pub fn hvals(values: &[String]) -> Vec<HeaderValue> { values.iter().map(|v| v.parse::<HeaderValue>().unwrap()).collect() }

#[macro_export]
macro_rules! apply_builder {
    ($b:expr, $op:expr) => {{
        let b = $b;
        match $op {
            $crate::desc::Op::Header { name, values, form } => Ok(match form.as_str() {
                "str" => b.header(name.as_str(), values[0].as_str()),
                "string" => b.header(name.as_str(), values[0].clone()),
                "slice" => { let v = $crate::desc::hvals(values); b.header(name.as_str(), &v[..]) }
                _ => { let v: crux_http::http::headers::HeaderValues = $crate::desc::hvals(values).into(); b.header(name.as_str(), &v) }
            }),
            $crate::desc::Op::ContentType { mime } => Ok(b.content_type(mime.as_str())),
            $crate::desc::Op::Body { kind, hex: h, json, pairs } => match kind.as_str() {
                "string" => Ok(b.body_string(String::from_utf8($crate::desc::unhex(h)).unwrap())),
                "bytes" => Ok(b.body_bytes($crate::desc::unhex(h))),
                "json" => b.body_json(json.as_ref().unwrap_or(&serde_json::Value::Null)).map_err(|e| e.to_string()),
                "json_typed" => b.body_json(&$crate::desc::typed_json(&$crate::desc::tspec_of(json))).map_err(|e| e.to_string()),
                "form_typed" => b.body_form(&$crate::desc::typed_form(&$crate::desc::tspec_of(json))).map_err(|e| e.to_string()),
                "form" => b.body_form(pairs.as_ref().unwrap()).map_err(|e| e.to_string()),
                "into_str" => Ok(b.body(std::str::from_utf8(&$crate::desc::unhex(h)).unwrap())),
                "into_vec" => Ok(b.body($crate::desc::unhex(h))),
                "into_value" => Ok(b.body(json.clone().unwrap_or(serde_json::Value::Null))),
                "reader_none" => Ok(b.body(crux_http::http::Body::from_reader($crate::desc::Pieces::new($crate::desc::unhex(h)), None))),
                "reader_len" => { let v = $crate::desc::unhex(h); let n = v.len(); Ok(b.body(crux_http::http::Body::from_reader($crate::desc::Pieces::new(v), Some(n)))) }
                "empty" => Ok(b.body(crux_http::http::Body::empty())),
                "json_bad" => b.body_json(&$crate::desc::BadJson).map_err(|e| e.to_string()),
                _ => b.body_form(&vec![vec![1u8]]).map_err(|e| e.to_string()),
            },
            $crate::desc::Op::Query { kind, pairs, page, q, tags } => match kind.as_str() {
                "map" => { let m: std::collections::BTreeMap<String, String> = pairs.iter().cloned().collect(); b.query(&m).map_err(|e| e.to_string()) }
                "struct" => b.query(&$crate::desc::QStruct { page: *page, q: q.clone(), tags: tags.clone() }).map_err(|e| e.to_string()),
                "typed" => b.query(&$crate::desc::typed_query(pairs, *page, q, tags)).map_err(|e| e.to_string()),
                _ => b.query(&"bare").map_err(|e| e.to_string()),
            },
            $crate::desc::Op::Append { .. } | $crate::desc::Op::Remove { .. } => panic!("harness: request-stage op in builder stage"),
        }
    }};
}

pub fn apply_request(r: &mut crux_http::Request, op: &Op) -> Result<(), String> {
    match op {
        Op::Header { name, values, form } => { match form.as_str() {
            "str" => { r.insert_header(name.as_str(), values[0].as_str()); }
            "string" => r.set_header(name.as_str(), values[0].clone()),
            "slice" => { let v = hvals(values); r.insert_header(name.as_str(), &v[..]); }
            _ => { let v: HeaderValues = hvals(values).into(); r.insert_header(name.as_str(), &v); }
        } Ok(()) }
        Op::Append { name, values, form } => { match form.as_str() {
            "str" => r.append_header(name.as_str(), values[0].as_str()),
            "string" => r.append_header(name.as_str(), values[0].clone()),
            "slice" => { let v = hvals(values); r.append_header(name.as_str(), &v[..]) }
            _ => { let v: HeaderValues = hvals(values).into(); r.append_header(name.as_str(), &v) }
        } Ok(()) }
        Op::Remove { name } => { r.remove_header(name.as_str()); Ok(()) }
        Op::ContentType { mime } => { r.set_content_type(mime.as_str().into()); Ok(()) }
        Op::Body { kind, hex: h, json, pairs } => match kind.as_str() {
            "string" => { r.body_string(String::from_utf8(unhex(h)).unwrap()); Ok(()) }
            "bytes" => { r.body_bytes(unhex(h)); Ok(()) }
            "json" => r.body_json(json.as_ref().unwrap_or(&serde_json::Value::Null)).map_err(|e| e.to_string()),
            "json_typed" => r.body_json(&typed_json(&tspec_of(json))).map_err(|e| e.to_string()),
            "form_typed" => r.body_form(&typed_form(&tspec_of(json))).map_err(|e| e.to_string()),
            "form" => r.body_form(pairs.as_ref().unwrap()).map_err(|e| e.to_string()),
            "into_str" => { r.set_body(std::str::from_utf8(&unhex(h)).unwrap()); Ok(()) }
            "into_vec" => { r.set_body(unhex(h)); Ok(()) }
            "into_value" => { r.set_body(json.clone().unwrap_or(serde_json::Value::Null)); Ok(()) }
            "reader_none" => { r.set_body(Body::from_reader(Pieces::new(unhex(h)), None)); Ok(()) }
            "reader_len" => { let v = unhex(h); let n = v.len(); r.set_body(Body::from_reader(Pieces::new(v), Some(n))); Ok(()) }
            "empty" => { r.set_body(Body::empty()); Ok(()) }
            "json_bad" => r.body_json(&BadJson).map_err(|e| e.to_string()),
            _ => r.body_form(&vec![vec![1u8]]).map_err(|e| e.to_string()),
        },
        Op::Query { kind, pairs, page, q, tags } => match kind.as_str() {
            "map" => { let m: BTreeMap<String, String> = pairs.iter().cloned().collect(); r.set_query(&m).map_err(|e| e.to_string()) }
            "struct" => r.set_query(&QStruct { page: *page, q: q.clone(), tags: tags.clone() }).map_err(|e| e.to_string()),
            "typed" => r.set_query(&typed_query(pairs, *page, q, tags)).map_err(|e| e.to_string()),
            _ => r.set_query(&"bare").map_err(|e| e.to_string()),
        },
    }
}

pub fn method_of(s: &str) -> Method { s.parse().expect("harness: unknown method") }

// ---- command API
pub enum CmdEffect { Http(crux_core::Request<HttpRequest>) }
impl From<crux_core::Request<HttpRequest>> for CmdEffect { fn from(r: crux_core::Request<HttpRequest>) -> Self { CmdEffect::Http(r) } }
pub enum CmdEvent { Done(#[allow(dead_code)] crux_http::Result<crux_http::Response<Vec<u8>>>) }
type CmdHttp = crux_http::command::Http<CmdEffect, CmdEvent>;

/// Ok(requests that reached the shell) | Err(message of the refused call)
pub fn play_cmd(d: &Desc) -> Result<Vec<HttpRequest>, String> {
    let mut b = if d.entry == "request" {
        CmdHttp::request(method_of(&d.method), Url::parse(&d.url).expect("harness: entry=request needs a valid url"))
    } else {
        match d.method.as_str() {
            "GET" => CmdHttp::get(&d.url), "HEAD" => CmdHttp::head(&d.url), "POST" => CmdHttp::post(&d.url),
            "PUT" => CmdHttp::put(&d.url), "DELETE" => CmdHttp::delete(&d.url), "PATCH" => CmdHttp::patch(&d.url),
            "OPTIONS" => CmdHttp::options(&d.url), "TRACE" => CmdHttp::trace(&d.url), "CONNECT" => CmdHttp::connect(&d.url),
            m => panic!("harness: no verb entry for {m}"),
        }
    };
    for op in &d.ops[..d.split] { b = apply_builder!(b, op)?; }
    let cell = Arc::new(std::sync::Mutex::new(None));
    if d.split < d.ops.len() { b = b.middleware(capapp::Stage2(d.ops[d.split..].to_vec(), cell.clone())); }
    let mut cmd: Command<CmdEffect, CmdEvent> = b.build().then_send(CmdEvent::Done);
    let effs: Vec<CmdEffect> = cmd.effects().collect();
    let reqs: Vec<HttpRequest> = effs.into_iter().map(|CmdEffect::Http(r)| r.operation.clone()).collect();
    let refused = cell.lock().unwrap().clone();
    if let Some(e) = refused { return if reqs.is_empty() { Err(e) } else { Err(format!("refused but {} request(s) sent: {e}", reqs.len())) }; }
    Ok(reqs)
}

// ---- capability API through a real Core
mod capapp {
    use super::*;
    use crux_core::macros::Effect;
    use crux_http::middleware::{Middleware, Next};
    use std::sync::Mutex;

    pub enum Event { Go(Desc), Done(#[allow(dead_code)] crux_http::Result<crux_http::Response<Vec<u8>>>) }
    #[derive(Default)]
    pub struct App;
    #[derive(Default)]
    pub struct Model { pub refused: Option<String> }
    #[derive(Effect)]
    pub struct Capabilities { pub http: crux_http::Http<Event> }

    /// the part of the description that is made on the `Request` itself
    pub struct Stage2(pub Vec<Op>, pub Arc<Mutex<Option<String>>>);
    #[async_trait::async_trait]
    impl Middleware for Stage2 {
        async fn handle(&self, mut req: crux_http::Request, client: crux_http::client::Client, next: Next<'_>) -> crux_http::Result<crux_http::ResponseAsync> {
            for op in &self.0 {
                if let Err(e) = apply_request(&mut req, op) {
                    *self.1.lock().unwrap() = Some(e.clone());
                    return Err(crux_http::HttpError::Io(e)); // the app gives up: nothing is sent
                }
            }
            next.run(req, client).await
        }
    }
    pub static REFUSED: Mutex<Option<Arc<Mutex<Option<String>>>>> = Mutex::new(None);
    /// a call refused (Err) in the builder stage: the app gives up and sends nothing
    pub static REFUSED_BUILDER: Mutex<Option<String>> = Mutex::new(None);

    impl crux_core::App for App {
        type Event = Event; type Model = Model; type ViewModel = (); type Capabilities = Capabilities; type Effect = Effect;
        fn update(&self, event: Event, model: &mut Model, caps: &Capabilities) -> Command<Effect, Event> {
            if let Event::Go(d) = event {
                let http = &caps.http;
                let mut b = if d.entry == "request" {
                    http.request(method_of(&d.method), Url::parse(&d.url).expect("harness: entry=request needs a valid url"))
                } else {
                    match d.method.as_str() {
                        "GET" => http.get(&d.url), "HEAD" => http.head(&d.url), "POST" => http.post(&d.url),
                        "PUT" => http.put(&d.url), "DELETE" => http.delete(&d.url), "PATCH" => http.patch(&d.url),
                        "OPTIONS" => http.options(&d.url), "TRACE" => http.trace(&d.url), "CONNECT" => http.connect(&d.url),
                        m => panic!("harness: no verb entry for {m}"),
                    }
                };
                for op in &d.ops[..d.split] {
                    match apply_builder!(b, op) { Ok(nb) => b = nb, Err(e) => { model.refused = Some(e.clone()); *REFUSED_BUILDER.lock().unwrap() = Some(e); return Command::done(); } }
                }
                if d.split < d.ops.len() {
                    let cell = Arc::new(Mutex::new(None));
                    *REFUSED.lock().unwrap() = Some(cell.clone());
                    b = b.middleware(Stage2(d.ops[d.split..].to_vec(), cell));
                }
                b.send(Event::Done);
            }
            Command::done()
        }
        fn view(&self, _m: &Model) {}
    }
}

pub fn play_cap(d: &Desc) -> Result<Vec<HttpRequest>, String> {
    use capapp::*;
    *REFUSED.lock().unwrap() = None;
    *REFUSED_BUILDER.lock().unwrap() = None;
    let core: crux_core::Core<App> = crux_core::Core::new();
    let effs = core.process_event(Event::Go(d.clone()));
    let reqs: Vec<HttpRequest> = effs.into_iter().map(|Effect::Http(r)| r.operation.clone()).collect();
    let stage2 = REFUSED.lock().unwrap().take().and_then(|c| c.lock().unwrap().clone());
    let stage2 = REFUSED_BUILDER.lock().unwrap().take().or(stage2);
    if let Some(e) = stage2 { return if reqs.is_empty() { Err(e) } else { Err(format!("refused but {} request(s) sent: {e}", reqs.len())) }; }
    Ok(reqs)
}

// ------------------------------------------------------------------ second independent description (plain Rust)
#[derive(Debug, PartialEq)]
pub struct Wire { method: String, url: String, headers: Vec<(String, Vec<String>)>, body: Vec<u8> }

/// Expected wire request of a well-formed description, written against the documentation only:
/// names are case-insensitive (lower-cased), `header` replaces, `append` appends, `remove` deletes, a body
/// brings its documented content type unless a content type is already present, the last body and the last
/// query win.  Returns None where the description is refused or malformed.
pub fn expect(d: &Desc, encs: &[Enc], urls: &[(Option<String>, Option<String>)]) -> Option<Wire> {
    let mut hs: Vec<(String, Vec<String>)> = vec![];
    let mut body: Vec<u8> = vec![];
    let mut q: Option<String> = None;
    let set = |hs: &mut Vec<(String, Vec<String>)>, n: String, v: Vec<String>| {
        if let Some(e) = hs.iter_mut().find(|e| e.0 == n) { e.1 = v } else { hs.push((n, v)) }
    };
    for (op, e) in d.ops.iter().zip(encs) {
        match op {
            Op::Header { name, values, .. } => { if !name.is_ascii() || values.iter().any(|v| !v.is_ascii()) { return None; } set(&mut hs, name.to_ascii_lowercase(), values.clone()) }
            Op::Append { name, values, .. } => {
                if !name.is_ascii() || values.iter().any(|v| !v.is_ascii()) { return None; }
                let n = name.to_ascii_lowercase();
                if let Some(x) = hs.iter_mut().find(|x| x.0 == n) { x.1.extend(values.iter().cloned()) } else { hs.push((n, values.clone())) }
            }
            Op::Remove { name } => { if !name.is_ascii() { return None; } let n = name.to_ascii_lowercase(); hs.retain(|x| x.0 != n) }
            Op::ContentType { .. } => { let m = String::from_utf8(unhex(e.hex.as_ref()?)).unwrap(); set(&mut hs, "content-type".into(), vec![m]) }
            Op::Body { kind, .. } => {
                body = unhex(e.hex.as_ref()?);
                let mime = match kind.as_str() { "string" | "into_str" => "text/plain;charset=utf-8", "json" | "into_value" | "json_typed" => "application/json", "form" | "form_typed" => "application/x-www-form-urlencoded", _ => "application/octet-stream" };
                if !hs.iter().any(|x| x.0 == "content-type") { hs.push(("content-type".into(), vec![mime.into()])) }
            }
            Op::Query { .. } => { q = Some(e.hex.clone()?) }
        }
    }
    let url = urls.iter().find(|(k, _)| *k == q)?.1.clone()?;
    Some(Wire { method: d.method.clone(), url: String::from_utf8(unhex(&url)).unwrap(), headers: hs, body })
}

pub fn rust_ok(w: &Wire, r: &HttpRequest) -> bool {
    if w.method != r.method || w.url != r.url || w.body != r.body { return false; }
    let mut names: Vec<String> = r.headers.iter().map(|h| h.name.clone()).collect();
    names.extend(w.headers.iter().map(|h| h.0.clone()));
    names.iter().all(|n| {
        let got: Vec<&str> = r.headers.iter().filter(|h| &h.name == n).map(|h| h.value.as_str()).collect();
        let want: Vec<&str> = w.headers.iter().filter(|h| &h.0 == n).flat_map(|h| h.1.iter().map(|s| s.as_str())).collect();
        got == want
    })
}

// ------------------------------------------------------------------ generators
pub const VERBS: [&str; 9] = ["GET", "HEAD", "POST", "PUT", "DELETE", "PATCH", "OPTIONS", "TRACE", "CONNECT"];
pub const METHODS: [&str; 39] = ["ACL", "BASELINE-CONTROL", "BIND", "CHECKIN", "CHECKOUT", "CONNECT", "COPY", "DELETE", "GET", "HEAD", "LABEL", "LINK", "LOCK", "MERGE", "MKACTIVITY", "MKCALENDAR", "MKCOL", "MKREDIRECTREF", "MKWORKSPACE", "MOVE", "OPTIONS", "ORDERPATCH", "PATCH", "POST", "PRI", "PROPFIND", "PROPPATCH", "PUT", "REBIND", "REPORT", "SEARCH", "TRACE", "UNBIND", "UNCHECKOUT", "UNLINK", "UNLOCK", "UPDATE", "UPDATEREDIRECTREF", "VERSION-CONTROL"];
pub const NAMES: [&str; 22] = ["Accept", "accept", "ACCEPT", "X-Id", "x-id", "X-ID", "Content-Type", "content-type", "CONTENT-TYPE", "Authorization", "authorization", "X-Trace", "Cookie", "cookie", "Accept-Language", "If-None-Match", "User-Agent", "X-A", "X-B", "X-C", "x-a", "Content-Length"];
pub const MIMES: [&str; 10] = ["text/html", "application/json", "text/plain; charset=utf-8", "TEXT/Plain;Charset=UTF-8", "application/x-www-form-urlencoded", "image/svg+xml", "multipart/form-data; boundary=\"a b\"", "application/octet-stream", "text/csv;header=present;x=\"q\\\"uote\"", "*/*"];

pub fn ascii_text(r: &mut Rng, max: u64) -> String {
    let n = r.below(max + 1);
    (0..n).map(|_| match r.below(20) {
        0 => *r.pick(&[' ', ',', ';', '=', '"', '\\', ':', '\t', '%', '&', '+', '#', '?', '/']),
        1 => *r.pick(&['\r', '\n', '\0', '\x7f']),
        _ => (r.range(0x21, 0x7e) as u8) as char,
    }).collect()
}
pub fn uni_text(r: &mut Rng, max: u64) -> String {
    let n = r.below(max + 1);
    (0..n).map(|_| match r.below(8) {
        0 => *r.pick(&['é', 'ß', '日', '本', '😀', 'π', '\u{200b}', 'İ']),
        1 => *r.pick(&[' ', '&', '=', '+', '%', '/', '?', '#', '[', ']', '*', '-', '.', '_', '~', '"', '<']),
        _ => (r.range(0x61, 0x7a) as u8) as char,
    }).collect()
}
pub fn header_name(r: &mut Rng) -> String {
    match r.below(12) {
        0 => { let n = r.range(1, 12); (0..n).map(|_| *r.pick(&['a', 'B', 'c', 'D', '-', '_', '1', 'z', 'Q'])).collect() }
        1 => ascii_text(r, 6), // odd but ASCII: spaces, colons, even the empty name
        _ => r.pick(&NAMES).to_string(),
    }
}
pub fn header_value(r: &mut Rng) -> String {
    match r.below(16) {
        0 => String::new(),
        1 => { let n = r.range(1000, 9000); (0..n).map(|i| (b'a' + (i % 26) as u8) as char).collect() }
        2 => "a, b, c".into(),
        _ => ascii_text(r, 24),
    }
}
pub fn json_value(r: &mut Rng, depth: u32) -> Value {
    match r.below(if depth == 0 { 6 } else { 8 }) {
        0 => Value::Null, 1 => json!(r.coin(1, 2)), 2 => json!(r.next() as i64), 3 => json!((r.next() % 100000) as f64 / 8.0),
        4 => json!(uni_text(r, 12)), 5 => json!(r.next()),
        6 => Value::Array((0..r.below(4)).map(|_| json_value(r, depth - 1)).collect()),
        _ => Value::Object((0..r.below(4)).map(|_| (uni_text(r, 5), json_value(r, depth - 1))).collect()),
    }
}
pub fn pairs(r: &mut Rng) -> Vec<(String, String)> { (0..r.below(5)).map(|_| (uni_text(r, 6), uni_text(r, 10))).collect() }
pub fn bytes_payload(r: &mut Rng) -> Vec<u8> {
    match r.below(40) {
        0 => vec![], 1 => (0..=255u8).collect(),
        2 => { let n = r.range(20_000, 70_000); (0..n).map(|_| r.next() as u8).collect() }
        _ => { let n = r.below(40); (0..n).map(|_| r.next() as u8).collect() }
    }
}
pub fn tspec(r: &mut Rng) -> TSpec {
    const F32: [f32; 8] = [0.1, 1.5, -0.0, 1e-7, 3.4e38, 16777217.0, 0.3, -2.7182817];
    const F64: [f64; 6] = [0.1, 1e300, -1.0e-5, 123456789.125, 0.30000000000000004, 5e-324];
    TSpec {
        strs: (0..r.range(1, 4)).map(|_| uni_text(r, 8)).collect(),
        f32s: (0..r.range(1, 4)).map(|_| if r.coin(2, 3) { r.pick(&F32).to_bits() } else { (r.next() as u32) & 0x7f7f_ffff }).collect(),
        f64s: (0..r.range(1, 3)).map(|_| if r.coin(2, 3) { r.pick(&F64).to_bits() } else { r.next() & 0x7fef_ffff_ffff_ffff }).collect(),
        us: (0..r.range(1, 8)).map(|_| match r.below(4) { 0 => u64::MAX, 1 => r.below(10), 2 => 1 << 53 | 1, _ => r.next() }).collect(),
        is: (0..r.range(1, 3)).map(|_| match r.below(4) { 0 => None, 1 => Some(i64::MIN), 2 => Some(-(r.below(100) as i64)), _ => Some(r.next() as i64) }).collect(),
        flag: r.coin(1, 2),
    }
}
pub fn body_op(r: &mut Rng) -> Op {
    let kind = *r.pick(&["string", "string", "bytes", "bytes", "json", "json_typed", "json_typed", "form", "form_typed", "into_str", "into_vec", "into_value", "reader_none", "reader_len", "empty"]);
    let mut op = Op::Body { kind: kind.into(), hex: String::new(), json: None, pairs: None };
    if let Op::Body { hex: h, json, pairs: p, .. } = &mut op {
        match kind {
            "string" | "into_str" => *h = hex(if r.coin(1, 30) { "x".repeat(r.range(10_000, 40_000) as usize) } else { uni_text(r, 30) }.as_bytes()),
            "bytes" | "into_vec" | "reader_none" | "reader_len" => *h = hex(&bytes_payload(r)),
            "json" | "into_value" => *json = Some(json_value(r, 3)),
            "json_typed" | "form_typed" => *json = Some(serde_json::to_value(tspec(r)).unwrap()),
            "form" => *p = Some(pairs(r)),
            _ => {}
        }
    }
    op
}
pub fn query_op(r: &mut Rng) -> Op {
    if r.coin(1, 3) {
        return Op::Query { kind: "typed".into(), pairs: if r.coin(1, 2) { vec![("after".into(), uni_text(r, 6))] } else { vec![] }, page: r.next() as u32, q: uni_text(r, 10), tags: (0..r.below(3)).map(|_| uni_text(r, 6)).collect() };
    }
    if r.coin(1, 2) {
        let mut m: BTreeMap<String, String> = BTreeMap::new();
        for (k, v) in pairs(r) { m.insert(k, v); }
        Op::Query { kind: "map".into(), pairs: m.into_iter().collect(), page: 0, q: String::new(), tags: vec![] }
    } else {
        Op::Query { kind: "struct".into(), pairs: vec![], page: r.next() as u32, q: uni_text(r, 10), tags: (0..r.below(4)).map(|_| uni_text(r, 6)).collect() }
    }
}
pub fn header_like(r: &mut Rng, append: bool) -> Op {
    let name = header_name(r);
    let (form, values) = match r.below(6) {
        0 => ("slice", (0..r.below(4)).map(|_| header_value(r)).collect::<Vec<_>>()), // may be empty: a name without values
        1 => ("values", (0..r.range(1, 3)).map(|_| header_value(r)).collect()),
        2 => ("string", vec![header_value(r)]),
        _ => ("str", vec![header_value(r)]),
    };
    if append { Op::Append { name, values, form: form.into() } } else { Op::Header { name, values, form: form.into() } }
}
pub fn builder_op(r: &mut Rng) -> Op {
    match r.below(20) {
        0..=11 => header_like(r, false),
        12 | 13 => Op::ContentType { mime: r.pick(&MIMES).to_string() },
        14..=17 => body_op(r),
        _ => query_op(r),
    }
}
fn request_op(r: &mut Rng) -> Op {
    match r.below(20) {
        0..=5 => header_like(r, false),
        6..=12 => header_like(r, true),
        13 | 14 => Op::Remove { name: header_name(r) },
        15 => Op::ContentType { mime: r.pick(&MIMES).to_string() },
        16..=18 => body_op(r),
        _ => query_op(r),
    }
}
pub fn url_gen(r: &mut Rng) -> String {
    let scheme = *r.pick(&["http", "https", "https", "HTTP", "ws", "app", "file"]);
    let host = match r.below(10) {
        0 => "EXAMPLE.com".to_string(), 1 => "bücher.example".into(), 2 => "127.0.0.1".into(), 3 => "[::1]".into(), 4 => "日本.jp".into(),
        5 => "user:p%40ss@example.org".into(), 6 => "a.b.c.d.example.co.uk".into(), _ => "example.com".into(),
    };
    let port = match r.below(8) { 0 => ":80", 1 => ":443", 2 => ":8080", 3 => ":0", _ => "" };
    let mut u = if scheme == "file" { "file://".to_string() } else { format!("{scheme}://{host}{port}") };
    for _ in 0..r.below(5) {
        u.push('/');
        u.push_str(&match r.below(10) { 0 => "..".into(), 1 => ".".into(), 2 => "a b".into(), 3 => "%7Euser".into(), 4 => "%zz".into(), 5 => "caf\u{e9}".into(), 6 => String::new(), 7 => "x;y=1".into(), _ => uni_text(r, 8).replace(['/', '?', '#'], "") });
    }
    if r.coin(1, 3) { u.push('?'); u.push_str(&match r.below(5) { 0 => "a=1&b=2".into(), 1 => "q=a b&r=\"x\"".into(), 2 => String::new(), 3 => "k=%41%zz&u=é".into(), _ => uni_text(r, 12).replace('#', "") }); }
    if r.coin(1, 5) { u.push('#'); u.push_str(&match r.below(3) { 0 => "frag".into(), 1 => "a b#c".into(), _ => uni_text(r, 6) }); }
    u
}
fn joined_url(r: &mut Rng) -> Option<String> {
    let base = Url::parse(&url_gen(r)).ok()?;
    let rel = match r.below(8) { 0 => "../up".to_string(), 1 => "/abs/path?x=1".into(), 2 => "?only=query".into(), 3 => "#frag".into(), 4 => "//other.example/p".into(), 5 => "sub/dir/".into(), 6 => "https://absolute.example/a?b#c".into(), _ => uni_text(r, 10) };
    base.join(&rel).ok().map(|u| u.to_string())
}
pub fn gen_valid(r: &mut Rng) -> Desc {
    let api = if r.coin(1, 2) { "cmd" } else { "cap" };
    let entry = if r.coin(1, 3) { "request" } else { "verb" };
    let method = if entry == "request" { r.pick(&METHODS).to_string() } else { r.pick(&VERBS).to_string() };
    let url = loop {
        let u = if entry == "request" && r.coin(1, 2) { joined_url(r) } else { Some(url_gen(r)) };
        if let Some(u) = u { if let Ok(p) = Url::parse(&u) { break if entry == "request" { p.to_string() } else { u }; } }
    };
    let nb = match r.below(10) { 0 => 0, 1 => r.range(12, 40), _ => r.below(8) };
    let mut ops: Vec<Op> = (0..nb).map(|_| builder_op(r)).collect();
    let split = ops.len();
    if r.coin(2, 3) { for _ in 0..r.range(1, 10) { ops.push(request_op(r)); } }
    // valid stream: keep everything ASCII where the API demands it
    Desc { api: api.into(), entry: entry.into(), method, url, split, ops }
}
/// malformed stream: one defect injected into a valid description
pub fn gen_malformed(r: &mut Rng) -> Desc {
    let mut d = gen_valid(r);
    match r.below(6) {
        0 => { d.entry = "verb".into(); if !VERBS.contains(&d.method.as_str()) { d.method = "GET".into(); }
               d.url = r.pick(&["", "no scheme", "http://", "://x", "http://exa mple.com/", "http://[::1", "http://example.com:99999/", "/relative/only", "http://a b/"]).to_string(); }
        1 => { let op = Op::Header { name: r.pick(&["naïve", "x-é", "日本"]).to_string(), values: vec!["v".into()], form: "str".into() }; let at = r.below(d.split as u64 + 1) as usize; d.ops.insert(at, op); d.split += 1; }
        2 => { let op = Op::Header { name: "X-Name".into(), values: vec![r.pick(&["é", "naïve", "日本", "a\u{80}b"]).to_string()], form: r.pick(&["str", "string"]).to_string() }; let at = r.below(d.split as u64 + 1) as usize; d.ops.insert(at, op); d.split += 1; }
        3 => { let op = Op::ContentType { mime: r.pick(&["", "nonsense", "text/", "/plain", "text/pl ain"]).to_string() }; let at = r.below(d.split as u64 + 1) as usize; d.ops.insert(at, op); d.split += 1; }
        4 => { let kind = *r.pick(&["json_bad", "form_bad"]); let op = Op::Body { kind: kind.into(), hex: String::new(), json: None, pairs: None };
               if r.coin(1, 2) { d.ops.push(op) } else { let at = r.below(d.split as u64 + 1) as usize; d.ops.insert(at, op); d.split += 1; } }
        _ => { let op = Op::Query { kind: "bad".into(), pairs: vec![], page: 0, q: String::new(), tags: vec![] };
               if r.coin(1, 2) { d.ops.push(op) } else { let at = r.below(d.split as u64 + 1) as usize; d.ops.insert(at, op); d.split += 1; } }
    }
    d
}

