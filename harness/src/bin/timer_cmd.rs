//! C18 correspondence, command API, direct host: real `crux_time::command::Time::notify_after /
//! notify_at` timers, each wrapped in `then_send` into its own real `Command`, driven through
//! `Command::effects()/events()/is_done()`, the real `Request::resolve`, `TimerHandle::clear`,
//! and drops.  One JSON line per case: the input sequence and the observation sequence, both
//! already printed as Coq terms of coq/Timer/Machine.v (`list sin`, `list obs`).
//!
//! usage: timer_cmd <seed> <max_len_1> <max_len_2> <n_random> <n_malformed>
use crux_core::{Command, Request};
use crux_time::command::{Time, TimerHandle, TimerOutcome};
use crux_time::{TimeRequest, TimeResponse, TimerId};
use std::panic::{catch_unwind, AssertUnwindSafe};
use std::time::{Duration, SystemTime};
use vh::rng::Rng;

enum Eff { Time(Request<TimeRequest>) }
impl From<Request<TimeRequest>> for Eff { fn from(r: Request<TimeRequest>) -> Self { Eff::Time(r) } }
enum Ev { Out(usize, TimerOutcome) }

#[derive(Clone, Copy, PartialEq, Debug)]
enum Kind { After, At }
/// a response, relative to the timer it is sent to: kind 0 Now, 1 Instant, 2 Elapsed, 3 Cleared;
/// id offset added to the timer's own id (0 = the right id)
#[derive(Clone, Copy, PartialEq, Debug)]
struct Resp { kind: u8, off: u64 }
#[derive(Clone, Copy, PartialEq, Debug)]
enum In { Start(Kind), Poll(usize), Fire(usize, Resp), DropReq(usize), Clear(usize), DropHandle(usize), AnsClr(usize, Resp), DropClr(usize) }

struct T {
    kind: Kind, id: u64,
    cmd: Command<Eff, Ev>,
    handle: Option<TimerHandle>,
    req: Option<Request<TimeRequest>>,
    clr: Option<Request<TimeRequest>>,
}

fn id_of_debug(s: &str) -> u64 {
    let p = s.find("TimerId(").expect("no TimerId in Debug output") + 8;
    s[p..].chars().take_while(|c| c.is_ascii_digit()).collect::<String>().parse().unwrap()
}

fn mk_resp(r: Resp, id: u64) -> TimeResponse {
    let tid = TimerId(id.wrapping_add(r.off) as usize);
    match r.kind {
        0 => TimeResponse::Now { instant: crux_time::Instant::new(1, 2) },
        1 => TimeResponse::InstantArrived { id: tid },
        2 => TimeResponse::DurationElapsed { id: tid },
        _ => TimeResponse::Cleared { id: tid },
    }
}
fn resp_coq(r: Resp, id: u64) -> String {
    let i = id.wrapping_add(r.off);
    match r.kind { 0 => "RNow".into(), 1 => format!("(RInstant {})", i), 2 => format!("(RElapsed {})", i), _ => format!("(RCleared {})", i) }
}
fn right_start(k: Kind) -> Resp { Resp { kind: if k == Kind::After { 2 } else { 1 }, off: 0 } }
const RIGHT_CLR: Resp = Resp { kind: 3, off: 0 };

struct World { ts: Vec<T>, ins: Vec<String>, obs: Vec<String>, panicked: bool }

impl World {
    fn new() -> Self { World { ts: vec![], ins: vec![], obs: vec![], panicked: false } }
    fn resolve(slot: &mut Option<Request<TimeRequest>>, resp: TimeResponse) -> String {
        match slot {
            None => "ORes 2".into(),
            Some(r) => match r.resolve(resp) { Ok(()) => "ORes 0".into(), Err(_) => "ORes 1".into() },
        }
    }
    fn step(&mut self, x: In) {
        let n = self.ts.len();
        let idx = match x { In::Start(_) => 0, In::Poll(i) | In::Fire(i, _) | In::DropReq(i) | In::Clear(i) | In::DropHandle(i) | In::AnsClr(i, _) | In::DropClr(i) => i };
        if !matches!(x, In::Start(_)) && idx >= n {
            self.ins.push(format!("SOn {}%nat IPoll", idx)); self.obs.push("OBad".into()); return;
        }
        match x {
            In::Start(k) => {
                let i = n;
                let (cmd, handle) = match k {
                    Kind::After => { let (b, h) = Time::<Eff, Ev>::notify_after(vh::when::dur(i)); (b.then_send(move |o| Ev::Out(i, o)), h) }
                    Kind::At => { let (b, h) = Time::<Eff, Ev>::notify_at(vh::when::at(i)); (b.then_send(move |o| Ev::Out(i, o)), h) }
                };
                let id = id_of_debug(&format!("{:?}", handle));
                self.ts.push(T { kind: k, id, cmd, handle: Some(handle), req: None, clr: None });
                self.ins.push(format!("SStart {}", if k == Kind::After { "KAfter" } else { "KAt" }));
                self.obs.push(format!("OStarted {}", id));
            }
            In::Poll(i) => {
                self.ins.push(format!("SOn {}%nat IPoll", i));
                let t = &mut self.ts[i];
                let r = catch_unwind(AssertUnwindSafe(|| {
                    let effs: Vec<Eff> = t.cmd.effects().collect();
                    let evs: Vec<Ev> = t.cmd.events().collect();
                    let done = t.cmd.is_done();
                    (effs, evs, done)
                }));
                match r {
                    Err(_) => { self.obs.push("OPanic".into()); self.panicked = true; }
                    Ok((effs, evs, done)) => {
                        let mut es = vec![]; let mut vs = vec![];
                        for Eff::Time(req) in effs {
                            match &req.operation {
                                TimeRequest::NotifyAfter { id, .. } => { es.push(format!("ENotifyAfter {}", id.0)); t.req = Some(req); }
                                TimeRequest::NotifyAt { id, .. } => { es.push(format!("ENotifyAt {}", id.0)); t.req = Some(req); }
                                TimeRequest::Clear { id } => { es.push(format!("EClear {}", id.0)); t.clr = Some(req); }
                                TimeRequest::Now => { es.push("ENotifyAt 0".into()); }
                            }
                        }
                        for Ev::Out(j, o) in evs {
                            assert_eq!(j, i, "event of another timer's command");
                            match o {
                                TimerOutcome::Completed(h) => vs.push(format!("Completed {}", id_of_debug(&format!("{:?}", h)))),
                                TimerOutcome::Cleared => vs.push("Cleared".into()),
                            }
                        }
                        self.obs.push(format!("OPoll [{}] [{}] {}", es.join("; "), vs.join("; "), done));
                    }
                }
            }
            In::Fire(i, r) => {
                let t = &mut self.ts[i];
                self.ins.push(format!("SOn {}%nat (IFire {})", i, resp_coq(r, t.id)));
                let o = World::resolve(&mut t.req, mk_resp(r, t.id)); self.obs.push(o);
            }
            In::AnsClr(i, r) => {
                let t = &mut self.ts[i];
                self.ins.push(format!("SOn {}%nat (IAnsClr {})", i, resp_coq(r, t.id)));
                let o = World::resolve(&mut t.clr, mk_resp(r, t.id)); self.obs.push(o);
            }
            In::DropReq(i) => {
                self.ins.push(format!("SOn {}%nat IDropReq", i));
                let o = if self.ts[i].req.take().is_some() { "ORes 3" } else { "ORes 2" }; self.obs.push(o.into());
            }
            In::DropClr(i) => {
                self.ins.push(format!("SOn {}%nat IDropClr", i));
                let o = if self.ts[i].clr.take().is_some() { "ORes 3" } else { "ORes 2" }; self.obs.push(o.into());
            }
            In::Clear(i) => {
                self.ins.push(format!("SOn {}%nat IClear", i));
                if let Some(h) = self.ts[i].handle.take() { h.clear(); }
                self.obs.push("ORes 3".into());
            }
            In::DropHandle(i) => {
                self.ins.push(format!("SOn {}%nat IDropHandle", i));
                drop(self.ts[i].handle.take());
                self.obs.push("ORes 3".into());
            }
        }
    }
    /// inputs that can have an effect now (the shell/app really holds the thing acted upon)
    fn enabled(&self, wrong: bool) -> Vec<In> {
        let mut v = vec![];
        for (i, t) in self.ts.iter().enumerate() {
            v.push(In::Poll(i));
            if t.req.is_some() {
                v.push(In::Fire(i, right_start(t.kind))); v.push(In::DropReq(i));
                if wrong {
                    v.push(In::Fire(i, Resp { kind: if t.kind == Kind::After { 1 } else { 2 }, off: 0 }));
                    v.push(In::Fire(i, Resp { kind: right_start(t.kind).kind, off: 1 }));
                    v.push(In::Fire(i, Resp { kind: 3, off: 0 })); v.push(In::Fire(i, Resp { kind: 0, off: 0 }));
                }
            }
            if t.clr.is_some() {
                v.push(In::AnsClr(i, RIGHT_CLR)); v.push(In::DropClr(i));
                if wrong { v.push(In::AnsClr(i, Resp { kind: 3, off: 1 })); v.push(In::AnsClr(i, right_start(t.kind))); }
            }
            if t.handle.is_some() { v.push(In::Clear(i)); v.push(In::DropHandle(i)); }
        }
        v
    }
    fn emit(&self, class: &str) {
        println!("{{\"host\":\"direct\",\"class\":\"{}\",\"n\":{},\"ins\":\"[{}]\",\"obs\":\"[{}]\"}}",
            class, self.ts.len(), self.ins.join("; "), self.obs.join("; "));
    }
}

fn replay(prefix: &[In]) -> World { let mut w = World::new(); for x in prefix { if w.panicked { break; } w.step(*x); } w }

/// every sequence of enabled inputs of length <= max after the given starts (depth first; the real
/// commands cannot be cloned, so each node replays its prefix)
fn exhaustive(starts: &[In], max: usize, wrong: bool, class: &str, count: &mut u64) {
    fn go(prefix: &mut Vec<In>, nstart: usize, max: usize, wrong: bool, class: &str, count: &mut u64) {
        let w = replay(prefix);
        // only maximal sequences are printed: the trace of a prefix is a prefix of the trace
        if w.panicked || prefix.len() - nstart >= max { w.emit(class); *count += 1; return; }
        for x in w.enabled(wrong) { prefix.push(x); go(prefix, nstart, max, wrong, class, count); prefix.pop(); }
    }
    let mut p = starts.to_vec();
    go(&mut p, starts.len(), max, wrong, class, count);
}

fn random_case(rng: &mut Rng, malformed: bool) {
    let mut w = World::new();
    let nt = rng.range(1, 4) as usize;
    let len = rng.range(4, 40) as usize;
    let mut started = 0;
    for _ in 0..len {
        if w.panicked { break; }
        if started == 0 || (started < nt && rng.coin(1, 4)) {
            w.step(In::Start(if rng.coin(1, 2) { Kind::After } else { Kind::At })); started += 1; continue;
        }
        // mostly enabled inputs; sometimes any input (disabled ones are no-ops), in the malformed
        // stream also wrong kinds / ids and out-of-range timers
        let en = w.enabled(malformed && rng.coin(1, 3));
        let x = if !rng.coin(1, 6) { *rng.pick(&en) } else {
            let i = if malformed && rng.coin(1, 10) { started + rng.below(2) as usize } else { rng.below(started as u64) as usize };
            let k = if i < w.ts.len() { w.ts[i].kind } else { Kind::After };
            let r = if malformed && rng.coin(1, 2) { Resp { kind: rng.below(4) as u8, off: rng.below(2) } } else { right_start(k) };
            let rc = if malformed && rng.coin(1, 2) { Resp { kind: rng.below(4) as u8, off: rng.below(2) } } else { RIGHT_CLR };
            match rng.below(7) { 0 => In::Poll(i), 1 => In::Fire(i, r), 2 => In::DropReq(i), 3 => In::Clear(i), 4 => In::DropHandle(i), 5 => In::AnsClr(i, rc), _ => In::DropClr(i) }
        };
        w.step(x);
    }
    w.emit(if malformed { "malformed" } else { "random" });
}


/// corpus syntax (one case per line, tokens separated by spaces): Sa/St start notify_after/notify_at;
/// P<i> poll; F<i> fire (right response), Fk<i> wrong kind, Fi<i> wrong id; R<i> drop request; C<i> clear;
/// H<i> drop handle; A<i> answer clear (right), Ak<i> wrong kind, Ai<i> wrong id; D<i> drop clear request
fn parse_case(line: &str, kinds: &mut Vec<Kind>) -> Vec<In> {
    let mut v = vec![];
    for tok in line.split_whitespace() {
        let (head, idx): (String, String) = (tok.chars().take_while(|c| c.is_alphabetic()).collect(), tok.chars().skip_while(|c| c.is_alphabetic()).collect());
        let i: usize = idx.parse().unwrap_or(0);
        let k = kinds.get(i).copied().unwrap_or(Kind::After);
        let wrong_kind = Resp { kind: if k == Kind::After { 1 } else { 2 }, off: 0 };
        v.push(match head.as_str() {
            "Sa" => { kinds.push(Kind::After); In::Start(Kind::After) }
            "St" => { kinds.push(Kind::At); In::Start(Kind::At) }
            "P" => In::Poll(i),
            "F" => In::Fire(i, right_start(k)), "Fk" => In::Fire(i, wrong_kind), "Fi" => In::Fire(i, Resp { kind: right_start(k).kind, off: 1 }),
            "R" => In::DropReq(i), "C" => In::Clear(i), "H" => In::DropHandle(i),
            "A" => In::AnsClr(i, RIGHT_CLR), "Ak" => In::AnsClr(i, right_start(k)), "Ai" => In::AnsClr(i, Resp { kind: 3, off: 1 }),
            "D" => In::DropClr(i),
            other => panic!("corpus: unknown token {}", other),
        });
    }
    v
}
fn run_corpus(file: &str) {
    let dir = std::env::var("TIMER_CORPUS_DIR").unwrap_or_else(|_| "/verif/corpus/timer".into());
    if let Ok(text) = std::fs::read_to_string(format!("{}/{}", dir, file)) {
        for line in text.lines() {
            let line = line.split('#').next().unwrap().trim();
            if line.is_empty() { continue; }
            let mut kinds = vec![];
            let w = replay(&parse_case(line, &mut kinds));
            w.emit("corpus");
        }
    }
}

fn main() {
    std::panic::set_hook(Box::new(|_| {}));
    let a: Vec<u64> = std::env::args().skip(1).map(|s| s.parse().expect("numeric args")).collect();
    let (seed, l1, l2, nrand, nmal) = (a[0], a[1] as usize, a[2] as usize, a[3], a[4]);
    run_corpus("direct.txt");
    let mut count = 0u64;
    for k in [Kind::After, Kind::At] {
        exhaustive(&[In::Start(k)], l1, false, "exh1", &mut count);
        exhaustive(&[In::Start(k)], l1.min(4), true, "exh1wrong", &mut count);
    }
    exhaustive(&[In::Start(Kind::After), In::Start(Kind::At)], l2, false, "exh2", &mut count);
    exhaustive(&[In::Start(Kind::At), In::Start(Kind::At)], l2.min(3), false, "exh2", &mut count);
    let mut rng = Rng::new(seed);
    for _ in 0..nrand { random_case(&mut rng, false); }
    for _ in 0..nmal { random_case(&mut rng, true); }
    eprintln!("exhaustive cases: {}", count);
}
