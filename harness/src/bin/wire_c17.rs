//! C17 correspondence driver: key-value calls through the real crux_kv (capability API and command
//! API), observed at the typed `Core` and across the serialized `Bridge`.
//! usage: wire_c17 <seed> <count> [big]
//! One JSON object per case: the call, the shell's result, the path, and what was observed: the
//! key-value operations among the effects (typed path) or the raw request batch (bridge path), the
//! number of other effects, the bytes the Rust shell wrote for the result, and what the app was handed.
#[path = "wire_common/mod.rs"]
mod wire_common;
use bincode::Options;
use crux_kv::{error::KeyValueError, value::Value, KeyValueOperation, KeyValueResponse, KeyValueResult};
use std::panic::{catch_unwind, AssertUnwindSafe};
use vh::rng::Rng;
use wire_common::apps::kvapp::{self, Api, Entry, Event, KeysOutcome, Outcome, StatusOutcome};
use wire_common::schema::{rand_bytes, rand_string};
use wire_common::table::bridge_opts;
use wire_common::{hex, json_str};

fn key(r: &mut Rng, big: bool) -> String {
    match r.below(12) {
        0 => String::new(),
        1 => "k".into(),
        2 => "ключ/鍵/🔑".into(),
        3 => "a\u{0}b".into(),
        4 => if big { "κ".repeat(32 * 1024) } else { "κ".repeat(700) },
        5 => if big { format!("{}/tail", "x".repeat(64 * 1024)) } else { format!("{}/tail", "x".repeat(*r.pick(&[2000usize, 2000, 70_000]))) },
        _ => rand_string(r, false),
    }
}
fn value(r: &mut Rng, big: bool) -> Vec<u8> {
    match r.below(12) {
        0 => vec![],
        1 => vec![0],
        2 => vec![0xff, 0xfe, 0x00, 0x80],
        3 => { let n = if big { 1 << 20 } else { *r.pick(&[6000usize, 6000, 70_000, 200_000]) }; let mut v = vec![0xabu8; n]; v[0] = 1; v[n / 2] = 2; v[n - 1] = 3; v }
        4 => { let n = if big { 300_000 } else { 3000 }; vec![0u8; n] }
        5 => rand_bytes(r, true),
        _ => rand_bytes(r, false),
    }
}
fn cursor(r: &mut Rng) -> u64 { match r.below(6) { 0 => 0, 1 => u64::MAX, 2 => 1, 3 => u64::MAX - 1, _ => r.next() } }
fn kv_value(r: &mut Rng, big: bool) -> Value { match r.below(4) { 0 => Value::None, 1 => Value::Bytes(vec![]), _ => Value::Bytes(value(r, big)) } }
fn kv_error(r: &mut Rng) -> KeyValueError {
    match r.below(4) { 0 => KeyValueError::Io { message: key(r, false) }, 1 => KeyValueError::Timeout, 2 => KeyValueError::CursorNotFound, _ => KeyValueError::Other { message: key(r, false) } }
}
fn response(r: &mut Rng, kind: u64, big: bool) -> KeyValueResponse {
    match kind {
        0 => KeyValueResponse::Get { value: kv_value(r, big) },
        1 => KeyValueResponse::Set { previous: kv_value(r, big) },
        2 => KeyValueResponse::Delete { previous: kv_value(r, big) },
        3 => KeyValueResponse::Exists { is_present: r.coin(1, 2) },
        _ => KeyValueResponse::ListKeys { keys: (0..r.below(6)).map(|_| key(r, false)).collect(), next_cursor: cursor(r) },
    }
}

fn j_op(o: &KeyValueOperation) -> String {
    match o {
        KeyValueOperation::Get { key } => format!("{{\"k\":\"get\",\"key\":\"{}\"}}", hex(key.as_bytes())),
        KeyValueOperation::Set { key, value } => format!("{{\"k\":\"set\",\"key\":\"{}\",\"value\":\"{}\"}}", hex(key.as_bytes()), hex(value)),
        KeyValueOperation::Delete { key } => format!("{{\"k\":\"delete\",\"key\":\"{}\"}}", hex(key.as_bytes())),
        KeyValueOperation::Exists { key } => format!("{{\"k\":\"exists\",\"key\":\"{}\"}}", hex(key.as_bytes())),
        KeyValueOperation::ListKeys { prefix, cursor } => format!("{{\"k\":\"list\",\"key\":\"{}\",\"cursor\":\"{}\"}}", hex(prefix.as_bytes()), cursor),
    }
}
fn j_value(v: &Value) -> String { match v { Value::None => "null".into(), Value::Bytes(b) => format!("\"{}\"", hex(b)) } }
fn j_error(e: &KeyValueError) -> String {
    match e {
        KeyValueError::Io { message } => format!("{{\"e\":\"io\",\"m\":\"{}\"}}", hex(message.as_bytes())),
        KeyValueError::Timeout => "{\"e\":\"timeout\"}".into(),
        KeyValueError::CursorNotFound => "{\"e\":\"cursor\"}".into(),
        KeyValueError::Other { message } => format!("{{\"e\":\"other\",\"m\":\"{}\"}}", hex(message.as_bytes())),
    }
}
fn j_keys(ks: &[String]) -> String { format!("[{}]", ks.iter().map(|k| format!("\"{}\"", hex(k.as_bytes()))).collect::<Vec<_>>().join(",")) }
fn j_result(r: &KeyValueResult) -> String {
    match r {
        KeyValueResult::Err { error } => format!("{{\"r\":\"err\",\"error\":{}}}", j_error(error)),
        KeyValueResult::Ok { response } => match response {
            KeyValueResponse::Get { value } => format!("{{\"r\":\"get\",\"v\":{}}}", j_value(value)),
            KeyValueResponse::Set { previous } => format!("{{\"r\":\"set\",\"v\":{}}}", j_value(previous)),
            KeyValueResponse::Delete { previous } => format!("{{\"r\":\"delete\",\"v\":{}}}", j_value(previous)),
            KeyValueResponse::Exists { is_present } => format!("{{\"r\":\"exists\",\"b\":{}}}", is_present),
            KeyValueResponse::ListKeys { keys, next_cursor } => format!("{{\"r\":\"list\",\"keys\":{},\"cursor\":\"{}\"}}", j_keys(keys), next_cursor),
        },
    }
}
fn j_seen(before: usize, entries: &[Entry]) -> String {
    if entries.len() == before { return "{\"s\":\"nothing\"}".into(); }
    if entries.len() != before + 1 { return format!("{{\"s\":\"many\",\"n\":{}}}", entries.len() - before); }
    match entries.last().unwrap() {
        Entry::Data(Outcome::Absent) => "{\"s\":\"data\",\"v\":null}".into(),
        Entry::Data(Outcome::Present(b)) => format!("{{\"s\":\"data\",\"v\":\"{}\"}}", hex(b)),
        Entry::Data(Outcome::Failed(e)) | Entry::Status(StatusOutcome::Failed(e)) | Entry::Keys(KeysOutcome::Failed(e)) => format!("{{\"s\":\"failed\",\"error\":{}}}", j_error(e)),
        Entry::Status(StatusOutcome::Is(b)) => format!("{{\"s\":\"status\",\"b\":{}}}", b),
        Entry::Keys(KeysOutcome::Page { keys, cursor }) => format!("{{\"s\":\"keys\",\"keys\":{},\"cursor\":\"{}\"}}", j_keys(keys), cursor),
        other => format!("{{\"s\":\"other\",\"dbg\":{}}}", json_str(&format!("{:?}", other))),
    }
}

fn exchange(api: Api, bridge: bool, event: Event, op: KeyValueOperation, result: KeyValueResult) {
    let head = format!("\"api\":\"{}\",\"path\":\"{}\",\"call\":{},\"result\":{}",
        if api == Api::Capability { "capability" } else { "command" }, if bridge { "bridge" } else { "typed" }, j_op(&op), j_result(&result));
    if !bridge {
        let core: crux_core::Core<kvapp::App> = crux_core::Core::new();
        let effects = match catch_unwind(AssertUnwindSafe(|| core.process_event(event))) { Ok(e) => e, Err(_) => { println!("{{{},\"obs\":\"panic-on-event\"}}", head); return; } };
        let mut ops = vec![]; let mut others = 0; let mut reqs = vec![];
        for e in effects { match e { kvapp::Effect::KeyValue(q) => { ops.push(j_op(&q.operation)); reqs.push(q); } _ => others += 1 } }
        let before = core.view().entries.len();
        let mut panicked = false; let mut after_effects = vec![];
        if let Some(mut q) = reqs.into_iter().next() {
            match catch_unwind(AssertUnwindSafe(|| core.resolve(&mut q, result.clone()))) {
                Ok(Ok(es)) => for e in es { after_effects.push(match e { kvapp::Effect::Render(_) => "render", kvapp::Effect::KeyValue(_) => "kv", _ => "other" }); },
                Ok(Err(_)) => after_effects.push("resolve-error"),
                Err(_) => panicked = true,
            }
        }
        let seen = if panicked { "{\"s\":\"panic\"}".to_string() } else { j_seen(before, &core.view().entries) };
        println!("{{{},\"ops\":[{}],\"others\":{},\"seen\":{},\"after\":{}}}", head, ops.join(","), others, seen, json_str(&after_effects.join(",")));
    } else {
        use crux_core::bridge::{Bridge, Request};
        let b: Bridge<kvapp::App> = Bridge::new(crux_core::Core::new());
        let ev_bytes = bridge_opts().serialize(&event).unwrap();
        let batch = match catch_unwind(AssertUnwindSafe(|| b.process_event(&ev_bytes))) { Ok(Ok(x)) => x, _ => { println!("{{{},\"obs\":\"event-rejected\"}}", head); return; } };
        let reqs: Vec<Request<kvapp::EffectFfi>> = bridge_opts().deserialize(&batch).unwrap_or_default();
        let id = reqs.iter().find(|q| matches!(q.effect, kvapp::EffectFfi::KeyValue(_))).map(|q| q.id.0);
        let view = |b: &Bridge<kvapp::App>| -> Vec<Entry> { b.view().ok().and_then(|v| bridge_opts().deserialize::<kvapp::ViewModel>(&v).ok()).map(|v| v.entries).unwrap_or_default() };
        let before = view(&b).len();
        let written = bridge_opts().serialize(&result).unwrap();
        let mut seen = "{\"s\":\"nothing\"}".to_string(); let mut after = String::new();
        if let Some(id) = id {
            match catch_unwind(AssertUnwindSafe(|| b.handle_response(id, &written))) {
                Ok(Ok(out)) => { after = hex(&out); seen = j_seen(before, &view(&b)); }
                Ok(Err(e)) => { after = format!("err:{}", e); seen = j_seen(before, &view(&b)); }
                Err(_) => seen = "{\"s\":\"panic\"}".into(),
            }
        }
        println!("{{{},\"batch\":\"{}\",\"written\":\"{}\",\"seen\":{},\"after\":{}}}", head, hex(&batch), hex(&written), seen, json_str(&after));
    }
}

fn make(api: Api, kind: u64, k: String, v: Vec<u8>, c: u64) -> (Event, KeyValueOperation) {
    match kind {
        0 => (Event::KvGet { api, key: k.clone() }, KeyValueOperation::Get { key: k }),
        1 => (Event::KvSet { api, key: k.clone(), value: v.clone() }, KeyValueOperation::Set { key: k, value: v }),
        2 => (Event::KvDelete { api, key: k.clone() }, KeyValueOperation::Delete { key: k }),
        3 => (Event::KvExists { api, key: k.clone() }, KeyValueOperation::Exists { key: k }),
        _ => (Event::KvList { api, prefix: k.clone(), cursor: c }, KeyValueOperation::ListKeys { prefix: k, cursor: c }),
    }
}

/// every API x path x call kind against every error variant and the boundary payloads, with boundary
/// arguments (empty key, cursor 0 and u64::MAX): the cases a random draw hits only now and then
fn systematic() {
    for api in [Api::Capability, Api::Command] {
        for bridge in [false, true] {
            for kind in 0..5u64 {
                for cur in [0u64, u64::MAX] {
                    if kind != 4 && cur != 0 { continue; }
                    let errors = vec![
                        KeyValueError::Io { message: "disk".into() }, KeyValueError::Timeout, KeyValueError::CursorNotFound, KeyValueError::Other { message: String::new() },
                    ];
                    for e in errors {
                        let (event, op) = make(api, kind, if cur == 0 { String::new() } else { "p/".into() }, vec![], cur);
                        exchange(api, bridge, event, op, KeyValueResult::Err { error: e });
                    }
                    let payloads: Vec<KeyValueResponse> = match kind {
                        0 => vec![Value::None, Value::Bytes(vec![]), Value::Bytes(vec![0])].into_iter().map(|value| KeyValueResponse::Get { value }).collect(),
                        1 => vec![Value::None, Value::Bytes(vec![]), Value::Bytes(vec![0])].into_iter().map(|previous| KeyValueResponse::Set { previous }).collect(),
                        2 => vec![Value::None, Value::Bytes(vec![]), Value::Bytes(vec![0])].into_iter().map(|previous| KeyValueResponse::Delete { previous }).collect(),
                        3 => vec![KeyValueResponse::Exists { is_present: true }, KeyValueResponse::Exists { is_present: false }],
                        _ => vec![KeyValueResponse::ListKeys { keys: vec![], next_cursor: 0 }, KeyValueResponse::ListKeys { keys: vec![String::new(), "k".into()], next_cursor: u64::MAX }],
                    };
                    for response in payloads {
                        let (event, op) = make(api, kind, "k".into(), vec![1, 2, 3], cur);
                        exchange(api, bridge, event, op, KeyValueResult::Ok { response });
                    }
                }
            }
        }
    }
}

fn main() {
    let a: Vec<String> = std::env::args().collect();
    let seed: u64 = a.get(1).and_then(|s| s.parse().ok()).unwrap_or(1);
    let count: u64 = a.get(2).and_then(|s| s.parse().ok()).unwrap_or(100);
    let big = a.get(3).map(|s| s == "big").unwrap_or(false);
    std::panic::set_hook(Box::new(|_| {}));
    systematic();
    let mut r = Rng::new(seed ^ 0xC17);
    for i in 0..count {
        let api = if i % 2 == 0 { Api::Capability } else { Api::Command };
        let bridge = (i / 2) % 2 == 1;
        let kind = (i / 4) % 5;
        let big_case = big && r.coin(1, 6);
        let (event, op) = match kind {
            0 => { let k = key(&mut r, big_case); (Event::KvGet { api, key: k.clone() }, KeyValueOperation::Get { key: k }) }
            1 => { let k = key(&mut r, big_case); let v = value(&mut r, big_case); (Event::KvSet { api, key: k.clone(), value: v.clone() }, KeyValueOperation::Set { key: k, value: v }) }
            2 => { let k = key(&mut r, big_case); (Event::KvDelete { api, key: k.clone() }, KeyValueOperation::Delete { key: k }) }
            3 => { let k = key(&mut r, big_case); (Event::KvExists { api, key: k.clone() }, KeyValueOperation::Exists { key: k }) }
            _ => { let k = key(&mut r, big_case); let c = cursor(&mut r); (Event::KvList { api, prefix: k.clone(), cursor: c }, KeyValueOperation::ListKeys { prefix: k, cursor: c }) }
        };
        let result = match r.below(20) {
            0..=2 => KeyValueResult::Err { error: kv_error(&mut r) },
            3..=5 => { let other = (kind + 1 + r.below(4)) % 5; KeyValueResult::Ok { response: response(&mut r, other, false) } }
            _ => KeyValueResult::Ok { response: response(&mut r, kind, big_case) },
        };
        exchange(api, bridge, event, op, result);
    }
}
