fn main(){println!("ok");}
