//! C14 correspondence driver: an HTTP request *description* (entry point, method, URL, a list of
//! builder / request calls) is played against the REAL crux_http through both APIs
//!   * command API   `crux_http::command::Http::<Effect, Event>::{get,..,request}(..)...build().then_send(..)`
//!   * capability API `caps.http.{get,..,request}(..)...send(..)` inside a real `Core<App>`;
//!   in both, the calls after `split` are made on the `crux_http::Request` itself from a per-request middleware
//! and the request effects that reach the shell are printed, one JSON object per case, together with
//! everything the Coq side needs that is an *oracle* (URL serialisation by the `url` crate, JSON bytes by
//! serde_json, MIME rendering by http-types) computed here directly from the description, never through
//! crux_http.  Form and query-string encodings are computed by an independent encoder written here and
//! cross-checked against serde_urlencoded / serde_qs.  `expect()` is a second, independent description of
//! the wire request in plain Rust (association list, no hash map) whose verdict is printed as `rust_ok`.
//!
//! usage: httpreq_build <seed> <count>            generated cases (mostly valid + a malformed stream)
//!        httpreq_build --replay <file>           re-run the descriptions found in a JSON-lines file
use std::io::BufRead;
use std::panic::{catch_unwind, AssertUnwindSafe};

use crux_http::protocol::HttpRequest;
use serde_json::{json, Value};
use vh::rng::Rng;

#[path = "httpreq_util/desc.rs"]
#[macro_use]
mod desc;
use desc::*;

// ------------------------------------------------------------------ running and printing
fn req_json(r: &HttpRequest) -> Value {
    json!({"method": r.method, "url": hex(r.url.as_bytes()),
           "headers": r.headers.iter().map(|h| json!([hex(h.name.as_bytes()), hex(h.value.as_bytes())])).collect::<Vec<_>>(),
           "body": hex(&r.body)})
}
fn run_one(d: &Desc, origin: &str) -> Value {
    let encs: Vec<Enc> = d.ops.iter().map(enc_of).collect();
    let urls = url_table(d, &encs);
    let played = catch_unwind(AssertUnwindSafe(|| if d.api == "cmd" { play_cmd(d) } else { play_cap(d) }));
    let want = expect(d, &encs, &urls);
    let (outcome, effects, msg, rok) = match &played {
        Ok(Ok(reqs)) => {
            let rok = match (&want, reqs.as_slice()) { (Some(w), [r]) => rust_ok(w, r), _ => false };
            ("sent", reqs.iter().map(req_json).collect::<Vec<_>>(), String::new(), rok)
        }
        Ok(Err(e)) => ("refused", vec![], e.clone(), want.is_none()),
        Err(p) => ("panic", vec![], p.downcast_ref::<String>().cloned().or_else(|| p.downcast_ref::<&str>().map(|s| s.to_string())).unwrap_or_default(), want.is_none()),
    };
    let msg = msg.lines().next().unwrap_or("").to_string(); // no backtraces: output is a function of the seed
    json!({"origin": origin, "desc": d, "enc": encs, "urls": urls, "outcome": outcome, "effects": effects, "msg": msg, "rust_ok": rok})
}

fn main() {
    std::panic::set_hook(Box::new(|_| {}));
    let args: Vec<String> = std::env::args().collect();
    if args.len() >= 3 && args[1] == "--replay" {
        for path in &args[2..] {
            let f = std::io::BufReader::new(std::fs::File::open(path).expect("replay file"));
            for line in f.lines() {
                let line = line.unwrap();
                if !line.trim_start().starts_with('{') { continue; }
                let v: Value = serde_json::from_str(&line).expect("json line");
                let d: Desc = serde_json::from_value(v.get("desc").cloned().unwrap_or(v)).expect("desc");
                println!("{}", run_one(&d, "replay"));
            }
        }
        return;
    }
    let seed: u64 = args.get(1).and_then(|s| s.parse().ok()).unwrap_or(1);
    let count: u64 = args.get(2).and_then(|s| s.parse().ok()).unwrap_or(100);
    let mut r = Rng::new(seed ^ 0xC14);
    for i in 0..count {
        let d = if i % 8 == 7 { gen_malformed(&mut r) } else { gen_valid(&mut r) };
        println!("{}", run_one(&d, if i % 8 == 7 { "malformed" } else { "valid" }));
    }
}
