//! Helpers shared by the httpresp drivers (C15, C16): hex, canonical observations of the real
//! crux_http result types, and the oracles (http-types Mime charset, encoding_rs, serde_json) that the
//! Coq model receives as data.
#![allow(dead_code)]
use crux_http::{HttpError, Response};
use serde_json::{json, Value};

pub fn hex(b: &[u8]) -> String {
    let mut s = String::with_capacity(b.len() * 2);
    for x in b { s.push_str(&format!("{:02x}", x)); }
    s
}

/// Canonical observation of the headers of a response: entries sorted by (lower-cased) name, each with
/// its values in the order the map holds them.
pub fn obs_headers<B>(r: &Response<B>) -> Value {
    let mut hs: Vec<(String, Vec<String>)> = r
        .iter()
        .map(|(n, vs)| (n.as_str().to_string(), vs.iter().map(|v| v.as_str().to_string()).collect()))
        .collect();
    hs.sort();
    Value::Array(hs.into_iter().map(|(n, vs)| json!([hex(n.as_bytes()), vs.iter().map(|v| hex(v.as_bytes())).collect::<Vec<_>>()])).collect())
}

pub fn obs_response<B>(r: &Response<B>, body_kind: &str, body: Option<Vec<u8>>) -> Value {
    let status: u16 = r.status().into();
    json!({"t": "ok", "status": status, "version": r.version().map(|v| format!("{:?}", v)),
           "headers": obs_headers(r), "bk": body_kind, "body": body.map(|b| hex(&b))})
}

pub fn obs_error(e: &HttpError) -> Value {
    match e {
        HttpError::Http { code, message, body } => {
            let c: u16 = (*code).into();
            json!({"t": "err", "e": "http", "code": c, "msg": hex(message.as_bytes()), "body": body.as_ref().map(|b| hex(b))})
        }
        HttpError::Json(m) => json!({"t": "err", "e": "json", "msg": hex(m.as_bytes())}),
        HttpError::Url(m) => json!({"t": "err", "e": "url", "msg": hex(m.as_bytes())}),
        HttpError::Io(m) => json!({"t": "err", "e": "io", "msg": hex(m.as_bytes())}),
        HttpError::Timeout => json!({"t": "err", "e": "timeout"}),
    }
}

pub fn obs_bytes(r: &crux_http::Result<Response<Vec<u8>>>) -> Value {
    match r { Ok(resp) => obs_response(resp, "bytes", resp.body().cloned()), Err(e) => obs_error(e) }
}
pub fn obs_string(r: &crux_http::Result<Response<String>>) -> Value {
    match r { Ok(resp) => obs_response(resp, "string", resp.body().map(|s| s.as_bytes().to_vec())), Err(e) => obs_error(e) }
}
pub fn obs_json(r: &crux_http::Result<Response<Value>>) -> Value {
    match r { Ok(resp) => obs_response(resp, "json", resp.body().map(|v| serde_json::to_vec(v).unwrap())), Err(e) => obs_error(e) }
}

// ---------------------------------------------------------------- oracles (independent of crux_http)

/// charset parameter of a content-type value according to http-types' Mime parser (the library
/// crux_http consults); None when the value is not a Mime or has no charset.
pub fn oracle_charset(value: &str) -> Option<String> {
    use std::str::FromStr;
    let m = http_types::Mime::from_str(value).ok()?;
    m.param("charset").map(|p| p.to_string())
}

/// What a conforming decoder (encoding_rs, WHATWG labels, BOM sniffing) yields for `body` under the
/// claimed charset label: Ok(text) or Err(name of the encoding that failed / unknown label).
pub fn oracle_decode(label: Option<&str>, body: &[u8]) -> Result<String, String> {
    let label = label.unwrap_or("utf-8");
    match encoding_rs::Encoding::for_label(label.as_bytes()) {
        None => Err(label.to_string()),
        Some(enc) => {
            let (text, used, failed) = enc.decode(body);
            if failed { Err(used.name().to_string()) } else { Ok(text.into_owned()) }
        }
    }
}

/// serde_json on the raw body: canonical re-serialisation of the value, or the error text.
pub fn oracle_json(body: &[u8]) -> Result<Vec<u8>, String> {
    match serde_json::from_slice::<Value>(body) {
        Ok(v) => Ok(serde_json::to_vec(&v).unwrap()),
        Err(e) => Err(e.to_string()),
    }
}

pub fn oracle_block(headers: &[(String, String)], body: &[u8]) -> Value {
    let mut mime = vec![];
    let mut labels: Vec<Option<String>> = vec![None];
    let mut vals: Vec<String> = headers.iter().map(|h| h.1.clone()).collect();
    vals.push("application/octet-stream".to_string());
    vals.sort(); vals.dedup();
    for v in vals {
        let cs = oracle_charset(&v);
        if !labels.contains(&cs) { labels.push(cs.clone()); }
        mime.push(json!([hex(v.as_bytes()), cs.map(|c| hex(c.as_bytes()))]));
    }
    let dec: Vec<Value> = labels.iter().map(|l| {
        let r = oracle_decode(l.as_deref(), body);
        json!([l.as_ref().map(|c| hex(c.as_bytes())), match r { Ok(s) => json!({"ok": hex(s.as_bytes())}), Err(n) => json!({"fail": hex(n.as_bytes())}) }])
    }).collect();
    let js = match oracle_json(body) { Ok(c) => json!({"ok": hex(&c)}), Err(m) => json!({"err": hex(m.as_bytes())}) };
    json!({"mime": mime, "decode": dec, "json": js})
}

// ---------------------------------------------------------------- reading inputs back (corpus, shrinking)
pub fn unhex(s: &str) -> Vec<u8> {
    (0..s.len() / 2).map(|i| u8::from_str_radix(&s[2 * i..2 * i + 2], 16).unwrap()).collect()
}
pub fn unhex_str(v: &Value) -> String { String::from_utf8(unhex(v.as_str().unwrap_or(""))).expect("corpus strings are UTF-8") }

pub fn error_from_json(v: &Value) -> HttpError {
    match v["e"].as_str().unwrap() {
        "http" => HttpError::Http {
            code: http_types::StatusCode::try_from(v["code"].as_u64().unwrap() as u16).unwrap(),
            message: unhex_str(&v["msg"]),
            body: if v["body"].is_null() { None } else { Some(unhex(v["body"].as_str().unwrap())) },
        },
        "json" => HttpError::Json(unhex_str(&v["msg"])),
        "url" => HttpError::Url(unhex_str(&v["msg"])),
        "io" => HttpError::Io(unhex_str(&v["msg"])),
        _ => HttpError::Timeout,
    }
}

/// (status, headers, body) of an {"t":"ok",..} value
pub fn response_parts(v: &Value) -> (u16, Vec<(String, String)>, Vec<u8>) {
    let hs = v["headers"].as_array().unwrap().iter().map(|h| (unhex_str(&h[0]), unhex_str(&h[1]))).collect();
    (v["status"].as_u64().unwrap() as u16, hs, unhex(v["body"].as_str().unwrap_or("")))
}
