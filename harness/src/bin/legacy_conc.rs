//! C08 for the legacy capability futures (capability/shell_stream.rs, shell_request.rs): a stream of the
//! legacy API resolved from one shell thread while another shell thread is inside the consuming task's poll.
//!
//! ShellStream::poll_next checks its channel and stores the task's waker under ONE lock, and the resolve
//! callback sends the item and takes the waker under the same lock: a value resolved "at the same time" is
//! either seen by the check or finds the waker.  This harness opens the window without any hook: the task
//! polls its stream through a waker whose `clone` can be paused (the waker is cloned exactly when the stream
//! is about to park).  While thread X sits there, thread Y resolves the same stream; in the unchanged code Y
//! blocks on the stream's mutex until X has parked.  Afterwards every value that was accepted must have been
//! applied, in an order some sequential order of the calls would give, and the stream must still deliver.
//! One JSON line per scenario and repetition.
use crux_core::capability::{CapabilityContext, Operation, ProtoContext, WithContext};
use crux_core::{Command, Core, Request};
use futures::{Stream, StreamExt};
use serde::{Deserialize, Serialize};
use std::sync::mpsc::{channel, Receiver, Sender};
use std::sync::{Arc, Mutex};
use std::task::{Context, Poll, RawWaker, RawWakerVTable, Waker};
use std::time::Duration;

// ---------------------------------------------------------------- a waker whose clone can be paused
struct Gate { entered: Sender<()>, release: Receiver<()> }
static GATE: Mutex<Option<Gate>> = Mutex::new(None);
struct Handle { entered: Receiver<()>, release: Sender<()> }
fn install() -> Handle {
    let (etx, erx) = channel(); let (rtx, rrx) = channel();
    *GATE.lock().unwrap() = Some(Gate { entered: etx, release: rrx });
    Handle { entered: erx, release: rtx }
}
fn passing() {
    let g = GATE.lock().unwrap().take();
    if let Some(g) = g { let _ = g.entered.send(()); let _ = g.release.recv_timeout(Duration::from_millis(400)); }
}
struct Inner(Waker);
unsafe fn gw_clone(p: *const ()) -> RawWaker {
    passing();
    let a = Arc::from_raw(p as *const Inner); let b = a.clone(); std::mem::forget(a);
    RawWaker::new(Arc::into_raw(b) as *const (), &VTABLE)
}
unsafe fn gw_wake(p: *const ()) { let a = Arc::from_raw(p as *const Inner); a.0.wake_by_ref(); }
unsafe fn gw_wake_by_ref(p: *const ()) { let a = Arc::from_raw(p as *const Inner); a.0.wake_by_ref(); std::mem::forget(a); }
unsafe fn gw_drop(p: *const ()) { drop(Arc::from_raw(p as *const Inner)); }
static VTABLE: RawWakerVTable = RawWakerVTable::new(gw_clone, gw_wake, gw_wake_by_ref, gw_drop);
fn gate_waker(w: &Waker) -> Waker { unsafe { Waker::from_raw(RawWaker::new(Arc::into_raw(Arc::new(Inner(w.clone()))) as *const (), &VTABLE)) } }
/// polls the wrapped stream with a waker that forwards to the task's own
struct Gated<S>(S);
impl<S: Stream + Unpin> Stream for Gated<S> {
    type Item = S::Item;
    fn poll_next(mut self: std::pin::Pin<&mut Self>, cx: &mut Context<'_>) -> Poll<Option<S::Item>> {
        let w = gate_waker(cx.waker()); let mut cx2 = Context::from_waker(&w);
        std::pin::Pin::new(&mut self.0).poll_next(&mut cx2)
    }
}

// ---------------------------------------------------------------- the app
#[derive(Serialize, Deserialize, Clone, PartialEq, Eq, Debug)] pub struct Watch(pub u64);
impl Operation for Watch { type Output = u64; }
pub enum Eff { Watch(Request<Watch>) }
impl From<Request<Watch>> for Eff { fn from(r: Request<Watch>) -> Self { Eff::Watch(r) } }
impl crux_core::Effect for Eff {
    type Ffi = ();
    fn serialize(self) -> (Self::Ffi, crux_core::bridge::ResolveSerialized) { unimplemented!("typed core only") }
}
#[derive(Debug, Clone, PartialEq)] pub enum Ev { Start(u64), Noop, Tick(u64, u64), Ended(u64) }
pub struct Caps { watch: CapabilityContext<Watch, Ev> }
impl WithContext<Ev, Eff> for Caps { fn new_with_context(c: ProtoContext<Eff, Ev>) -> Self { Caps { watch: c.specialize(Eff::Watch) } } }
#[derive(Default)] pub struct App;
impl crux_core::App for App {
    type Event = Ev; type Model = Vec<(u64, u64)>; type ViewModel = Vec<(u64, u64)>; type Capabilities = Caps; type Effect = Eff;
    fn update(&self, ev: Ev, model: &mut Self::Model, caps: &Caps) -> Command<Eff, Ev> {
        match ev {
            Ev::Start(k) => { let ctx = caps.watch.clone(); caps.watch.spawn(async move {
                let mut s = Gated(ctx.stream_from_shell(Watch(k)));
                while let Some(v) = s.next().await { ctx.update_app(Ev::Tick(k, v)); }
                ctx.update_app(Ev::Ended(k));
            }); }
            Ev::Noop => {}
            Ev::Tick(k, v) => model.push((k, v)),
            Ev::Ended(k) => model.push((k, u64::MAX)),
        }
        Command::done()
    }
    fn view(&self, m: &Self::Model) -> Self::ViewModel { m.clone() }
}

#[derive(Clone, Debug, PartialEq, Eq, Serialize)]
struct Outcome { x_got: usize, y_got: usize, resolved_ok: bool, view: Vec<(u64, u64)>, probe: bool, after_probe: Vec<(u64, u64)> }

/// X delivers the event that starts the subscription and is parked inside the task's FIRST poll, at the moment the
/// stream is about to store its waker (the request has been sent to the core's channel by then).  Y delivers an
/// unrelated event meanwhile: its call drains the channel, so Y - not X - is handed the stream request, and Y answers
/// it at once.  Whoever ends up with the request, the value must be applied and the stream must go on delivering.
fn concurrent() -> (Outcome, bool) {
    *GATE.lock().unwrap() = None;
    let core: Arc<Core<App>> = Arc::new(Core::new());
    let h = install();
    let held: Arc<Mutex<Vec<Request<Watch>>>> = Arc::new(Mutex::new(vec![]));
    let got: Arc<Mutex<(usize, usize, bool)>> = Arc::new(Mutex::new((0, 0, true)));
    let answer = |core: &Core<App>, held: &Mutex<Vec<Request<Watch>>>, got: &Mutex<(usize, usize, bool)>, effs: Vec<Eff>, who: usize| {
        for e in effs { let Eff::Watch(mut r) = e;
            let ok = core.resolve(&mut r, 1).is_ok();
            { let mut g = got.lock().unwrap(); if who == 0 { g.0 += 1 } else { g.1 += 1 }; g.2 &= ok; }
            held.lock().unwrap().push(r); }
    };
    let x = { let (core, held, got) = (core.clone(), held.clone(), got.clone());
        std::thread::spawn(move || { let effs = core.process_event(Ev::Start(0)); answer(&core, &held, &got, effs, 0); }) };
    let entered = h.entered.recv_timeout(Duration::from_secs(5)).is_ok();
    let y = { let (core, held, got) = (core.clone(), held.clone(), got.clone());
        std::thread::spawn(move || { let effs = core.process_event(Ev::Noop); answer(&core, &held, &got, effs, 1); }) };
    std::thread::sleep(Duration::from_millis(120));
    let overlapped = got.lock().unwrap().1 > 0;
    let _ = h.release.send(());
    let _ = x.join(); let _ = y.join();
    let _ = entered;
    let view = core.view();
    let g = *got.lock().unwrap();
    let probe = match held.lock().unwrap().first_mut() { Some(r) => core.resolve(r, 9000).is_ok(), None => false };
    (Outcome { x_got: g.0, y_got: g.1, resolved_ok: g.2, view, probe, after_probe: core.view() }, overlapped)
}

fn main() {
    let reps: usize = std::env::args().nth(1).and_then(|s| s.parse().ok()).unwrap_or(3);
    for rep in 0..reps {
        match std::panic::catch_unwind(std::panic::AssertUnwindSafe(concurrent)) {
            Ok((o, overlapped)) => {
                // every sequential order of the two calls ends like this: the one request was handed over once, its answer
                // was accepted and applied, and the next value is delivered as well
                let ok = o.x_got + o.y_got == 1 && o.resolved_ok && o.view == vec![(0, 1)] && o.probe && o.after_probe == vec![(0, 1), (0, 9000)];
                println!("{{\"scenario\":\"first_poll_parked_other_thread_answers\",\"rep\":{},\"ok\":{},\"overlapped\":{},\"concurrent\":{}}}", rep, ok, overlapped, serde_json::to_string(&o).unwrap());
            }
            Err(_) => println!("{{\"scenario\":\"first_poll_parked_other_thread_answers\",\"rep\":{},\"ok\":false,\"panic\":true}}", rep),
        }
    }
}
