//! C15 correspondence driver: every HTTP result yields exactly one well-classified outcome.
//! Drives the REAL crux_http through both APIs (command API `crux_http::command::Http`, capability API
//! `crux_http::Http`) inside a real `AppTester`, resolves the single HTTP effect with a generated
//! `HttpResult`, and prints the events the app received (or the panic) as one JSON line per case,
//! together with the oracle data (Mime charset, encoding_rs decode, serde_json) the Coq model consumes.
//!   httpresp_c15 <seed> <count> [sweep|nosweep] [inputs.jsonl]
//! `sweep` (default) first prints the exhaustive status sweep 0..=65535 for both APIs.
#[path = "httpresp_util/mod.rs"]
mod util;

use crux_core::{macros::Effect, testing::AppTester, Command};
use crux_http::command::Http as CmdHttp;
use crux_http::protocol::{HttpHeader, HttpResponse, HttpResult};
use crux_http::{HttpError, Response};
use serde_json::{json, Value};
use std::panic::{catch_unwind, AssertUnwindSafe};
use util::*;
use vh::rng::Rng;

const URL: &str = "http://example.com/c15";

#[derive(Default)]
struct App;

#[allow(clippy::large_enum_variant)]
enum Event {
    Go(u8, u8),
    GotBytes(crux_http::Result<Response<Vec<u8>>>),
    GotString(crux_http::Result<Response<String>>),
    GotJson(crux_http::Result<Response<Value>>),
}

#[derive(Effect)]
#[allow(unused)]
struct Capabilities {
    http: crux_http::Http<Event>,
}

impl crux_core::App for App {
    type Event = Event;
    type Model = ();
    type ViewModel = ();
    type Capabilities = Capabilities;
    type Effect = Effect;

    fn update(&self, event: Event, _model: &mut (), caps: &Capabilities) -> Command<Effect, Event> {
        match event {
            // command API
            Event::Go(0, 0) => CmdHttp::get(URL).build().then_send(Event::GotBytes),
            Event::Go(0, 1) => CmdHttp::get(URL).expect_string().build().then_send(Event::GotString),
            Event::Go(0, 2) => CmdHttp::get(URL).expect_json::<Value>().build().then_send(Event::GotJson),
            // capability API
            Event::Go(1, 0) => { caps.http.get(URL).send(Event::GotBytes); Command::done() }
            Event::Go(1, 1) => { caps.http.get(URL).expect_string().send(Event::GotString); Command::done() }
            Event::Go(1, 2) => { caps.http.get(URL).expect_json::<Value>().send(Event::GotJson); Command::done() }
            _ => Command::done(),
        }
    }
    fn view(&self, _model: &()) {}
}

fn obs_event(e: &Event) -> Value {
    match e {
        Event::Go(..) => json!({"t": "go"}),
        Event::GotBytes(r) => obs_bytes(r),
        Event::GotString(r) => obs_string(r),
        Event::GotJson(r) => obs_json(r),
    }
}

/// One run of the real code: returns {"events":[...], "panicked":bool, "shape": anomalies}.
fn run(api: u8, exp: u8, result: HttpResult) -> Value {
    let r = catch_unwind(AssertUnwindSafe(|| {
        let app = AppTester::<App>::default();
        let mut model = ();
        let upd = app.update(Event::Go(api, exp), &mut model);
        let mut anomalies: Vec<String> = vec![];
        if upd.effects.len() != 1 || !upd.events.is_empty() {
            anomalies.push(format!("first-update effects={} events={}", upd.effects.len(), upd.events.len()));
        }
        let mut effects = upd.effects;
        let Effect::Http(mut req) = effects.remove(0);
        let res = catch_unwind(AssertUnwindSafe(|| app.resolve(&mut req, result)));
        match res {
            Ok(Ok(upd2)) => {
                if !upd2.effects.is_empty() { anomalies.push(format!("effects-after-resolve={}", upd2.effects.len())); }
                let evs: Vec<Value> = upd2.events.iter().map(obs_event).collect();
                json!({"events": evs, "panicked": false, "anomalies": anomalies})
            }
            Ok(Err(e)) => { anomalies.push(format!("resolve-error {:?}", e)); json!({"events": [], "panicked": false, "anomalies": anomalies}) }
            Err(_) => json!({"events": [], "panicked": true, "anomalies": anomalies}),
        }
    }));
    r.unwrap_or_else(|_| json!({"events": [], "panicked": true, "anomalies": ["panic-before-resolve"]}))
}

const KNOWN: [u16; 59] = [100, 101, 103, 200, 201, 202, 203, 204, 205, 206, 207, 226, 300, 301, 302, 303, 304, 307, 308, 400, 401, 402, 403,
    404, 405, 406, 407, 408, 409, 410, 411, 412, 413, 414, 415, 416, 417, 418, 421, 422, 423, 424, 425, 426, 428, 429, 431, 451, 500, 501,
    502, 503, 504, 505, 506, 507, 508, 510, 511];
const EDGE: [u16; 24] = [0, 1, 99, 102, 104, 199, 208, 225, 227, 299, 305, 306, 309, 399, 419, 420, 499, 509, 512, 599, 600, 999, 1000, 65535];

fn gen_status(rng: &mut Rng) -> u16 {
    match rng.below(20) {
        0..=8 => { let ok: Vec<u16> = KNOWN.iter().copied().filter(|s| *s < 400).collect(); *rng.pick(&ok) }
        9..=12 => { let er: Vec<u16> = KNOWN.iter().copied().filter(|s| *s >= 400).collect(); *rng.pick(&er) }
        13 | 14 => *rng.pick(&EDGE),
        15 | 16 => rng.below(700) as u16,
        17 => *rng.pick(&[200u16, 404, 500, 302]),
        _ => rng.next() as u16,
    }
}

/// `weird` = chance in 100, per position, of a character that is not a plain token character;
/// `ascii_only` keeps those characters inside ASCII (control bytes, separators, DEL).
fn gen_text_mode(rng: &mut Rng, max: u64, weird: u64, ascii_only: bool) -> String {
    let n = rng.below(max + 1);
    let mut s = String::new();
    for _ in 0..n {
        if rng.below(100) < weird {
            let c = match if ascii_only { 3 + rng.below(3) } else { rng.below(6) } {
                0 => char::from_u32(0x80 + rng.below(0x80) as u32).unwrap(),   // latin-1 supplement (2-byte utf-8)
                1 => *rng.pick(&['é', 'ß', '€', '你', '😀', '\u{feff}']),
                2 => char::from_u32(0x100 + rng.below(0x2000) as u32).unwrap_or('¿'),
                3 => char::from_u32(rng.below(0x20) as u32).unwrap(),          // control
                4 => *rng.pick(&[' ', ';', '=', '"', '\\', ',', ':', '/', '\u{7f}']),
                _ => char::from_u32(rng.below(0x80) as u32).unwrap(),
            };
            s.push(c);
        } else {
            s.push(*rng.pick(&['a', 'b', 'c', 'x', 'y', 'z', 'A', 'B', 'Z', '0', '1', '9', '-', '_']));
        }
    }
    s
}
fn gen_text(rng: &mut Rng, max: u64, weird: u64) -> String { gen_text_mode(rng, max, weird, false) }

const NAMES: [&str; 16] = ["content-type", "Content-Type", "CONTENT-TYPE", "content-length", "location", "Location", "set-cookie", "Set-Cookie",
    "x-a", "X-A", "x-b", "etag", "cache-control", "Content-Encoding", "my_header", "date"];
const CTYPES: [&str; 40] = ["text/plain", "text/plain; charset=utf-8", "text/plain;charset=UTF-8", "text/html; charset=ISO-8859-1",
    "text/html; charset=iso-8859-1", "application/json", "application/json; charset=utf-8", "text/plain; charset=\"utf-8\"",
    "text/plain; charset=\"windows-1252\"", "text/plain;charset=bogus", "garbage", "", "text/plain; charset=", "TEXT/PLAIN; CHARSET=Shift_JIS",
    "text/plain; charset=utf-16le", "text/plain; charset=utf-16be", "text/plain; charset=utf-16", "text/plain; charset=euc-kr",
    "text/plain; charset=gbk", "text/plain; charset=windows-1252", "text/plain; charset=latin1", "text/plain; charset=us-ascii",
    "text/plain; charset=x-user-defined", "text/plain; charset=replacement", "text/plain; charset=utf8", "text/plain; charset=unicode-1-1-utf-8",
    "text/plain; foo=bar; charset=koi8-r", "text/plain; charset=utf-8; charset=latin1", "text/plain; charset=latin1; charset=utf-8",
    "application/octet-stream", "text/plain ; charset = utf-8", "text/plain;;charset=big5", "/; charset=utf-8", "text/; charset=utf-8",
    "text/plain; charset=\"utf-8", "text/plain; charset=\"a\\\"b\"", "text/plain; charset=iso-2022-jp", "image/png", "text/plain; charset=macintosh",
    "multipart/form-data; boundary=x"];

fn gen_headers(rng: &mut Rng, malformed: bool) -> Vec<(String, String)> {
    let n = match rng.below(8) { 0 => 0, 1 | 2 => 1, 3 | 4 => 2, 5 => 3, 6 => rng.range(4, 7), _ => rng.range(0, 12) };
    let mut hs: Vec<(String, String)> = vec![];
    for _ in 0..n {
        let (a1, a2, a3) = (rng.coin(1, 2), rng.coin(1, 2), rng.coin(2, 3));
        let name = match rng.below(10) {
            0..=5 => rng.pick(&NAMES).to_string(),
            6 if !hs.is_empty() => { let k = rng.below(hs.len() as u64) as usize; let s = hs[k].0.clone(); if rng.coin(1, 2) { s.to_ascii_uppercase() } else { s } }
            7 | 8 => gen_text_mode(rng, 12, if malformed { 15 } else { 0 }, !malformed || a1),
            _ => gen_text_mode(rng, 6, if malformed { 40 } else { 10 }, !malformed || a1),
        };
        let value = if name.eq_ignore_ascii_case("content-type") && rng.coin(9, 10) {
            rng.pick(&CTYPES).to_string()
        } else if name.eq_ignore_ascii_case("content-length") {
            // a declared length that has nothing to do with the body
            rng.pick(&["18446744073709551615", "9223372036854775808", "18446744073709551614", "-1", "0", "7", "1e9", "", "12 "]).to_string()
        } else {
            match rng.below(6) {
                0 | 1 => gen_text_mode(rng, 16, if malformed { 10 } else { 0 }, !malformed || a2),
                2 => rng.pick(&CTYPES).to_string(),
                3 => rng.pick(&["1", "0", "", "gzip", "http://example.com/next", "/next", "a=b; Path=/", "W/\"x\""]).to_string(),
                4 => gen_text_mode(rng, 40, if malformed { 8 } else { 10 }, !malformed),
                _ => gen_text_mode(rng, 8, 10, !malformed || a3),
            }
        };
        hs.push((name, value));
    }
    hs
}

const JSONS: [&str; 16] = ["null", "true", "0", "-1.5e3", "\"hello\"", "[]", "{}", "[1,2,3]", "{\"a\":1,\"b\":[true,null]}", " {\"ip\" : \"127.0.0.1\"} ",
    "{\"a\":1}x", "[1,", "{\"a\":}", "\"\\u00e9\"", "{\"k\":\"\u{e9}\u{1F600}\"}", "1 2"];

fn gen_body(rng: &mut Rng) -> Vec<u8> {
    match rng.below(24) % 12 {
        10 if rng.coin(1, 2) => vec![],
        0 => vec![],
        1 | 2 => rng.pick(&JSONS).as_bytes().to_vec(),
        3 => gen_text(rng, 40, 0).into_bytes(),
        4 => gen_text(rng, 60, 30).into_bytes(),                                        // valid utf-8, multi-byte
        5 => { let n = rng.below(40); (0..n).map(|_| rng.next() as u8).collect() }      // random bytes
        6 => { let mut b = "Rød grød".as_bytes().to_vec(); if rng.coin(1, 2) { b.truncate(2); } b } // maybe cut inside a code point
        7 => { let mut b = vec![0xff, 0xfe]; for c in "hi€".encode_utf16() { b.extend(c.to_le_bytes()); } b } // utf-16le BOM
        8 => { let mut b = vec![0xef, 0xbb, 0xbf]; b.extend(rng.pick(&JSONS).as_bytes()); b }                  // utf-8 BOM
        9 => vec![0xb3, 0xbb, 0x20, 0xc7, 0xb0],                                         // euc-kr
        10 => { let n = rng.range(300, 900); (0..n).map(|i| b'a' + (i % 26) as u8).collect() }
        _ => { let mut b = gen_text(rng, 20, 10).into_bytes(); b.push(0x80 | (rng.next() as u8)); b } // one stray high byte
    }
}

fn gen_error(rng: &mut Rng) -> HttpError {
    match rng.below(5) {
        0 => HttpError::Http {
            code: http_types::StatusCode::try_from(*rng.pick(&KNOWN)).unwrap(),
            message: gen_text(rng, 20, 10),
            body: if rng.coin(1, 2) { Some(gen_body(rng)) } else { None },
        },
        1 => HttpError::Json(gen_text(rng, 20, 10)),
        2 => HttpError::Url(gen_text(rng, 20, 10)),
        // messages a platform HTTP stack really produces: they mention time-outs, URLs, status words - the error must reach
        // the app as the shell reported it whatever its text says
        3 => if rng.coin(1, 3) { HttpError::Io(rng.pick(&["The request timed out.", "java.net.SocketTimeoutException: timeout", "Keep-Alive: timeout=5 was ignored",
                 "SessionTimeout", "invalid url: relative URL without a base", "connection reset by peer", "404 Not Found", "TIMED OUT", ""]).to_string()) }
             else { HttpError::Io(gen_text(rng, 20, 10)) },
        _ => HttpError::Timeout,
    }
}

fn in_result(r: &HttpResult) -> Value {
    match r {
        HttpResult::Ok(resp) => json!({"t": "ok", "status": resp.status,
            "headers": resp.headers.iter().map(|h| json!([hex(h.name.as_bytes()), hex(h.value.as_bytes())])).collect::<Vec<_>>(),
            "body": hex(&resp.body)}),
        HttpResult::Err(e) => obs_error(e),
    }
}

fn mk_response(status: u16, headers: &[(String, String)], body: &[u8]) -> HttpResponse {
    HttpResponse { status, headers: headers.iter().map(|(n, v)| HttpHeader { name: n.clone(), value: v.clone() }).collect(), body: body.to_vec() }
}

fn main() {
    let args: Vec<String> = std::env::args().collect();
    let seed: u64 = args.get(1).and_then(|s| s.parse().ok()).unwrap_or(1);
    let count: usize = args.get(2).and_then(|s| s.parse().ok()).unwrap_or(2000);
    let sweep = args.get(3).map(|s| s != "nosweep").unwrap_or(true);
    std::panic::set_hook(Box::new(|_| {}));

    // the status table http-types itself accepts, re-derived from the library on every run
    let table: Vec<u16> = (0..=65535u16).filter(|s| http_types::StatusCode::try_from(*s).is_ok()).collect();
    println!("{}", json!({"k": "table", "known_status": table}));

    if sweep {
        let hs = vec![("X-A".to_string(), "1".to_string())];
        let body = b"hi".to_vec();
        println!("{}", json!({"k": "sweep_fixed", "headers": [[hex(b"X-A"), hex(b"1")]], "body": hex(&body), "oracle": oracle_block(&hs, &body)}));
        for api in 0..2u8 {
            for status in 0..=65535u16 {
                let o = run(api, 0, HttpResult::Ok(mk_response(status, &hs, &body)));
                println!("{}", json!({"k": "sweep", "api": api, "status": status, "impl": o}));
            }
        }
    }

    // inputs given explicitly (corpus, shrinking candidates): run first, printed like generated cases
    if let Some(path) = args.get(4) {
        for line in std::fs::read_to_string(path).unwrap_or_default().lines() {
            let Ok(v) = serde_json::from_str::<Value>(line) else { continue };
            let api = v["api"].as_u64().unwrap_or(0) as u8;
            let exp = v["exp"].as_u64().unwrap_or(0) as u8;
            let r = &v["result"];
            let (result, oracle) = if r["t"] == "ok" {
                let (status, hs, body) = response_parts(r);
                let o = oracle_block(&hs, &body);
                (HttpResult::Ok(mk_response(status, &hs, &body)), o)
            } else {
                (HttpResult::Err(error_from_json(r)), json!({"mime": [], "decode": [], "json": {"err": ""}}))
            };
            let inp = in_result(&result);
            let o = run(api, exp, result);
            println!("{}", json!({"k": "case", "corpus": true, "name": v["name"], "api": api, "exp": exp, "malformed": false, "result": inp, "oracle": oracle, "impl": o}));
        }
    }

    let mut rng = Rng::new(seed);
    for i in 0..count {
        let api = rng.below(2) as u8;
        let exp = rng.below(3) as u8;
        let malformed = i % 5 == 4; // every fifth case comes from the malformed stream
        let (result, oracle) = if rng.coin(1, 8) {
            (HttpResult::Err(gen_error(&mut rng)), json!({"mime": [], "decode": [], "json": {"err": ""}}))
        } else {
            let status = gen_status(&mut rng);
            let hs = gen_headers(&mut rng, malformed);
            let body = gen_body(&mut rng);
            let o = oracle_block(&hs, &body);
            (HttpResult::Ok(mk_response(status, &hs, &body)), o)
        };
        let inp = in_result(&result);
        let o = run(api, exp, result);
        println!("{}", json!({"k": "case", "api": api, "exp": exp, "malformed": malformed, "result": inp, "oracle": oracle, "impl": o}));
    }
}
