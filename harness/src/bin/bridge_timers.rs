//! C13 correspondence driver for the legacy crux_time capability: the process-wide CLEARED_TIMER_IDS set.
//! An app sets timers (`Time::notify_after`), clears them (`Time::clear`) and the shell resolves the timer
//! requests, in long random sequences; after every core call the size of the set is read through the
//! `crux_time::verif_cleared_len` hook.  One JSON line per case:
//!   {"case","first_id","steps":[{"act":["set"]|["clear",id]|["respond",id],"cleared":n,"waiting":m}]}
//! `cleared` is relative to the size at the start of the case (the set is a process-wide static),
//! `waiting` = timers whose task has not finished, as the harness knows from the protocol.
//! usage: bridge_timers <seed> <cases> <max_steps>
use crux_core::macros::Effect;
use crux_core::render::Render;
use crux_core::{App, Command, Core, Request};
use crux_time::{Time, TimeRequest, TimeResponse, TimerId};
use serde::{Deserialize, Serialize};
use serde_json::json;
use std::collections::HashMap;
use vh::rng::Rng;

#[derive(Default)]
pub struct TimerApp;
#[derive(Serialize, Deserialize, Debug, Clone, PartialEq, Eq)]
pub enum Event { Set, Clear(usize), Fired(TimeResponse) }
#[derive(Default)]
pub struct Model { pub ids: Vec<usize>, pub fired: Vec<TimeResponse> }
#[derive(Serialize, Deserialize)]
pub struct ViewModel { pub ids: Vec<usize>, pub fired: usize }

#[derive(Effect)]
pub struct Capabilities { pub render: Render<Event>, pub time: Time<Event> }

impl App for TimerApp {
    type Event = Event;
    type Model = Model;
    type ViewModel = ViewModel;
    type Capabilities = Capabilities;
    type Effect = Effect;
    fn update(&self, event: Event, model: &mut Model, caps: &Capabilities) -> Command<Effect, Event> {
        match event {
            Event::Set => { let id = caps.time.notify_after(std::time::Duration::from_millis(10), Event::Fired); model.ids.push(id.0); }
            Event::Clear(id) => caps.time.clear(TimerId(id)),
            Event::Fired(r) => model.fired.push(r),
        }
        Command::done()
    }
    fn view(&self, model: &Model) -> ViewModel { ViewModel { ids: model.ids.clone(), fired: model.fired.len() } }
}

fn main() {
    let args: Vec<String> = std::env::args().collect();
    let seed: u64 = args.get(1).and_then(|s| s.parse().ok()).unwrap_or(1);
    let count: usize = args.get(2).and_then(|s| s.parse().ok()).unwrap_or(4);
    let max_steps: u64 = args.get(3).and_then(|s| s.parse().ok()).unwrap_or(40);
    let mut rng = Rng::new(seed);
    for case in 0..count {
        let core: Core<TimerApp> = Core::new();
        let base = crux_time::verif_cleared_len() as i64;
        let mut requests: HashMap<usize, Request<TimeRequest>> = HashMap::new();   // waiting timers: id -> request
        let mut all_ids: Vec<usize> = vec![];
        let mut steps = vec![];
        let mut first_id: Option<usize> = None;
        let mut absorb = |effs: Vec<Effect>, requests: &mut HashMap<usize, Request<TimeRequest>>, all_ids: &mut Vec<usize>, first: &mut Option<usize>| {
            for e in effs {
                if let Effect::Time(req) = e {
                    if let TimeRequest::NotifyAfter { id, .. } = req.operation.clone() {
                        if first.is_none() { *first = Some(id.0); }
                        all_ids.push(id.0); requests.insert(id.0, req);
                    }
                }
            }
        };
        // the first action is always a Set so that the first id of the case is known
        let n = rng.range((max_steps / 2).max(6), max_steps);
        for step in 0..n {
            let roll = rng.below(100);
            let act = if step == 0 || roll < 35 || all_ids.is_empty() {
                let effs = core.process_event(Event::Set);
                absorb(effs, &mut requests, &mut all_ids, &mut first_id);
                json!(["set"])
            } else if roll < 65 {
                // clear: a waiting timer (mostly), a finished one, or one cleared before
                let id = *rng.pick(&all_ids);
                let effs = core.process_event(Event::Clear(id));
                absorb(effs, &mut requests, &mut all_ids, &mut first_id);
                json!(["clear", id])
            } else {
                let waiting: Vec<usize> = { let mut w: Vec<usize> = requests.keys().copied().collect(); w.sort(); w };
                if waiting.is_empty() { continue; }
                let id = *rng.pick(&waiting);
                let mut req = requests.remove(&id).unwrap();
                let resp = if rng.coin(1, 2) { TimeResponse::DurationElapsed { id: TimerId(id) } } else { TimeResponse::Cleared { id: TimerId(id) } };
                let effs = core.resolve(&mut req, resp).expect("timer request resolves once");
                absorb(effs, &mut requests, &mut all_ids, &mut first_id);
                json!(["respond", id])
            };
            steps.push(json!({"act": act, "cleared": crux_time::verif_cleared_len() as i64 - base, "waiting": requests.len()}));
        }
        println!("{}", json!({"case": case, "first_id": first_id.unwrap_or(0), "steps": steps}));
    }
}
