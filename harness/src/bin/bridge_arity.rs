//! C02 correspondence driver: response routing and arity, through real `Command`s and real `Core` /
//! `Bridge` / `BridgeWithSerializer`, for the Command API and the legacy capability API.
//!
//! Hosts: core_new, core_old   typed `Core::resolve` (resolve, then the core runs)
//!        bin_new, bin_old, json_new, json_old   serialized path (`handle_response`)
//!        cmd                  a bare `Command` (typed `Request::resolve`, explicit poll / abort / drop)
//! Every task announces its serial with a `Mark` notification right before each request it issues, so a
//! request's issuing task is known although many requests carry equal operations.  One JSON line per case:
//!   {"case","host","auto_poll","steps":[{"act","res","events","new","tok","exec"}]}
//! tok = task futures of this case that still exist (drop counters on a value every task captures),
//! exec = live tasks of the hosting executor (hook): Core executor / Command
//! act    = ["run"] | ["resolve",seq,v] | ["ser",seq,v|-1] | ["ser_vacant"] | ["drop",seq] | ["poll"] | ["abort"] | ["dropall"]
//! res    = 0 ok | 2,3,4 error codes | 9 panic
//! events = continuation events [(serial, value)] of the step (ENDED = u64::MAX), stably sorted by serial
//! new    = requests that appeared in the step, in arrival order: [owner serial, kind, limit(-1 = none)]
//! usage: bridge_arity <seed> <cases> [max_steps] [min_steps]
#[path = "bridge_common/mod.rs"]
mod common;
use common::*;
use crux_core::bridge::{Bridge, BridgeWithSerializer, Request as BridgeRequest};
use crux_core::{Command, Core};
use serde::de::DeserializeOwned;
use serde_json::{json, Value};
use std::collections::HashMap;
use std::panic::{catch_unwind, AssertUnwindSafe};
use vh::rng::Rng;

/// values that make the app do nothing further when they arrive
fn quiet_value(rng: &mut Rng) -> u64 { let v = rng.below(1000); v - (v % 8) + *rng.pick(&[0u64, 4, 5, 6, 7]) }

fn gen_act(rng: &mut Rng) -> Act {
    let label = rng.below(2) as u8;
    match rng.below(10) {
        0 => Act::Render,
        1 => Act::Note(label),
        2 | 3 | 4 => Act::Get { label, chain: if rng.coin(1, 3) { rng.range(1, 2) as u8 } else { 0 }, mark: true },
        5 | 6 => Act::Fetch { label, mark: true },
        _ => Act::Sub { label, take: *rng.pick(&[1u8, 2, 3, 255, 255]), mark: true },
    }
}
fn gen_script(rng: &mut Rng, max: u64) -> Vec<Act> { (0..rng.range(1, max)).map(|_| gen_act(rng)).collect() }

/// bookkeeping shared by all hosts: the requests seen so far (arrival order) and the serial -> act map
#[derive(Default)]
struct Book {
    variants: Vec<u64>,
    owners: Vec<i64>,
    answered: Vec<u32>,
    dropped: Vec<bool>,
    acts: HashMap<u32, Act>,   // serial -> the act its task runs
    next_serial: u32,
    pending_mark: Option<u32>,
}
impl Book {
    fn run(&mut self, script: &[Act]) { for a in script { self.acts.insert(self.next_serial, a.clone()); self.next_serial += 1; } }
    /// note one effect (variant, payload); returns its "new" record
    fn note(&mut self, variant: u64, payload: u64) -> Value {
        let kind = kind_of_variant(variant);
        let (owner, limit): (i64, i64) = if variant == V_MARK { self.pending_mark = Some(payload as u32); (payload as i64, -1) }
            else if kind != 0 {
                let o = self.pending_mark.take().map(|s| s as i64).unwrap_or(-1);
                let act = if o >= 0 { self.acts.get(&(o as u32)) } else { None };
                let lim: i64 = if kind == 1 { 1 } else {
                    match act { Some(Act::Sub { take, .. }) if *take != 255 => *take as i64, _ => -1 }
                };
                (o, lim)
            } else { (0, -1) };
        self.variants.push(variant); self.owners.push(owner); self.answered.push(0); self.dropped.push(false);
        json!([owner.max(0), kind, limit])
    }
    fn resolvable(&self) -> Vec<usize> {
        (0..self.variants.len()).filter(|&k| !self.dropped[k] && kind_of_variant(self.variants[k]) != 0
            && !(kind_of_variant(self.variants[k]) == 1 && self.answered[k] > 0)).collect()
    }
    fn all(&self) -> Vec<usize> { (0..self.variants.len()).filter(|&k| !self.dropped[k]).collect() }
}

fn ev_pair(e: &Event) -> Option<(u32, u64)> {
    match e {
        Event::Got { serial, val } | Event::Item { serial, val } => Some((*serial, *val)),
        Event::Text { serial, val } => Some((*serial, text_val(val))),
        Event::Ended { serial } => Some((*serial, ENDED_MARK)),
        Event::Run(_) => None,
    }
}
fn sorted_events(mut evs: Vec<(u32, u64)>) -> Value {
    evs.sort_by_key(|e| e.0); // stable
    json!(evs.iter().map(|(s, v)| json!([s, v])).collect::<Vec<_>>())
}
/// new log entries of the app between two views
fn view_diff(before: &ViewModel, after: &ViewModel) -> Vec<(u32, u64)> {
    let n = (after.count - before.count) as usize;
    assert!(n <= after.tail.len(), "more than TAIL log entries in one step");
    after.tail[after.tail.len() - n..].to_vec()
}

// ------------------------------------------------------------------ typed Core host
fn run_core<A: TwinApp>(rng: &mut Rng, case: usize, max_steps: u64, host: &str) -> Value
where A::Capabilities: crux_core::WithContext<Event, A::Effect> {
    enter_sys(3);
    let tok0 = tokens_live(3);
    let core: Core<A> = Core::new();
    let mut book = Book::default();
    let mut held: Vec<Option<Held>> = vec![];
    let mut steps: Vec<Value> = vec![];
    let note_all = |effs: Vec<A::Effect>, book: &mut Book, held: &mut Vec<Option<Held>>| -> Vec<Value> {
        effs.into_iter().map(|e| { let h = A::hold(e); let r = book.note(h.variant(), h.payload()); held.push(Some(h)); r }).collect()
    };
    for step in 0..rng.range(min_steps().min(max_steps), max_steps) {
        let before = core.view();
        let live = book.resolvable();
        let roll = rng.below(100);
        if step == 0 || roll < 15 || (live.is_empty() && roll < 60) {
            let script = gen_script(rng, 5);
            book.run(&script);
            let effs = core.process_event(Event::Run(script));
            let new = note_all(effs, &mut book, &mut held);
            steps.push(json!({"act": ["run"], "res": 0, "events": sorted_events(view_diff(&before, &core.view())), "new": new}));
            stamp(&mut steps, tokens_live(3) - tok0, core.verif_executor_tasks() as i64);
        } else if roll < 22 && !live.is_empty() {
            let k = *rng.pick(&live);
            held[k] = None; book.dropped[k] = true;
            // the task notices at its next poll, i.e. with the next core call; give it one (an empty event)
            let effs = core.process_event(Event::Run(vec![]));
            let new = note_all(effs, &mut book, &mut held);
            steps.push(json!({"act": ["drop", k], "res": 0, "events": sorted_events(view_diff(&before, &core.view())), "new": new}));
            stamp(&mut steps, tokens_live(3) - tok0, core.verif_executor_tasks() as i64);
        } else {
            // any request the shell still holds: outstanding (mostly), already answered, notifications
            let pool = if roll < 80 && !live.is_empty() { live } else { book.all() };
            if pool.is_empty() { continue; }
            let k = *rng.pick(&pool);
            let v = quiet_value(rng);
            book.answered[k] += 1;
            let r = catch_unwind(AssertUnwindSafe(|| typed_resolve::<A>(&core, held[k].as_mut().unwrap(), v)));
            let (res, new) = match r {
                Ok(Ok(effs)) => (0, note_all(effs, &mut book, &mut held)),
                Ok(Err(e)) => (e, vec![]),
                Err(_) => (9, vec![]),
            };
            steps.push(json!({"act": ["resolve", k, v], "res": res, "events": sorted_events(view_diff(&before, &core.view())), "new": new}));
            stamp(&mut steps, tokens_live(3) - tok0, core.verif_executor_tasks() as i64);
        }
    }
    json!({"case": case, "host": host, "auto_poll": true, "steps": steps})
}

/// add the release observations to the step just recorded
fn stamp(steps: &mut Vec<Value>, tok: i64, exec: i64) {
    if let Some(Value::Object(m)) = steps.last_mut() { m.insert("tok".into(), json!(tok)); m.insert("exec".into(), json!(exec)); }
}

// ------------------------------------------------------------------ serialized host
fn run_bridge<A: TwinApp>(rng: &mut Rng, case: usize, max_steps: u64, host: &str, codec: Codec) -> Value
where A::Capabilities: crux_core::WithContext<Event, A::Effect>,
      <A::Effect as crux_core::Effect>::Ffi: DeserializeOwned {
    enter_sys(3);
    let tok0 = tokens_live(3);
    let bin; let js;
    let face: &dyn Face = match codec {
        Codec::Bincode => { bin = BinFace::<A>(Bridge::new(Core::new())); &bin }
        Codec::Json => { js = JsonFace::<A>(BridgeWithSerializer::new(Core::new())); &js }
    };
    let mut book = Book::default();
    let mut ids: Vec<u32> = vec![];
    let mut owner: HashMap<u32, usize> = HashMap::new();
    let mut steps: Vec<Value> = vec![];
    let view = |face: &dyn Face| -> ViewModel { match guarded(|| face.view()) { BOut::Ok(b) => dec::<ViewModel>(codec, &b).unwrap(), _ => panic!("view failed") } };
    let mut absorb = |out: BOut, book: &mut Book, ids: &mut Vec<u32>, owner: &mut HashMap<u32, usize>| -> (i64, Vec<Value>) {
        match out {
            BOut::Ok(bytes) => {
                let reqs = dec::<Vec<BridgeRequest<<A::Effect as crux_core::Effect>::Ffi>>>(codec, &bytes).expect("undecodable requests");
                let new = reqs.iter().map(|r| { let (va, pa) = A::ffi(&r.effect); owner.insert(r.id.0, ids.len()); ids.push(r.id.0); book.note(va, pa) }).collect();
                (0, new)
            }
            BOut::Err(e) => (e, vec![]),
            BOut::Panic => (9, vec![]),
        }
    };
    for step in 0..rng.range(min_steps().min(max_steps), max_steps) {
        let before = view(face);
        let live = book.resolvable();
        let roll = rng.below(100);
        if step == 0 || roll < 15 || (live.is_empty() && roll < 60) {
            let script = gen_script(rng, 5);
            book.run(&script);
            let out = guarded(|| face.event(&enc(codec, &Event::Run(script.clone()))));
            let (res, new) = absorb(out, &mut book, &mut ids, &mut owner);
            steps.push(json!({"act": ["run"], "res": res, "events": sorted_events(view_diff(&before, &view(face))), "new": new}));
            stamp(&mut steps, tokens_live(3) - tok0, face.exec() as i64);
        } else {
            let pool = if roll < 75 && !live.is_empty() { live } else { book.all() };
            if pool.is_empty() { continue; }
            let k0 = *rng.pick(&pool);
            let id = ids[k0];
            // the request registered under this id now (the id may have been reissued), per the real registry
            let registered = face.snap().iter().any(|(i, _)| *i == id);
            let target = if registered { owner.get(&id).copied() } else { None };
            let v = if rng.coin(1, 8) { None } else { Some(quiet_value(rng)) };
            let var = target.map(|k| book.variants[k]).unwrap_or(V_GET);
            let b = body(codec, var, v, rng);
            let val = body_value(codec, var, &b);
            let out = guarded(|| face.response(id, &b));
            let act = match target {
                Some(k) => { book.answered[k] += 1;
                             json!(["ser", k, match (kind_of_variant(var), val) { (0, _) => json!(0), (_, Some(v)) => json!(v), (_, None) => json!(-1) }]) }
                None => json!(["ser_vacant"]),
            };
            let (res, new) = absorb(out, &mut book, &mut ids, &mut owner);
            steps.push(json!({"act": act, "res": res, "events": sorted_events(view_diff(&before, &view(face))), "new": new}));
            stamp(&mut steps, tokens_live(3) - tok0, face.exec() as i64);
        }
    }
    json!({"case": case, "host": host, "auto_poll": true, "steps": steps})
}

// ------------------------------------------------------------------ bare Command host
fn run_cmd(rng: &mut Rng, case: usize, max_steps: u64) -> Value {
    use new_app::{act_command, Effect, NewApp};
    enter_sys(3);
    let tok0 = tokens_live(3);
    let mut book = Book::default();
    let script = gen_script(rng, 7);
    book.run(&script);
    let mut cmd: Option<Command<Effect, Event>> =
        Some(Command::all(script.iter().cloned().enumerate().map(|(k, a)| act_command(a, k as u32))));
    let handle = cmd.as_ref().unwrap().abort_handle();
    let mut held: Vec<Option<Held>> = vec![];
    let mut steps: Vec<Value> = vec![];
    let mut poll = |cmd: &mut Option<Command<Effect, Event>>, book: &mut Book, held: &mut Vec<Option<Held>>| -> (Value, Vec<Value>) {
        match cmd.as_mut() {
            None => (json!([]), vec![]),
            Some(c) => {
                let mut new = vec![]; let mut evs = vec![];
                // effects() and events() both run the tasks until settled; loop until nothing more comes out
                loop {
                    let effs: Vec<Effect> = c.effects().collect();
                    let es: Vec<Event> = c.events().collect();
                    if effs.is_empty() && es.is_empty() { break; }
                    for e in effs { let h = <NewApp as TwinApp>::hold(e); new.push(book.note(h.variant(), h.payload())); held.push(Some(h)); }
                    evs.extend(es.iter().filter_map(ev_pair));
                }
                (sorted_events(evs), new)
            }
        }
    };
    let (ev0, new0) = poll(&mut cmd, &mut book, &mut held);
    steps.push(json!({"act": ["poll"], "res": 0, "events": ev0, "new": new0}));
            stamp(&mut steps, tokens_live(3) - tok0, cmd.as_ref().map(|c| c.verif_live_tasks() as i64).unwrap_or(0));
    for _ in 0..rng.range(min_steps().min(max_steps), max_steps) {
        let live = book.resolvable();
        let roll = rng.below(100);
        if roll < 45 {
            let pool = if roll < 35 && !live.is_empty() { live } else { book.all() };
            if pool.is_empty() { continue; }
            let k = *rng.pick(&pool);
            let v = quiet_value(rng);
            book.answered[k] += 1;
            let res = match held[k].as_mut().unwrap() {
                Held::Render(r) => r.resolve(()), Held::Note(r) => r.resolve(()), Held::Mark(r) => r.resolve(()),
                Held::Get(r) => r.resolve(v), Held::Fetch(r) => r.resolve(v.to_string()), Held::Sub(r) => r.resolve(v),
            };
            let code = match res { Ok(()) => 0, Err(crux_core::ResolveError::Never) => 3, Err(crux_core::ResolveError::FinishedMany) => 4 };
            steps.push(json!({"act": ["resolve", k, v], "res": code, "events": [], "new": []}));
            stamp(&mut steps, tokens_live(3) - tok0, cmd.as_ref().map(|c| c.verif_live_tasks() as i64).unwrap_or(0));
        } else if roll < 80 {
            let (ev, new) = poll(&mut cmd, &mut book, &mut held);
            steps.push(json!({"act": ["poll"], "res": 0, "events": ev, "new": new}));
            stamp(&mut steps, tokens_live(3) - tok0, cmd.as_ref().map(|c| c.verif_live_tasks() as i64).unwrap_or(0));
        } else if roll < 88 && !live.is_empty() {
            let k = *rng.pick(&live);
            held[k] = None; book.dropped[k] = true;
            steps.push(json!({"act": ["drop", k], "res": 0, "events": [], "new": []}));
            stamp(&mut steps, tokens_live(3) - tok0, cmd.as_ref().map(|c| c.verif_live_tasks() as i64).unwrap_or(0));
        } else if roll < 94 {
            handle.abort();
            steps.push(json!({"act": ["abort"], "res": 0, "events": [], "new": []}));
            stamp(&mut steps, tokens_live(3) - tok0, cmd.as_ref().map(|c| c.verif_live_tasks() as i64).unwrap_or(0));
        } else if cmd.is_some() {
            cmd = None;
            steps.push(json!({"act": ["dropall"], "res": 0, "events": [], "new": []}));
            stamp(&mut steps, tokens_live(3) - tok0, cmd.as_ref().map(|c| c.verif_live_tasks() as i64).unwrap_or(0));
        }
    }
    json!({"case": case, "host": "cmd", "auto_poll": false, "steps": steps})
}

fn min_steps() -> u64 { std::env::args().nth(4).and_then(|s| s.parse().ok()).unwrap_or(4) }

fn main() {
    let args: Vec<String> = std::env::args().collect();
    let seed: u64 = args.get(1).and_then(|s| s.parse().ok()).unwrap_or(1);
    let count: usize = args.get(2).and_then(|s| s.parse().ok()).unwrap_or(14);
    let max_steps: u64 = args.get(3).and_then(|s| s.parse().ok()).unwrap_or(30);
    if std::env::var("VERIF_PANIC_TRACE").is_err() { std::panic::set_hook(Box::new(|_| {})); }
    let mut rng = Rng::new(seed);
    for case in 0..count {
        let mut r = Rng(rng.next());
        let line = catch_unwind(AssertUnwindSafe(|| match case % 7 {
            0 => run_core::<new_app::NewApp>(&mut r, case, max_steps, "core_new"),
            1 => run_core::<old_app::OldApp>(&mut r, case, max_steps, "core_old"),
            2 => run_bridge::<new_app::NewApp>(&mut r, case, max_steps, "bin_new", Codec::Bincode),
            3 => run_bridge::<old_app::OldApp>(&mut r, case, max_steps, "bin_old", Codec::Bincode),
            4 => run_bridge::<new_app::NewApp>(&mut r, case, max_steps, "json_new", Codec::Json),
            5 => run_bridge::<old_app::OldApp>(&mut r, case, max_steps, "json_old", Codec::Json),
            _ => run_cmd(&mut r, case, max_steps),
        }));
        match line {
            Ok(l) => println!("{}", l),
            Err(_) => println!("{}", json!({"case": case, "harness_panic": true})),
        }
    }
}
