//! C09 under two or three shell threads: responses and events delivered to ONE bridge at the same
//! time must have the outcome of SOME sequential order of the same calls (results per call, what the
//! app received and in which order, the ids handed out, the stream still alive afterwards).
//!
//! The Coq model of the bridge (coq/Bridge/Bridge.v) treats `handle_response` / `process_event` as
//! atomic steps on the registry - in the code that is the registry mutex held across `resume`.  This
//! harness validates exactly that assumption on the real code: a value whose deserialization can be
//! paused (a "large body") opens a window inside `ResolveRegistry::resume`; the other calls are made
//! while the first sits there.  In the unchanged code they block on the mutex until the pause ends.
//! The reference outcomes are produced by the implementation itself, run sequentially (no pause) in
//! every order of the concurrent calls - those sequential runs are what C09's twin correspondence
//! compares with the model.  One JSON line per scenario and codec.
use crux_core::bridge::{Bridge, BridgeError, BridgeWithSerializer};
use crux_core::macros::effect;
use crux_core::{Command, Core};
use serde::{Deserialize, Deserializer, Serialize};
use std::sync::mpsc::{channel, Receiver, Sender};
use std::sync::{Arc, Mutex};
use std::time::Duration;
use bincode::Options as _;

mod gate {
    use super::*;
    pub const HOLD: Duration = Duration::from_millis(350);
    pub struct Gate { pub value: u32, pub entered: Sender<()>, pub release: Receiver<()> }
    pub static GATES: Mutex<Vec<Gate>> = Mutex::new(Vec::new());
    pub struct Handle { pub entered: Receiver<()>, pub release: Sender<()> }
    pub fn install(value: u32) -> Handle {
        let (etx, erx) = channel(); let (rtx, rrx) = channel();
        GATES.lock().unwrap().push(Gate { value, entered: etx, release: rrx });
        Handle { entered: erx, release: rtx }
    }
    pub fn clear() { GATES.lock().unwrap().clear(); }
    pub fn passing(value: u32) {
        let g = { let mut gs = GATES.lock().unwrap(); gs.iter().position(|g| g.value == value).map(|i| gs.remove(i)) };
        if let Some(g) = g { let _ = g.entered.send(()); let _ = g.release.recv_timeout(HOLD); }
    }
}

#[derive(Serialize, Deserialize, Clone, PartialEq, Debug)] pub struct Watch;
#[derive(Serialize, Deserialize, Clone, PartialEq, Debug)] pub struct Fetch;
#[derive(Serialize, Clone, PartialEq, Debug)] pub struct Value(pub u32);
impl<'de> Deserialize<'de> for Value {
    fn deserialize<D: Deserializer<'de>>(d: D) -> Result<Self, D::Error> { let v = u32::deserialize(d)?; gate::passing(v); Ok(Value(v)) }
}
impl crux_core::capability::Operation for Watch { type Output = Value; }
impl crux_core::capability::Operation for Fetch { type Output = Value; }
#[effect]
pub enum Effect { Watch(Watch), Fetch(Fetch) }
#[derive(Serialize, Deserialize, Debug)]
pub enum Event { Start, Fetch, #[serde(skip)] Tick(Value), #[serde(skip)] Got(Value) }
#[derive(Default)] pub struct Model { ticks: Vec<u32>, got: Vec<u32> }
#[derive(Serialize, Deserialize, Debug, PartialEq, Eq, Default, Clone)] pub struct ViewModel { pub ticks: Vec<u32>, pub got: Vec<u32> }
#[derive(Default)] pub struct App;
impl crux_core::App for App {
    type Event = Event; type Model = Model; type ViewModel = ViewModel; type Capabilities = (); type Effect = Effect;
    fn update(&self, event: Event, model: &mut Model, _caps: &()) -> Command<Effect, Event> {
        match event {
            Event::Start => Command::stream_from_shell(Watch).then_send(Event::Tick),
            Event::Fetch => Command::request_from_shell(Fetch).then_send(Event::Got),
            Event::Tick(v) => { model.ticks.push(v.0); Command::done() }
            Event::Got(v) => { model.got.push(v.0); Command::done() }
        }
    }
    fn view(&self, m: &Model) -> ViewModel { ViewModel { ticks: m.ticks.clone(), got: m.got.clone() } }
}

#[derive(Clone, Copy, PartialEq, Debug)] enum Codec { Bin, Json }
fn bopts() -> impl bincode::Options + Copy { bincode::DefaultOptions::new().with_fixint_encoding().allow_trailing_bytes() }
fn enc<T: Serialize>(c: Codec, v: &T) -> Vec<u8> { match c { Codec::Bin => bopts().serialize(v).unwrap(), Codec::Json => serde_json::to_vec(v).unwrap() } }
enum B { Bin(Bridge<App>), Json(BridgeWithSerializer<App>) }
impl B {
    fn new(c: Codec) -> B { match c { Codec::Bin => B::Bin(Bridge::new(Core::new())), Codec::Json => B::Json(BridgeWithSerializer::new(Core::new())) } }
    fn event(&self, b: &[u8]) -> Result<Vec<u8>, BridgeError> {
        match self { B::Bin(x) => x.process_event(b),
            B::Json(x) => { let mut out = vec![]; let mut de = serde_json::Deserializer::from_slice(b); x.process_event(&mut de, &mut serde_json::Serializer::new(&mut out))?; Ok(out) } }
    }
    fn response(&self, id: u32, b: &[u8]) -> Result<Vec<u8>, BridgeError> {
        match self { B::Bin(x) => x.handle_response(id, b),
            B::Json(x) => { let mut out = vec![]; let mut de = serde_json::Deserializer::from_slice(b); x.handle_response(id, &mut de, &mut serde_json::Serializer::new(&mut out))?; Ok(out) } }
    }
    fn view(&self) -> Vec<u8> {
        match self { B::Bin(x) => x.view().unwrap(), B::Json(x) => { let mut out = vec![]; x.view(&mut serde_json::Serializer::new(&mut out)).unwrap(); out } }
    }
}
/// ids of the requests in an encoded Vec<Request<EffectFfi>> (id first in both codecs' structs)
fn req_ids(c: Codec, bytes: &[u8]) -> Vec<u32> {
    match c {
        Codec::Json => { let v: serde_json::Value = serde_json::from_slice(bytes).unwrap_or(serde_json::Value::Null);
            v.as_array().map(|a| a.iter().filter_map(|r| r.get("id").and_then(|i| i.as_u64()).map(|i| i as u32)).collect()).unwrap_or_default() }
        Codec::Bin => {
            // u64 len, then per request: u32 id, u32 variant (both effects have unit payloads)
            let mut ids = vec![]; if bytes.len() < 8 { return ids; }
            let n = u64::from_le_bytes(bytes[0..8].try_into().unwrap()) as usize; let mut o = 8;
            for _ in 0..n { if o + 8 > bytes.len() { break; } ids.push(u32::from_le_bytes(bytes[o..o + 4].try_into().unwrap())); o += 8; }
            ids }
    }
}
fn view_of(c: Codec, b: &B) -> ViewModel {
    let bytes = b.view();
    match c { Codec::Bin => bopts().deserialize(&bytes).unwrap(), Codec::Json => serde_json::from_slice(&bytes).unwrap() }
}

/// one call of a shell thread
#[derive(Clone, Debug)]
enum Call { Resp { to: usize, v: u32 }, Fetch }   // `to`: 0 = the stream, 1 = the first fetch, 2 = the fetch issued by a concurrent Call::Fetch
#[derive(Clone, Debug, PartialEq, Eq, Serialize)]
struct Outcome { results: Vec<(usize, i64, Vec<u32>)>, ticks: Vec<u32>, got: Vec<u32>, probe: i64, after_probe_ticks: Vec<u32>, late_fetch: i64, late_got: Vec<u32> }

fn code(r: &Result<Vec<u8>, BridgeError>) -> i64 {
    match r { Ok(_) => 0, Err(BridgeError::ProcessResponse(crux_core::ResolveError::Never)) => 1,
              Err(BridgeError::ProcessResponse(crux_core::ResolveError::FinishedMany)) => 2, Err(_) => 3 }
}
struct Sc { name: &'static str, with_fetch_first: bool, calls: Vec<Call>, paused: u32 }

struct Ids { stream: u32, fetch1: Option<u32>, fetch2: Mutex<Option<u32>> }
fn setup(c: Codec, sc: &Sc) -> (Arc<B>, Arc<Ids>) {
    let b = B::new(c);
    let out = b.event(&enc(c, &Event::Start)).expect("start"); let stream = req_ids(c, &out)[0];
    let fetch1 = if sc.with_fetch_first { let out = b.event(&enc(c, &Event::Fetch)).expect("fetch"); Some(req_ids(c, &out)[0]) } else { None };
    (Arc::new(b), Arc::new(Ids { stream, fetch1, fetch2: Mutex::new(None) }))
}
fn do_call(c: Codec, b: &B, ids: &Ids, call: &Call) -> (i64, Vec<u32>) {
    match call {
        Call::Fetch => { let r = b.event(&enc(c, &Event::Fetch)); let new = r.as_ref().map(|o| req_ids(c, o)).unwrap_or_default();
                         if let Some(i) = new.first() { *ids.fetch2.lock().unwrap() = Some(*i); } (code(&r), new) }
        Call::Resp { to, v } => {
            let id = match to { 0 => Some(ids.stream), 1 => ids.fetch1, _ => *ids.fetch2.lock().unwrap() };
            match id { None => (9, vec![]), Some(id) => { let r = b.response(id, &enc(c, v)); let new = r.as_ref().map(|o| req_ids(c, o)).unwrap_or_default(); (code(&r), new) } }
        }
    }
}
fn epilogue(c: Codec, b: &B, ids: &Ids, results: Vec<(usize, i64, Vec<u32>)>) -> Outcome {
    let v = view_of(c, b);
    // the stream must still take a value, and a fetch issued concurrently must still be answerable
    let probe = code(&b.response(ids.stream, &enc(c, &9000u32)));
    let after = view_of(c, b).ticks;
    let (late_fetch, late_got) = match *ids.fetch2.lock().unwrap() { Some(id) => { let r = code(&b.response(id, &enc(c, &2001u32))); (r, view_of(c, b).got) } None => (-1, vec![]) };
    Outcome { results, ticks: v.ticks, got: v.got, probe, after_probe_ticks: after, late_fetch, late_got }
}
fn sequential(c: Codec, sc: &Sc, order: &[usize]) -> Outcome {
    gate::clear();
    let (b, ids) = setup(c, sc);
    let mut results = vec![];
    for &i in order { let (r, new) = do_call(c, &b, &ids, &sc.calls[i]); results.push((i, r, new)); }
    results.sort();
    epilogue(c, &b, &ids, results)
}
fn concurrent(c: Codec, sc: &Sc) -> (Outcome, bool) {
    gate::clear();
    let (b, ids) = setup(c, sc);
    let h = gate::install(sc.paused);
    let results: Arc<Mutex<Vec<(usize, i64, Vec<u32>)>>> = Arc::new(Mutex::new(vec![]));
    let mut threads = vec![];
    // call 0 carries the paused value: start it, wait until it sits inside deserialization, then start the others
    let spawn = |i: usize| { let (b, ids, res, call) = (b.clone(), ids.clone(), results.clone(), sc.calls[i].clone());
        std::thread::spawn(move || { let (r, new) = do_call(c, &b, &ids, &call); res.lock().unwrap().push((i, r, new)); }) };
    threads.push(spawn(0));
    let entered = h.entered.recv_timeout(Duration::from_secs(10)).is_ok();
    for i in 1..sc.calls.len() { threads.push(spawn(i)); std::thread::sleep(Duration::from_millis(40)); }
    // give the others a chance to run inside the window (in the unchanged code they are blocked on the registry mutex)
    std::thread::sleep(Duration::from_millis(120));
    let overlapped = results.lock().unwrap().len() > 0;
    let _ = h.release.send(());
    for t in threads { let _ = t.join(); }
    let mut rs = results.lock().unwrap().clone(); rs.sort();
    let _ = entered;
    (epilogue(c, &b, &ids, rs), overlapped)
}
fn perms(n: usize) -> Vec<Vec<usize>> {
    fn go(cur: &mut Vec<usize>, used: &mut Vec<bool>, n: usize, out: &mut Vec<Vec<usize>>) {
        if cur.len() == n { out.push(cur.clone()); return; }
        for i in 0..n { if !used[i] { used[i] = true; cur.push(i); go(cur, used, n, out); cur.pop(); used[i] = false; } }
    }
    let mut out = vec![]; go(&mut vec![], &mut vec![false; n], n, &mut out); out
}

fn main() {
    let scs = vec![
        Sc { name: "two_responses_one_stream", with_fetch_first: false, paused: 77, calls: vec![Call::Resp { to: 0, v: 77 }, Call::Resp { to: 0, v: 5 }] },
        Sc { name: "response_vs_new_request", with_fetch_first: false, paused: 77, calls: vec![Call::Resp { to: 0, v: 77 }, Call::Fetch] },
        Sc { name: "two_responses_and_new_request", with_fetch_first: false, paused: 77, calls: vec![Call::Resp { to: 0, v: 77 }, Call::Resp { to: 0, v: 5 }, Call::Fetch] },
        Sc { name: "two_responses_one_request", with_fetch_first: true, paused: 77, calls: vec![Call::Resp { to: 1, v: 77 }, Call::Resp { to: 1, v: 5 }] },
        Sc { name: "one_shot_response_vs_stream_response_and_new_request", with_fetch_first: true, paused: 77, calls: vec![Call::Resp { to: 1, v: 77 }, Call::Resp { to: 0, v: 6 }, Call::Fetch] },
    ];
    let reps: usize = std::env::args().nth(1).and_then(|s| s.parse().ok()).unwrap_or(1);
    for c in [Codec::Bin, Codec::Json] {
        for sc in &scs {
            let seqs: Vec<Outcome> = perms(sc.calls.len()).iter().map(|o| sequential(c, sc, o)).collect();
            for rep in 0..reps {
                let r = std::panic::catch_unwind(std::panic::AssertUnwindSafe(|| concurrent(c, sc)));
                match r {
                    Ok((conc, overlapped)) => {
                        let ok = seqs.iter().any(|s| *s == conc);
                        println!("{{\"scenario\":\"{}\",\"codec\":\"{:?}\",\"rep\":{},\"ok\":{},\"overlapped\":{},\"concurrent\":{},\"sequential\":{}}}",
                                 sc.name, c, rep, ok, overlapped, serde_json::to_string(&conc).unwrap(), serde_json::to_string(&seqs).unwrap());
                    }
                    Err(_) => println!("{{\"scenario\":\"{}\",\"codec\":\"{:?}\",\"rep\":{},\"ok\":false,\"panic\":true}}", sc.name, c, rep),
                }
            }
        }
    }
}
