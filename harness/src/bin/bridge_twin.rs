//! C09 correspondence driver: twin runs of the typed `Core`, `Bridge` (bincode) and `BridgeWithSerializer`
//! (serde_json) on the same generated history of events and out-of-order / repeated / late / malformed
//! responses.  Prints one JSON object per (history, codec):
//!   {"case","app","codec","init_view",[steps]}  step = {"in","tin","tout","bout","tview","bview","snap"}
//! (the observation type `ocall` of coq/Bridge/Twin.v).  All randomness derives from the seed.
//!
//! usage: bridge_twin <seed> <histories> [max_steps] [min_steps]
#[path = "bridge_common/mod.rs"]
mod common;
use common::*;
use crux_core::bridge::{Bridge, BridgeWithSerializer, Request as BridgeRequest};
use crux_core::Core;
use serde::de::DeserializeOwned;
use serde_json::{json, Value};
use std::collections::HashMap;
use std::panic::{catch_unwind, AssertUnwindSafe};
use vh::rng::Rng;

fn gen_act(rng: &mut Rng) -> Act {
    let label = rng.below(3) as u8; // few labels: equal operations are common
    let mark = rng.coin(1, 3);
    match rng.below(10) {
        0 => Act::Render,
        1 => Act::Note(label),
        2 | 3 | 4 => Act::Get { label, chain: if rng.coin(1, 4) { rng.range(1, 2) as u8 } else { 0 }, mark },
        5 | 6 => Act::Fetch { label, mark },
        _ => Act::Sub { label, take: *rng.pick(&[1u8, 2, 3, 255, 255]), mark },
    }
}
fn gen_script(rng: &mut Rng) -> Vec<Act> {
    let n = match rng.below(10) { 0 => 0, 1..=4 => rng.range(1, 2), 5..=8 => rng.range(3, 5), _ => rng.range(6, 9) };
    (0..n).map(|_| gen_act(rng)).collect()
}

struct Sys<'a> {
    codec: Codec,
    face: &'a dyn Face,
    issued: Vec<u32>,              // id given to the request with arrival number k
    owner: HashMap<u32, usize>,    // latest arrival number issued under id
    steps: Vec<Value>,
    dead: bool,
    sys: usize,
    tok0: i64,
}

fn run_history<A: TwinApp>(rng: &mut Rng, case: usize, max_steps: u64, min_steps: u64) -> Vec<Value>
where A::Capabilities: crux_core::WithContext<Event, A::Effect>,
      <A::Effect as crux_core::Effect>::Ffi: DeserializeOwned {
    let typed: Core<A> = Core::new();
    let bin = BinFace::<A>(Bridge::new(Core::new()));
    let js = JsonFace::<A>(BridgeWithSerializer::new(Core::new()));
    let mut sys = vec![
        Sys { codec: Codec::Bincode, face: &bin, issued: vec![], owner: HashMap::new(), steps: vec![], dead: false, sys: 1, tok0: tokens_live(1) },
        Sys { codec: Codec::Json, face: &js, issued: vec![], owner: HashMap::new(), steps: vec![], dead: false, sys: 2, tok0: tokens_live(2) },
    ];
    let mut held: Vec<Option<Held>> = vec![];       // typed shell: request with arrival number k
    let mut variants: Vec<u64> = vec![];            // variant of request k
    let mut answered: Vec<u32> = vec![];            // how many responses were sent to request k
    let init_view = typed.view().flat();
    let ttok0 = tokens_live(0);
    let nsteps = rng.range(min_steps.min(max_steps), max_steps);
    let mut n_events = 0u64;

    for step in 0..nsteps {
        // ---------------- choose the step (abstractly, by arrival number) ----------------
        let live: Vec<usize> = (0..held.len()).filter(|&k| held[k].is_some() && kind_of_variant(variants[k]) != 0
            && !(kind_of_variant(variants[k]) == 1 && answered[k] > 0)).collect();
        let nevers: Vec<usize> = (0..held.len()).filter(|&k| kind_of_variant(variants[k]) == 0).collect();
        let done: Vec<usize> = (0..held.len()).filter(|&k| answered[k] > 0).collect();
        let roll = rng.below(100);
        // (kind, target arrival number or raw id, value)
        enum Plan { Ev(Vec<Act>), BadEv, Resp(usize, Option<u64>), Raw(u32, Option<u64>) }
        let plan = if step == 0 || (live.is_empty() && roll < 70) || roll < 22 { Plan::Ev(gen_script(rng)) }
            else if roll < 25 { Plan::BadEv }
            else if roll < 70 && !live.is_empty() { Plan::Resp(*rng.pick(&live), Some(rng.below(64))) }
            else if roll < 78 && !live.is_empty() { Plan::Resp(*rng.pick(&live), None) }
            else if roll < 84 && !nevers.is_empty() { Plan::Resp(*rng.pick(&nevers), if rng.coin(1, 2) { Some(0) } else { None }) }
            else if roll < 93 && !done.is_empty() { Plan::Resp(*rng.pick(&done), if rng.coin(3, 4) { Some(rng.below(64)) } else { None }) }
            else if roll < 97 { Plan::Raw(held.len() as u32 + rng.below(5) as u32, Some(rng.below(64))) }
            else { Plan::Raw(*rng.pick(&[u32::MAX, 1 << 31, 65_536, 1024]), None) };

        // ---------------- typed twin + both bridges ----------------
        match plan {
            Plan::Ev(script) => {
                let ev = Event::Run(script);
                let ev_id = n_events; n_events += 1;
                enter_sys(0);
                let effs = typed.process_event(ev.clone());
                let tout = note_effects::<A>(effs, &mut held, &mut variants, &mut answered);
                let tview = typed.view().flat();
                for s in sys.iter_mut() {
                    enter_sys(s.sys);
                    let out = guarded(|| s.face.event(&enc(s.codec, &ev)));
                    record::<A>(s, json!(["ev", 1, ev_id]), json!(["ev", ev_id]), tout.clone(), out, &tview, (typed.verif_executor_tasks(), tokens_live(0) - ttok0));
                }
            }
            Plan::BadEv => {
                let ev_id = n_events; n_events += 1;
                let tview = typed.view().flat();
                for s in sys.iter_mut() {
                    let bytes = match s.codec {
                        Codec::Bincode => match rng.below(3) { 0 => vec![9, 0, 0, 0], 1 => vec![], _ => vec![0, 0, 0, 0, 1, 0, 0, 0, 0, 0, 0, 0, 77, 0, 0, 0] },
                        Codec::Json => match rng.below(3) { 0 => b"\"Nopes\"".to_vec(), 1 => b"".to_vec(), _ => b"{\"Run\":[{\"Bogus\":1}]}".to_vec() },
                    };
                    enter_sys(s.sys);
                    let out = guarded(|| s.face.event(&bytes));
                    record::<A>(s, json!(["ev", 0, ev_id]), Value::Null, json!(["unit"]), out, &tview, (typed.verif_executor_tasks(), tokens_live(0) - ttok0));
                }
            }
            Plan::Resp(k, v) => {
                // the id this request was issued under (by the bincode bridge; the json bridge is addressed
                // with its own id for the same request)
                let ids: Vec<u32> = sys.iter().map(|s| s.issued.get(k).copied().unwrap_or(u32::MAX - 7)).collect();
                respond::<A>(rng, &typed, &mut sys, &mut held, &mut variants, &mut answered, ids, v, ttok0);
            }
            Plan::Raw(id, v) => {
                respond::<A>(rng, &typed, &mut sys, &mut held, &mut variants, &mut answered, vec![id, id], v, ttok0);
            }
        }
    }
    sys.into_iter().map(|s| json!({"case": case, "app": A::NAME, "codec": format!("{:?}", s.codec).to_lowercase(),
                                   "init_view": init_view, "steps": s.steps})).collect()
}

/// register freshly emitted typed effects with the typed shell; returns the "tout" observation
fn note_effects<A: TwinApp>(effs: Vec<A::Effect>, held: &mut Vec<Option<Held>>, variants: &mut Vec<u64>, answered: &mut Vec<u32>) -> Value {
    let mut l = vec![];
    for e in effs {
        let h = A::hold(e);
        l.push(json!([h.variant(), h.payload(), kind_of_variant(h.variant())]));
        variants.push(h.variant());
        answered.push(0);
        held.push(Some(h));
    }
    json!(["effs", l])
}

/// one handle_response step on every system, mirrored on the typed shell
fn respond<A: TwinApp>(rng: &mut Rng, typed: &Core<A>, sys: &mut Vec<Sys>, held: &mut Vec<Option<Held>>,
                       variants: &mut Vec<u64>, answered: &mut Vec<u32>, ids: Vec<u32>, v: Option<u64>, ttok0: i64)
where <A::Effect as crux_core::Effect>::Ffi: DeserializeOwned {
    // who is registered under the id right now, according to the implementation's own registry
    let id0 = ids[0];
    let snap0 = sys[0].face.snap();
    let entry = snap0.iter().find(|(i, _)| *i == id0).map(|(_, k)| *k);
    let target = if entry.is_some() { sys[0].owner.get(&id0).copied() } else { None };
    let target = target.filter(|&k| k < held.len());   // a bridge that issued more requests than the typed core: no mirror
    let var = target.map(|k| variants[k]).unwrap_or(V_GET);
    // bodies: same decodability on both codecs (checked with the real decoders)
    let mut bodies = vec![];
    let mut vals = vec![];
    for s in sys.iter() {
        let b = body(s.codec, var, v, rng);
        vals.push(body_value(s.codec, var, &b));
        bodies.push(b);
    }
    let val = if vals[0] == vals[1] { vals[0] } else { None };
    if vals[0] != vals[1] {
        // never happens with the generators above; keep the twins aligned anyway
        bodies = sys.iter().map(|s| body(s.codec, var, None, rng)).collect();
    }
    // mirror on the typed shell
    enter_sys(0);
    let (tin, tout) = match (target, entry) {
        (Some(k), Some(kind)) if held[k].is_some() => {
            answered[k] += 1;
            match (kind, val) {
                (0, _) => { held[k] = None; (json!(["drop", k]), json!(["unit"])) }
                (1, None) => { held[k] = None; (json!(["drop", k]), json!(["unit"])) }
                (2, None) => (Value::Null, json!(["unit"])),
                (_, Some(v)) => {
                    let r = typed_resolve::<A>(typed, held[k].as_mut().unwrap(), v);
                    match r {
                        Ok(effs) => (json!(["res", k, v]), note_effects::<A>(effs, held, variants, answered)),
                        Err(e) => (json!(["res", k, v]), json!(["err", e])),
                    }
                }
                _ => (Value::Null, json!(["unit"])),
            }
        }
        _ => (Value::Null, json!(["unit"])),
    };
    let tview = typed.view().flat();
    for (n, s) in sys.iter_mut().enumerate() {
        enter_sys(s.sys);
        let out = guarded(|| s.face.response(ids[n], &bodies[n]));
        let vj = match val { Some(v) => json!(v), None => json!(-1) };
        record::<A>(s, json!(["resp", ids[n], vj]), tin.clone(), tout.clone(), out, &tview, (typed.verif_executor_tasks(), tokens_live(0) - ttok0));
    }
}

/// decode what the bridge returned, update the id bookkeeping, append the observation
fn record<A: TwinApp>(s: &mut Sys, inp: Value, tin: Value, tout: Value, out: BOut, tview: &[u64], typed_live: (usize, i64))
where <A::Effect as crux_core::Effect>::Ffi: DeserializeOwned {
    let bout = match out {
        BOut::Ok(bytes) => match dec::<Vec<BridgeRequest<<A::Effect as crux_core::Effect>::Ffi>>>(s.codec, &bytes) {
            Some(reqs) => {
                let mut l = vec![];
                for r in &reqs {
                    let (va, pa) = A::ffi(&r.effect);
                    l.push(json!([r.id.0, va, pa]));
                    s.owner.insert(r.id.0, s.issued.len());
                    s.issued.push(r.id.0);
                }
                json!(["ok", l])
            }
            None => json!(["undecodable", bytes]),
        },
        BOut::Err(e) => json!(["err", e]),
        BOut::Panic => { s.dead = true; json!(["panic"]) }
    };
    let bview = match guarded(|| s.face.view()) {
        BOut::Ok(b) => dec::<ViewModel>(s.codec, &b).map(|v| json!(v.flat())).unwrap_or(json!(["undecodable"])),
        BOut::Err(e) => json!(["err", e]),
        BOut::Panic => json!(["panic"]),
    };
    let snap: Vec<Value> = match catch_unwind(AssertUnwindSafe(|| s.face.snap())) {
        Ok(v) => v.into_iter().map(|(i, k)| json!([i, k])).collect(),
        Err(_) => vec![json!(["panic"])],
    };
    let exec = catch_unwind(AssertUnwindSafe(|| s.face.exec() as i64)).unwrap_or(-1);
    s.steps.push(json!({"in": inp, "tin": tin, "tout": tout, "bout": bout, "tview": tview, "bview": bview, "snap": snap,
                        "exec": exec, "tok": tokens_live(s.sys) - s.tok0, "texec": typed_live.0, "ttok": typed_live.1}));
}

fn main() {
    let args: Vec<String> = std::env::args().collect();
    let seed: u64 = args.get(1).and_then(|s| s.parse().ok()).unwrap_or(1);
    let count: usize = args.get(2).and_then(|s| s.parse().ok()).unwrap_or(10);
    let max_steps: u64 = args.get(3).and_then(|s| s.parse().ok()).unwrap_or(40);
    let min_steps: u64 = args.get(4).and_then(|s| s.parse().ok()).unwrap_or(4);
    if std::env::var("VERIF_PANIC_TRACE").is_err() { std::panic::set_hook(Box::new(|_| {})); }
    let mut rng = Rng::new(seed);
    for case in 0..count {
        let mut r = Rng(rng.next());
        let lines = catch_unwind(AssertUnwindSafe(|| {
            if case % 2 == 0 { run_history::<new_app::NewApp>(&mut r, case, max_steps, min_steps) }
            else { run_history::<old_app::OldApp>(&mut r, case, max_steps, min_steps) }
        }));
        match lines {
            Ok(lines) => for l in lines { println!("{}", l); },
            Err(_) => println!("{}", json!({"case": case, "harness_panic": true})),
        }
    }
}
