//! C08 correspondence driver: runs the real crux_core code under controlled interleavings.
//! usage: conc_run <p1|p2|p3|all> <quick|thorough> <seed> [corpus-file]
//! One JSON object per run on stdout; lines starting with '#' are summaries.
#[path = "../conc/ctl.rs"]
mod ctl;
#[path = "../conc/p2.rs"]
mod p2;

use vh::rng::Rng;

fn p2_scenarios(thorough: bool) -> Vec<p2::Scenario> {
    use p2::{Act::*, Kind::*, Scenario};
    let sc = |name: &str, kinds: Vec<p2::Kind>, pre: Vec<(usize, u64)>, settles: usize, shells: Vec<Vec<(usize, p2::Act)>>| Scenario {
        name: name.to_string(),
        kinds,
        pre,
        settles,
        shells,
    };
    let mut v = vec![
        sc("many1_pre_resolve", vec![Many], vec![(0, 1)], 1, vec![vec![(0, Resolve(2))]]),
        sc("many1_pre_resolve_settle2", vec![Many], vec![(0, 1)], 2, vec![vec![(0, Resolve(2))]]),
        sc("many1_pre_drop", vec![Many], vec![(0, 1)], 1, vec![vec![(0, Drop)]]),
        sc("many2_pre_resolve_other", vec![Many, Many], vec![(0, 1)], 1, vec![vec![(1, Resolve(5))]]),
        sc("many_once_pre_resolve_once", vec![Many, Once], vec![(0, 1)], 1, vec![vec![(1, Resolve(7))]]),
        sc("many1_nopre_resolve", vec![Many], vec![], 1, vec![vec![(0, Resolve(2))]]),
        sc("many1_pre_resolve_drop", vec![Many], vec![(0, 1)], 1, vec![vec![(0, Resolve(2)), (0, Drop)]]),
    ];
    if thorough {
        v.push(sc("many1_pre_resolve_resolve_settle2", vec![Many], vec![(0, 1)], 2, vec![vec![(0, Resolve(2)), (0, Resolve(3))]]));
        v.push(sc("many2_two_shells", vec![Many, Many], vec![(0, 1)], 1, vec![vec![(0, Resolve(2))], vec![(1, Resolve(5))]]));
        v.push(sc("many2_shell_drop_shell_resolve", vec![Many, Many], vec![(0, 1)], 1, vec![vec![(0, Drop)], vec![(1, Resolve(5))]]));
        v.push(sc("many_once_two_shells", vec![Many, Once], vec![(0, 1)], 2, vec![vec![(0, Resolve(2))], vec![(1, Resolve(7))]]));
    }
    v
}

fn run_p2(thorough: bool, seed: u64, corpus: &[String]) {
    let scs = p2_scenarios(true);
    // corpus first: "p2 <scenario> <tid>:<point|point|..>,..."
    for line in corpus {
        let parts: Vec<&str> = line.split_whitespace().collect();
        if parts.len() != 3 || parts[0] != "p2" {
            continue;
        }
        let Some(sc) = scs.iter().find(|s| s.name == parts[1]) else { continue };
        let dirs: Vec<(usize, Vec<&'static str>)> = parts[2]
            .split(',')
            .map(|d| {
                let (t, names) = d.split_once(':').unwrap();
                let names: Vec<&'static str> = names.split('|').map(|n| &*Box::leak(n.to_string().into_boxed_str())).collect();
                (t.parse().unwrap(), names)
            })
            .collect();
        let (inst, threads) = p2::make(sc);
        let out = ctl::run_schedule(threads, p2::PARK, &[], ctl::Policy::Directed(&dirs), 400);
        let obs = p2::finish(inst);
        println!("{}", p2::case_json(sc, &out, &obs, "corpus"));
    }
    let max_runs = if thorough { 30000 } else { 800 };
    for sc in p2_scenarios(thorough) {
        let mut n = 0usize;
        let mut infeasible = 0usize;
        let (runs, exhausted) = ctl::explore_all(
            || p2::make(&sc),
            p2::PARK,
            max_runs,
            400,
            |inst, out| {
                let obs = p2::finish(inst);
                if !out.feasible {
                    infeasible += 1;
                }
                n += 1;
                println!("{}", p2::case_json(&sc, &out, &obs, "enum"));
            },
        );
        println!("# p2 scenario={} runs={} exhaustive={} infeasible={}", sc.name, runs, exhausted, infeasible);
    }
    if thorough {
        let mut rng = Rng::new(seed);
        let scs = p2_scenarios(true);
        for k in 0..4000 {
            let sc = &scs[k % scs.len()];
            let (inst, threads) = p2::make(sc);
            let out = ctl::run_schedule(threads, p2::PARK, &[], ctl::Policy::Random(&mut rng), 400);
            let obs = p2::finish(inst);
            println!("{}", p2::case_json(sc, &out, &obs, "random"));
        }
    }
}

fn run_replay(path: &str) {
    let text = std::fs::read_to_string(path).unwrap_or_default();
    for line in text.lines() {
        let Ok(v) = serde_json::from_str::<serde_json::Value>(line) else { continue };
        let proto = v["proto"].as_str().unwrap_or("");
        let scen = v["scen"].as_str().unwrap_or("");
        let sched: Vec<usize> = v["sched"].as_array().map(|a| a.iter().filter_map(|x| x.as_u64().map(|y| y as usize)).collect()).unwrap_or_default();
        if proto == "P2" {
            if let Some(sc) = p2_scenarios(true).iter().find(|s| s.name == scen) {
                let (inst, threads) = p2::make(sc);
                let out = ctl::run_schedule(threads, p2::PARK, &sched, ctl::Policy::First, 400);
                let obs = p2::finish(inst);
                println!("{}", p2::case_json(sc, &out, &obs, "replay"));
            }
        }
    }
}

fn main() {
    let args: Vec<String> = std::env::args().collect();
    let proto = args.get(1).map(String::as_str).unwrap_or("all").to_string();
    let thorough = args.get(2).map(String::as_str) == Some("thorough");
    let seed: u64 = args.get(3).and_then(|s| s.parse().ok()).unwrap_or(1);
    let corpus: Vec<String> = args
        .get(4)
        .and_then(|p| std::fs::read_to_string(p).ok())
        .map(|s| s.lines().map(str::to_string).filter(|l| !l.trim().is_empty() && !l.starts_with('#')).collect())
        .unwrap_or_default();
    // a panic on a controlled thread is caught and recorded; keep stderr quiet
    std::panic::set_hook(Box::new(|_| {}));
    if proto == "replay" {
        run_replay(args.get(2).map(String::as_str).unwrap_or(""));
        return;
    }
    if proto == "p2" || proto == "all" {
        run_p2(thorough, seed, &corpus);
    }
}
