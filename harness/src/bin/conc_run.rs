//! C08 correspondence driver: runs the real crux_core code under controlled interleavings.
//! usage: conc_run <p1|p2|p3|all|list> <quick|thorough> <seed> [corpus-file] [scenario|corpus]
//!        conc_run replay <file of {proto,scen,sched} lines>
//! One JSON object per run on stdout; lines starting with '#' are summaries.
#[path = "../conc/ctl.rs"]
mod ctl;
#[path = "../conc/p2.rs"]
mod p2;
#[path = "../conc/coreapp.rs"]
mod coreapp;

use vh::rng::Rng;

fn p2_scenarios(thorough: bool) -> Vec<p2::Scenario> {
    use p2::{Act::*, Kind::*, Scenario};
    let sc = |name: &str, kinds: Vec<p2::Kind>, pre: Vec<(usize, u64)>, settles: usize, shells: Vec<Vec<(usize, p2::Act)>>| Scenario {
        name: name.to_string(),
        kinds,
        pre,
        settles,
        shells,
        hosted: name.starts_with("hosted_"),
    };
    let mut v = vec![
        sc("many1_pre_resolve", vec![Many], vec![(0, 1)], 1, vec![vec![(0, Resolve(2))]]),
        sc("many1_pre_resolve_settle2", vec![Many], vec![(0, 1)], 2, vec![vec![(0, Resolve(2))]]),
        sc("many1_pre_drop", vec![Many], vec![(0, 1)], 1, vec![vec![(0, Drop)]]),
        sc("many2_pre_resolve_other", vec![Many, Many], vec![(0, 1)], 1, vec![vec![(1, Resolve(5))]]),
        sc("many_once_pre_resolve_once", vec![Many, Once], vec![(0, 1)], 1, vec![vec![(1, Resolve(7))]]),
        sc("once_drop", vec![Once], vec![], 1, vec![vec![(0, Drop)]]),
        sc("many_once_drop_once", vec![Many, Once], vec![(0, 1)], 1, vec![vec![(1, Drop)]]),
        sc("hosted_many1_resolve", vec![Many], vec![], 2, vec![vec![(0, Resolve(2))]]),
        sc("hosted_many1_pre_resolve_resolve", vec![Many], vec![(0, 1)], 2, vec![vec![(0, Resolve(2)), (0, Resolve(3))]]),
        sc("hosted_many2_resolve_other", vec![Many, Many], vec![(0, 1)], 2, vec![vec![(1, Resolve(5))]]),
        sc("many1_nopre_resolve", vec![Many], vec![], 1, vec![vec![(0, Resolve(2))]]),
        sc("many1_pre_resolve_drop", vec![Many], vec![(0, 1)], 1, vec![vec![(0, Resolve(2)), (0, Drop)]]),
    ];
    if thorough {
        v.push(sc("many1_pre_resolve_resolve_settle2", vec![Many], vec![(0, 1)], 2, vec![vec![(0, Resolve(2)), (0, Resolve(3))]]));
        v.push(sc("many2_two_shells", vec![Many, Many], vec![(0, 1)], 1, vec![vec![(0, Resolve(2))], vec![(1, Resolve(5))]]));
        v.push(sc("many2_shell_drop_shell_resolve", vec![Many, Many], vec![(0, 1)], 1, vec![vec![(0, Drop)], vec![(1, Resolve(5))]]));
        v.push(sc("many_once_two_shells", vec![Many, Once], vec![(0, 1)], 2, vec![vec![(0, Resolve(2))], vec![(1, Resolve(7))]]));
    }
    v
}

fn run_p2(thorough: bool, seed: u64, corpus: &[String], only: Option<&str>) {
    let scs = p2_scenarios(true);
    // corpus first: "p2 <scenario> <tid>:<point|point|..>,..."
    for line in corpus {
        if only.is_some() && only != Some("corpus") {
            break;
        }
        let parts: Vec<&str> = line.split_whitespace().collect();
        if parts.len() != 3 || parts[0] != "p2" {
            continue;
        }
        let Some(sc) = scs.iter().find(|s| s.name == parts[1]) else { continue };
        let dirs = parse_dirs(parts[2]);
        let (inst, threads) = p2::make(sc);
        let out = ctl::run_schedule(threads, if sc.hosted { p2::PARK_HOSTED } else { p2::PARK }, &[], ctl::Policy::Directed(&dirs), 400);
        let obs = p2::finish(inst);
        println!("{}", p2::case_json(sc, &out, &obs, "corpus"));
    }
    if only == Some("corpus") {
        return;
    }
    let max_runs = if thorough { 6000 } else { 3500 };
    for sc in p2_scenarios(thorough) {
        if only.is_some() && only != Some(sc.name.as_str()) {
            continue;
        }
        let mut n = 0usize;
        let mut infeasible = 0usize;
        let (runs, exhausted) = ctl::explore_all(
            || p2::make(&sc),
            if sc.hosted { p2::PARK_HOSTED } else { p2::PARK },
            max_runs,
            400,
            if thorough { 5 } else { 3 },
            |_| {},
            |inst, out| {
                let obs = p2::finish(inst);
                if !out.feasible {
                    infeasible += 1;
                }
                n += 1;
                println!("{}", p2::case_json(&sc, &out, &obs, "enum"));
            },
        );
        println!("# p2 scenario={} runs={} exhaustive={} preemption_bound={} infeasible={}", sc.name, runs, exhausted, if thorough { "5" } else { "3" }, infeasible);
    }
    if thorough {
        let mut rng = Rng::new(seed);
        let scs: Vec<_> = p2_scenarios(true).into_iter().filter(|s| only.is_none() || only == Some(s.name.as_str())).collect();
        for k in 0..(400 * scs.len()) {
            let sc = &scs[k % scs.len()];
            let (inst, threads) = p2::make(sc);
            let out = ctl::run_schedule(threads, if sc.hosted { p2::PARK_HOSTED } else { p2::PARK }, &[], ctl::Policy::Random(&mut rng), 400);
            let obs = p2::finish(inst);
            println!("{}", p2::case_json(sc, &out, &obs, "random"));
        }
    }
}

fn core_scenarios(thorough: bool) -> Vec<coreapp::Scenario> {
    use coreapp::{Call::*, Ev, Scenario, TaskSpec};
    let go = |d: u64, tasks: Vec<TaskSpec>| Event(Ev::Go { d, tasks, gate: false });
    let emit = |task: u64, n: u64| TaskSpec { task, n, req: false, many: false, gate: false };
    let once = |task: u64, n: u64| TaskSpec { task, n, req: true, many: false, gate: false };
    let many = |task: u64| TaskSpec { task, n: 0, req: true, many: true, gate: false };
    let sc = |name: &str, setup: Vec<coreapp::Call>, threads: Vec<Vec<coreapp::Call>>| Scenario { name: name.to_string(), setup, threads };
    let mut v = vec![
        sc("start_vs_noop", vec![], vec![vec![go(1, vec![emit(1, 2)])], vec![go(2, vec![])]]),
        sc("start_vs_start", vec![], vec![vec![go(1, vec![emit(1, 2)])], vec![go(2, vec![emit(2, 2)])]]),
        sc("start_vs_view", vec![], vec![vec![go(1, vec![emit(1, 2)])], vec![View, View]]),
        sc("resolve_vs_noop", vec![go(1, vec![once(1, 2)])], vec![vec![Resolve { task: 1, v: 5 }], vec![go(2, vec![])]]),
        sc("resolve_vs_resolve_same_command", vec![go(1, vec![once(1, 1), once(2, 1)])], vec![vec![Resolve { task: 1, v: 5 }], vec![Resolve { task: 2, v: 6 }]]),
        sc("stream_vs_request", vec![go(1, vec![many(1)])], vec![vec![Resolve { task: 1, v: 5 }, Resolve { task: 1, v: 6 }], vec![go(2, vec![once(2, 1)])]]),
        sc("event_spawns_effect", vec![], vec![vec![go(1, vec![emit(50, 1)])], vec![go(2, vec![])]]),
        sc("drop_vs_resolve", vec![go(1, vec![once(1, 1), many(2)])], vec![vec![DropReq { task: 1 }, go(3, vec![])], vec![Resolve { task: 2, v: 6 }]]),
    ];
    if thorough {
        v.push(sc("three_callers", vec![go(1, vec![once(1, 1), many(2)])], vec![vec![Resolve { task: 1, v: 5 }], vec![Resolve { task: 2, v: 6 }], vec![go(2, vec![emit(3, 2)]), View]]));
        v.push(sc("three_starts", vec![], vec![vec![go(1, vec![emit(1, 2)])], vec![go(2, vec![emit(2, 1)])], vec![go(3, vec![])]]));
        v.push(sc("two_streams_one_command", vec![go(1, vec![many(1), many(2)])], vec![vec![Resolve { task: 1, v: 5 }, Resolve { task: 1, v: 6 }], vec![Resolve { task: 2, v: 7 }, go(2, vec![])]]));
    }
    v
}

/// Scenarios whose schedule is forced from the harness side only: the app's update / view and the
/// task futures park at app-level gates (no hook of the crux source is a parking point).
fn gate_scenarios(thorough: bool) -> Vec<coreapp::Scenario> {
    use coreapp::{Call::*, Ev, Scenario, TaskSpec};
    let go = |d: u64, tasks: Vec<TaskSpec>| Event(Ev::Go { d, tasks, gate: false });
    let gated = |d: u64| Event(Ev::Go { d, tasks: vec![], gate: true });
    let emit = |task: u64, n: u64| TaskSpec { task, n, req: false, many: false, gate: false };
    let once = |task: u64, n: u64| TaskSpec { task, n, req: true, many: false, gate: false };
    let once_gated = |task: u64, n: u64| TaskSpec { task, n, req: true, many: false, gate: true };
    let many = |task: u64| TaskSpec { task, n: 0, req: true, many: true, gate: false };
    let sc = |name: &str, setup: Vec<coreapp::Call>, threads: Vec<Vec<coreapp::Call>>| Scenario { name: name.to_string(), setup, threads };
    let mut v = vec![
        // A sits inside update (holding the model) while B resolves a request whose task sends two events
        sc("gate_update_vs_resolve", vec![go(1, vec![once(1, 2)])], vec![vec![gated(2)], vec![Resolve { task: 1, v: 5 }]]),
        // a reader sits inside view (holding the model for reading) while B resolves
        sc("gate_view_vs_resolve", vec![go(1, vec![once(1, 2)])], vec![vec![View], vec![Resolve { task: 1, v: 5 }]]),
        // A sits inside a task poll between two send_events while B sends an event and reads the view
        sc("gate_task_vs_event_view", vec![go(1, vec![once_gated(1, 2)])], vec![vec![Resolve { task: 1, v: 5 }], vec![go(2, vec![]), View]]),
        sc("gate_update_vs_start", vec![], vec![vec![gated(2)], vec![go(3, vec![emit(2, 2)])]]),
        sc("gate_view_vs_start", vec![], vec![vec![View], vec![go(3, vec![emit(2, 3)])]]),
        sc("gate_update_vs_stream", vec![go(1, vec![many(1)])], vec![vec![gated(2)], vec![Resolve { task: 1, v: 5 }, Resolve { task: 1, v: 6 }]]),
    ];
    if thorough {
        v.push(sc("gate_update_view_resolve", vec![go(1, vec![once(1, 2)])], vec![vec![gated(2)], vec![View], vec![Resolve { task: 1, v: 5 }]]));
        v.push(sc("gate_update_vs_two_resolvers", vec![go(1, vec![once(1, 2), once(2, 2)])], vec![vec![gated(2)], vec![Resolve { task: 1, v: 5 }], vec![Resolve { task: 2, v: 6 }]]));
        v.push(sc("gate_view_vs_two_resolvers", vec![go(1, vec![once(1, 2), once(2, 2)])], vec![vec![View], vec![Resolve { task: 1, v: 5 }], vec![Resolve { task: 2, v: 6 }]]));
    }
    v
}

fn park_of(proto: &str) -> &'static [&'static str] {
    match proto {
        "P1" => coreapp::PARK_P1,
        "P1F" => coreapp::PARK_P1_FULL,
        "PG" => coreapp::PARK_G,
        "PW" => coreapp::PARK_W,
        "PF" => &[],
        _ => coreapp::PARK_P3,
    }
}

/// PG: gated scenarios, the whole enumeration repeated (lock races are not controlled);
/// PF: every Core-level and gated scenario with no control at all (stress)
fn run_gated(proto: &str, thorough: bool, only: Option<&str>) {
    if only == Some("corpus") {
        return;
    }
    let scs: Vec<coreapp::Scenario> = if proto == "PG" { gate_scenarios(thorough) } else { core_scenarios(thorough).into_iter().chain(gate_scenarios(thorough)).collect() };
    for sc in scs {
        if only.is_some() && only != Some(sc.name.as_str()) {
            continue;
        }
        let mut total = 0usize;
        let mut infeasible = 0usize;
        if proto == "PG" {
            for _rep in 0..(if thorough { 12 } else { 4 }) {
                let (runs, _) = ctl::explore_all(
                    || coreapp::make(&sc),
                    park_of(proto),
                    200,
                    200,
                    usize::MAX,
                    coreapp::observe,
                    |inst, out| {
                        let obs = coreapp::finish(&inst);
                        if !out.feasible {
                            infeasible += 1;
                        }
                        println!("{}", coreapp::case_json(proto, &sc, &inst.setup_trace, &out, &obs, "gated"));
                    },
                );
                total += runs;
            }
        } else {
            for _ in 0..(if thorough { 150 } else { 15 }) {
                let (inst, threads) = coreapp::make(&sc);
                let out = ctl::run_schedule(threads, park_of(proto), &[], ctl::Policy::Free, 10);
                let obs = coreapp::finish(&inst);
                if !out.feasible {
                    infeasible += 1;
                }
                println!("{}", coreapp::case_json(proto, &sc, &inst.setup_trace, &out, &obs, "free"));
                total += 1;
            }
        }
        println!("# {} scenario={} runs={} exhaustive={} infeasible={}", proto.to_lowercase(), sc.name, total, proto == "PG", infeasible);
    }
}

fn run_core(proto: &str, thorough: bool, seed: u64, corpus: &[String], only: Option<&str>) {
    let lower = proto.to_lowercase();
    let lower = lower.trim_end_matches('f').to_string();
    let all = core_scenarios(true);
    if only.is_none() || only == Some("corpus") {
        for line in corpus {
            let parts: Vec<&str> = line.split_whitespace().collect();
            if parts.len() != 3 || parts[0] != lower {
                continue;
            }
            let Some(sc) = all.iter().find(|s| s.name == parts[1]) else { continue };
            let dirs = parse_dirs(parts[2]);
            let (inst, threads) = coreapp::make(sc);
            let out = ctl::run_schedule(threads, park_of(proto), &[], ctl::Policy::Directed(&dirs), 600);
            let obs = coreapp::finish(&inst);
            println!("{}", coreapp::case_json(proto, sc, &inst.setup_trace, &out, &obs, "corpus"));
        }
    }
    if only == Some("corpus") {
        return;
    }
    let max_runs = if proto == "P1F" { 4000 } else if thorough { 6000 } else { 1200 };
    for sc in core_scenarios(thorough) {
        if only.is_some() && only != Some(sc.name.as_str()) {
            continue;
        }
        let mut infeasible = 0usize;
        let (runs, exhausted) = ctl::explore_all(
            || coreapp::make(&sc),
            park_of(proto),
            max_runs,
            600,
            if proto == "P1F" { 2 } else if thorough { 3 } else { 2 },
            |_| {},
            |inst, out| {
                let obs = coreapp::finish(&inst);
                if !out.feasible {
                    infeasible += 1;
                }
                println!("{}", coreapp::case_json(proto, &sc, &inst.setup_trace, &out, &obs, "enum"));
            },
        );
        println!("# {} scenario={} runs={} exhaustive={} preemption_bound={} infeasible={}", proto.to_lowercase(), sc.name, runs, exhausted, if proto == "P1F" { 2 } else if thorough { 3 } else { 2 }, infeasible);
        if thorough {
            let mut rng = Rng::new(seed ^ 0x51);
            for _ in 0..300 {
                let (inst, threads) = coreapp::make(&sc);
                let out = ctl::run_schedule(threads, park_of(proto), &[], ctl::Policy::Random(&mut rng), 600);
                let obs = coreapp::finish(&inst);
                println!("{}", coreapp::case_json(proto, &sc, &inst.setup_trace, &out, &obs, "random"));
            }
        }
    }
}

fn parse_dirs(s: &str) -> Vec<(usize, Vec<&'static str>)> {
    s.split(',')
        .map(|d| {
            let (t, names) = d.split_once(':').unwrap();
            let names: Vec<&'static str> = names.split('|').map(|n| &*Box::leak(n.to_string().into_boxed_str())).collect();
            (t.parse().unwrap(), names)
        })
        .collect()
}

fn run_replay(path: &str) {
    let text = std::fs::read_to_string(path).unwrap_or_default();
    for line in text.lines() {
        let Ok(v) = serde_json::from_str::<serde_json::Value>(line) else { continue };
        let proto = v["proto"].as_str().unwrap_or("");
        let scen = v["scen"].as_str().unwrap_or("");
        let sched: Vec<usize> = v["sched"].as_array().map(|a| a.iter().filter_map(|x| x.as_u64().map(|y| y as usize)).collect()).unwrap_or_default();
        if proto == "P2" || proto == "P2H" {
            if let Some(sc) = p2_scenarios(true).iter().find(|s| s.name == scen) {
                let (inst, threads) = p2::make(sc);
                let out = ctl::run_schedule(threads, if sc.hosted { p2::PARK_HOSTED } else { p2::PARK }, &sched, ctl::Policy::First, 400);
                let obs = p2::finish(inst);
                println!("{}", p2::case_json(sc, &out, &obs, "replay"));
            }
        } else if proto == "PG" || proto == "PF" {
            // lock races and free runs are not controlled: a replay repeats the schedule
            if let Some(sc) = gate_scenarios(true).iter().chain(core_scenarios(true).iter()).find(|s| s.name == scen) {
                for _ in 0..12 {
                    let (inst, threads) = coreapp::make(sc);
                    let pol = if proto == "PF" { ctl::Policy::Free } else { ctl::Policy::First };
                    let out = ctl::run_schedule_obs(threads, park_of(proto), &sched, pol, 200, &mut || coreapp::observe(&inst));
                    let obs = coreapp::finish(&inst);
                    println!("{}", coreapp::case_json(proto, sc, &inst.setup_trace, &out, &obs, "replay"));
                }
            }
        } else if proto == "P1" || proto == "P3" || proto == "P1F" || proto == "PW" {
            if let Some(sc) = core_scenarios(true).iter().find(|s| s.name == scen) {
                let (inst, threads) = coreapp::make(sc);
                let out = ctl::run_schedule(threads, park_of(proto), &sched, ctl::Policy::First, 600);
                let obs = coreapp::finish(&inst);
                println!("{}", coreapp::case_json(proto, sc, &inst.setup_trace, &out, &obs, "replay"));
            }
        }
    }
}

fn main() {
    let args: Vec<String> = std::env::args().collect();
    let proto = args.get(1).map(String::as_str).unwrap_or("all").to_string();
    let thorough = args.get(2).map(String::as_str) == Some("thorough");
    let seed: u64 = args.get(3).and_then(|s| s.parse().ok()).unwrap_or(1);
    let corpus: Vec<String> = args
        .get(4)
        .and_then(|p| std::fs::read_to_string(p).ok())
        .map(|s| s.lines().map(str::to_string).filter(|l| !l.trim().is_empty() && !l.starts_with('#')).collect())
        .unwrap_or_default();
    // a panic on a controlled thread is caught and recorded; keep stderr quiet
    std::panic::set_hook(Box::new(|_| {}));
    if proto == "replay" {
        run_replay(args.get(2).map(String::as_str).unwrap_or(""));
        return;
    }
    let only = args.get(5).map(String::as_str);
    if proto == "list" {
        for s in p2_scenarios(thorough) {
            println!("p2 {}", s.name);
        }
        for s in core_scenarios(thorough) {
            println!("p3 {}", s.name);
            println!("p1 {}", s.name);
            if thorough {
                println!("p1f {}", s.name);
            }
            println!("pw {}", s.name);
            println!("pf {}", s.name);
        }
        for s in gate_scenarios(thorough) {
            println!("pg {}", s.name);
            println!("pf {}", s.name);
        }
        return;
    }
    if proto == "p2" || proto == "all" {
        run_p2(thorough, seed, &corpus, only);
    }
    if proto == "p3" || proto == "all" {
        run_core("P3", thorough, seed, &corpus, only);
    }
    if proto == "p1" || proto == "all" {
        run_core("P1", thorough, seed, &corpus, only);
    }
    if proto == "p1f" || (proto == "all" && thorough) {
        run_core("P1F", thorough, seed, &corpus, only);
    }
    if proto == "pw" || proto == "all" {
        run_core("PW", thorough, seed, &corpus, only);
    }
    if proto == "pg" || proto == "all" {
        run_gated("PG", thorough, only);
    }
    if proto == "pf" || proto == "all" {
        run_gated("PF", thorough, only);
    }
}
