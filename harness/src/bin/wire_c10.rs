//! C10 correspondence driver.
//! usage: wire_c10 <seed> <values-per-type>
//! Prints one JSON object per case:
//!  d="a": schema-directed value `v` (Coq term) of registered type `ty`, `hb` = bytes written by the
//!         harness' own schema-directed encoder (the Coq side checks they equal the model's `encode`),
//!         and what the real `bincode::deserialize::<T>` (Bridge options, and strict = no trailing bytes)
//!         and `serialize` did with them;
//!  d="b": bytes written by Rust (`src`="arb": a random value of the type; "bridge": what a real
//!         `Bridge<App>` returned from process_event / handle_response / view) and the format `f` they
//!         must decode under with nothing left over.
#[path = "wire_common/mod.rs"]
mod wire_common;
use bincode::Options;
use std::panic::{catch_unwind, AssertUnwindSafe};
use vh::rng::Rng;
use wire_common::apps::{self, kvapp, zoo};
use wire_common::arb::{http_response, kv_response, time_response, Arb};
use wire_common::schema::{self, GenCfg};
use wire_common::table::{self, bridge_opts};
use wire_common::{hex, json_str};

fn case_b(app: &str, f: &str, b: &[u8], src: &str) {
    println!("{{\"d\":\"b\",\"app\":{},\"f\":{},\"b\":\"{}\",\"src\":{}}}", json_str(app), json_str(f), hex(b), json_str(src));
}

fn drive_kvapp(r: &mut Rng, histories: u64) {
    use crux_core::bridge::{Bridge, Request};
    for _ in 0..histories {
        let bridge: Bridge<kvapp::App> = Bridge::new(crux_core::Core::new());
        let mut pending: Vec<Request<kvapp::EffectFfi>> = vec![];
        let steps = 2 + r.below(8);
        for _ in 0..steps {
            let respond = !pending.is_empty() && r.coin(1, 2);
            let out = catch_unwind(AssertUnwindSafe(|| {
                if respond {
                    let i = r.below(pending.len() as u64) as usize;
                    let req = pending.remove(i);
                    let bytes = match &req.effect {
                        kvapp::EffectFfi::KeyValue(op) => bridge_opts().serialize(&kv_response(r, op)).unwrap(),
                        kvapp::EffectFfi::Http(_) => bridge_opts().serialize(&http_response(r)).unwrap(),
                        kvapp::EffectFfi::Time(t) => bridge_opts().serialize(&time_response(r, t)).unwrap(),
                        kvapp::EffectFfi::Platform(_) => bridge_opts().serialize(&crux_platform::PlatformResponse::arb(r)).unwrap(),
                        kvapp::EffectFfi::Render(_) => return None,
                    };
                    bridge.handle_response(req.id.0, &bytes).ok()
                } else {
                    let ev = kvapp::Event::arb(r);
                    bridge.process_event(&bridge_opts().serialize(&ev).unwrap()).ok()
                }
            }));
            match out {
                Ok(Some(bytes)) => {
                    case_b("kvapp", "(FSeq (FTypeName \"Request\"))", &bytes, "bridge");
                    if let Ok(reqs) = bridge_opts().deserialize::<Vec<Request<kvapp::EffectFfi>>>(&bytes) {
                        for q in reqs { if !matches!(q.effect, kvapp::EffectFfi::Render(_)) { pending.push(q); } }
                    }
                    if let Ok(Ok(v)) = catch_unwind(AssertUnwindSafe(|| bridge.view())) { case_b("kvapp", "(FTypeName \"ViewModel\")", &v, "bridge"); }
                }
                Ok(None) => {}
                Err(_) => break,
            }
        }
    }
}
fn drive_malapp(r: &mut Rng, histories: u64) {
    use crux_core::bridge::{Bridge, Request};
    use wire_common::apps::malapp;
    for _ in 0..histories {
        let bridge: Bridge<malapp::App> = Bridge::new(crux_core::Core::new());
        let mut pending: Vec<Request<malapp::EffectFfi>> = vec![];
        for _ in 0..(2 + r.below(8)) {
            let out = if !pending.is_empty() && r.coin(1, 2) {
                let i = r.below(pending.len() as u64) as usize;
                let bytes = match &pending[i].effect {
                    malapp::EffectFfi::Ask(_) => bridge_opts().serialize(&malapp::Answer::arb(r)).unwrap(),
                    malapp::EffectFfi::Watch(_) => bridge_opts().serialize(&malapp::Tick::arb(r)).unwrap(),
                    malapp::EffectFfi::Render(_) => vec![],
                };
                let id = pending[i].id.0;
                if matches!(pending[i].effect, malapp::EffectFfi::Ask(_)) { pending.remove(i); }
                bridge.handle_response(id, &bytes).ok()
            } else {
                bridge.process_event(&bridge_opts().serialize(&malapp::MalEvent::arb(r)).unwrap()).ok()
            };
            if let Some(bytes) = out {
                case_b("malapp", "(FSeq (FTypeName \"Request\"))", &bytes, "bridge");
                if let Ok(reqs) = bridge_opts().deserialize::<Vec<Request<malapp::EffectFfi>>>(&bytes) {
                    for q in reqs { if !matches!(q.effect, malapp::EffectFfi::Render(_)) { pending.push(q); } }
                }
                if let Ok(v) = bridge.view() { case_b("malapp", "(FTypeName \"MalView\")", &v, "bridge"); }
            }
        }
    }
}
fn drive_zoo(r: &mut Rng, histories: u64) {
    use crux_core::bridge::Bridge;
    for _ in 0..histories {
        let bridge: Bridge<zoo::App> = Bridge::new(crux_core::Core::new());
        for _ in 0..(1 + r.below(3)) {
            let ev = zoo::ZooEvent::arb(r);
            if let Ok(bytes) = bridge.process_event(&bridge_opts().serialize(&ev).unwrap()) {
                case_b("zoo", "(FSeq (FTypeName \"Request\"))", &bytes, "bridge");
                if let Ok(v) = bridge.view() { case_b("zoo", "(FTypeName \"ZooView\")", &v, "bridge"); }
            }
        }
    }
}

// ---------------------------------------------------------------- direction (c): through the real Bridge
fn case_c(app: &str, f: &str, b: &[u8], acc: bool, what: &str) {
    println!("{{\"d\":\"c\",\"app\":{},\"f\":{},\"b\":\"{}\",\"acc\":{},\"what\":{}}}", json_str(app), json_str(f), hex(b), acc, json_str(what));
}
fn filled(n: usize, seed: u8) -> Vec<u8> { let mut v = vec![seed; n]; if n > 2 { v[0] = 1; v[n / 2] = 2; v[n - 1] = 3; } v }

/// Schema-valid events and outputs, short and LONG, offered to real bridges (fresh one per case).
fn direct_c(r: &mut Rng, n: u64) {
    use crux_core::bridge::{Bridge, Request};
    use wire_common::apps::malapp;
    // ---- events
    let mut mal_events: Vec<(malapp::MalEvent, &str)> = (0..n).map(|_| (malapp::MalEvent::arb(r), "random")).collect();
    for size in [65_000usize, 65_536, 70_000, 200_000] {
        mal_events.push((malapp::MalEvent::Note { text: "t".into(), blob: filled(size, 0xab), nums: vec![], flag: None }, "long blob"));
    }
    mal_events.push((malapp::MalEvent::Note { text: "y".repeat(80_000), blob: vec![], nums: vec![7; 12_000], flag: Some(true) }, "long text and 12 000 numbers"));
    for (e, what) in mal_events {
        let bytes = bridge_opts().serialize(&e).unwrap();
        let b: Bridge<malapp::App> = Bridge::new(crux_core::Core::new());
        let acc = matches!(catch_unwind(AssertUnwindSafe(|| b.process_event(&bytes))), Ok(Ok(_)));
        case_c("malapp", "(FTypeName \"MalEvent\")", &bytes, acc, what);
    }
    let mut zoo_events: Vec<(zoo::ZooEvent, &str)> = (0..n).map(|_| (zoo::ZooEvent::arb(r), "random")).collect();
    zoo_events.push((zoo::ZooEvent::Seq(vec![(0..10_000).map(|i| format!("s{}", i % 7)).collect()]), "10 000 short strings"));
    zoo_events.push((zoo::ZooEvent::Chars(vec!['\u{e9}'; 40_000]), "40 000 two-byte chars"));
    for (e, what) in zoo_events {
        let bytes = bridge_opts().serialize(&e).unwrap();
        let b: Bridge<zoo::App> = Bridge::new(crux_core::Core::new());
        let acc = matches!(catch_unwind(AssertUnwindSafe(|| b.process_event(&bytes))), Ok(Ok(_)));
        case_c("zoo", "(FTypeName \"ZooEvent\")", &bytes, acc, what);
    }
    let mut kv_events: Vec<(kvapp::Event, &str)> = (0..n).map(|_| (kvapp::Event::arb(r), "random")).collect();
    for size in [70_000usize, 200_000] {
        kv_events.push((kvapp::Event::KvSet { api: kvapp::Api::Command, key: "k".into(), value: filled(size, 0) }, "long Set value"));
        kv_events.push((kvapp::Event::Http { which: 200, body: filled(size, 0xff) }, "long http body"));
    }
    kv_events.push((kvapp::Event::KvGet { api: kvapp::Api::Capability, key: "x".repeat(70_000) }, "long key"));
    for (e, what) in kv_events {
        let bytes = bridge_opts().serialize(&e).unwrap();
        let b: Bridge<kvapp::App> = Bridge::new(crux_core::Core::new());
        let acc = matches!(catch_unwind(AssertUnwindSafe(|| b.process_event(&bytes))), Ok(Ok(_)));
        case_c("kvapp", "(FTypeName \"Event\")", &bytes, acc, what);
    }
    // ---- outputs of outstanding requests
    let respond_kv = |ev: kvapp::Event, out: Vec<u8>, f: &str, what: &str| {
        let b: Bridge<kvapp::App> = Bridge::new(crux_core::Core::new());
        let batch = b.process_event(&bridge_opts().serialize(&ev).unwrap()).unwrap_or_default();
        let reqs: Vec<Request<kvapp::EffectFfi>> = bridge_opts().deserialize(&batch).unwrap_or_default();
        let Some(q) = reqs.iter().find(|q| !matches!(q.effect, kvapp::EffectFfi::Render(_))) else { return; };
        let acc = matches!(catch_unwind(AssertUnwindSafe(|| b.handle_response(q.id.0, &out))), Ok(Ok(_)));
        case_c("kvapp", f, &out, acc, what);
    };
    use crux_kv::{value::Value, KeyValueResponse, KeyValueResult};
    for api in [kvapp::Api::Capability, kvapp::Api::Command] {
        for size in [0usize, 1, 65_000, 70_000, 200_000] {
            let out = bridge_opts().serialize(&KeyValueResult::Ok { response: KeyValueResponse::Get { value: Value::Bytes(filled(size, 0x5a)) } }).unwrap();
            respond_kv(kvapp::Event::KvGet { api, key: "k".into() }, out, "(FTypeName \"KeyValueResult\")", "Get response, value of that many bytes");
        }
        let keys: Vec<String> = (0..7_000).map(|i| format!("k{}", i % 10)).collect();
        let out = bridge_opts().serialize(&KeyValueResult::Ok { response: KeyValueResponse::ListKeys { keys, next_cursor: u64::MAX } }).unwrap();
        respond_kv(kvapp::Event::KvList { api, prefix: "".into(), cursor: 0 }, out, "(FTypeName \"KeyValueResult\")", "page of 7 000 keys");
    }
    for which in [3u8, 200] {
        for size in [0usize, 65_536, 200_000] {
            let resp = crux_http::protocol::HttpResponse { status: 200, headers: vec![crux_http::protocol::HttpHeader { name: "x-a".into(), value: "b".into() }], body: filled(size, 0x11) };
            let out = bridge_opts().serialize(&crux_http::protocol::HttpResult::Ok(resp)).unwrap();
            respond_kv(kvapp::Event::Http { which, body: vec![] }, out, "(FTypeName \"HttpResult\")", "http response body of that many bytes");
        }
    }
    for _ in 0..n {
        let ev = kvapp::Event::arb(r);
        let b: Bridge<kvapp::App> = Bridge::new(crux_core::Core::new());
        let batch = b.process_event(&bridge_opts().serialize(&ev).unwrap()).unwrap_or_default();
        let reqs: Vec<Request<kvapp::EffectFfi>> = bridge_opts().deserialize(&batch).unwrap_or_default();
        let Some(q) = reqs.iter().find(|q| !matches!(q.effect, kvapp::EffectFfi::Render(_))) else { continue; };
        let (out, f) = match &q.effect {
            kvapp::EffectFfi::KeyValue(op) => (bridge_opts().serialize(&kv_response(r, op)).unwrap(), "(FTypeName \"KeyValueResult\")"),
            kvapp::EffectFfi::Http(_) => (bridge_opts().serialize(&http_response(r)).unwrap(), "(FTypeName \"HttpResult\")"),
            kvapp::EffectFfi::Time(t) => (bridge_opts().serialize(&time_response(r, t)).unwrap(), "(FTypeName \"TimeResponse\")"),
            kvapp::EffectFfi::Platform(_) => (bridge_opts().serialize(&crux_platform::PlatformResponse::arb(r)).unwrap(), "(FTypeName \"PlatformResponse\")"),
            kvapp::EffectFfi::Render(_) => continue,
        };
        let acc = matches!(catch_unwind(AssertUnwindSafe(|| b.handle_response(q.id.0, &out))), Ok(Ok(_)));
        case_c("kvapp", f, &out, acc, "random matching response");
    }
    // malapp: answers (one-shot) and ticks (stream)
    let mut answers: Vec<(malapp::Answer, &str)> = (0..n).map(|_| (malapp::Answer::arb(r), "random")).collect();
    answers.push((malapp::Answer::Items { items: (0..2500).map(|i| malapp::Item { name: format!("n{}", i % 5), data: vec![i as u8; 4], weight: Some(i) }).collect(), note: None }, "2500 items"));
    answers.push((malapp::Answer::Items { items: vec![malapp::Item { name: "big".into(), data: filled(150_000, 9), weight: None }], note: Some("z".repeat(66_000)) }, "one big item"));
    for (a, what) in answers {
        let out = bridge_opts().serialize(&a).unwrap();
        let b: Bridge<malapp::App> = Bridge::new(crux_core::Core::new());
        let batch = b.process_event(&bridge_opts().serialize(&malapp::MalEvent::Ask { tag: 1, text: "q".into() }).unwrap()).unwrap_or_default();
        let reqs: Vec<Request<malapp::EffectFfi>> = bridge_opts().deserialize(&batch).unwrap_or_default();
        let Some(q) = reqs.first() else { continue; };
        let acc = matches!(catch_unwind(AssertUnwindSafe(|| b.handle_response(q.id.0, &out))), Ok(Ok(_)));
        case_c("malapp", "(FTypeName \"Answer\")", &out, acc, what);
    }
    for k in 0..n.min(20) {
        let t = malapp::Tick { seq: k, label: if k == 0 { "L".repeat(70_000) } else { String::arb(r) } };
        let out = bridge_opts().serialize(&t).unwrap();
        let b: Bridge<malapp::App> = Bridge::new(crux_core::Core::new());
        let batch = b.process_event(&bridge_opts().serialize(&malapp::MalEvent::Watch { tag: 1 }).unwrap()).unwrap_or_default();
        let reqs: Vec<Request<malapp::EffectFfi>> = bridge_opts().deserialize(&batch).unwrap_or_default();
        let Some(q) = reqs.first() else { continue; };
        let acc = matches!(catch_unwind(AssertUnwindSafe(|| b.handle_response(q.id.0, &out))), Ok(Ok(_)));
        case_c("malapp", "(FTypeName \"Tick\")", &out, acc, "tick");
    }
}

fn main() {
    let a: Vec<String> = std::env::args().collect();
    let seed: u64 = a.get(1).and_then(|s| s.parse().ok()).unwrap_or(1);
    let per_type: u64 = a.get(2).and_then(|s| s.parse().ok()).unwrap_or(50);
    std::panic::set_hook(Box::new(|_| {}));
    if a.get(1).map(|s| s == "corpus").unwrap_or(false) {
        // corpus mode: lines {"app":..,"ty":..,"hb":hex} - schema-valid encodings offered to Rust again
        let text = std::fs::read_to_string(&a[2]).unwrap_or_default();
        for line in text.lines().filter(|l| l.starts_with('{')) {
            let j: serde_json::Value = match serde_json::from_str(line) { Ok(j) => j, Err(_) => continue };
            let (app, ty, hbs) = (j["app"].as_str().unwrap_or(""), j["ty"].as_str().unwrap_or(""), j["hb"].as_str().unwrap_or(""));
            let hb: Vec<u8> = (0..hbs.len() / 2).filter_map(|i| u8::from_str_radix(&hbs[2 * i..2 * i + 2], 16).ok()).collect();
            let types = table::types_of(app);
            let Some(te) = types.iter().find(|t| t.name == ty) else { println!("{{\"d\":\"unbound\",\"app\":{},\"ty\":{}}}", json_str(app), json_str(ty)); continue; };
            let acc = (te.accept)(&hb);
            println!("{{\"d\":\"a\",\"app\":{},\"ty\":{},\"v\":{},\"hb\":\"{}\",\"acc\":{},\"strict\":{},\"reser\":{},\"err\":{},\"corpus\":true}}",
                json_str(app), json_str(ty), json_str(j["note"].as_str().unwrap_or("")), hex(&hb), acc.bridge_ok, acc.strict_ok,
                match &acc.reser { Some(b) => format!("\"{}\"", hex(b)), None => "null".into() }, json_str(&acc.err));
        }
        return;
    }
    let mut r = Rng::new(seed);
    for (app, reg) in apps::registries() {
        let reg = match reg { Ok(x) => x, Err(e) => { println!("{{\"d\":\"err\",\"app\":{},\"error\":{}}}", json_str(app), json_str(&e)); continue; } };
        let types = table::types_of(app);
        for name in schema::dependency_order(&reg) {
            let Some(te) = types.iter().find(|t| t.name == name) else {
                println!("{{\"d\":\"unbound\",\"app\":{},\"ty\":{}}}", json_str(app), json_str(&name));
                continue;
            };
            let nv = schema::count_variants(&reg, &name) as u64;
            let n = per_type.max(2 * nv);
            for k in 0..n {
                // ---- (a)
                let cfg = GenCfg { max_depth: 3 + (k % 3) as u32, long: k % 11 == 10 };
                let f = serde_reflection::Format::TypeName(name.clone());
                let v = schema::gen_format(&reg, &f, &mut r, 0, &cfg, Some(k as u32));
                let mut hb = vec![];
                if let Err(e) = schema::enc_format(&reg, &f, &v, &mut hb) {
                    println!("{{\"d\":\"err\",\"app\":{},\"error\":{}}}", json_str(app), json_str(&e));
                    continue;
                }
                let acc = (te.accept)(&hb);
                println!("{{\"d\":\"a\",\"app\":{},\"ty\":{},\"v\":{},\"hb\":\"{}\",\"acc\":{},\"strict\":{},\"reser\":{},\"err\":{}}}",
                    json_str(app), json_str(&name), json_str(&schema::coq_val(&v)), hex(&hb), acc.bridge_ok, acc.strict_ok,
                    match &acc.reser { Some(b) => format!("\"{}\"", hex(b)), None => "null".into() }, json_str(&acc.err));
                // ---- (b)
                let b = (te.arb)(&mut r);
                case_b(app, &format!("(FTypeName \"{}\")", name), &b, "arb");
            }
        }
    }
    let hist = (per_type / 2).max(10);
    drive_kvapp(&mut r, hist);
    drive_zoo(&mut r, hist / 2);
    drive_malapp(&mut r, hist / 2);
    direct_c(&mut r, per_type.min(200));
}
