//! C16 correspondence driver: middleware order, redirects bounded and exact.
//! A case is a middleware stack on the client (installed through the cfg(crux_verif) hook), a stack on
//! the request, a request description, and a shell given as a function of the URL (a redirect graph).
//! The REAL crux_http runs it through one of three APIs inside a real AppTester; middleware built from
//! the case description write enter/exit marks, the harness shell writes one mark per HTTP effect it
//! answers, all into one log.  One JSON line per case: the case, the oracle tables (Url::parse, Url::join
//! computed with the url crate itself) and the implementation's log and final event.
//!   httpresp_c16 <seed> <count> [inputs.jsonl]
#[path = "httpresp_util/mod.rs"]
mod util;

use async_trait::async_trait;
use crux_core::{macros::Effect, testing::AppTester, Command};
use crux_http::client::Client;
use crux_http::command::Http as CmdHttp;
use crux_http::middleware::{Middleware, Next, Redirect};
use crux_http::protocol::{HttpHeader, HttpRequest, HttpResponse, HttpResult};
use crux_http::{HttpError, Request, Response, ResponseAsync};
use serde_json::{json, Value};
use std::panic::{catch_unwind, AssertUnwindSafe};
use std::sync::{Arc, Mutex};
use url::Url;
use util::*;
use vh::rng::Rng;

// ---------------------------------------------------------------- case description
#[derive(Clone, Debug)]
enum Res {
    Ok { status: u16, headers: Vec<(String, String)>, body: Vec<u8> },
    Err(HttpError),
}
impl Res {
    fn to_result(&self) -> HttpResult {
        match self {
            Res::Ok { status, headers, body } => HttpResult::Ok(HttpResponse {
                status: *status,
                headers: headers.iter().map(|(n, v)| HttpHeader { name: n.clone(), value: v.clone() }).collect(),
                body: body.clone(),
            }),
            Res::Err(e) => HttpResult::Err(e.clone()),
        }
    }
    fn to_json(&self) -> Value {
        match self {
            Res::Ok { status, headers, body } => json!({"t": "ok", "status": status,
                "headers": headers.iter().map(|(n, v)| json!([hex(n.as_bytes()), hex(v.as_bytes())])).collect::<Vec<_>>(), "body": hex(body)}),
            Res::Err(e) => obs_error(e),
        }
    }
}

#[derive(Clone, Debug)]
enum Mw {
    Pass { id: u64, add: Option<(String, String)> },
    Short { id: u64, result: Res },
    Issue { id: u64, pre: Vec<(String, Option<u8>)>, post: Vec<(String, Option<u8>)> },
    Retry { id: u64, n: u64 },
    Redirect { attempts: u8 },
}
impl Mw {
    fn to_json(&self) -> Value {
        let side = |l: &Vec<(String, Option<u8>)>| l.iter().map(|(u, a)| json!([hex(u.as_bytes()), a])).collect::<Vec<_>>();
        match self {
            Mw::Pass { id, add } => json!({"t": "pass", "id": id, "add": add.as_ref().map(|(n, v)| json!([hex(n.as_bytes()), hex(v.as_bytes())]))}),
            Mw::Short { id, result } => json!({"t": "short", "id": id, "result": result.to_json()}),
            Mw::Issue { id, pre, post } => json!({"t": "issue", "id": id, "pre": side(pre), "post": side(post)}),
            Mw::Retry { id, n } => json!({"t": "retry", "id": id, "n": n}),
            Mw::Redirect { attempts } => json!({"t": "redirect", "attempts": attempts}),
        }
    }
}

#[derive(Clone, Debug, Default)]
struct Case {
    api: u8, // 0 capability send, 1 command build, 2 capability send_async inside a command
    client_stack: Vec<Mw>,
    req_stack: Vec<Mw>,
    method: String,
    url: String,
    headers: Vec<(String, String)>, // distinct lower-case names
    body: Option<Vec<u8>>,
    graph: Vec<(String, Res)>,
    default: Option<Res>,
}

type Log = Arc<Mutex<Vec<Value>>>;

// ---------------------------------------------------------------- middleware built from descriptions
struct Live { desc: Mw, log: Log }

fn mark(log: &Log, v: Value) { log.lock().unwrap().push(v); }

#[async_trait]
impl Middleware for Live {
    async fn handle(&self, mut req: Request, client: Client, next: Next<'_>) -> crux_http::Result<ResponseAsync> {
        match &self.desc {
            Mw::Pass { id, add } => {
                mark(&self.log, json!({"m": "enter", "id": id}));
                if let Some((n, v)) = add { req.append_header(n.as_str(), v.as_str()); }
                let r = next.run(req, client).await;
                mark(&self.log, json!({"m": "exit", "id": id}));
                r
            }
            Mw::Short { id, result } => {
                mark(&self.log, json!({"m": "enter", "id": id}));
                mark(&self.log, json!({"m": "exit", "id": id}));
                match result.to_result() { HttpResult::Ok(resp) => Ok(ResponseAsync::from(resp)), HttpResult::Err(e) => Err(e) }
            }
            Mw::Issue { id, pre, post } => {
                mark(&self.log, json!({"m": "enter", "id": id}));
                for (u, att) in pre {
                    let mut b = client.get(u);
                    if let Some(a) = att { b = b.middleware(Redirect::new(*a)); }
                    let _ = b.await;
                }
                let r = next.run(req, client.clone()).await;
                for (u, att) in post {
                    let mut b = client.get(u);
                    if let Some(a) = att { b = b.middleware(Redirect::new(*a)); }
                    let _ = b.await;
                }
                mark(&self.log, json!({"m": "exit", "id": id}));
                r
            }
            Mw::Retry { id, n } => {
                mark(&self.log, json!({"m": "enter", "id": id}));
                for _ in 0..*n { let _ = next.run(req.clone(), client.clone()).await; }
                let r = next.run(req, client).await;
                mark(&self.log, json!({"m": "exit", "id": id}));
                r
            }
            Mw::Redirect { .. } => unreachable!("the real Redirect middleware is installed directly"),
        }
    }
}

// ---------------------------------------------------------------- the app
#[derive(Default)]
struct App { case: Option<Arc<Case>>, log: Log }

#[allow(clippy::large_enum_variant)]
enum Event {
    Go,
    Got(crux_http::Result<Response<Vec<u8>>>),
    GotAsync(Result<(u16, Vec<(String, Vec<String>)>, Vec<u8>), HttpError>),
}

#[derive(Effect)]
#[allow(unused)]
struct Capabilities { http: crux_http::Http<Event> }

fn method_of(m: &str) -> http_types::Method { m.parse().unwrap() }

impl crux_core::App for App {
    type Event = Event;
    type Model = ();
    type ViewModel = ();
    type Capabilities = Capabilities;
    type Effect = Effect;

    fn update(&self, event: Event, _model: &mut (), caps: &Capabilities) -> Command<Effect, Event> {
        let Event::Go = event else { return Command::done() };
        let case = self.case.clone().unwrap();
        let url: Url = case.url.parse().unwrap();
        match case.api {
            1 => {
                let mut b = CmdHttp::request(method_of(&case.method), url);
                for (n, v) in &case.headers { b = b.header(n.as_str(), v.as_str()); }
                if let Some(body) = &case.body { b = b.body_bytes(body); }
                for m in &case.req_stack {
                    b = match m { Mw::Redirect { attempts } => b.middleware(Redirect::new(*attempts)), m => b.middleware(Live { desc: m.clone(), log: self.log.clone() }) };
                }
                b.build().then_send(Event::Got)
            }
            api => {
                let mut http = caps.http.clone();
                for m in &case.client_stack {
                    http = match m { Mw::Redirect { attempts } => http.verif_with_middleware(Redirect::new(*attempts)), m => http.verif_with_middleware(Live { desc: m.clone(), log: self.log.clone() }) };
                }
                let mut b = http.request(method_of(&case.method), url);
                for (n, v) in &case.headers { b = b.header(n.as_str(), v.as_str()); }
                if let Some(body) = &case.body { b = b.body_bytes(body); }
                for m in &case.req_stack {
                    b = match m { Mw::Redirect { attempts } => b.middleware(Redirect::new(*attempts)), m => b.middleware(Live { desc: m.clone(), log: self.log.clone() }) };
                }
                if api == 0 {
                    b.send(Event::Got);
                    Command::done()
                } else {
                    let fut = b.send_async();
                    Command::new(|ctx| async move {
                        let ev = match fut.await {
                            Ok(mut res) => {
                                let status: u16 = res.status().into();
                                let mut hs: Vec<(String, Vec<String>)> = res.iter().map(|(n, vs)| (n.as_str().to_string(), vs.iter().map(|v| v.as_str().to_string()).collect())).collect();
                                hs.sort();
                                match res.body_bytes().await { Ok(b) => Event::GotAsync(Ok((status, hs, b))), Err(e) => Event::GotAsync(Err(e)) }
                            }
                            Err(e) => Event::GotAsync(Err(e)),
                        };
                        ctx.send_event(ev);
                    })
                }
            }
        }
    }
    fn view(&self, _model: &()) {}
}

fn obs_event(e: &Event) -> Value {
    match e {
        Event::Go => json!({"t": "go"}),
        Event::Got(r) => obs_bytes(r),
        Event::GotAsync(Ok((status, hs, body))) => json!({"t": "ok", "status": status, "version": Value::Null,
            "headers": hs.iter().map(|(n, vs)| json!([hex(n.as_bytes()), vs.iter().map(|v| hex(v.as_bytes())).collect::<Vec<_>>()])).collect::<Vec<_>>(),
            "bk": "bytes", "body": hex(body)}),
        Event::GotAsync(Err(e)) => obs_error(e),
    }
}

fn obs_request(r: &HttpRequest) -> Value {
    json!({"m": "shell", "method": hex(r.method.as_bytes()), "url": hex(r.url.as_bytes()),
           "headers": r.headers.iter().map(|h| json!([hex(h.name.as_bytes()), hex(h.value.as_bytes())])).collect::<Vec<_>>(), "body": hex(&r.body)})
}

fn shell_answer(case: &Case, url: &str) -> HttpResult {
    for (u, r) in &case.graph { if u == url { return r.to_result(); } }
    case.default.as_ref().unwrap().to_result()
}

/// Runs the real code on a case; the shell answers every HTTP effect from the graph.
fn run(case: Arc<Case>) -> Value {
    let log: Log = Arc::new(Mutex::new(vec![]));
    let log2 = log.clone();
    let r = catch_unwind(AssertUnwindSafe(move || {
        let app = AppTester::new(App { case: Some(case.clone()), log: log2.clone() });
        let mut model = ();
        let mut events: Vec<Value> = vec![];
        let mut anomalies: Vec<String> = vec![];
        let mut upd = app.update(Event::Go, &mut model);
        let mut fuel = 5000;
        loop {
            events.extend(upd.events.iter().map(obs_event));
            let mut effects: Vec<Effect> = std::mem::take(&mut upd.effects);
            if effects.is_empty() { break; }
            if effects.len() > 1 { anomalies.push(format!("{} effects at once", effects.len())); }
            let mut next_upd: Option<crux_core::testing::Update<Effect, Event>> = None;
            for eff in effects.drain(..) {
                let Effect::Http(mut req) = eff;
                mark(&log2, obs_request(&req.operation));
                let ans = shell_answer(&case, &req.operation.url);
                fuel -= 1;
                if fuel == 0 { anomalies.push("out of fuel".into()); return json!({"events": events, "panicked": false, "anomalies": anomalies}); }
                match app.resolve(&mut req, ans) {
                    Ok(u) => {
                        match &mut next_upd { None => next_upd = Some(u), Some(n) => { n.effects.extend(u.effects); n.events.extend(u.events); } }
                    }
                    Err(e) => anomalies.push(format!("resolve-error {:?}", e)),
                }
            }
            match next_upd { Some(u) => upd = u, None => break }
        }
        json!({"events": events, "panicked": false, "anomalies": anomalies})
    }));
    let mut o = r.unwrap_or_else(|_| json!({"events": [], "panicked": true, "anomalies": []}));
    o["log"] = Value::Array(log.lock().unwrap().clone());
    o
}

// ---------------------------------------------------------------- oracles: the url crate itself
fn oracle_parse(loc: &str) -> Value {
    match Url::parse(loc) {
        Ok(u) => json!({"abs": hex(u.to_string().as_bytes())}),
        Err(url::ParseError::RelativeUrlWithoutBase) => json!({"rel": true}),
        Err(e) => json!({"err": hex(e.to_string().as_bytes())}),
    }
}
fn oracle_join(base: &str, loc: &str) -> Value {
    match Url::parse(base).unwrap().join(loc) {
        Ok(u) => json!({"ok": hex(u.to_string().as_bytes())}),
        Err(e) => json!({"err": hex(e.to_string().as_bytes())}),
    }
}

// ---------------------------------------------------------------- generation
const HOSTS: [&str; 3] = ["http://example.com", "https://example.com", "http://other.test"];
const PATHS: [&str; 12] = ["/", "/a", "/a/b", "/x/y", "/x/z/w", "/x/z/q", "/x/q", "/loop1", "/loop2", "/end", "/a/b/c/d", "/dir/"];
const RELS: [&str; 24] = ["z/w", "q", "../k", "/abs/path", "?x=1", "#frag", "//other.test/p2", "./", "..", "", "b/c/", "../../up", "next?p=1&q=2",
    "x y", "%7Euser", "a/./b/../c", "/", "k;v=1",
    // relative references that CONTAIN a URL (a return address in the query, a fragment): still relative
    "/login?return_to=https://app.example/account", "cb?u=http://h.test/p&v=1", "#at=https://x.test/", "p/q?next=ftp://f.test/", "?r=http://example.com/x/y", "a://b"];
const BAD_LOCS: [&str; 6] = ["http://[::1", "http://", "https://exa mple.com/", "http://example.com:99999/", "http:///x", "http://a b/"];
const REDIRECT_CODES: [u16; 5] = [301, 302, 303, 307, 308];

fn gen_url(rng: &mut Rng) -> String { format!("{}{}", rng.pick(&HOSTS), rng.pick(&PATHS)) }

fn ok(status: u16, headers: Vec<(String, String)>, body: &[u8]) -> Res { Res::Ok { status, headers, body: body.to_vec() } }

fn gen_plain_answer(rng: &mut Rng) -> Res {
    match rng.below(12) {
        0..=5 => ok(200, vec![("content-type".into(), "text/plain".into())], b"final"),
        6 => ok(*rng.pick(&[201u16, 204, 206]), vec![], b""),
        7 => ok(*rng.pick(&[404u16, 500, 403]), vec![], b"nope"),
        8 => ok(*rng.pick(&[300u16, 304, 305 /* unknown to http-types */, 306, 399]), vec![("location".into(), "http://example.com/end".into())], b""),
        9 => Res::Err(match rng.below(3) { 0 => HttpError::Timeout, 1 => HttpError::Io("net down".into()), _ => HttpError::Url("bad".into()) }),
        10 => ok(299, vec![], b"odd"),
        _ => ok(200, vec![("x-note".into(), "é".into())], b"non-ascii header"),
    }
}

/// A shell as a function of the URL, built by walking from `start`: each visited URL gets an answer;
/// redirects continue the walk at the URL the url crate resolves (so chains of relative locations stay
/// inside the graph), sometimes back to an earlier URL (loops).
fn gen_graph(rng: &mut Rng, start: &str, graph: &mut Vec<(String, Res)>, malformed: bool) {
    let mut cur = start.to_string();
    let len = match rng.below(8) { 0 => 0, 1 | 2 => 1, 3 | 4 => 2, 5 => 3, 6 => rng.range(4, 6), _ => rng.range(0, 9) };
    for _ in 0..len {
        if graph.iter().any(|(u, _)| *u == cur) { return; } // a loop closed
        let code = *rng.pick(&REDIRECT_CODES);
        let visited: Vec<String> = graph.iter().map(|(u, _)| u.clone()).collect();
        let kind = rng.below(if malformed { 14 } else { 10 });
        let (locs, next): (Vec<String>, Option<String>) = match kind {
            0..=2 => { let u = gen_url(rng); (vec![u.clone()], Some(u)) }                       // absolute
            3..=6 => { let r = rng.pick(&RELS).to_string(); let n = Url::parse(&cur).unwrap().join(&r).ok().map(|u| u.to_string()); (vec![r], n) } // relative
            7 if !visited.is_empty() => { let u = rng.pick(&visited).clone(); (vec![u.clone()], Some(u)) } // loop back (absolute)
            7 => (vec![cur.clone()], Some(cur.clone())),                                       // self loop
            8 => (vec![], Some(cur.clone())),                                                   // redirect without Location
            9 => { let a = gen_url(rng); let b = rng.pick(&RELS).to_string(); let n = Url::parse(&cur).unwrap().join(&b).ok().map(|u| u.to_string()); (vec![a, b], n) } // two Location headers, the last counts
            10 | 11 => (vec![rng.pick(&BAD_LOCS).to_string()], None),                           // invalid Location
            12 => (vec!["http://example.com/é".to_string()], None),                             // non-ASCII Location
            _ => { let r = format!("{}/{}", rng.pick(&RELS), gen_text_ascii(rng)); let n = Url::parse(&cur).unwrap().join(&r).ok().map(|u| u.to_string()); (vec![r], n) }
        };
        let mut headers: Vec<(String, String)> = vec![];
        if rng.coin(1, 3) { headers.push(("x-hop".into(), "1".into())); }
        for l in &locs { headers.push((if rng.coin(1, 4) { "Location".into() } else { "location".into() }, l.clone())); }
        graph.push((cur.clone(), ok(code, headers, b"moved")));
        match next { Some(n) => cur = n, None => return }
    }
    if !graph.iter().any(|(u, _)| *u == cur) { let a = gen_plain_answer(rng); graph.push((cur, a)); }
}

fn gen_text_ascii(rng: &mut Rng) -> String {
    let n = rng.range(1, 6);
    (0..n).map(|_| *rng.pick(&['a', 'b', 'k', 'z', '0', '7', '-', '_', '.', '~'])).collect()
}

fn gen_attempts(rng: &mut Rng) -> u8 { *rng.pick(&[0u8, 1, 1, 2, 2, 3, 3, 3, 4, 5, 8, 255]) }

fn gen_stack(rng: &mut Rng, next_id: &mut u64, graph: &mut Vec<(String, Res)>, allow_redirect: bool, malformed: bool) -> Vec<Mw> {
    let n = match rng.below(10) { 0 | 1 => 0, 2..=4 => 1, 5 | 6 => 2, 7 => 3, _ => rng.range(0, 6) };
    let mut s = vec![];
    for _ in 0..n {
        *next_id += 1;
        let id = *next_id;
        let m = match rng.below(12) {
            0..=4 => Mw::Pass { id, add: if rng.coin(1, 2) { Some((format!("x-mw-{}", id), format!("v{}", rng.below(10)))) } else { None } },
            5 | 6 if allow_redirect => Mw::Redirect { attempts: gen_attempts(rng) },
            7 => Mw::Short { id, result: match rng.below(4) {
                0 => Res::Err(HttpError::Timeout),
                1 => ok(404, vec![], b"short"),
                2 => ok(302, vec![("location".into(), "http://example.com/end".into())], b""),
                _ => ok(200, vec![("x-short".into(), "1".into())], b"cached") } },
            8 | 9 => {
                let mut side = |rng: &mut Rng, graph: &mut Vec<(String, Res)>| -> Vec<(String, Option<u8>)> {
                    let k = rng.below(3);
                    (0..k).map(|_| { let u = gen_url(rng); gen_graph(rng, &u, graph, malformed); (u, if rng.coin(1, 2) { Some(gen_attempts(rng).min(5)) } else { None }) }).collect()
                };
                let pre = side(rng, graph); let post = side(rng, graph);
                Mw::Issue { id, pre, post }
            }
            10 => Mw::Retry { id, n: rng.range(1, 2) },
            _ => Mw::Pass { id, add: None },
        };
        s.push(m);
    }
    s
}

fn gen_case(rng: &mut Rng, i: usize) -> Case {
    let malformed = i % 5 == 4;
    let api = rng.below(3) as u8;
    let url = gen_url(rng);
    let mut graph = vec![];
    gen_graph(rng, &url, &mut graph, malformed);
    let mut next_id = 0;
    let client_stack = if api == 1 { vec![] } else { gen_stack(rng, &mut next_id, &mut graph, true, malformed) };
    let req_stack = gen_stack(rng, &mut next_id, &mut graph, true, malformed);
    let method = rng.pick(&["GET", "GET", "POST", "PUT", "DELETE", "PATCH", "HEAD"]).to_string();
    let mut headers: Vec<(String, String)> = vec![];
    for h in ["accept", "authorization", "x-req"] { if rng.coin(1, 3) { headers.push((h.to_string(), gen_text_ascii(rng))); } }
    if rng.coin(1, 6) { headers.push(("content-type".to_string(), "text/plain".to_string())); }
    headers.sort();
    let body = if rng.coin(1, 2) { Some(gen_text_ascii(rng).into_bytes()) } else { None };
    let default = Some(if rng.coin(3, 4) { ok(200, vec![], b"default") } else { gen_plain_answer(rng) });
    Case { api, client_stack, req_stack, method, url, headers, body, graph, default }
}

fn case_json(c: &Case) -> Value {
    // the request the shell must see when nothing rewrites it, computed from the description alone
    let mut hs = c.headers.clone();
    if c.body.is_some() && !hs.iter().any(|(n, _)| n == "content-type") { hs.push(("content-type".into(), "application/octet-stream".into())); }
    hs.sort();
    json!({"api": c.api, "desc_headers": c.headers.iter().map(|(n, v)| json!([hex(n.as_bytes()), hex(v.as_bytes())])).collect::<Vec<_>>(), "has_body": c.body.is_some(),
        "client_stack": c.client_stack.iter().map(|m| m.to_json()).collect::<Vec<_>>(),
        "req_stack": c.req_stack.iter().map(|m| m.to_json()).collect::<Vec<_>>(),
        "request": {"method": hex(c.method.as_bytes()), "url": hex(c.url.as_bytes()),
                    "headers": hs.iter().map(|(n, v)| json!([hex(n.as_bytes()), hex(v.as_bytes())])).collect::<Vec<_>>(),
                    "body": hex(c.body.as_deref().unwrap_or(&[]))},
        "graph": c.graph.iter().map(|(u, r)| json!([hex(u.as_bytes()), r.to_json()])).collect::<Vec<_>>(),
        "default": c.default.as_ref().unwrap().to_json()})
}

fn res_from_json(v: &Value) -> Res {
    if v["t"] == "ok" { let (status, headers, body) = response_parts(v); Res::Ok { status, headers, body } } else { Res::Err(error_from_json(v)) }
}
fn mw_from_json(v: &Value) -> Mw {
    let side = |l: &Value| -> Vec<(String, Option<u8>)> { l.as_array().unwrap().iter().map(|s| (unhex_str(&s[0]), s[1].as_u64().map(|a| a as u8))).collect() };
    let id = v["id"].as_u64().unwrap_or(0);
    match v["t"].as_str().unwrap() {
        "pass" => Mw::Pass { id, add: if v["add"].is_null() { None } else { Some((unhex_str(&v["add"][0]), unhex_str(&v["add"][1]))) } },
        "short" => Mw::Short { id, result: res_from_json(&v["result"]) },
        "issue" => Mw::Issue { id, pre: side(&v["pre"]), post: side(&v["post"]) },
        "retry" => Mw::Retry { id, n: v["n"].as_u64().unwrap() },
        _ => Mw::Redirect { attempts: v["attempts"].as_u64().unwrap() as u8 },
    }
}
/// the inverse of case_json (corpus, shrinking candidates)
fn case_from_json(v: &Value) -> Case {
    let stack = |l: &Value| -> Vec<Mw> { l.as_array().unwrap().iter().map(mw_from_json).collect() };
    Case {
        api: v["api"].as_u64().unwrap() as u8,
        client_stack: stack(&v["client_stack"]),
        req_stack: stack(&v["req_stack"]),
        method: unhex_str(&v["request"]["method"]),
        url: unhex_str(&v["request"]["url"]),
        headers: v["desc_headers"].as_array().unwrap().iter().map(|h| (unhex_str(&h[0]), unhex_str(&h[1]))).collect(),
        body: if v["has_body"].as_bool().unwrap_or(false) { Some(unhex(v["request"]["body"].as_str().unwrap_or(""))) } else { None },
        graph: v["graph"].as_array().unwrap().iter().map(|g| (unhex_str(&g[0]), res_from_json(&g[1]))).collect(),
        default: Some(res_from_json(&v["default"])),
    }
}

fn oracles(c: &Case) -> Value {
    // every Location value the shell can send, and every URL that can become current
    let mut locs: Vec<String> = vec![];
    let mut collect = |r: &Res| if let Res::Ok { headers, .. } = r { for (n, v) in headers { if n.eq_ignore_ascii_case("location") && !locs.contains(v) { locs.push(v.clone()); } } };
    for (_, r) in &c.graph { collect(r); }
    collect(c.default.as_ref().unwrap());
    for m in c.client_stack.iter().chain(c.req_stack.iter()) { if let Mw::Short { result, .. } = m { collect(result); } }
    let mut urls: Vec<String> = vec![c.url.clone()];
    for (u, _) in &c.graph { if !urls.contains(u) { urls.push(u.clone()); } }
    for m in c.client_stack.iter().chain(c.req_stack.iter()) {
        if let Mw::Issue { pre, post, .. } = m { for (u, _) in pre.iter().chain(post.iter()) { if !urls.contains(u) { urls.push(u.clone()); } } }
    }
    // close the URL set under resolution (bounded: a few rounds are enough for every generated chain)
    for _ in 0..3 {
        let mut more = vec![];
        for u in &urls { for l in &locs {
            let n = match Url::parse(l) { Ok(a) => Some(a.to_string()), Err(url::ParseError::RelativeUrlWithoutBase) => Url::parse(u).unwrap().join(l).ok().map(|x| x.to_string()), Err(_) => None };
            if let Some(n) = n { if !urls.contains(&n) && !more.contains(&n) && urls.len() + more.len() < 60 { more.push(n); } }
        } }
        if more.is_empty() { break; }
        urls.extend(more);
    }
    let parse: Vec<Value> = locs.iter().map(|l| json!([hex(l.as_bytes()), oracle_parse(l)])).collect();
    let mut join: Vec<Value> = vec![];
    for u in &urls { for l in &locs { if matches!(Url::parse(l), Err(url::ParseError::RelativeUrlWithoutBase)) { join.push(json!([hex(u.as_bytes()), hex(l.as_bytes()), oracle_join(u, l)])); } } }
    json!({"parse": parse, "join": join})
}

fn main() {
    let args: Vec<String> = std::env::args().collect();
    let seed: u64 = args.get(1).and_then(|s| s.parse().ok()).unwrap_or(1);
    let count: usize = args.get(2).and_then(|s| s.parse().ok()).unwrap_or(500);
    std::panic::set_hook(Box::new(|_| {}));
    let mut rng = Rng::new(seed ^ 0xC16);
    let mut fixed: Vec<Case> = vec![];
    // the two-relative-redirects witness of the design (x/y -> "z/w" -> x/z/w -> "q" must end at x/z/q), in every API
    for api in 0..3u8 {
        fixed.push(Case { api, client_stack: vec![], req_stack: vec![Mw::Redirect { attempts: 3 }], method: "POST".into(), url: "http://example.com/x/y".into(),
            headers: vec![], body: Some(b"payload".to_vec()),
            graph: vec![("http://example.com/x/y".into(), ok(302, vec![("location".into(), "z/w".into())], b"")),
                        ("http://example.com/x/z/w".into(), ok(302, vec![("location".into(), "q".into())], b"")),
                        ("http://example.com/x/z/q".into(), ok(200, vec![], b"right")),
                        ("http://example.com/x/q".into(), ok(200, vec![], b"wrong"))],
            default: Some(ok(404, vec![], b"default")) });
    }
    if let Some(path) = args.get(3) {
        for line in std::fs::read_to_string(path).unwrap_or_default().lines() {
            let Ok(v) = serde_json::from_str::<Value>(line) else { continue };
            let c = case_from_json(&v["case"]);
            let cj = case_json(&c);
            let oj = oracles(&c);
            let o = run(Arc::new(c));
            println!("{}", json!({"k": "case", "corpus": true, "name": v["name"], "case": cj, "oracle": oj, "impl": o, "malformed": false}));
        }
    }
    let mut n = 0;
    let mut i = 0;
    while n < count {
        let c = if i < fixed.len() { fixed[i].clone() } else { gen_case(&mut rng, i) };
        i += 1;
        // URLs must be in the url crate's own normal form, otherwise the description and the wire differ
        if Url::parse(&c.url).map(|u| u.to_string() != c.url).unwrap_or(true) { continue; }
        let cj = case_json(&c);
        let oj = oracles(&c);
        let o = run(Arc::new(c));
        println!("{}", json!({"k": "case", "case": cj, "oracle": oj, "impl": o, "malformed": (i - 1) % 5 == 4}));
        n += 1;
    }
}
