//! C19 correspondence: run every crux_time conversion on boundary and random inputs and print
//! one JSON line per case {op,a,b,impl}; the Coq model is evaluated on the same (op,a,b).
use chrono::{DateTime, TimeDelta, Utc};
use crux_time::{Duration, Instant};
use std::panic::{catch_unwind, AssertUnwindSafe};
use std::time::{Duration as StdDuration, SystemTime};
use vh::rng::Rng;

const NPS: i128 = 1_000_000_000;
const U64M: i128 = u64::MAX as i128;
const I64M: i128 = i64::MAX as i128;
const U32M: i128 = u32::MAX as i128;
const TD_MAX: i128 = I64M * 1_000_000;

const OPS: [&str; 12] = ["OFromMillis","OFromSecs","ODurOfStd","OStdOfDur","OInstantNew","OInstantOfSys",
    "OSysOfInstant","ODurOfTd","OTdOfDur","ODtOfInstant","OInstantOfDt","OInstantDeser"];

fn mk_instant(s: u64, ns: u32) -> Instant {
    serde_json::from_str(&format!("{{\"seconds\":{},\"nanos\":{}}}", s, ns)).unwrap()
}
fn instant_fields(i: &Instant) -> (i128, i128) {
    let v: serde_json::Value = serde_json::to_value(i).unwrap();
    (v["seconds"].as_u64().unwrap() as i128, v["nanos"].as_u64().unwrap() as i128)
}
fn dur_nanos(d: &Duration) -> i128 {
    let v: serde_json::Value = serde_json::to_value(d).unwrap();
    v["nanos"].as_u64().unwrap() as i128
}
fn err_code(e: &crux_time::protocol::chrono::TimeError) -> i128 {
    use crux_time::protocol::chrono::TimeError::*;
    match e { InvalidTime => 0, InvalidDuration => 1, InvalidInstant => 2 }
}

enum R { Ok(Vec<i128>), Err(i128) }

fn run(op: usize, a: i128, b: i128) -> Vec<i128> {
    let r = catch_unwind(AssertUnwindSafe(|| -> R {
        match op {
            0 => R::Ok(vec![dur_nanos(&Duration::from_millis(a as u64))]),
            1 => R::Ok(vec![dur_nanos(&Duration::from_secs(a as u64))]),
            2 => { let d: Duration = StdDuration::new(a as u64, b as u32).into(); R::Ok(vec![dur_nanos(&d)]) }
            3 => { let d: StdDuration = Duration::new(a as u64).into(); R::Ok(vec![d.as_secs() as i128, d.subsec_nanos() as i128]) }
            4 => { let i = Instant::new(a as u64, b as u32); let (s, n) = instant_fields(&i); R::Ok(vec![s, n]) }
            5 => {
                let t = if a >= 0 { SystemTime::UNIX_EPOCH + StdDuration::new(a as u64, b as u32) }
                        else { SystemTime::UNIX_EPOCH.checked_sub(StdDuration::new((a as i64).unsigned_abs(), 0)).unwrap() + StdDuration::new(0, b as u32) };
                let i: Instant = t.into(); let (s, n) = instant_fields(&i); R::Ok(vec![s, n])
            }
            6 => {
                let t: SystemTime = mk_instant(a as u64, b as u32).into();
                let d = t.duration_since(SystemTime::UNIX_EPOCH).unwrap();
                R::Ok(vec![d.as_secs() as i128, d.subsec_nanos() as i128])
            }
            7 => {
                let td = TimeDelta::new(a.div_euclid(NPS) as i64, a.rem_euclid(NPS) as u32).unwrap();
                match Duration::try_from(td) { Ok(d) => R::Ok(vec![dur_nanos(&d)]), Err(e) => R::Err(err_code(&e)) }
            }
            8 => match TimeDelta::try_from(Duration::new(a as u64)) {
                Ok(td) => R::Ok(vec![td.num_seconds() as i128 * NPS + td.subsec_nanos() as i128]),
                Err(e) => R::Err(err_code(&e)),
            },
            9 => match DateTime::<Utc>::try_from(mk_instant(a as u64, b as u32)) {
                Ok(dt) => R::Ok(vec![dt.timestamp() as i128, dt.timestamp_subsec_nanos() as i128]),
                Err(e) => R::Err(err_code(&e)),
            },
            10 => {
                let dt = DateTime::<Utc>::from_timestamp(a as i64, b as u32).unwrap();
                match Instant::try_from(dt) { Ok(i) => { let (s, n) = instant_fields(&i); R::Ok(vec![s, n]) }, Err(e) => R::Err(err_code(&e)) }
            }
            11 => {
                // both wire formats must agree; bincode: u64 LE then u32 LE
                let mut bytes = (a as u64).to_le_bytes().to_vec(); bytes.extend((b as u32).to_le_bytes());
                let i: Instant = bincode::deserialize(&bytes).unwrap();
                let j = mk_instant(a as u64, b as u32);
                assert!(i == j);
                let (s, n) = instant_fields(&i); R::Ok(vec![s, n])
            }
            _ => unreachable!(),
        }
    }));
    match r {
        Ok(R::Ok(v)) => { let mut o = vec![0]; o.extend(v); o }
        Ok(R::Err(e)) => vec![1, e],
        Err(_) => vec![2],
    }
}

fn valid(op: usize, a: i128, b: i128) -> bool {
    match op {
        0 | 1 | 3 | 8 => (0..=U64M).contains(&a),
        2 => (0..=U64M).contains(&a) && (0..NPS).contains(&b),
        4 | 6 | 9 | 11 => (0..=U64M).contains(&a) && (0..=U32M).contains(&b),
        5 => (i64::MIN as i128..=I64M).contains(&a) && (0..NPS).contains(&b),
        7 => (-TD_MAX..=TD_MAX).contains(&a),
        10 => DateTime::<Utc>::from_timestamp(a.clamp(i64::MIN as i128, I64M) as i64, b.clamp(0, U32M) as u32).is_some()
              && (i64::MIN as i128..=I64M).contains(&a) && (0..=U32M).contains(&b),
        _ => false,
    }
}

fn main() {
    let args: Vec<String> = std::env::args().collect();
    let seed: u64 = args.get(1).and_then(|s| s.parse().ok()).unwrap_or(1);
    let count: usize = args.get(2).and_then(|s| s.parse().ok()).unwrap_or(2000);
    std::panic::set_hook(Box::new(|_| {}));
    let ts_min = DateTime::<Utc>::MIN_UTC.timestamp() as i128;
    let ts_max = DateTime::<Utc>::MAX_UTC.timestamp() as i128;
    let base: Vec<i128> = vec![0, 1, 2, 59, 60, 86399, 86400, 999_999_999, NPS, NPS + 1, 2 * NPS - 1, 2 * NPS, U32M - 1, U32M, U32M + 1,
        I64M - 1, I64M, I64M + 1, U64M - 1, U64M, U64M / 1_000_000, U64M / 1_000_000 + 1, U64M / NPS as i128, U64M / NPS as i128 + 1,
        I64M / NPS as i128, I64M / NPS as i128 + 1, ts_max - 1, ts_max, ts_max + 1, ts_min - 1, ts_min, ts_min + 1, TD_MAX - 1, TD_MAX, TD_MAX + 1,
        1_483_228_799, 1_483_228_800, 18_446_744_073, 709_551_615, 709_551_616, 1 << 62, 1 << 63, (1 << 63) + 5];
    let mut vals: Vec<i128> = base.clone();
    for v in &base { vals.push(-*v); }
    let bvals: Vec<i128> = vec![0, 1, 5, 999_999_998, 999_999_999, NPS, NPS + 1, 1_999_999_999, 2 * NPS, 2 * NPS + 1, 3 * NPS + 7, U32M - 1, U32M, 709_551_615, 709_551_616];
    let mut cases: Vec<(usize, i128, i128)> = vec![];
    for op in 0..12 {
        for a in &vals { for b in &bvals {
            let unary = matches!(op, 0 | 1 | 3 | 7 | 8);
            if unary && *b != 0 { continue; }
            if valid(op, *a, *b) { cases.push((op, *a, *b)); }
        } }
    }
    let n_boundary = cases.len();
    let mut rng = Rng::new(seed);
    let mut tries = 0;
    while cases.len() < n_boundary + count && tries < count * 50 {
        tries += 1;
        let op = rng.below(12) as usize;
        // magnitudes spread over bit widths, offsets around boundaries
        let mag = |rng: &mut Rng| -> i128 {
            match rng.below(4) {
                0 => { let bits = rng.range(0, 64); (rng.next() as u128 >> (64 - bits.min(64)).min(63)) as i128 }
                1 => { let c = *rng.pick(&base); c + rng.range(0, 2000) as i128 - 1000 }
                2 => rng.next() as i128,
                _ => (rng.next() % 4_000_000_000_000) as i128,
            }
        };
        let mut a = mag(&mut rng);
        if matches!(op, 5 | 7 | 10) && rng.coin(1, 3) { a = -a; }
        if op == 7 { a = a * (if rng.coin(1, 4) { 1_000_000 } else { 1 }); }
        let b = match rng.below(5) { 0 => rng.below(NPS as u64) as i128, 1 => *rng.pick(&bvals), 2 => rng.below(1 << 32) as i128, 3 => NPS + rng.below(NPS as u64) as i128, _ => rng.below(1000) as i128 };
        let b = if matches!(op, 0 | 1 | 3 | 7 | 8) { 0 } else { b };
        let a = if op == 10 && rng.coin(1, 2) { let m = a.rem_euclid(60); a - m + 59 } else { a };
        if valid(op, a, b) { cases.push((op, a, b)); }
    }
    for (op, a, b) in cases {
        let o = run(op, a, b);
        println!("{{\"op\":\"{}\",\"a\":\"{}\",\"b\":\"{}\",\"impl\":[{}]}}", OPS[op], a, b,
                 o.iter().map(|x| format!("\"{}\"", x)).collect::<Vec<_>>().join(","));
    }
}
