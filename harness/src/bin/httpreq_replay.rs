//! C11 correspondence driver.
//!
//! (1) Replays.  A history (events that make an app issue HTTP requests with several headers, key-value
//! and time operations and renders, through the command and the capability APIs; resolutions of
//! outstanding requests; view reads) is replayed against a FRESH real `Core` three times in this process
//! and once in each of two further PROCESSES (this binary re-executes itself: fresh hash seeds, fresh
//! timer counter).  Every replay yields, per step, the bincode serialisation of the effect requests
//! (timer ids renumbered by first occurrence) and of the view; the five byte strings must be identical.
//! Each child process also runs the history through the real `Bridge` and prints the RAW bytes it returns
//! (effect ids, timer ids, view); those must be identical between the two processes as they are.
//! The first replay's effects are also printed typed, with raw timer ids, for comparison with the model
//! (coq/HttpReq/Replay.v).
//! (2) Equality.  `==` is evaluated both ways on pairs of `crux_http::Response` built from descriptions
//! (same content through different call sequences, mutations, independent) and on pairs of protocol
//! values with derived equality, each printed with its description as a value tree.
//!
//! usage: httpreq_replay <seed> <histories> <eq-cases>      parent (spawns `--child` twice)
//!        httpreq_replay --child <seed> <histories>         prints one hex line per history
//!        httpreq_replay --replay <file>                    re-run the histories / eq cases of a JSON-lines file
use std::collections::BTreeMap;
use std::io::BufRead;

use crux_core::macros::Effect;
use crux_core::render::{render, Render, RenderOperation};
use crux_core::{Command, Core};
use crux_http::protocol::{HttpHeader, HttpRequest, HttpResponse, HttpResult};
use crux_http::HttpError;
use crux_kv::error::KeyValueError;
use crux_kv::value::Value as KvValue;
use crux_kv::{KeyValue, KeyValueOperation, KeyValueResponse, KeyValueResult};
use crux_time::{Time, TimeRequest, TimeResponse, TimerId};
use serde::{Deserialize, Serialize};
use serde_json::{json, Value};
use vh::rng::Rng;

#[path = "httpreq_util/desc.rs"]
#[macro_use]
mod desc;
use desc::*;

// ------------------------------------------------------------------ histories
#[derive(Serialize, Deserialize, Clone, Debug)]
#[serde(tag = "t")]
pub enum KvOp {
    Get { key: String }, Set { key: String, hex: String }, Delete { key: String }, Exists { key: String }, List { prefix: String, cursor: u64 },
}
#[derive(Serialize, Deserialize, Clone, Debug)]
#[serde(tag = "t")]
pub enum AOp {
    Http { desc: Desc },
    Kv { api: String, op: KvOp },
    Now { api: String },
    After { api: String, nanos: u64 },
    At { api: String, secs: u64, nanos: u32 },
    Clear { j: u64 },
    Render { api: String },
}
#[derive(Serialize, Deserialize, Clone, Debug)]
#[serde(tag = "t")]
pub enum Step { Event { ops: Vec<AOp> }, Resolve { k: u64, seed: u64 }, View }

// ------------------------------------------------------------------ the app
#[derive(Serialize, Deserialize)]
pub enum Event {
    /// the operations as JSON text (the description types use serde features bincode cannot read back)
    Go(String),
    Http(crux_http::Result<crux_http::Response<Vec<u8>>>),
    Kv(String),
    TimeCap(TimeResponse),
    TimeCmd(String),
}
#[derive(Default)]
pub struct App;
#[derive(Default)]
pub struct Model { log: Vec<String>, timers: Vec<TimerId>, last: Option<crux_http::Response<Vec<u8>>> }
#[derive(Effect)]
pub struct Capabilities { http: crux_http::Http<Event>, kv: KeyValue<Event>, render: Render<Event>, time: Time<Event> }
/// the view shows the log and the last HTTP response as the API value itself (its Serialize impl is part of
/// what must not depend on hash seeds)
#[derive(Serialize, Default)]
pub struct ViewModel { log: Vec<String>, last: Option<crux_http::Response<Vec<u8>>> }

type CHttp = crux_http::command::Http<Effect, Event>;
type CKv = crux_kv::command::KeyValue<Effect, Event>;
type CTime = crux_time::command::Time<Effect, Event>;

fn cap_http(http: &crux_http::Http<Event>, d: &Desc) {
    let mut b = if d.entry == "request" { http.request(method_of(&d.method), d.url.parse().unwrap()) } else {
        match d.method.as_str() {
            "GET" => http.get(&d.url), "HEAD" => http.head(&d.url), "POST" => http.post(&d.url), "PUT" => http.put(&d.url), "DELETE" => http.delete(&d.url),
            "PATCH" => http.patch(&d.url), "OPTIONS" => http.options(&d.url), "TRACE" => http.trace(&d.url), _ => http.connect(&d.url),
        }
    };
    for op in &d.ops[..d.split] { b = apply_builder!(b, op).expect("replay histories hold accepted descriptions only"); }
    if d.split < d.ops.len() { b = b.middleware(Stage2(d.ops[d.split..].to_vec())); }
    b.send(Event::Http);
}
fn cmd_http(d: &Desc) -> Command<Effect, Event> {
    let mut b = if d.entry == "request" { CHttp::request(method_of(&d.method), d.url.parse().unwrap()) } else {
        match d.method.as_str() {
            "GET" => CHttp::get(&d.url), "HEAD" => CHttp::head(&d.url), "POST" => CHttp::post(&d.url), "PUT" => CHttp::put(&d.url), "DELETE" => CHttp::delete(&d.url),
            "PATCH" => CHttp::patch(&d.url), "OPTIONS" => CHttp::options(&d.url), "TRACE" => CHttp::trace(&d.url), _ => CHttp::connect(&d.url),
        }
    };
    for op in &d.ops[..d.split] { b = apply_builder!(b, op).expect("replay histories hold accepted descriptions only"); }
    if d.split < d.ops.len() { b = b.middleware(Stage2(d.ops[d.split..].to_vec())); }
    b.build().then_send(Event::Http)
}
struct Stage2(Vec<Op>);
#[async_trait::async_trait]
impl crux_http::middleware::Middleware for Stage2 {
    async fn handle(&self, mut req: crux_http::Request, client: crux_http::client::Client, next: crux_http::middleware::Next<'_>) -> crux_http::Result<crux_http::ResponseAsync> {
        for op in &self.0 { apply_request(&mut req, op).expect("accepted descriptions only"); }
        next.run(req, client).await
    }
}

impl crux_core::App for App {
    type Event = Event; type Model = Model; type ViewModel = ViewModel; type Capabilities = Capabilities; type Effect = Effect;
    fn update(&self, event: Event, model: &mut Model, caps: &Capabilities) -> Command<Effect, Event> {
        match event {
            Event::Go(ops) => {
                let ops: Vec<AOp> = serde_json::from_str(&ops).expect("ops");
                let mut cmds: Vec<Command<Effect, Event>> = vec![];
                for op in ops {
                    match op {
                        AOp::Http { desc } => if desc.api == "cap" { cap_http(&caps.http, &desc) } else { cmds.push(cmd_http(&desc)) },
                        AOp::Kv { api, op } => {
                            let cap = api == "cap";
                            match op {
                                KvOp::Get { key } => if cap { caps.kv.get(key, |r| Event::Kv(format!("{r:?}"))) } else { cmds.push(CKv::get(key).then_send(|r| Event::Kv(format!("{r:?}")))) },
                                KvOp::Set { key, hex: h } => if cap { caps.kv.set(key, unhex(&h), |r| Event::Kv(format!("{r:?}"))) } else { cmds.push(CKv::set(key, unhex(&h)).then_send(|r| Event::Kv(format!("{r:?}")))) },
                                KvOp::Delete { key } => if cap { caps.kv.delete(key, |r| Event::Kv(format!("{r:?}"))) } else { cmds.push(CKv::delete(key).then_send(|r| Event::Kv(format!("{r:?}")))) },
                                KvOp::Exists { key } => if cap { caps.kv.exists(key, |r| Event::Kv(format!("{r:?}"))) } else { cmds.push(CKv::exists(key).then_send(|r| Event::Kv(format!("{r:?}")))) },
                                KvOp::List { prefix, cursor } => if cap { caps.kv.list_keys(prefix, cursor, |r| Event::Kv(format!("{r:?}"))) } else { cmds.push(CKv::list_keys(prefix, cursor).then_send(|r| Event::Kv(format!("{r:?}")))) },
                            }
                        }
                        AOp::Now { api } => if api == "cap" { caps.time.now(Event::TimeCap) } else { cmds.push(CTime::now().then_send(|t| Event::TimeCmd(format!("{:?}", t.duration_since(std::time::UNIX_EPOCH))))) },
                        AOp::After { api, nanos } => if api == "cap" {
                            let id = caps.time.notify_after(std::time::Duration::from_nanos(nanos), Event::TimeCap); model.timers.push(id);
                        } else {
                            let (b, _handle) = CTime::notify_after(std::time::Duration::from_nanos(nanos)); // handle dropped: the timer is just not abortable
                            cmds.push(b.then_send(|o| Event::TimeCmd(match o { crux_time::command::TimerOutcome::Completed(_) => "completed".into(), crux_time::command::TimerOutcome::Cleared => "cleared".into() })));
                        },
                        AOp::At { api, secs, nanos } => {
                            let t = std::time::UNIX_EPOCH + std::time::Duration::new(secs, nanos);
                            if api == "cap" { let id = caps.time.notify_at(t, Event::TimeCap); model.timers.push(id); } else {
                                let (b, _handle) = CTime::notify_at(t);
                                cmds.push(b.then_send(|o| Event::TimeCmd(match o { crux_time::command::TimerOutcome::Completed(_) => "completed".into(), crux_time::command::TimerOutcome::Cleared => "cleared".into() })));
                            }
                        }
                        AOp::Clear { j } => if !model.timers.is_empty() { caps.time.clear(model.timers[(j % model.timers.len() as u64) as usize]) },
                        AOp::Render { api } => if api == "cap" { caps.render.render() } else { cmds.push(render()) },
                    }
                }
                Command::all(cmds)
            }
            Event::Http(r) => {
                if let Ok(resp) = &r { model.last = Some(resp.clone()); }
                model.log.push(match r {
                    Ok(resp) => {
                        let mut hs: Vec<String> = resp.iter().map(|(n, vs)| format!("{}={}", n, vs.iter().map(|v| v.as_str()).collect::<Vec<_>>().join("|"))).collect();
                        hs.sort(); // the app, not the map, decides the order in which it shows headers
                        format!("http ok {} [{}] {:?}", resp.status(), hs.join(","), resp.body())
                    }
                    Err(e) => format!("http err {e:?}"),
                });
                Command::done()
            }
            Event::Kv(s) => { model.log.push(s); Command::done() }
            Event::TimeCap(t) => {
                // timer ids are process-wide: the app shows WHICH of its timers fired, not the raw id
                let idx = |id: TimerId| model.timers.iter().position(|x| *x == id);
                model.log.push(match t {
                    TimeResponse::Now { instant } => format!("now {instant:?}"),
                    TimeResponse::InstantArrived { id } => format!("arrived {:?}", idx(id)),
                    TimeResponse::DurationElapsed { id } => format!("elapsed {:?}", idx(id)),
                    TimeResponse::Cleared { id } => format!("cleared {:?}", idx(id)),
                });
                Command::done()
            }
            Event::TimeCmd(s) => { model.log.push(s); Command::done() }
        }
    }
    fn view(&self, m: &Model) -> ViewModel { ViewModel { log: m.log.clone(), last: m.last.clone() } }
}

// ------------------------------------------------------------------ one replay
#[derive(Default)]
struct Renumber { seen: Vec<usize> }
impl Renumber {
    fn id(&mut self, id: TimerId) -> TimerId {
        match self.seen.iter().position(|x| *x == id.0) { Some(i) => TimerId(i), None => { self.seen.push(id.0); TimerId(self.seen.len() - 1) } }
    }
    fn req(&mut self, t: &TimeRequest) -> TimeRequest {
        match t {
            TimeRequest::Now => TimeRequest::Now,
            TimeRequest::NotifyAt { id, instant } => TimeRequest::NotifyAt { id: self.id(*id), instant: instant.clone() },
            TimeRequest::NotifyAfter { id, duration } => TimeRequest::NotifyAfter { id: self.id(*id), duration: duration.clone() },
            TimeRequest::Clear { id } => TimeRequest::Clear { id: self.id(*id) },
        }
    }
}

struct ReplayOut { bytes: Vec<u8>, typed: Vec<Vec<Value>> }

fn http_result(seed: u64) -> HttpResult {
    match seed % 5 {
        0 => HttpResult::Ok(HttpResponse::ok().header("Content-Type", "text/plain").header("X-B", "2").header("x-a", "1").header("Set-Cookie", "a=1").header("set-cookie", "b=2").body("hello").build()),
        1 => HttpResult::Ok(HttpResponse::status(404).header("x-why", "gone").body(vec![0u8, 255, 7]).build()),
        2 => HttpResult::Err(HttpError::Timeout),
        3 => HttpResult::Ok(HttpResponse::status(302).header("location", "/next").header("x-1", "a").header("x-2", "b").header("x-3", "c").build()),
        _ => HttpResult::Err(HttpError::Io(format!("io {}", seed % 97))),
    }
}
fn kv_result(op: &KeyValueOperation, seed: u64) -> KeyValueResult {
    if seed % 7 == 0 { return KeyValueResult::Err { error: if seed % 2 == 0 { KeyValueError::Timeout } else { KeyValueError::Io { message: "disk".into() } } }; }
    let val = if seed % 3 == 0 { KvValue::None } else { KvValue::Bytes(vec![(seed % 251) as u8; (seed % 4) as usize]) };
    KeyValueResult::Ok { response: match op {
        KeyValueOperation::Get { .. } => KeyValueResponse::Get { value: val },
        KeyValueOperation::Set { .. } => KeyValueResponse::Set { previous: val },
        KeyValueOperation::Delete { .. } => KeyValueResponse::Delete { previous: val },
        KeyValueOperation::Exists { .. } => KeyValueResponse::Exists { is_present: seed % 2 == 0 },
        // now and then a listing that repeats keys (a store written to while it is listed): what the app sees must not depend on hash seeds
        KeyValueOperation::ListKeys { .. } => KeyValueResponse::ListKeys { keys: if seed % 5 == 1 { ["k3", "k0", "k2", "k0", "k1", "k4", "k3"].iter().map(|s| s.to_string()).collect() } else { (0..seed % 3).map(|i| format!("k{i}")).collect() }, next_cursor: seed % 2 },
    } }
}

/// run one call into the core on the calling thread, or on a thread of its own (joined at once): the thread
/// a shell happens to deliver an input on is not part of the history, so it must not show in the output
fn on<T: Send>(threaded: bool, f: impl FnOnce() -> T + Send) -> T {
    if threaded { std::thread::scope(|s| s.spawn(f).join().expect("call panicked")) } else { f() }
}
fn replay(hist: &[Step]) -> ReplayOut { replay_on(hist, false) }
fn replay_on(hist: &[Step], threaded: bool) -> ReplayOut {
    let core: Core<App> = Core::new();
    let mut ren = Renumber::default();
    let mut out = ReplayOut { bytes: vec![], typed: vec![] };
    let mut pending: Vec<Effect> = vec![];
    let mut take = |effs: Vec<Effect>, pending: &mut Vec<Effect>, out: &mut ReplayOut| {
        let mut typed = vec![];
        out.bytes.extend((effs.len() as u32).to_le_bytes());
        for e in effs {
            match &e {
                Effect::Http(r) => { out.bytes.push(0); out.bytes.extend(bincode::serialize(&r.operation).unwrap()); typed.push(http_json(&r.operation)); }
                Effect::KeyValue(r) => { out.bytes.push(1); out.bytes.extend(bincode::serialize(&r.operation).unwrap()); typed.push(kv_json(&r.operation)); }
                Effect::Render(r) => { out.bytes.push(2); out.bytes.extend(bincode::serialize(&r.operation).unwrap()); typed.push(json!({"k": "render"})); }
                Effect::Time(r) => { out.bytes.push(3); out.bytes.extend(bincode::serialize(&ren.req(&r.operation)).unwrap()); typed.push(time_json(&r.operation)); }
            }
            let resolvable = !matches!(&e, Effect::Render(_)) && !matches!(&e, Effect::Time(r) if matches!(r.operation, TimeRequest::Clear { .. }));
            if resolvable { pending.push(e); }
        }
        out.typed.push(typed);
    };
    for st in hist {
        match st {
            Step::Event { ops } => { let ev = Event::Go(serde_json::to_string(ops).unwrap()); let effs = on(threaded, || core.process_event(ev)); take(effs, &mut pending, &mut out); }
            Step::Resolve { k, seed } => {
                if pending.is_empty() { take(vec![], &mut pending, &mut out); continue; }
                let mut e = pending.remove((*k % pending.len() as u64) as usize);
                let core = &core;
                let effs = on(threaded, move || match &mut e {
                    Effect::Http(r) => core.resolve(r, http_result(*seed)),
                    Effect::KeyValue(r) => { let res = kv_result(&r.operation, *seed); core.resolve(r, res) }
                    Effect::Time(r) => {
                        let resp = match &r.operation {
                            TimeRequest::Now => TimeResponse::Now { instant: crux_time::Instant::new(*seed % 2_000_000_000, (*seed % 1_000_000_000) as u32) },
                            TimeRequest::NotifyAt { id, .. } => TimeResponse::InstantArrived { id: *id },
                            TimeRequest::NotifyAfter { id, .. } => TimeResponse::DurationElapsed { id: *id },
                            TimeRequest::Clear { id } => TimeResponse::Cleared { id: *id },
                        };
                        core.resolve(r, resp)
                    }
                    Effect::Render(r) => core.resolve(r, ()),
                }).expect("resolve");
                take(effs, &mut pending, &mut out);
            }
            Step::View => { take(vec![], &mut pending, &mut out); out.bytes.push(0xEE); out.bytes.extend(bincode::serialize(&on(threaded, || core.view())).unwrap()); }
        }
    }
    out.bytes.push(0xEF);
    out.bytes.extend(bincode::serialize(&core.view()).unwrap());
    out
}

/// The same history through the real `Bridge` (bincode): the raw bytes it returns for every step,
/// effect ids and timer ids as they are.  Only comparable between processes in the same state.
fn replay_bridge(hist: &[Step]) -> Vec<u8> {
    use crux_core::bridge::{Bridge, Request as BReq};
    let bridge: Bridge<App> = Bridge::new(Core::new());
    let mut out = vec![];
    let mut pending: Vec<(u32, EffectFfi)> = vec![];
    let mut take = |bytes: Vec<u8>, pending: &mut Vec<(u32, EffectFfi)>, out: &mut Vec<u8>| {
        out.extend((bytes.len() as u32).to_le_bytes()); out.extend(&bytes);
        let reqs: Vec<BReq<EffectFfi>> = bincode::deserialize(&bytes).expect("bridge output decodes");
        for r in reqs {
            let resolvable = !matches!(&r.effect, EffectFfi::Render(_)) && !matches!(&r.effect, EffectFfi::Time(TimeRequest::Clear { .. }));
            if resolvable { pending.push((r.id.0, r.effect)); }
        }
    };
    for st in hist {
        match st {
            Step::Event { ops } => { let b = bridge.process_event(&bincode::serialize(&Event::Go(serde_json::to_string(ops).unwrap())).unwrap()).expect("process_event"); take(b, &mut pending, &mut out); }
            Step::Resolve { k, seed } => {
                if pending.is_empty() { continue; }
                let (id, eff) = pending.remove((*k % pending.len() as u64) as usize);
                let resp = match &eff {
                    EffectFfi::Http(_) => bincode::serialize(&http_result(*seed)).unwrap(),
                    EffectFfi::KeyValue(op) => bincode::serialize(&kv_result(op, *seed)).unwrap(),
                    EffectFfi::Time(t) => bincode::serialize(&match t {
                        TimeRequest::Now => TimeResponse::Now { instant: crux_time::Instant::new(*seed % 2_000_000_000, (*seed % 1_000_000_000) as u32) },
                        TimeRequest::NotifyAt { id, .. } => TimeResponse::InstantArrived { id: *id },
                        TimeRequest::NotifyAfter { id, .. } => TimeResponse::DurationElapsed { id: *id },
                        TimeRequest::Clear { id } => TimeResponse::Cleared { id: *id },
                    }).unwrap(),
                    EffectFfi::Render(_) => vec![],
                };
                let b = bridge.handle_response(id, &resp).expect("handle_response"); take(b, &mut pending, &mut out);
            }
            Step::View => { out.push(0xEE); out.extend(bridge.view().expect("view")); }
        }
    }
    out.push(0xEF); out.extend(bridge.view().expect("view"));
    out
}

fn http_json(r: &HttpRequest) -> Value {
    json!({"k": "http", "method": r.method, "url": hex(r.url.as_bytes()), "headers": r.headers.iter().map(|h| json!([hex(h.name.as_bytes()), hex(h.value.as_bytes())])).collect::<Vec<_>>(), "body": hex(&r.body)})
}
fn kv_json(o: &KeyValueOperation) -> Value {
    match o {
        KeyValueOperation::Get { key } => json!({"k": "kv", "t": "Get", "key": key}),
        KeyValueOperation::Set { key, value } => json!({"k": "kv", "t": "Set", "key": key, "hex": hex(value)}),
        KeyValueOperation::Delete { key } => json!({"k": "kv", "t": "Delete", "key": key}),
        KeyValueOperation::Exists { key } => json!({"k": "kv", "t": "Exists", "key": key}),
        KeyValueOperation::ListKeys { prefix, cursor } => json!({"k": "kv", "t": "List", "prefix": prefix, "cursor": cursor.to_string()}),
    }
}
fn time_json(t: &TimeRequest) -> Value {
    // Instant / Duration have private fields: read them back through serde
    let v = serde_json::to_value(t).unwrap();
    match t {
        TimeRequest::Now => json!({"k": "time", "t": "Now"}),
        TimeRequest::NotifyAt { id, .. } => json!({"k": "time", "t": "At", "id": id.0.to_string(), "secs": v["notifyAt"]["instant"]["seconds"].as_u64().unwrap().to_string(), "nanos": v["notifyAt"]["instant"]["nanos"].as_u64().unwrap().to_string()}),
        TimeRequest::NotifyAfter { id, .. } => json!({"k": "time", "t": "After", "id": id.0.to_string(), "nanos": v["notifyAfter"]["duration"]["nanos"].as_u64().unwrap().to_string()}),
        TimeRequest::Clear { id } => json!({"k": "time", "t": "Clear", "id": id.0.to_string()}),
    }
}

// ------------------------------------------------------------------ history generator
fn small_desc(r: &mut Rng) -> Desc {
    loop {
        let mut d = gen_valid(r);
        let keep: Vec<bool> = d.ops.iter().map(|o| serde_json::to_string(o).unwrap().len() < 1500).collect();
        d.split = keep[..d.split].iter().filter(|k| **k).count();
        let mut it = keep.iter();
        d.ops.retain(|_| *it.next().unwrap());
        // several headers on purpose: that is where a hash-ordered map shows
        for i in 0..r.range(2, 6) { d.ops.insert(0, Op::Header { name: format!("X-H{}", (i * 7 + r.below(5)) % 11), values: vec![format!("v{}", r.below(100))], form: "str".into() }); d.split += 1; }
        let encs: Vec<Enc> = d.ops.iter().map(enc_of).collect();
        if expect(&d, &encs, &url_table(&d, &encs)).is_some() { return d; }
    }
}
fn api(r: &mut Rng) -> String { if r.coin(1, 2) { "cap".into() } else { "cmd".into() } }
fn key(r: &mut Rng) -> String { match r.below(6) { 0 => String::new(), 1 => "ключ/日本".into(), _ => format!("k{}", r.below(5)) } }
fn gen_history(r: &mut Rng) -> Vec<Step> {
    let mut h = vec![];
    for _ in 0..r.range(2, 9) {
        match r.below(10) {
            0..=4 => {
                let ops = (0..r.range(1, 6)).map(|_| match r.below(14) {
                    0..=4 => AOp::Http { desc: small_desc(r) },
                    5 => AOp::Kv { api: api(r), op: KvOp::Get { key: key(r) } },
                    6 => AOp::Kv { api: api(r), op: KvOp::Set { key: key(r), hex: hex(&(0..r.below(20)).map(|_| r.next() as u8).collect::<Vec<_>>()) } },
                    7 => AOp::Kv { api: api(r), op: match r.below(3) { 0 => KvOp::Delete { key: key(r) }, 1 => KvOp::Exists { key: key(r) }, _ => KvOp::List { prefix: key(r), cursor: if r.coin(1, 3) { u64::MAX } else { r.below(4) } } } },
                    8 => AOp::Now { api: api(r) },
                    9 | 10 => AOp::After { api: api(r), nanos: match r.below(4) { 0 => 0, 1 => u64::MAX, _ => r.next() >> r.below(60) } },
                    11 => AOp::At { api: api(r), secs: r.below(4_000_000_000), nanos: r.below(1_000_000_000) as u32 },
                    12 => AOp::Clear { j: r.below(8) },
                    _ => AOp::Render { api: api(r) },
                }).collect();
                h.push(Step::Event { ops });
            }
            5..=7 => h.push(Step::Resolve { k: r.below(8), seed: r.next() }),
            _ => h.push(Step::View),
        }
    }
    h
}

// ------------------------------------------------------------------ equality cases
fn vn(x: u128) -> Value { json!({"n": x.to_string()}) }
fn vb(b: &[u8]) -> Value { json!({"b": hex(b)}) }
fn vc(tag: u32, args: Vec<Value>) -> Value { json!({"c": tag, "a": args}) }
fn vs(s: &str) -> Value { vb(s.as_bytes()) }

/// Draws recorded on a tape, so that a second value can be generated from the same draws with exactly
/// one of them changed: a pair that differs in ONE choice (one field, one variant, one list length).
pub struct Tape { draws: Vec<u64>, pos: usize, mutate_at: Option<(usize, u64)>, rng: Rng }
impl Tape {
    fn new(rng: Rng) -> Self { Tape { draws: vec![], pos: 0, mutate_at: None, rng } }
    fn below(&mut self, n: u64) -> u64 {
        if n == 0 { return 0; }
        let raw = if self.pos < self.draws.len() { self.draws[self.pos] } else { let v = self.rng.next(); self.draws.push(v); v };
        let v = match self.mutate_at { Some((at, delta)) if at == self.pos && n > 1 => (raw % n + 1 + delta % (n - 1)) % n, _ => raw % n };
        self.pos += 1;
        v
    }
    fn coin(&mut self, num: u64, den: u64) -> bool { self.below(den) < num }
    fn pick<'a, T>(&mut self, xs: &'a [T]) -> &'a T { &xs[self.below(xs.len() as u64) as usize] }
    /// rewind; the `at`-th draw will come out different
    fn mutated(&mut self, at: usize, delta: u64) { self.pos = 0; self.mutate_at = Some((at, delta)); }
}

fn s3(r: &mut Tape) -> String { r.pick(&["", "a", "b", "A"]).to_string() }
fn b3(r: &mut Tape) -> Vec<u8> { match r.below(3) { 0 => vec![], 1 => vec![0], _ => vec![0, 255] } }
fn hdrs(r: &mut Tape) -> Vec<HttpHeader> { (0..r.below(3)).map(|_| HttpHeader { name: s3(r), value: s3(r) }).collect() }
fn hdrs_val(h: &[HttpHeader]) -> Value { vc(255, h.iter().map(|x| vc(0, vec![vs(&x.name), vs(&x.value)])).collect()) }
fn gen_http_request(r: &mut Tape) -> (HttpRequest, Value) {
    let q = HttpRequest { method: r.pick(&["GET", "POST"]).to_string(), url: s3(r), headers: hdrs(r), body: b3(r) };
    let v = vc(1, vec![vs(&q.method), vs(&q.url), hdrs_val(&q.headers), vb(&q.body)]); (q, v)
}
fn gen_http_response(r: &mut Tape) -> (HttpResponse, Value) {
    let q = HttpResponse { status: *r.pick(&[200u16, 404, 0]), headers: hdrs(r), body: b3(r) };
    let v = vc(2, vec![vn(q.status as u128), hdrs_val(&q.headers), vb(&q.body)]); (q, v)
}
fn gen_http_error(r: &mut Tape) -> (HttpError, Value) {
    match r.below(5) {
        0 => { let code = *r.pick(&[crux_http::http::StatusCode::BadRequest, crux_http::http::StatusCode::InternalServerError]); let m = s3(r); let b = if r.coin(1, 2) { Some(b3(r)) } else { None };
               let v = vc(10, vec![vn(u16::from(code) as u128), vs(&m), match &b { Some(x) => vc(1, vec![vb(x)]), None => vc(0, vec![]) }]); (HttpError::Http { code, message: m, body: b }, v) }
        1 => { let m = s3(r); let v = vc(11, vec![vs(&m)]); (HttpError::Json(m), v) }
        2 => { let m = s3(r); let v = vc(12, vec![vs(&m)]); (HttpError::Url(m), v) }
        3 => { let m = s3(r); let v = vc(13, vec![vs(&m)]); (HttpError::Io(m), v) }
        _ => (HttpError::Timeout, vc(14, vec![])),
    }
}
fn gen_http_result(r: &mut Tape) -> (HttpResult, Value) {
    if r.coin(1, 2) { let (x, v) = gen_http_response(r); (HttpResult::Ok(x), vc(20, vec![v])) } else { let (x, v) = gen_http_error(r); (HttpResult::Err(x), vc(21, vec![v])) }
}
fn gen_kv_op(r: &mut Tape) -> (KeyValueOperation, Value) {
    match r.below(5) {
        0 => { let k = s3(r); let v = vc(30, vec![vs(&k)]); (KeyValueOperation::Get { key: k }, v) }
        1 => { let k = s3(r); let b = b3(r); let v = vc(31, vec![vs(&k), vb(&b)]); (KeyValueOperation::Set { key: k, value: b }, v) }
        2 => { let k = s3(r); let v = vc(32, vec![vs(&k)]); (KeyValueOperation::Delete { key: k }, v) }
        3 => { let k = s3(r); let v = vc(33, vec![vs(&k)]); (KeyValueOperation::Exists { key: k }, v) }
        _ => { let k = s3(r); let c = r.below(2); let v = vc(34, vec![vs(&k), vn(c as u128)]); (KeyValueOperation::ListKeys { prefix: k, cursor: c }, v) }
    }
}
fn gen_kv_value(r: &mut Tape) -> (KvValue, Value) { if r.coin(1, 3) { (KvValue::None, vc(40, vec![])) } else { let b = b3(r); let v = vc(41, vec![vb(&b)]); (KvValue::Bytes(b), v) } }
fn gen_kv_result(r: &mut Tape) -> (KeyValueResult, Value) {
    match r.below(8) {
        0 => { let (x, v) = gen_kv_value(r); (KeyValueResult::Ok { response: KeyValueResponse::Get { value: x } }, vc(50, vec![vc(0, vec![v])])) }
        1 => { let (x, v) = gen_kv_value(r); (KeyValueResult::Ok { response: KeyValueResponse::Set { previous: x } }, vc(50, vec![vc(1, vec![v])])) }
        2 => { let (x, v) = gen_kv_value(r); (KeyValueResult::Ok { response: KeyValueResponse::Delete { previous: x } }, vc(50, vec![vc(2, vec![v])])) }
        3 => { let p = r.coin(1, 2); (KeyValueResult::Ok { response: KeyValueResponse::Exists { is_present: p } }, vc(50, vec![vc(3, vec![vn(p as u128)])])) }
        4 => { let ks: Vec<String> = (0..r.below(3)).map(|_| s3(r)).collect(); let c = r.below(2);
               let v = vc(50, vec![vc(4, vec![vc(255, ks.iter().map(|k| vs(k)).collect()), vn(c as u128)])]); (KeyValueResult::Ok { response: KeyValueResponse::ListKeys { keys: ks, next_cursor: c } }, v) }
        _ => { let (e, v) = gen_kv_error(r); (KeyValueResult::Err { error: e }, vc(51, vec![v])) }
    }
}
fn gen_time_request(r: &mut Tape) -> (TimeRequest, Value) {
    match r.below(4) {
        0 => (TimeRequest::Now, vc(60, vec![])),
        1 => { let (id, s, n) = (r.below(2), r.below(2), r.below(2) as u32); (TimeRequest::NotifyAt { id: TimerId(id as usize), instant: crux_time::Instant::new(s, n) }, vc(61, vec![vn(id as u128), vn(s as u128), vn(n as u128)])) }
        2 => { let (id, n) = (r.below(2), r.below(2)); (TimeRequest::NotifyAfter { id: TimerId(id as usize), duration: crux_time::Duration::new(n) }, vc(62, vec![vn(id as u128), vn(n as u128)])) }
        _ => { let id = r.below(2); (TimeRequest::Clear { id: TimerId(id as usize) }, vc(63, vec![vn(id as u128)])) }
    }
}
fn gen_time_response(r: &mut Tape) -> (TimeResponse, Value) {
    match r.below(4) {
        0 => { let (s, n) = (r.below(2), r.below(2) as u32); (TimeResponse::Now { instant: crux_time::Instant::new(s, n) }, vc(70, vec![vn(s as u128), vn(n as u128)])) }
        1 => { let id = r.below(2); (TimeResponse::InstantArrived { id: TimerId(id as usize) }, vc(71, vec![vn(id as u128)])) }
        2 => { let id = r.below(2); (TimeResponse::DurationElapsed { id: TimerId(id as usize) }, vc(72, vec![vn(id as u128)])) }
        _ => { let id = r.below(2); (TimeResponse::Cleared { id: TimerId(id as usize) }, vc(73, vec![vn(id as u128)])) }
    }
}
macro_rules! eq_pair {
    ($r:expr, $gen:ident, $ty:expr) => {{
        let mut t = Tape::new(Rng($r.next()));
        let (a, va) = $gen(&mut t);
        let (b, vb_) = match $r.below(3) {
            0 => (a.clone(), va.clone()),
            1 => { let n = t.draws.len().max(1); t.mutated($r.below(n as u64) as usize, $r.next()); $gen(&mut t) }
            _ => { let mut t2 = Tape::new(Rng($r.next())); $gen(&mut t2) }
        };
        json!({"kind": "eq_val", "ty": $ty, "a": va, "b": vb_, "ab": a == b, "ba": b == a})
    }};
}
fn gen_kv_error(r: &mut Tape) -> (KeyValueError, Value) {
    match r.below(4) {
        0 => { let m = s3(r); let v = vc(80, vec![vs(&m)]); (KeyValueError::Io { message: m }, v) }
        1 => (KeyValueError::Timeout, vc(81, vec![])),
        2 => (KeyValueError::CursorNotFound, vc(82, vec![])),
        _ => { let m = s3(r); let v = vc(83, vec![vs(&m)]); (KeyValueError::Other { message: m }, v) }
    }
}
fn eq_val_case(r: &mut Rng) -> Value {
    match r.below(10) {
        9 => eq_pair!(r, gen_kv_result, "KeyValueResult"),
        0 => eq_pair!(r, gen_http_request, "HttpRequest"), 1 => eq_pair!(r, gen_http_response, "HttpResponse"), 2 => eq_pair!(r, gen_http_error, "HttpError"),
        3 => eq_pair!(r, gen_http_result, "HttpResult"), 4 => eq_pair!(r, gen_kv_op, "KeyValueOperation"), 5 => eq_pair!(r, gen_kv_error, "KeyValueError"),
        6 => eq_pair!(r, gen_time_request, "TimeRequest"), 7 => eq_pair!(r, gen_time_response, "TimeResponse"), _ => eq_pair!(r, gen_kv_value, "Value"),
    }
}

/// A response as a test builds it: status, header calls, body.
#[derive(Serialize, Deserialize, Clone, Debug)]
pub struct RespDesc { status: u16, calls: Vec<Op>, body: Option<String> }
fn build_resp(d: &RespDesc) -> crux_http::Response<Vec<u8>> {
    let b = crux_http::testing::ResponseBuilder::with_status(crux_http::http::StatusCode::try_from(d.status).unwrap());
    let mut resp = match &d.body { Some(h) => b.body(unhex(h)).build(), None => b.build() };
    for c in &d.calls {
        match c {
            Op::Header { name, values, .. } => { let v: crux_http::http::headers::HeaderValues = hvals(values).into(); resp.insert_header(name.as_str(), &v) }
            Op::Append { name, values, .. } => { let v: crux_http::http::headers::HeaderValues = hvals(values).into(); resp.append_header(name.as_str(), &v) }
            Op::Remove { name } => { resp.remove_header(name.as_str()); }
            _ => panic!("harness: not a header call"),
        }
    }
    resp
}
const RNAMES: [&str; 10] = ["a", "A", "b", "B", "c", "x-long-name", "X-Long-Name", "d", "e", "content-type"];
fn resp_desc(r: &mut Rng) -> RespDesc {
    let calls = (0..r.below(9)).map(|_| {
        let name = r.pick(&RNAMES).to_string();
        let values: Vec<String> = (0..r.range(1, 3)).map(|_| r.pick(&["1", "2", "", "v"]).to_string()).collect();
        match r.below(8) { 0 => Op::Remove { name }, 1..=3 => Op::Append { name, values, form: "values".into() }, _ => Op::Header { name, values, form: "values".into() } }
    }).collect();
    RespDesc { status: *r.pick(&[200u16, 200, 201, 404]), calls, body: match r.below(3) { 0 => None, 1 => Some(String::new()), _ => Some("6869".into()) } }
}
/// the same content as `d`, said differently: final map rebuilt name by name in a shuffled order
fn respell(r: &mut Rng, d: &RespDesc) -> RespDesc {
    let mut m: Vec<(String, Vec<String>)> = vec![];
    for c in &d.calls {
        match c {
            Op::Header { name, values, .. } => { let n = name.to_ascii_lowercase(); if let Some(e) = m.iter_mut().find(|e| e.0 == n) { e.1 = values.clone() } else { m.push((n, values.clone())) } }
            Op::Append { name, values, .. } => { let n = name.to_ascii_lowercase(); if let Some(e) = m.iter_mut().find(|e| e.0 == n) { e.1.extend(values.iter().cloned()) } else { m.push((n, values.clone())) } }
            Op::Remove { name } => { let n = name.to_ascii_lowercase(); m.retain(|e| e.0 != n) }
            _ => {}
        }
    }
    r.shuffle(&mut m);
    let mut calls = vec![];
    for (n, vsx) in m {
        let n = if r.coin(1, 2) { n.to_ascii_uppercase() } else { n };
        if vsx.len() > 1 && r.coin(1, 2) {
            calls.push(Op::Header { name: n.clone(), values: vec![vsx[0].clone()], form: "values".into() });
            calls.push(Op::Append { name: n, values: vsx[1..].to_vec(), form: "values".into() });
        } else { calls.push(Op::Header { name: n, values: vsx, form: "values".into() }); }
    }
    RespDesc { status: d.status, calls, body: d.body.clone() }
}
/// the final header map a description builds (names lower-cased, values in order)
fn final_map(d: &RespDesc) -> Vec<(String, Vec<String>)> {
    let mut m: Vec<(String, Vec<String>)> = vec![];
    for c in &d.calls {
        match c {
            Op::Header { name, values, .. } => { let n = name.to_ascii_lowercase(); if let Some(e) = m.iter_mut().find(|e| e.0 == n) { e.1 = values.clone() } else { m.push((n, values.clone())) } }
            Op::Append { name, values, .. } => { let n = name.to_ascii_lowercase(); if let Some(e) = m.iter_mut().find(|e| e.0 == n) { e.1.extend(values.iter().cloned()) } else { m.push((n, values.clone())) } }
            Op::Remove { name } => { let n = name.to_ascii_lowercase(); m.retain(|e| e.0 != n) }
            _ => {}
        }
    }
    m
}
/// the same NUMBER of header values as `d`, distributed differently: the last value of a multi-valued header moves to
/// another header (an existing one or a new name), so every value list of one side is a prefix of the other's or longer
fn redistribute(r: &mut Rng, d: &RespDesc) -> RespDesc {
    let mut m = final_map(d);
    if !m.iter().any(|e| e.1.len() >= 2) {
        // make one: two values under one name, then move one away
        m.push(("zz-multi".into(), vec!["1".into(), "2".into()]));
    }
    let from = m.iter().position(|e| e.1.len() >= 2).unwrap();
    let v = m[from].1.pop().unwrap();
    let others: Vec<usize> = (0..m.len()).filter(|i| *i != from).collect();
    if !others.is_empty() && r.coin(1, 2) { let to = others[r.below(others.len() as u64) as usize]; m[to].1.push(v); }
    else { m.push(("zz-moved".into(), vec![v])); }
    let calls = m.into_iter().map(|(n, vsx)| Op::Header { name: n, values: vsx, form: "values".into() }).collect();
    RespDesc { status: d.status, calls, body: d.body.clone() }
}
fn eq_resp_case(r: &mut Rng) -> Value {
    let mut a = resp_desc(r);
    let pick = r.below(8);
    if pick >= 6 {
        // both sides from explicit maps: a has a multi-valued header, b the same number of values elsewhere
        if !final_map(&a).iter().any(|e| e.1.len() >= 2) { a.calls.push(Op::Header { name: "zz-multi".into(), values: vec!["1".into(), "2".into()], form: "values".into() }); }
    }
    let b = match pick {
        6 | 7 => redistribute(r, &a),
        0 | 1 => respell(r, &a),
        2 => { let mut b = respell(r, &a); if !b.calls.is_empty() { let i = r.below(b.calls.len() as u64) as usize; b.calls.remove(i); } b }
        3 => { let mut b = respell(r, &a); b.calls.push(Op::Append { name: r.pick(&RNAMES).to_string(), values: vec!["1".into()], form: "values".into() }); b }
        4 => { let mut b = respell(r, &a); match r.below(2) { 0 => b.status = 500, _ => b.body = Some("00".into()) } b }
        _ => resp_desc(r),
    };
    // the pair is also given the other way round: a == that is not symmetric shows in either order
    let (a, b) = if pick == 7 { (b, a) } else { (a, b) };
    let (ra, rb) = (build_resp(&a), build_resp(&b));
    json!({"kind": "eq_resp", "a": a, "b": b, "ab": ra == rb, "ba": rb == ra})
}

// ------------------------------------------------------------------ main
fn histories(seed: u64, count: u64) -> Vec<Vec<Step>> {
    let mut r = Rng::new(seed ^ 0xC11);
    (0..count).map(|_| gen_history(&mut r)).collect()
}
fn child_lines(seed: u64, count: u64) -> Vec<String> {
    let exe = std::env::current_exe().expect("current_exe");
    let out = std::process::Command::new(exe).args(["--child", &seed.to_string(), &count.to_string()]).output().expect("spawn child");
    assert!(out.status.success(), "child failed: {}", String::from_utf8_lossy(&out.stderr));
    String::from_utf8(out.stdout).unwrap().lines().map(|s| s.to_string()).collect()
}
fn kid_part(kids: &[Vec<String>], k: usize, i: usize, part: usize) -> Vec<u8> {
    kids[k].get(i).and_then(|l| l.split(' ').nth(part)).map(unhex).unwrap_or_default()
}
fn report(h: &[Step], runs: &[Vec<u8>], bridge: &[Vec<u8>], first: &ReplayOut, origin: &str) -> Value {
    let bridge_agree = bridge.iter().all(|b| *b == bridge[0] && !b.is_empty());
    let agree = runs.iter().all(|b| *b == runs[0]) && bridge_agree;
    let lens: Vec<usize> = runs.iter().map(|b| b.len()).collect();
    let first_diff: Vec<Option<usize>> = runs.iter().map(|b| b.iter().zip(runs[0].iter()).position(|(x, y)| x != y)).collect();
    // oracle answers (url crate, encoders) for every HTTP description of the history, in order of occurrence
    let mut oracles = vec![];
    for st in h { if let Step::Event { ops } = st { for o in ops { if let AOp::Http { desc } = o {
        let encs: Vec<Enc> = desc.ops.iter().map(enc_of).collect();
        let urls = url_table(desc, &encs);
        oracles.push(json!({"enc": encs, "urls": urls}));
    } } } }
    json!({"kind": "replay", "origin": origin, "hist": h, "oracles": oracles, "obs": first.typed, "agree": agree, "bridge_agree": bridge_agree, "bridge_len": bridge[0].len(), "replays": runs.len() + bridge.len(), "lens": lens, "first_diff": first_diff})
}

fn main() {
    let args: Vec<String> = std::env::args().collect();
    if args.len() >= 4 && args[1] == "--child" {
        let (seed, count) = (args[2].parse().unwrap(), args[3].parse().unwrap());
        for h in histories(seed, count) { println!("{} {}", hex(&replay(&h).bytes), hex(&replay_bridge(&h))); }
        return;
    }
    if args.len() >= 4 && args[1] == "--child-file" {
        // replay mode: the histories come from a file; print one line per history
        for h in file_histories(&args[2..3]) { println!("{} {}", hex(&replay(&h).bytes), hex(&replay_bridge(&h))); }
        return;
    }
    if args.len() >= 3 && args[1] == "--replay" {
        let hs = file_histories(&args[2..]);
        let exe = std::env::current_exe().unwrap();
        let kids: Vec<Vec<String>> = (0..2).map(|_| {
            let out = std::process::Command::new(&exe).arg("--child-file").args(&args[2..3]).arg("x").output().expect("spawn child");
            String::from_utf8(out.stdout).unwrap().lines().map(|s| s.to_string()).collect()
        }).collect();
        for (i, h) in hs.iter().enumerate() {
            let first = replay(h);
            let mut runs = vec![first.bytes.clone(), replay(h).bytes, replay_on(h, true).bytes];
            for k in 0..kids.len() { runs.push(kid_part(&kids, k, i, 0)); }
            let bridge: Vec<Vec<u8>> = (0..kids.len()).map(|k| kid_part(&kids, k, i, 1)).collect();
            println!("{}", report(h, &runs, &bridge, &first, "replay"));
        }
        for v in file_eq_cases(&args[2..]) { println!("{v}"); }
        return;
    }
    let seed: u64 = args.get(1).and_then(|s| s.parse().ok()).unwrap_or(1);
    let count: u64 = args.get(2).and_then(|s| s.parse().ok()).unwrap_or(50);
    let eqn: u64 = args.get(3).and_then(|s| s.parse().ok()).unwrap_or(200);
    let hs = histories(seed, count);
    let kids: Vec<Vec<String>> = (0..2).map(|_| child_lines(seed, count)).collect();
    for (i, h) in hs.iter().enumerate() {
        let first = replay(h);
        let mut runs = vec![first.bytes.clone(), replay(h).bytes, replay_on(h, true).bytes];
        for k in 0..kids.len() { runs.push(kid_part(&kids, k, i, 0)); }
        let bridge: Vec<Vec<u8>> = (0..kids.len()).map(|k| kid_part(&kids, k, i, 1)).collect();
        println!("{}", report(h, &runs, &bridge, &first, "generated"));
    }
    let mut r = Rng::new(seed ^ 0xE9);
    for i in 0..eqn { println!("{}", if i % 2 == 0 { eq_resp_case(&mut r) } else { eq_val_case(&mut r) }); }
}

fn file_lines(paths: &[String]) -> Vec<Value> {
    let mut out = vec![];
    for p in paths {
        if let Ok(f) = std::fs::File::open(p) {
            for line in std::io::BufReader::new(f).lines() {
                let line = line.unwrap();
                if line.trim_start().starts_with('{') { out.push(serde_json::from_str(&line).expect("json line")); }
            }
        }
    }
    out
}
fn file_histories(paths: &[String]) -> Vec<Vec<Step>> {
    file_lines(paths).into_iter().filter(|v| v.get("hist").is_some()).map(|v| serde_json::from_value(v["hist"].clone()).expect("hist")).collect()
}
fn file_eq_cases(paths: &[String]) -> Vec<Value> {
    file_lines(paths).into_iter().filter(|v| v["kind"] == "eq_resp").map(|v| {
        let a: RespDesc = serde_json::from_value(v["a"].clone()).unwrap(); let b: RespDesc = serde_json::from_value(v["b"].clone()).unwrap();
        let (ra, rb) = (build_resp(&a), build_resp(&b));
        json!({"kind": "eq_resp", "a": a, "b": b, "ab": ra == rb, "ba": rb == ra})
    }).collect()
}
#[allow(dead_code)]
fn unused(_: BTreeMap<u8, u8>, _: RenderOperation) {}
