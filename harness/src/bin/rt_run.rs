//! Runtime correspondence driver (engine `rt`: C01, C03-C07).
//! Generates programs of the task/command language of coq/Rt/Lang.v, builds REAL `Command`s from them
//! with the public crux_core API, drives them under a generated schedule (directly, and under a real
//! `Core`), and prints one JSON line per case carrying the program, the schedule and the observed trace
//! as Coq terms.  The schedule is chosen while the implementation runs (so that it resolves requests
//! that exist); the model is then evaluated on the same schedule.
use crux_core::capability::Operation;
use crux_core::command::CommandContext;
use crux_core::{Command, Core, Request};
use futures::future::BoxFuture;
use futures::{FutureExt, StreamExt};
use serde::{Deserialize, Serialize};
use std::collections::HashMap;
use std::future::Future;
use std::pin::Pin;
use std::sync::{Arc, Mutex};
use std::task::{Context, Poll};
use vh::rng::Rng;

// ---------------------------------------------------------------- language
#[derive(Clone, Debug)]
enum Expr { K(u64), V(usize), Plus(Box<Expr>, Box<Expr>) }
#[derive(Clone, Debug)]
enum Task {
    Ret,
    Emit(u64, Expr, Box<Task>),
    Notify(u64, Expr, Box<Task>),
    Req(u64, Expr, usize, Box<Task>),
    ForEach(u64, Expr, usize, Box<Task>, Box<Task>),
    Spawn(Box<Task>, usize, Box<Task>),
    Join(usize, Box<Task>),
    AbortT(usize, Box<Task>),
    Yield(u64, Box<Task>),
    AbortC(u64, Box<Task>),
    LegReq(u64, Expr, usize, Box<Task>),
    Both(u64, Expr, usize, u64, Expr, usize, Box<Task>),
    BothL(u64, Expr, usize, u64, Expr, usize, Box<Task>),
    BothJ(usize, u64, Expr, usize, Box<Task>),
    Race(u64, Expr, u64, Expr, usize, Box<Task>),
}
#[derive(Clone, Debug)]
enum Rb { Req(u64, Expr), Map(Box<Rb>, u64), ThenReq(Box<Rb>, u64) }
#[derive(Clone, Debug)]
enum Sb { Str(u64, Expr), Map(Box<Sb>, u64), ThenReq(Box<Sb>, u64), OfReq(Box<Rb>, u64), ThenStr(Box<Sb>, u64) }
impl Rb {
    fn coq(&self) -> String { match self { Rb::Req(t, e) => format!("(RbReq {} {})", t, e.coq()), Rb::Map(r, n) => format!("(RbMap {} {})", r.coq(), n), Rb::ThenReq(r, t) => format!("(RbThenReq {} {})", r.coq(), t) } }
    fn size(&self) -> usize { match self { Rb::Req(..) => 1, Rb::Map(r, _) | Rb::ThenReq(r, _) => 1 + r.size() } }
}
impl Sb {
    fn coq(&self) -> String { match self { Sb::Str(t, e) => format!("(SbStr {} {})", t, e.coq()), Sb::Map(r, n) => format!("(SbMap {} {})", r.coq(), n), Sb::ThenReq(r, t) => format!("(SbThenReq {} {})", r.coq(), t), Sb::OfReq(r, t) => format!("(SbOfReq {} {})", r.coq(), t), Sb::ThenStr(r, t) => format!("(SbThenStr {} {})", r.coq(), t) } }
    fn size(&self) -> usize { match self { Sb::Str(..) => 1, Sb::Map(r, _) | Sb::ThenReq(r, _) | Sb::ThenStr(r, _) => 1 + r.size(), Sb::OfReq(r, _) => 1 + r.size() } }
}
#[derive(Clone, Debug)]
enum Cmd {
    New(Task, Vec<Task>),
    Then(Box<Cmd>, Box<Cmd>),
    And(Box<Cmd>, Box<Cmd>),
    All(Vec<Cmd>),
    MapEff(u64, Box<Cmd>),
    MapEv(u64, Box<Cmd>),
    IdEff(Box<Cmd>),
    IdEv(Box<Cmd>),
    Into(Box<Cmd>),
    Abortable(u64, Box<Cmd>),
    SendR(Rb, u64),
    SendS(Sb, u64),
}
#[derive(Clone, Debug)]
enum Action { Effects, Events, IsDone, Resolve(u64, u64, u64, u64), DropReq(u64, u64, u64), Abort(u64), Event(u64, u64), Spawn(Task), Live }

impl Expr {
    fn coq(&self) -> String { match self { Expr::K(n) => format!("(K {})", n), Expr::V(x) => format!("(V {})", x), Expr::Plus(a, b) => format!("(Plus {} {})", a.coq(), b.coq()) } }
    fn eval(&self, env: &[u64]) -> u64 { match self { Expr::K(n) => *n, Expr::V(x) => env.get(*x).copied().unwrap_or(0), Expr::Plus(a, b) => a.eval(env) + b.eval(env) } }
}
impl Task {
    fn coq(&self) -> String {
        match self {
            Task::Ret => "TRet".into(),
            Task::Emit(t, e, k) => format!("(TEmit {} {} {})", t, e.coq(), k.coq()),
            Task::Notify(t, e, k) => format!("(TNotify {} {} {})", t, e.coq(), k.coq()),
            Task::Req(t, e, x, k) => format!("(TReq {} {} {} {})", t, e.coq(), x, k.coq()),
            Task::ForEach(t, e, x, b, k) => format!("(TForEach {} {} {} {} {})", t, e.coq(), x, b.coq(), k.coq()),
            Task::Spawn(c, h, k) => format!("(TSpawn {} {} {})", c.coq(), h, k.coq()),
            Task::Join(h, k) => format!("(TJoin {} {})", h, k.coq()),
            Task::AbortT(h, k) => format!("(TAbortT {} {})", h, k.coq()),
            Task::Yield(n, k) => format!("(TYield {} {})", n, k.coq()),
            Task::AbortC(n, k) => format!("(TAbortC {} {})", n, k.coq()),
            Task::LegReq(t, e, x, k) => format!("(TLegReq {} {} {} {})", t, e.coq(), x, k.coq()),
            Task::Both(t1, e1, x1, t2, e2, x2, k) => format!("(TBoth {} {} {} {} {} {} {})", t1, e1.coq(), x1, t2, e2.coq(), x2, k.coq()),
            Task::BothL(t1, e1, x1, t2, e2, x2, k) => format!("(TBothL {} {} {} {} {} {} {})", t1, e1.coq(), x1, t2, e2.coq(), x2, k.coq()),
            Task::BothJ(h, t, e, x, k) => format!("(TBothJ {} {} {} {} {})", h, t, e.coq(), x, k.coq()),
            Task::Race(t1, e1, t2, e2, x, k) => format!("(TRace {} {} {} {} {} {})", t1, e1.coq(), t2, e2.coq(), x, k.coq()),
        }
    }
    fn size(&self) -> usize {
        match self {
            Task::Ret => 1,
            Task::Emit(_, _, k) | Task::Notify(_, _, k) | Task::Req(_, _, _, k) | Task::LegReq(_, _, _, k) | Task::Join(_, k) | Task::AbortT(_, k) | Task::Yield(_, k) | Task::AbortC(_, k) => 1 + k.size(),
            Task::BothJ(_, _, _, _, k) => 2 + k.size(),
            Task::Both(_, _, _, _, _, _, k) | Task::BothL(_, _, _, _, _, _, k) | Task::Race(_, _, _, _, _, k) => 2 + k.size(),
            Task::ForEach(_, _, _, b, k) | Task::Spawn(b, _, k) => 1 + b.size() + k.size(),
        }
    }
    fn hist(&self, h: &mut HashMap<&'static str, u64>) {
        let (name, subs): (&'static str, Vec<&Task>) = match self {
            Task::Ret => ("TRet", vec![]), Task::Emit(_, _, k) => ("TEmit", vec![k]), Task::Notify(_, _, k) => ("TNotify", vec![k]),
            Task::Req(_, _, _, k) => ("TReq", vec![k]), Task::LegReq(_, _, _, k) => ("TLegReq", vec![k]), Task::ForEach(_, _, _, b, k) => ("TForEach", vec![b, k]),
            Task::Spawn(b, _, k) => ("TSpawn", vec![b, k]), Task::Join(_, k) => ("TJoin", vec![k]), Task::AbortT(_, k) => ("TAbortT", vec![k]), Task::Yield(_, k) => ("TYield", vec![k]), Task::AbortC(_, k) => ("TAbortC", vec![k]),
            Task::Both(_, _, _, _, _, _, k) => ("TBoth", vec![k]), Task::BothL(_, _, _, _, _, _, k) => ("TBothL", vec![k]), Task::BothJ(_, _, _, _, k) => ("TBothJ", vec![k]), Task::Race(_, _, _, _, _, k) => ("TRace", vec![k]),
        };
        *h.entry(name).or_default() += 1;
        for s in subs { s.hist(h); }
    }
}
fn coq_list(xs: Vec<String>) -> String { format!("[{}]", xs.join("; ")) }
impl Cmd {
    fn coq(&self) -> String {
        match self {
            Cmd::New(m, ex) => format!("(CNew {} {})", m.coq(), coq_list(ex.iter().map(|t| t.coq()).collect())),
            Cmd::Then(a, b) => format!("(CThen {} {})", a.coq(), b.coq()),
            Cmd::And(a, b) => format!("(CAnd {} {})", a.coq(), b.coq()),
            Cmd::All(cs) => format!("(CAll {})", coq_list(cs.iter().map(|c| c.coq()).collect())),
            Cmd::MapEff(k, c) => format!("(CMapEff {} {})", k, c.coq()),
            Cmd::MapEv(k, c) => format!("(CMapEv {} {})", k, c.coq()),
            Cmd::IdEff(c) => format!("(CIdEff {})", c.coq()),
            Cmd::IdEv(c) => format!("(CIdEv {})", c.coq()),
            Cmd::Into(c) => format!("(CInto {})", c.coq()),
            Cmd::Abortable(n, c) => format!("(CAbortable {} {})", n, c.coq()),
            Cmd::SendR(r, t) => format!("(CSendR {} {})", r.coq(), t),
            Cmd::SendS(r, t) => format!("(CSendS {} {})", r.coq(), t),
        }
    }
    fn size(&self) -> usize {
        match self {
            Cmd::New(m, ex) => 1 + m.size() + ex.iter().map(|t| t.size()).sum::<usize>(),
            Cmd::Then(a, b) | Cmd::And(a, b) => 1 + a.size() + b.size(),
            Cmd::All(cs) => 1 + cs.iter().map(|c| c.size()).sum::<usize>(),
            Cmd::MapEff(_, c) | Cmd::MapEv(_, c) | Cmd::IdEff(c) | Cmd::IdEv(c) | Cmd::Into(c) | Cmd::Abortable(_, c) => 1 + c.size(),
            Cmd::SendR(r, _) => 2 + r.size(), Cmd::SendS(r, _) => 2 + r.size(),
        }
    }
    fn depth(&self) -> usize {
        match self {
            Cmd::New(..) | Cmd::SendR(..) | Cmd::SendS(..) => 0,
            Cmd::Then(a, b) | Cmd::And(a, b) => 1 + a.depth().max(b.depth()),
            Cmd::All(cs) => 1 + cs.iter().map(|c| c.depth()).max().unwrap_or(0),
            Cmd::MapEff(_, c) | Cmd::MapEv(_, c) | Cmd::IdEff(c) | Cmd::IdEv(c) | Cmd::Abortable(_, c) => 1 + c.depth(),
            Cmd::Into(c) => 2 + c.depth(),
        }
    }
    fn hist(&self, h: &mut HashMap<&'static str, u64>) {
        let name = match self { Cmd::New(..) => "CNew", Cmd::Then(..) => "CThen", Cmd::And(..) => "CAnd", Cmd::All(..) => "CAll", Cmd::MapEff(..) => "CMapEff",
            Cmd::MapEv(..) => "CMapEv", Cmd::IdEff(..) => "CIdEff", Cmd::IdEv(..) => "CIdEv", Cmd::Into(..) => "CInto", Cmd::Abortable(..) => "CAbortable", Cmd::SendR(..) => "CSendR", Cmd::SendS(..) => "CSendS" };
        *h.entry(name).or_default() += 1;
        match self {
            Cmd::New(m, ex) => { m.hist(h); for t in ex { t.hist(h); } }
            Cmd::Then(a, b) | Cmd::And(a, b) => { a.hist(h); b.hist(h); }
            Cmd::All(cs) => for c in cs { c.hist(h); },
            Cmd::MapEff(_, c) | Cmd::MapEv(_, c) | Cmd::IdEff(c) | Cmd::IdEv(c) | Cmd::Into(c) | Cmd::Abortable(_, c) => c.hist(h),
            Cmd::SendR(..) | Cmd::SendS(..) => {}
        }
    }
}
impl Action {
    fn coq(&self) -> String {
        match self {
            Action::Effects => "AEffects".into(), Action::Events => "AEvents".into(), Action::IsDone => "AIsDone".into(),
            Action::Resolve(t, v, o, out) => format!("(AResolve {} {} {} {})", t, v, o, out),
            Action::DropReq(t, v, o) => format!("(ADropReq {} {} {})", t, v, o),
            Action::Abort(n) => format!("(AAbort {})", n), Action::Event(t, v) => format!("(AEvent {} {})", t, v),
            Action::Spawn(t) => format!("(ASpawn {})", t.coq()),
            Action::Live => "ALive".into(),
        }
    }
    fn name(&self) -> &'static str { match self { Action::Effects => "AEffects", Action::Events => "AEvents", Action::IsDone => "AIsDone", Action::Resolve(..) => "AResolve", Action::DropReq(..) => "ADropReq", Action::Abort(_) => "AAbort", Action::Event(..) => "AEvent", Action::Spawn(_) => "ASpawn", Action::Live => "ALive" } }
}

// ---------------------------------------------------------------- effect / event types
#[derive(Clone, Debug, PartialEq, Serialize, Deserialize)]
pub struct Op { pub tag: u64, pub val: u64 }
impl Operation for Op { type Output = u64; }
enum Eff { Op(Request<Op>), Wrap(u64, Box<Eff>) }
impl From<Request<Op>> for Eff { fn from(r: Request<Op>) -> Self { Eff::Op(r) } }
impl crux_core::Effect for Eff {
    type Ffi = ();
    fn serialize(self) -> ((), crux_core::bridge::ResolveSerialized) { unimplemented!("not driven through the bridge here") }
}
impl Eff {
    fn split(self) -> (Vec<u64>, Request<Op>) {
        match self { Eff::Op(r) => (vec![], r), Eff::Wrap(k, inner) => { let (mut m, r) = inner.split(); m.insert(0, k); (m, r) } }
    }
}
#[derive(Clone, Debug, PartialEq, Serialize, Deserialize)]
pub struct Ev { pub tag: u64, pub val: u64, pub maps: Vec<u64> }
type Ctx = CommandContext<Eff, Ev>;
type C = Command<Eff, Ev>;

struct YieldN(u64);
impl Future for YieldN {
    type Output = ();
    fn poll(mut self: Pin<&mut Self>, cx: &mut Context<'_>) -> Poll<()> {
        if self.0 == 0 { Poll::Ready(()) } else { self.0 -= 1; cx.waker().wake_by_ref(); Poll::Pending }
    }
}

// JoinHandle / AbortHandle are not nameable outside crux_core: keep them inside closures
#[derive(Clone)]
struct JH { abort: Arc<dyn Fn() + Send + Sync>, join: Arc<dyn Fn() -> BoxFuture<'static, ()> + Send + Sync> }
#[derive(Clone, Default)]
struct Env { vars: Vec<u64>, handles: HashMap<usize, JH> }
impl Env { fn set(&mut self, x: usize, v: u64) { while self.vars.len() <= x { self.vars.push(0); } self.vars[x] = v; } }

fn exec<'a>(t: &'a Task, env: &'a mut Env, ctx: &'a Ctx, aborts: &'a Aborts) -> BoxFuture<'a, ()> {
    async move {
        let mut cur = t;
        loop {
            match cur {
                Task::Ret => return,
                Task::Emit(tg, e, k) => { ctx.send_event(Ev { tag: *tg, val: e.eval(&env.vars), maps: vec![] }); cur = k; }
                Task::Notify(tg, e, k) => { ctx.notify_shell(Op { tag: *tg, val: e.eval(&env.vars) }); cur = k; }
                Task::Req(tg, e, x, k) => { let out = ctx.request_from_shell(Op { tag: *tg, val: e.eval(&env.vars) }).await; env.set(*x, out); cur = k; }
                Task::ForEach(tg, e, x, body, k) => {
                    let mut stream = ctx.stream_from_shell(Op { tag: *tg, val: e.eval(&env.vars) });
                    while let Some(out) = stream.next().await { env.set(*x, out); exec(body, env, ctx, aborts).await; }
                    drop(stream);
                    cur = k;
                }
                Task::Spawn(child, h, k) => {
                    let child = (**child).clone(); let mut cenv = env.clone();
                    let ab = aborts.clone();
                    let jh = ctx.spawn(move |cctx| async move { exec(&child, &mut cenv, &cctx, &ab).await });
                    let (j1, j2) = (jh.clone(), jh);
                    env.handles.insert(*h, JH { abort: Arc::new(move || j1.abort()), join: Arc::new(move || j2.clone().boxed()) }); cur = k;
                }
                Task::Join(h, k) => { if let Some(jh) = env.handles.get(h) { let f = (jh.join)(); f.await; } cur = k; }
                Task::AbortT(h, k) => { if let Some(jh) = env.handles.get(h) { (jh.abort)(); } cur = k; }
                Task::Yield(n, k) => { YieldN(*n).await; cur = k; }
                Task::AbortC(n, k) => { for (m, h) in aborts.lock().unwrap().iter() { if m == n { h(); } } cur = k; }
                Task::LegReq(tg, e, x, k) => {
                    // a legacy capability's async request awaited inside a Command task (only under the Core host)
                    let lctx = LEGCTX.lock().unwrap().clone();
                    if let Some(lctx) = lctx { let out = lctx.request_from_shell(Op { tag: *tg, val: e.eval(&env.vars) }).await; env.set(*x, out); }
                    cur = k;
                }
                Task::Both(t1, e1, x1, t2, e2, x2, k) => {
                    let f1 = ctx.request_from_shell(Op { tag: *t1, val: e1.eval(&env.vars) });
                    let f2 = ctx.request_from_shell(Op { tag: *t2, val: e2.eval(&env.vars) });
                    let (a, b) = futures::join!(f1, f2);
                    env.set(*x1, a); env.set(*x2, b); cur = k;
                }
                Task::BothL(t1, e1, x1, t2, e2, x2, k) => {
                    let lctx = LEGCTX.lock().unwrap().clone();
                    if let Some(lctx) = lctx {
                        let f1 = lctx.request_from_shell(Op { tag: *t1, val: e1.eval(&env.vars) });
                        let f2 = ctx.request_from_shell(Op { tag: *t2, val: e2.eval(&env.vars) });
                        let (a, b) = futures::join!(f1, f2);
                        env.set(*x1, a); env.set(*x2, b);
                    }
                    cur = k;
                }
                Task::BothJ(h, tg, e, x, k) => {
                    // join!(handle, request): the handle is polled again every time the task is polled for the request's sake
                    let f2 = ctx.request_from_shell(Op { tag: *tg, val: e.eval(&env.vars) });
                    let b = match env.handles.get(h) { Some(jh) => { let f1 = (jh.join)(); futures::join!(f1, f2).1 } None => f2.await };
                    env.set(*x, b);
                    cur = k;
                }
                Task::Race(t1, e1, t2, e2, x, k) => {
                    let out = {
                        let mut f1 = ctx.request_from_shell(Op { tag: *t1, val: e1.eval(&env.vars) }).fuse();
                        let mut f2 = ctx.request_from_shell(Op { tag: *t2, val: e2.eval(&env.vars) }).fuse();
                        futures::select_biased! { a = f1 => a, b = f2 => b }
                    };
                    env.set(*x, out); cur = k;
                }
            }
        }
    }.boxed()
}

type Aborts = Arc<Mutex<Vec<(u64, Box<dyn Fn() + Send>)>>>;
// builder chains through the real builder API (command/builder.rs); every stage is boxed so that the
// recursion over the AST has one type
type RBld = crux_core::command::RequestBuilder<Eff, Ev, BoxFuture<'static, u64>>;
type SBld = crux_core::command::StreamBuilder<Eff, Ev, futures::stream::BoxStream<'static, u64>>;
fn build_rb(r: &Rb, env: &[u64]) -> RBld {
    match r {
        Rb::Req(tg, e) => { let op = Op { tag: *tg, val: e.eval(env) }; RBld::new(move |ctx| C::request_from_shell(op).into_future(ctx).boxed()) }
        Rb::Map(r, n) => { let inner = build_rb(r, env); let n = *n; RBld::new(move |ctx| inner.map(move |v| v + n).into_future(ctx).boxed()) }
        Rb::ThenReq(r, tg) => { let inner = build_rb(r, env); let tg = *tg;
            RBld::new(move |ctx| inner.then_request(move |v| C::request_from_shell(Op { tag: tg, val: v })).into_future(ctx).boxed()) }
    }
}
fn build_sb(s: &Sb, env: &[u64]) -> SBld {
    match s {
        Sb::Str(tg, e) => { let op = Op { tag: *tg, val: e.eval(env) }; SBld::new(move |ctx| C::stream_from_shell(op).into_stream(ctx).boxed()) }
        Sb::Map(r, n) => { let inner = build_sb(r, env); let n = *n; SBld::new(move |ctx| inner.map(move |v| v + n).into_stream(ctx).boxed()) }
        Sb::ThenReq(r, tg) => { let inner = build_sb(r, env); let tg = *tg;
            SBld::new(move |ctx| inner.then_request(move |v| C::request_from_shell(Op { tag: tg, val: v })).into_stream(ctx).boxed()) }
        Sb::OfReq(r, tg) => { let inner = build_rb(r, env); let tg = *tg;
            SBld::new(move |ctx| inner.then_stream(move |v| C::stream_from_shell(Op { tag: tg, val: v })).into_stream(ctx).boxed()) }
        Sb::ThenStr(r, tg) => { let inner = build_sb(r, env); let tg = *tg;
            SBld::new(move |ctx| inner.then_stream(move |v| C::stream_from_shell(Op { tag: tg, val: v })).into_stream(ctx).boxed()) }
    }
}
fn build(c: &Cmd, env0: &Env, aborts: &Aborts) -> C {
    match c {
        // the ready-made constructors of command/mod.rs, when the command has exactly their shape
        Cmd::New(Task::Ret, ex) if ex.is_empty() => C::done(),
        Cmd::New(Task::Emit(t, e, k), ex) if ex.is_empty() && matches!(**k, Task::Ret) => C::event(Ev { tag: *t, val: e.eval(&env0.vars), maps: vec![] }),
        Cmd::New(Task::Notify(t, e, k), ex) if ex.is_empty() && matches!(**k, Task::Ret) => C::notify_shell(Op { tag: *t, val: e.eval(&env0.vars) }).into(),
        Cmd::New(m, ex) => {
            let (m, e) = (m.clone(), env0.clone());
            let ab = aborts.clone();
            let mut cmd = C::new(move |ctx| async move { let mut e = e; exec(&m, &mut e, &ctx, &ab).await });
            for t in ex {
                let (t, e) = (t.clone(), env0.clone());
                let ab = aborts.clone();
                cmd.spawn(move |ctx| async move { let mut e = e; exec(&t, &mut e, &ctx, &ab).await });
            }
            cmd
        }
        Cmd::Then(a, b) => build(a, env0, aborts).then(build(b, env0, aborts)),
        Cmd::And(a, b) => build(a, env0, aborts).and(build(b, env0, aborts)),
        Cmd::All(cs) => C::all(cs.iter().map(|c| build(c, env0, aborts)).collect::<Vec<_>>()),
        Cmd::MapEff(k, c) => { let k = *k; build(c, env0, aborts).map_effect(move |e| Eff::Wrap(k, Box::new(e))) }
        Cmd::MapEv(k, c) => { let k = *k; build(c, env0, aborts).map_event(move |mut e: Ev| { e.maps.insert(0, k); e }) }
        Cmd::IdEff(c) => build(c, env0, aborts).map_effect(|e| e),
        Cmd::IdEv(c) => build(c, env0, aborts).map_event(|e| e),
        Cmd::Into(c) => build(c, env0, aborts).into::<Eff, Ev>(),
        Cmd::SendR(r, t) => { let t = *t; build_rb(r, &env0.vars).then_send(move |v| Ev { tag: t, val: v, maps: vec![] }) }
        Cmd::SendS(r, t) => { let t = *t; build_sb(r, &env0.vars).then_send(move |v| Ev { tag: t, val: v, maps: vec![] }) }
        Cmd::Abortable(n, c) => { let cmd = build(c, env0, aborts); let ah = cmd.abort_handle(); aborts.lock().unwrap().push((*n, Box::new(move || ah.abort()))); cmd }
    }
}

// ---------------------------------------------------------------- generator
struct Gen { rng: Rng, next_tag: u64, next_name: u64, names: Vec<u64>, ev_tags: Vec<u64>, legacy: bool, scope: Vec<u64>, mix: bool, huge: bool }
impl Gen {
    fn expr(&mut self, nvars: usize) -> Expr {
        match self.rng.below(6) {
            0 | 1 => Expr::K(self.rng.below(5)),
            2 | 3 if nvars > 0 => Expr::V(self.rng.below(nvars as u64) as usize),
            4 if nvars > 0 => Expr::Plus(Box::new(Expr::V(self.rng.below(nvars as u64) as usize)), Box::new(Expr::K(self.rng.below(3)))),
            _ => Expr::K(self.rng.below(5)),
        }
    }
    fn tag(&mut self) -> u64 { self.next_tag += 1; self.next_tag }
    fn evtag(&mut self) -> u64 { if !self.ev_tags.is_empty() && self.rng.coin(1, 3) { *self.rng.pick(&self.ev_tags.clone()) } else { 100 + self.rng.below(6) } }
    // handles live at env indices 8.., variables at 0..8 (the model keeps both in one env)
    fn task(&mut self, budget: &mut i64, nvars: usize, handles: &mut Vec<usize>, depth: u32) -> Task {
        *budget -= 1;
        if *budget <= 0 { return Task::Ret; }
        let mut r = self.rng.below(100);
        if self.mix && r < 12 && self.rng.coin(1, 3) { r = 14; }
        if !self.legacy && !self.scope.is_empty() && r < 18 && self.rng.coin(1, 3) { r = 36; }   // self-abort inside an abortable command
        if self.legacy && (matches!(r, 14..=17) || r >= 84 && r <= 95 || r >= 98) { r = 20 + r % 40; }   // no join!/select!/handles in the legacy fragment
        match r {
            0..=13 => Task::Ret,
            14..=15 => { let t1 = self.tag(); let t2 = self.tag(); let e1 = self.expr(nvars); let e2 = self.expr(nvars);
                    let x1 = (self.rng.below((nvars as u64 + 1).min(7))) as usize; let x2 = x1 + 1; *budget -= 1;
                    if self.mix && self.rng.coin(2, 3) { return Task::BothL(t1, e1, x1, t2, e2, x2, Box::new(self.task(budget, nvars.max(x2 + 1), handles, depth))); }
                    Task::Both(t1, e1, x1, t2, e2, x2, Box::new(self.task(budget, nvars.max(x2 + 1), handles, depth))) }
            16..=17 => { let t1 = self.tag(); let t2 = self.tag(); let e1 = self.expr(nvars); let e2 = self.expr(nvars);
                    let x = (self.rng.below((nvars as u64 + 1).min(8))) as usize; *budget -= 1;
                    Task::Race(t1, e1, t2, e2, x, Box::new(self.task(budget, nvars.max(x + 1), handles, depth))) }
            35..=37 if !self.legacy => { let n = if !self.scope.is_empty() && self.rng.coin(3, 4) { *self.rng.pick(&self.scope.clone()) } else { 1 + self.rng.below(3) }; Task::AbortC(n, Box::new(self.task(budget, nvars, handles, depth))) }
            18..=37 => { let t = self.evtag(); let e = self.expr(nvars); Task::Emit(t, e, Box::new(self.task(budget, nvars, handles, depth))) }
            38..=45 => { let t = self.tag(); let e = self.expr(nvars); Task::Notify(t, e, Box::new(self.task(budget, nvars, handles, depth))) }
            46..=63 => { let t = self.tag(); let e = self.expr(nvars); let x = (self.rng.below((nvars as u64 + 1).min(8))) as usize;
                         if self.mix && self.rng.coin(2, 5) { return Task::LegReq(t, e, x, Box::new(self.task(budget, nvars.max(x + 1), handles, depth))); }
                         Task::Req(t, e, x, Box::new(self.task(budget, nvars.max(x + 1), handles, depth))) }
            64..=73 if depth < 2 => { let t = self.tag(); let e = self.expr(nvars); let x = (self.rng.below((nvars as u64 + 1).min(8))) as usize;
                         let mut bb = (*budget).min(4); let body = self.task(&mut bb, nvars.max(x + 1), &mut handles.clone(), depth + 1);
                         *budget -= 2;
                         Task::ForEach(t, e, x, Box::new(body), Box::new(self.task(budget, nvars.max(x + 1), handles, depth))) }
            74..=83 if depth < 2 && handles.len() < 6 => { let h = 8 + handles.len(); let mut cb = (*budget).min(5);
                         let child = self.task(&mut cb, nvars, &mut handles.clone(), depth + 1); *budget -= 2; handles.push(h);
                         // handle used at once, in the same poll as the spawn: abort before the first poll of the
                         // child, await in the same executor pass, or both
                         let rest = self.task(budget, nvars, handles, depth);
                         let rest = if self.legacy { rest } else { match self.rng.below(10) {
                             0 | 1 => Task::AbortT(h, Box::new(Task::Join(h, Box::new(rest)))),
                             2 => Task::AbortT(h, Box::new(rest)),
                             3 | 4 => Task::Join(h, Box::new(rest)),
                             5 | 6 => { let tg = self.tag(); Task::BothJ(h, tg, Expr::K(self.rng.below(4)), 7, Box::new(rest)) }
                             _ => rest } };
                         Task::Spawn(Box::new(child), h, Box::new(rest)) }
            84..=90 if !handles.is_empty() => { let h = *self.rng.pick(handles);
                if !self.legacy && self.rng.coin(1, 2) { let tg = self.tag(); let e = self.expr(nvars); let x = (self.rng.below((nvars as u64 + 1).min(8))) as usize; *budget -= 1;
                    return Task::BothJ(h, tg, e, x, Box::new(self.task(budget, nvars.max(x + 1), handles, depth))); }
                Task::Join(h, Box::new(self.task(budget, nvars, handles, depth))) }
            91..=95 if !handles.is_empty() => { let h = *self.rng.pick(handles); Task::AbortT(h, Box::new(self.task(budget, nvars, handles, depth))) }
            96..=97 => { let n = 1 + self.rng.below(2); Task::Yield(n, Box::new(self.task(budget, nvars, handles, depth))) }
            98 => { let t1 = self.tag(); let t2 = self.tag(); let e1 = self.expr(nvars); let e2 = self.expr(nvars);
                    let x1 = (self.rng.below((nvars as u64 + 1).min(7))) as usize; let x2 = x1 + 1; *budget -= 1;
                    Task::Both(t1, e1, x1, t2, e2, x2, Box::new(self.task(budget, nvars.max(x2 + 1), handles, depth))) }
            99 => { let t1 = self.tag(); let t2 = self.tag(); let e1 = self.expr(nvars); let e2 = self.expr(nvars);
                    let x = (self.rng.below((nvars as u64 + 1).min(8))) as usize; *budget -= 1;
                    Task::Race(t1, e1, t2, e2, x, Box::new(self.task(budget, nvars.max(x + 1), handles, depth))) }
            _ => { let t = self.evtag(); let e = self.expr(nvars); Task::Emit(t, e, Box::new(self.task(budget, nvars, handles, depth))) }
        }
    }
    fn top_task(&mut self, budget: i64, nvars: usize) -> Task { let mut b = budget; self.task(&mut b, nvars, &mut vec![], 0) }
    /// a command that aborts itself (through its own retained handle) at some point of one of its
    /// tasks, with siblings parked on requests / streams / join handles, optionally wrapped
    fn self_abort_cmd(&mut self, nvars: usize) -> Cmd {
        self.next_name += 1; let n = self.next_name; self.names.push(n);
        let ev = |g: &mut Gen| 100 + g.rng.below(6);
        // the aborting task: [emit?] [await a request?] abort [emit / request afterwards?]
        let mut after: Task = match self.rng.below(4) { 0 => Task::Ret, 1 => Task::Emit(ev(self), Expr::K(1), Box::new(Task::Ret)),
            2 => Task::Req(self.tag(), Expr::K(2), 0, Box::new(Task::Ret)), _ => Task::Notify(self.tag(), Expr::K(0), Box::new(Task::Ret)) };
        after = Task::AbortC(n, Box::new(after));
        let aborter = match self.rng.below(4) {
            0 => after,
            1 => Task::Req(self.tag(), self.expr(nvars), 0, Box::new(after)),
            2 => Task::Emit(ev(self), Expr::K(0), Box::new(Task::Req(self.tag(), Expr::K(1), 0, Box::new(after)))),
            _ => { let t = self.tag(); Task::ForEach(t, Expr::K(0), 0, Box::new(after), Box::new(Task::Ret)) }
        };
        let mut sibs: Vec<Task> = vec![];
        for _ in 0..self.rng.below(3) {
            sibs.push(match self.rng.below(3) {
                0 => { let t = self.tag(); let e = ev(self); Task::ForEach(t, Expr::K(0), 0, Box::new(Task::Emit(e, Expr::V(0), Box::new(Task::Ret))), Box::new(Task::Ret)) }
                1 => { let t = self.tag(); let e = ev(self); Task::Req(t, Expr::K(3), 0, Box::new(Task::Emit(e, Expr::V(0), Box::new(Task::Ret)))) }
                _ => { let b = 2 + self.rng.below(4) as i64; self.top_task(b, nvars) }
            });
        }
        let (main, extra) = if self.rng.coin(1, 2) || sibs.is_empty() { (aborter, sibs) } else { let m = sibs.remove(0); sibs.push(aborter); (m, sibs) };
        let mut c = Cmd::Abortable(n, Box::new(Cmd::New(main, extra)));
        for _ in 0..self.rng.below(3) {
            c = match self.rng.below(5) { 0 => Cmd::IdEff(Box::new(c)), 1 => Cmd::All(vec![c]), 2 => Cmd::Then(Box::new(c), Box::new(Cmd::New(Task::Emit(ev(self), Expr::K(2), Box::new(Task::Ret)), vec![]))),
                3 => Cmd::MapEv(1 + self.rng.below(2), Box::new(c)), _ => Cmd::And(Box::new(Cmd::New(Task::Ret, vec![])), Box::new(c)) };
        }
        c
    }
    /// one task that hands over MANY outputs in one poll (33..=80 events and notifications, more than any
    /// batch size a forwarding layer might choose), optionally after a request and followed by another
    /// request and a second burst; optionally wrapped, so that the burst crosses hosting layers
    fn burst_cmd(&mut self, nvars: usize) -> Cmd {
        // now and then a burst larger than any plausible internal buffer (1024): nothing may be parked or lost on the way up
        // (only among the first 4000 cases of a run: each costs the evaluator tens of seconds and gigabytes)
        let n1 = if self.rng.coin(1, 4) && self.huge { 1030 + self.rng.below(60) } else { 33 + self.rng.below(48) };
        let n2 = if self.rng.coin(1, 3) { 33 + self.rng.below(20) } else { 0 };
        let evt = 100 + self.rng.below(6);
        let mut t = Task::Ret;
        for i in (0..n2).rev() { t = Task::Emit(evt, Expr::K(200 + i), Box::new(t)); }
        if n2 > 0 { let tg = self.tag(); t = Task::Req(tg, Expr::K(1), 0, Box::new(t)); }
        for i in (0..n1).rev() {
            t = if self.rng.coin(1, 9) { let tg = self.tag(); Task::Notify(tg, Expr::K(i), Box::new(t)) } else { Task::Emit(evt, Expr::K(i), Box::new(t)) };
        }
        if self.rng.coin(1, 2) { let tg = self.tag(); t = Task::Req(tg, self.expr(nvars), 0, Box::new(t)); }
        let mut c = Cmd::New(t, vec![]);
        for _ in 0..self.rng.below(3) {
            c = match self.rng.below(5) { 0 => Cmd::IdEff(Box::new(c)), 1 => Cmd::All(vec![c]), 2 => Cmd::Then(Box::new(c), Box::new(Cmd::New(Task::Emit(evt, Expr::K(999), Box::new(Task::Ret)), vec![]))),
                3 => Cmd::MapEv(1 + self.rng.below(2), Box::new(c)), _ => Cmd::And(Box::new(Cmd::New(Task::Ret, vec![])), Box::new(c)) };
        }
        c
    }
    fn cmd(&mut self, depth: u32, nvars: usize) -> Cmd {
        if !self.legacy && self.rng.coin(1, 14) { return self.self_abort_cmd(nvars); }
        if !self.legacy && self.rng.coin(1, 40) { return self.burst_cmd(nvars); }
        let r = if depth == 0 { self.rng.below(40) } else { self.rng.below(100) };
        match r {
            0..=39 => {
                match self.rng.below(11) {
                    8 => { let mut r = Rb::Req(self.tag(), self.expr(nvars));
                           for _ in 0..self.rng.below(3) { r = if self.rng.coin(1, 2) { Rb::Map(Box::new(r), 1 + self.rng.below(3)) } else { Rb::ThenReq(Box::new(r), self.tag()) }; }
                           let e = self.evtag(); Cmd::SendR(r, e) }
                    9 | 10 => { let mut s = if self.rng.coin(1, 3) { Sb::OfReq(Box::new(Rb::Req(self.tag(), self.expr(nvars))), self.tag()) } else { Sb::Str(self.tag(), self.expr(nvars)) };
                           let mut flat = false;
                           for _ in 0..self.rng.below(3) { s = match self.rng.below(5) { 0 | 1 => Sb::Map(Box::new(s), 1 + self.rng.below(3)), 2 | 3 if !flat => Sb::ThenReq(Box::new(s), self.tag()), _ => { flat = true; Sb::ThenStr(Box::new(s), self.tag()) } }; }
                           let e = self.evtag(); Cmd::SendS(s, e) }
                    0 => Cmd::New(Task::Ret, vec![]),
                    1 => { let t = self.evtag(); Cmd::New(Task::Emit(t, Expr::K(self.rng.below(4)), Box::new(Task::Ret)), vec![]) }
                    2 => { let t = self.tag(); let e = self.evtag(); Cmd::New(Task::Req(t, self.expr(nvars), 0, Box::new(Task::Emit(e, Expr::V(0), Box::new(Task::Ret)))), vec![]) }
                    3 => { let t = self.tag(); let e = self.evtag(); Cmd::New(Task::ForEach(t, self.expr(nvars), 0, Box::new(Task::Emit(e, Expr::V(0), Box::new(Task::Ret))), Box::new(Task::Ret)), vec![]) }
                    _ => { let b = 2 + self.rng.below(7) as i64; let m = self.top_task(b, nvars);
                           let nex = if self.rng.coin(1, 3) { 1 + self.rng.below(2) } else { 0 };
                           let ex = (0..nex).map(|_| { let b = 1 + self.rng.below(4) as i64; self.top_task(b, nvars) }).collect(); Cmd::New(m, ex) }
                }
            }
            40..=52 => Cmd::Then(Box::new(self.cmd(depth - 1, nvars)), Box::new(self.cmd(depth - 1, nvars))),
            53..=62 => Cmd::And(Box::new(self.cmd(depth - 1, nvars)), Box::new(self.cmd(depth - 1, nvars))),
            63..=72 => { let n = self.rng.below(4); Cmd::All((0..n).map(|_| self.cmd(depth - 1, nvars)).collect()) }
            73..=78 => Cmd::MapEff(1 + self.rng.below(3), Box::new(self.cmd(depth - 1, nvars))),
            79..=84 => Cmd::MapEv(1 + self.rng.below(3), Box::new(self.cmd(depth - 1, nvars))),
            85..=87 => Cmd::IdEff(Box::new(self.cmd(depth - 1, nvars))),
            88..=90 => Cmd::IdEv(Box::new(self.cmd(depth - 1, nvars))),
            91..=93 => Cmd::Into(Box::new(self.cmd(depth - 1, nvars))),
            _ => { self.next_name += 1; let n = self.next_name; self.names.push(n); self.scope.push(n);
                   let inner = self.cmd(depth - 1, nvars); self.scope.pop(); Cmd::Abortable(n, Box::new(inner)) }
        }
    }
}

// ---------------------------------------------------------------- shells
struct Held { tag: u64, val: u64, req: Option<Request<Op>> }
fn find(held: &[Held], tag: u64, val: u64, occ: u64) -> Option<usize> {
    let mut n = 0;
    for (i, h) in held.iter().enumerate() { if h.tag == tag && h.val == val { if n == occ { return Some(i); } n += 1; } }
    None
}
fn occ_of(held: &[Held], i: usize) -> u64 { held[..i].iter().filter(|h| h.tag == held[i].tag && h.val == held[i].val).count() as u64 }
fn oeffs(effs: Vec<Eff>, held: &mut Vec<Held>) -> String {
    let mut out = vec![];
    for e in effs { let (maps, r) = e.split(); out.push(format!("mkOE {} {} [{}] KNever", r.operation.tag, r.operation.val, maps.iter().map(|m| m.to_string()).collect::<Vec<_>>().join("; ")));
        held.push(Held { tag: r.operation.tag, val: r.operation.val, req: Some(r) }); }
    coq_list(out)
}
fn oevs(evs: &[Ev]) -> String { coq_list(evs.iter().map(|e| format!("mkEv {} {} [{}]", e.tag, e.val, e.maps.iter().map(|m| m.to_string()).collect::<Vec<_>>().join("; "))).collect()) }
fn rcode(r: Result<(), crux_core::ResolveError>) -> u64 { match r { Ok(()) => 0, Err(crux_core::ResolveError::Never) => 1, Err(crux_core::ResolveError::FinishedMany) => 2 } }

static OUT_SEQ: std::sync::atomic::AtomicU64 = std::sync::atomic::AtomicU64::new(0);
fn pick_action(rng: &mut Rng, held: &[Held], names: &[u64], core: bool, ev_tags: &[u64]) -> Action {
    let live: Vec<usize> = held.iter().enumerate().filter(|(_, h)| h.req.is_some()).map(|(i, _)| i).collect();
    let r = rng.below(100);
    if !core && r < 30 { return match rng.below(3) { 0 => Action::Effects, 1 => Action::Events, _ => Action::IsDone }; }
    if core && r < 25 { return if !ev_tags.is_empty() && rng.coin(2, 3) { Action::Event(*rng.pick(ev_tags), rng.below(4)) } else { Action::Event(99, 0) }; }
    if r < 75 && !held.is_empty() {
        // mostly live requests; sometimes an already used / dropped one (late or repeated resolution)
        let i = if !live.is_empty() && rng.coin(5, 6) { *rng.pick(&live) } else { rng.below(held.len() as u64) as usize };
        // every value the shell delivers is unique within the run and far from every constant of the programs (and from the
        // +1..+9 that maps add): where a delivered value shows up later tells which request's continuation ran (C06_causal)
        let out = if rng.coin(1, 8) { rng.below(50) } else { 1000 + 10 * (OUT_SEQ.fetch_add(1, std::sync::atomic::Ordering::Relaxed) % 200) };
        return Action::Resolve(held[i].tag, held[i].val, occ_of(held, i), out);
    }
    if r < 88 && !held.is_empty() {
        let i = if !live.is_empty() && rng.coin(5, 6) { *rng.pick(&live) } else { rng.below(held.len() as u64) as usize };
        return Action::DropReq(held[i].tag, held[i].val, occ_of(held, i));
    }
    if r < 94 && !names.is_empty() { return Action::Abort(*rng.pick(names)); }
    if r >= 97 { return Action::Resolve(77, 0, 0, 1); } // a request that does not exist
    if core { Action::Event(99, 0) } else { match rng.below(3) { 0 => Action::Effects, 1 => Action::Events, _ => Action::IsDone } }
}

#[cfg(crux_verif)]
fn live(c: &C) -> usize { c.verif_live_tasks() }
#[cfg(not(crux_verif))]
fn live(_c: &C) -> usize { 0 }

fn run_direct(c: &Cmd, rng: &mut Rng, names: &[u64], nsteps: usize, fixed: Option<&[Action]>, drain: bool) -> (Vec<Action>, Vec<String>) {
    let aborts: Aborts = Default::default();
    let mut cmd = build(c, &Env::default(), &aborts);
    let mut held: Vec<Held> = vec![];
    let mut acts = vec![]; let mut obs = vec![];
    let total = fixed.map(|f| f.len()).unwrap_or(nsteps + 6);
    let skip_initial = fixed.is_none() && !names.is_empty() && rng.coin(1, 3);
    for i in 0..total {
        let a = if let Some(f) = fixed { f[i].clone() }
                else if i < 3 && skip_initial { if i == 0 { Action::Abort(*rng.pick(names)) } else { pick_action(rng, &held, names, false, &[]) } }
                else if i < 3 { [Action::Effects, Action::Events, Action::IsDone][i].clone() }
                else if i >= total - 3 { [Action::Effects, Action::Events, Action::IsDone][i - (total - 3)].clone() }
                else if rng.coin(1, 20) {
                    // a task spawned onto the running (or finished, or aborted) command from outside
                    let tg = 900 + i as u64;
                    Action::Spawn(match rng.below(4) {
                        0 => Task::Emit(100 + rng.below(6), Expr::K(rng.below(4)), Box::new(Task::Ret)),
                        1 => Task::Req(tg, Expr::K(rng.below(3)), 0, Box::new(Task::Emit(100 + rng.below(6), Expr::V(0), Box::new(Task::Ret)))),
                        2 => Task::Notify(tg, Expr::K(1), Box::new(Task::Yield(1, Box::new(Task::Ret)))),
                        _ => Task::ForEach(tg, Expr::K(0), 0, Box::new(Task::Emit(100 + rng.below(6), Expr::V(0), Box::new(Task::Ret))), Box::new(Task::Ret)),
                    })
                }
                else { pick_action(rng, &held, names, false, &[]) };
        if fixed.is_none() && i >= 3 && i < total - 3 && held.is_empty() && names.is_empty() && i % 3 != 0 && !matches!(a, Action::Spawn(_)) { continue; }
        let o = match &a {
            Action::Effects => { let es: Vec<Eff> = cmd.effects().collect(); format!("OEffects {}", oeffs(es, &mut held)) }
            Action::Events => { let es: Vec<Ev> = cmd.events().collect(); format!("OEvents {}", oevs(&es)) }
            Action::IsDone => { let d = cmd.is_done(); format!("ODone {} {}", if d { "true" } else { "false" }, live(&cmd)) }
            Action::Resolve(t, v, o, out) => match find(&held, *t, *v, *o) {
                Some(i) if held[i].req.is_some() => format!("OResolve {}", rcode(held[i].req.as_mut().unwrap().resolve(*out))),
                _ => "OResolve 3".into(),
            },
            Action::DropReq(t, v, o) => { if let Some(i) = find(&held, *t, *v, *o) { held[i].req = None; } "ONone".into() }
            Action::Abort(n) => { for (m, h) in aborts.lock().unwrap().iter() { if m == n { h(); } } "ONone".into() }
            Action::Event(..) => "ONone".into(),
            Action::Live => format!("OLive {}", live(&cmd)),
            Action::Spawn(t) => { let (t, ab) = (t.clone(), aborts.clone());
                cmd.spawn(move |ctx| async move { let mut e = Env::default(); exec(&t, &mut e, &ctx, &ab).await }); "ONone".into() }
        };
        acts.push(a); obs.push(o);
    }
    if fixed.is_none() && drain {
        // drain phase: drop every outstanding request until nothing new appears, then the command must be done
        for _round in 0..12 {
            let es: Vec<Eff> = cmd.effects().collect();
            acts.push(Action::Effects); obs.push(format!("OEffects {}", oeffs(es, &mut held)));
            let evs: Vec<Ev> = cmd.events().collect();
            acts.push(Action::Events); obs.push(format!("OEvents {}", oevs(&evs)));
            let livei: Vec<usize> = held.iter().enumerate().filter(|(_, h)| h.req.is_some()).map(|(i, _)| i).collect();
            if livei.is_empty() { break; }
            for i in livei { acts.push(Action::DropReq(held[i].tag, held[i].val, occ_of(&held, i))); obs.push("ONone".into()); held[i].req = None; }
        }
        let d = cmd.is_done();
        acts.push(Action::IsDone); obs.push(format!("ODone {} {}", if d { "true" } else { "false" }, live(&cmd)));
    }
    (acts, obs)
}

// ----- Core host: the app reads its handler table from a process-wide slot (App: Default has no state)
static HANDLERS: Mutex<Vec<(u64, Cmd)>> = Mutex::new(Vec::new());
// the command-API app also owns one legacy capability, so that Command tasks can await its futures
static LEGCTX: Mutex<Option<crux_core::capability::CapabilityContext<Op, Ev>>> = Mutex::new(None);
pub struct MixCaps { leg: crux_core::capability::CapabilityContext<Op, Ev> }
impl crux_core::capability::WithContext<Ev, Eff> for MixCaps {
    fn new_with_context(context: crux_core::capability::ProtoContext<Eff, Ev>) -> Self { MixCaps { leg: context.specialize(Eff::Op) } }
}
static ABORTS: Mutex<Option<Aborts>> = Mutex::new(None);
#[derive(Default)]
struct TheApp;
impl crux_core::App for TheApp {
    type Event = Ev; type Model = Vec<Ev>; type ViewModel = Vec<Ev>; type Capabilities = MixCaps; type Effect = Eff;
    fn update(&self, event: Ev, model: &mut Vec<Ev>, caps: &MixCaps) -> C {
        *LEGCTX.lock().unwrap() = Some(caps.leg.clone());
        model.push(event.clone());
        if !event.maps.is_empty() { return C::done(); }
        let hs = HANDLERS.lock().unwrap();
        let aborts = ABORTS.lock().unwrap().clone().unwrap();
        for (t, c) in hs.iter() { if *t == event.tag { let mut env = Env::default(); env.set(0, event.val); return build(c, &env, &aborts); } }
        C::done()
    }
    fn view(&self, model: &Vec<Ev>) -> Vec<Ev> { model.clone() }
}

#[cfg(crux_verif)]
fn core_live<A: crux_core::App>(c: &Core<A>) -> usize { c.verif_executor_tasks() }
#[cfg(not(crux_verif))]
fn core_live<A: crux_core::App>(_c: &Core<A>) -> usize { 0 }

fn run_core(hs: &[(u64, Cmd)], rng: &mut Rng, names: &[u64], nsteps: usize, fixed: Option<&[Action]>) -> (Vec<Action>, Vec<String>) {
    *HANDLERS.lock().unwrap() = hs.to_vec();
    let aborts: Aborts = Default::default();
    *ABORTS.lock().unwrap() = Some(aborts.clone());
    let core: Core<TheApp> = Core::new();
    let ev_tags: Vec<u64> = hs.iter().map(|(t, _)| *t).collect();
    let mut held: Vec<Held> = vec![];
    let mut acts = vec![]; let mut obs = vec![];
    let total = fixed.map(|f| f.len()).unwrap_or(nsteps + 2);
    let probe_all = rng.coin(1, 2);
    let live_all = rng.coin(1, 2);
    for i in 0..total {
        let a = if let Some(f) = fixed { f[i].clone() }
                else if i == 0 { Action::Event(ev_tags[0], rng.below(4)) }
                else if i == total - 1 { Action::Event(99, 0) }
                else if i > 0 && probe_all && !acts.iter().rev().find(|a| !matches!(a, Action::Live)).map_or(false, |a| matches!(a, Action::Event(99, 0))) { Action::Event(99, 0) }
                else { pick_action(rng, &held, names, true, &ev_tags) };
        if std::env::var("RT_DEBUG").is_ok() { eprintln!("  {}", a.coq()); }
        let o = match &a {
            Action::Event(t, v) => { let es = core.process_event(Ev { tag: *t, val: *v, maps: vec![] }); let e = oeffs(es, &mut held); format!("OCall 0 {} {}", e, oevs(&core.view())) }
            Action::Resolve(t, v, o, out) => match find(&held, *t, *v, *o) {
                Some(i) if held[i].req.is_some() => {
                    match core.resolve(held[i].req.as_mut().unwrap(), *out) {
                        Ok(es) => { let e = oeffs(es, &mut held); format!("OCall 0 {} {}", e, oevs(&core.view())) }
                        Err(err) => format!("OCall {} [] {}", rcode(Err(err)), oevs(&core.view())),
                    }
                }
                _ => "OResolve 3".into(),
            },
            Action::DropReq(t, v, o) => { if let Some(i) = find(&held, *t, *v, *o) { held[i].req = None; } "ONone".into() }
            Action::Abort(n) => { for (m, h) in aborts.lock().unwrap().iter() { if m == n { h(); } } "ONone".into() }
            Action::Live => format!("OLive {}", core_live(&core)),
            _ => "ONone".into(),
        };
        acts.push(a); obs.push(o);
        // how many tasks the executor holds after the call (hook): leaks show up here
        if fixed.is_none() && live_all { acts.push(Action::Live); obs.push(format!("OLive {}", core_live(&core))); }
    }
    drop(core);
    (acts, obs)
}


// ---------------------------------------------------------------- C05: one command, many hosts
// Every host is driven by the same list of shell inputs (resolve / drop / abort), and is inspected
// after each input: (effects, events, done?).  Hosts: direct, wrappers through the public combinators,
// a hand-polled Stream, and a real Core.
type HStep = (Vec<(u64, u64, Vec<u64>)>, Vec<Ev>, Option<bool>);
trait Host {
    fn input(&mut self, a: &Action);
    fn inspect(&mut self) -> HStep;
    fn held(&self) -> &Vec<Held>;
}
fn apply_input(held: &mut Vec<Held>, aborts: &Aborts, a: &Action) -> Option<u64> {
    match a {
        Action::Resolve(t, v, o, out) => match find(held, *t, *v, *o) {
            Some(i) if held[i].req.is_some() => Some(rcode(held[i].req.as_mut().unwrap().resolve(*out))),
            _ => Some(3),
        },
        Action::DropReq(t, v, o) => { if let Some(i) = find(held, *t, *v, *o) { held[i].req = None; } None }
        Action::Abort(n) => { for (m, h) in aborts.lock().unwrap().iter() { if m == n { h(); } } None }
        _ => None,
    }
}
fn take_effs(effs: Vec<Eff>, held: &mut Vec<Held>) -> Vec<(u64, u64, Vec<u64>)> {
    let mut out = vec![];
    for e in effs { let (maps, r) = e.split(); out.push((r.operation.tag, r.operation.val, maps)); held.push(Held { tag: r.operation.tag, val: r.operation.val, req: Some(r) }); }
    out
}
struct DirectHost { cmd: C, held: Vec<Held>, aborts: Aborts }
impl Host for DirectHost {
    fn input(&mut self, a: &Action) { apply_input(&mut self.held, &self.aborts, a); }
    fn inspect(&mut self) -> HStep {
        let es: Vec<Eff> = self.cmd.effects().collect(); let effs = take_effs(es, &mut self.held);
        let evs: Vec<Ev> = self.cmd.events().collect();
        // a wrapper forwards outputs lazily: effects()/events() each settle, so take both until stable
        let es2: Vec<Eff> = self.cmd.effects().collect(); let mut effs = effs; effs.extend(take_effs(es2, &mut self.held));
        let d = self.cmd.is_done();
        (effs, evs, Some(d))
    }
    fn held(&self) -> &Vec<Held> { &self.held }
}
struct StreamHost { cmd: Option<C>, held: Vec<Held>, aborts: Aborts, ended: bool }
impl Host for StreamHost {
    fn input(&mut self, a: &Action) { apply_input(&mut self.held, &self.aborts, a); }
    fn inspect(&mut self) -> HStep {
        let waker = futures::task::noop_waker(); let mut cx = Context::from_waker(&waker);
        let (mut effs, mut evs) = (vec![], vec![]);
        if let Some(cmd) = self.cmd.as_mut() {
            loop {
                match cmd.poll_next_unpin(&mut cx) {
                    Poll::Ready(Some(crux_core::command::CommandOutput::Effect(e))) => effs.extend(take_effs(vec![e], &mut self.held)),
                    Poll::Ready(Some(crux_core::command::CommandOutput::Event(e))) => evs.push(e),
                    Poll::Ready(None) => { self.ended = true; break; }
                    Poll::Pending => break,
                }
            }
        }
        if self.ended { self.cmd = None; }
        (effs, evs, Some(self.ended))
    }
    fn held(&self) -> &Vec<Held> { &self.held }
}
struct CoreHost { core: Core<TheApp>, held: Vec<Held>, aborts: Aborts, seen: usize, pending: Vec<Eff> }
impl Host for CoreHost {
    fn input(&mut self, a: &Action) {
        match a {
            Action::Resolve(t, v, o, out) => if let Some(i) = find(&self.held, *t, *v, *o) { if self.held[i].req.is_some() {
                if let Ok(es) = self.core.resolve(self.held[i].req.as_mut().unwrap(), *out) { self.pending.extend(es); } } },
            _ => { apply_input(&mut self.held, &self.aborts, a); }
        }
    }
    fn inspect(&mut self) -> HStep {
        // a probe makes the consequences of a drop / abort visible; after a resolve it must add nothing
        let es = self.core.process_event(Ev { tag: 99, val: 0, maps: vec![] });
        let mut all: Vec<Eff> = std::mem::take(&mut self.pending); all.extend(es);
        let effs = take_effs(all, &mut self.held);
        let log = self.core.view();
        let evs: Vec<Ev> = log[self.seen..].iter().filter(|e| !(e.tag == 99 && e.maps.is_empty()) ).cloned().collect();
        self.seen = log.len();
        (effs, evs, None)
    }
    fn held(&self) -> &Vec<Held> { &self.held }
}
fn hstep_coq(h: &HStep) -> String {
    format!("({}, {}, {})", coq_list(h.0.iter().map(|(t, v, m)| format!("mkOE {} {} [{}] KNever", t, v, m.iter().map(|x| x.to_string()).collect::<Vec<_>>().join("; "))).collect()),
            oevs(&h.1), match h.2 { Some(true) => "Some true", Some(false) => "Some false", None => "None" })
}
fn wrappers(c: &Cmd) -> Vec<(&'static str, Cmd)> {
    let done = || Cmd::New(Task::Ret, vec![]);
    vec![
        ("direct", c.clone()),
        ("map_effect_id", Cmd::IdEff(Box::new(c.clone()))),
        ("map_event_id", Cmd::IdEv(Box::new(c.clone()))),
        ("then_done_c", Cmd::Then(Box::new(done()), Box::new(c.clone()))),
        ("then_c_done", Cmd::Then(Box::new(c.clone()), Box::new(done()))),
        ("all_one", Cmd::All(vec![c.clone()])),
        ("into", Cmd::Into(Box::new(c.clone()))),
        ("and_done_c", Cmd::And(Box::new(done()), Box::new(c.clone()))),
        ("depth3", Cmd::All(vec![Cmd::Then(Box::new(done()), Box::new(Cmd::IdEv(Box::new(c.clone()))))])),
        ("depth5", Cmd::Into(Box::new(Cmd::All(vec![Cmd::Then(Box::new(Cmd::IdEff(Box::new(c.clone()))), Box::new(done()))])))),
    ]
}
fn run_hosts(idx: usize, seed: u64, g: &mut Gen, depth: u32, nsteps: usize) -> String {
    let c = g.cmd(depth, 0);
    let names = g.names.clone();
    let mut rng = g.rng.clone();
    // 1. choose the inputs while driving the direct host
    let aborts: Aborts = Default::default();
    let mut h0 = DirectHost { cmd: build(&c, &Env::default(), &aborts), held: vec![], aborts };
    let mut inputs: Vec<Action> = vec![];
    let mut t0: Vec<HStep> = vec![h0.inspect()];
    for _ in 0..nsteps {
        let a = loop { let a = pick_action(&mut rng, h0.held(), &names, false, &[]); if matches!(a, Action::Resolve(..) | Action::DropReq(..) | Action::Abort(_)) { break a; }
                       if h0.held().is_empty() && names.is_empty() { break Action::Resolve(77, 0, 0, 1); } };
        h0.input(&a); inputs.push(a); t0.push(h0.inspect());
    }
    // 2. replay on every other host
    let mut traces: Vec<(String, Vec<HStep>)> = vec![("direct".into(), t0)];
    for (name, w) in wrappers(&c).into_iter().skip(1) {
        let aborts: Aborts = Default::default();
        let mut h = DirectHost { cmd: build(&w, &Env::default(), &aborts), held: vec![], aborts };
        let mut t = vec![h.inspect()];
        for a in &inputs { h.input(a); t.push(h.inspect()); }
        traces.push((name.into(), t));
    }
    {
        let aborts: Aborts = Default::default();
        let mut h = StreamHost { cmd: Some(build(&c, &Env::default(), &aborts)), held: vec![], aborts, ended: false };
        let mut t = vec![h.inspect()];
        for a in &inputs { h.input(a); t.push(h.inspect()); }
        traces.push(("stream".into(), t));
    }
    {
        *HANDLERS.lock().unwrap() = vec![(1, c.clone())];
        let aborts: Aborts = Default::default();
        *ABORTS.lock().unwrap() = Some(aborts.clone());
        let core: Core<TheApp> = Core::new();
        let first = core.process_event(Ev { tag: 1, val: 0, maps: vec![] });
        let mut h = CoreHost { core, held: vec![], aborts, seen: 1, pending: first };
        let mut t = vec![h.inspect()];
        for a in &inputs { h.input(a); t.push(h.inspect()); }
        traces.push(("core".into(), t));
    }
    // the direct trace as a schedule of the model: [AEffects; AEvents; AEffects; AIsDone] after every input
    let mut acts: Vec<Action> = vec![];
    let push_inspect = |acts: &mut Vec<Action>| { acts.push(Action::Effects); acts.push(Action::Events); acts.push(Action::Effects); acts.push(Action::IsDone); };
    push_inspect(&mut acts);
    for a in &inputs { acts.push(a.clone()); push_inspect(&mut acts); }
    let mut h = HashMap::new(); c.hist(&mut h);
    let mut ah: HashMap<&str, u64> = HashMap::new(); for a in &inputs { *ah.entry(a.name()).or_default() += 1; }
    format!("{{\"idx\":{},\"seed\":{},\"mode\":\"hosts\",\"prog\":{},\"inputs\":{},\"acts\":{},\"hosts\":[{}],\"traces\":{},\"size\":{},\"depth\":{},\"hist\":{:?},\"ahist\":{:?}}}",
        idx, seed, json_str(&c.coq()), json_str(&coq_list(inputs.iter().map(|a| a.coq()).collect())), json_str(&coq_list(acts.iter().map(|a| a.coq()).collect())),
        traces.iter().map(|(n, _)| json_str(n)).collect::<Vec<_>>().join(","),
        json_str(&coq_list(traces.iter().map(|(_, t)| coq_list(t.iter().map(hstep_coq).collect())).collect())),
        c.size(), c.depth(), h, ah)
}


// ---------------------------------------------------------------- legacy capability API host
mod legacy {
    use super::*;
    use crux_core::capability::CapabilityContext;
    use crux_core::macros::{Capability, Effect};

    #[derive(Capability)]
    pub struct Leg<Ev> { context: CapabilityContext<Op, Ev> }
    impl<Ev: 'static> Leg<Ev> {
        pub fn new(context: CapabilityContext<Op, Ev>) -> Self { Self { context } }
    }
    impl Leg<Ev> {
        pub fn run(&self, t: Task, env: Vec<u64>) {
            let ctx = self.context.clone();
            self.context.spawn(async move { let mut e = LEnv { vars: env }; lexec(&t, &mut e, &ctx).await });
        }
    }
    pub struct LEnv { vars: Vec<u64> }
    impl LEnv { fn set(&mut self, x: usize, v: u64) { while self.vars.len() <= x { self.vars.push(0); } self.vars[x] = v; } }

    fn lexec<'a>(t: &'a Task, env: &'a mut LEnv, ctx: &'a CapabilityContext<Op, Ev>) -> BoxFuture<'a, ()> {
        async move {
            let mut cur = t;
            loop {
                match cur {
                    Task::Ret => return,
                    Task::Emit(tg, e, k) => { ctx.update_app(Ev { tag: *tg, val: e.eval(&env.vars), maps: vec![] }); cur = k; }
                    Task::Notify(tg, e, k) => { ctx.notify_shell(Op { tag: *tg, val: e.eval(&env.vars) }).await; cur = k; }
                    Task::Req(tg, e, x, k) | Task::LegReq(tg, e, x, k) => { let out = ctx.request_from_shell(Op { tag: *tg, val: e.eval(&env.vars) }).await; env.set(*x, out); cur = k; }
                    Task::ForEach(tg, e, x, body, k) => {
                        let mut stream = ctx.stream_from_shell(Op { tag: *tg, val: e.eval(&env.vars) });
                        while let Some(out) = stream.next().await { env.set(*x, out); lexec(body, env, ctx).await; }
                        drop(stream);
                        cur = k;
                    }
                    Task::Spawn(child, _h, k) => {
                        let child = (**child).clone(); let vars = env.vars.clone(); let c2 = ctx.clone();
                        ctx.spawn(async move { let mut e = LEnv { vars }; lexec(&child, &mut e, &c2).await });
                        cur = k;
                    }
                    Task::Yield(n, k) => { YieldN(*n).await; cur = k; }
                    Task::Join(_, k) | Task::AbortT(_, k) | Task::AbortC(_, k) | Task::BothJ(_, _, _, _, k) => { cur = k; }
                    Task::Both(_, _, _, _, _, _, k) | Task::BothL(_, _, _, _, _, _, k) | Task::Race(_, _, _, _, _, k) => { cur = k; }
                }
            }
        }.boxed()
    }

    #[derive(Effect)]
    pub struct Capabilities { pub leg: Leg<Ev> }

    pub static LHANDLERS: Mutex<Vec<(u64, Vec<Task>)>> = Mutex::new(Vec::new());
    #[derive(Default)]
    pub struct LegacyApp;
    impl crux_core::App for LegacyApp {
        type Event = Ev; type Model = Vec<Ev>; type ViewModel = Vec<Ev>; type Capabilities = Capabilities; type Effect = Effect;
        fn update(&self, event: Ev, model: &mut Vec<Ev>, caps: &Capabilities) -> Command<Effect, Ev> {
            model.push(event.clone());
            if event.maps.is_empty() {
                for (t, ts) in LHANDLERS.lock().unwrap().iter() {
                    if *t == event.tag { for task in ts { caps.leg.run(task.clone(), vec![event.val]); } break; }
                }
            }
            Command::done()
        }
        fn view(&self, model: &Vec<Ev>) -> Vec<Ev> { model.clone() }
    }

    pub struct LHeld { pub tag: u64, pub val: u64, pub req: Option<Request<Op>> }
    fn lfind(held: &[LHeld], tag: u64, val: u64, occ: u64) -> Option<usize> {
        let mut n = 0;
        for (i, h) in held.iter().enumerate() { if h.tag == tag && h.val == val { if n == occ { return Some(i); } n += 1; } }
        None
    }
    fn loeffs(effs: Vec<Effect>, held: &mut Vec<LHeld>) -> String {
        let mut out = vec![];
        for e in effs { let Effect::Leg(r) = e; out.push(format!("mkOE {} {} [] KNever", r.operation.tag, r.operation.val));
            held.push(LHeld { tag: r.operation.tag, val: r.operation.val, req: Some(r) }); }
        coq_list(out)
    }
    pub fn run_legacy(hs: &[(u64, Vec<Task>)], rng: &mut Rng, nsteps: usize) -> (Vec<Action>, Vec<String>) {
        *LHANDLERS.lock().unwrap() = hs.to_vec();
        let core: Core<LegacyApp> = Core::new();
        let ev_tags: Vec<u64> = hs.iter().map(|(t, _)| *t).collect();
        let mut held: Vec<LHeld> = vec![];
        let mut acts = vec![]; let mut obs = vec![];
        let total = nsteps + 2;
        let probe_all = rng.coin(1, 2);
        for i in 0..total {
            let view: Vec<Held> = held.iter().map(|h| Held { tag: h.tag, val: h.val, req: None }).collect();
            let live: Vec<bool> = held.iter().map(|h| h.req.is_some()).collect();
            let a = if i == 0 { Action::Event(ev_tags[0], rng.below(4)) }
                    else if i == total - 1 { Action::Event(99, 0) }
                    else if probe_all && !matches!(acts[i - 1], Action::Event(99, 0)) { Action::Event(99, 0) }
                    else {
                        // same chooser as the other hosts, on a view of what is held
                        let r = rng.below(100);
                        let livei: Vec<usize> = live.iter().enumerate().filter(|(_, l)| **l).map(|(i, _)| i).collect();
                        if r < 25 || view.is_empty() { if rng.coin(2, 3) { Action::Event(*rng.pick(&ev_tags), rng.below(4)) } else { Action::Event(99, 0) } }
                        else if r < 80 { let i = if !livei.is_empty() && rng.coin(5, 6) { *rng.pick(&livei) } else { rng.below(view.len() as u64) as usize };
                                         Action::Resolve(view[i].tag, view[i].val, occ_of(&view, i), rng.below(50)) }
                        else if r < 93 { let i = if !livei.is_empty() && rng.coin(5, 6) { *rng.pick(&livei) } else { rng.below(view.len() as u64) as usize };
                                         Action::DropReq(view[i].tag, view[i].val, occ_of(&view, i)) }
                        else { Action::Event(99, 0) }
                    };
            let o = match &a {
                Action::Event(t, v) => { let es = core.process_event(Ev { tag: *t, val: *v, maps: vec![] }); let e = loeffs(es, &mut held); format!("OCall 0 {} {}", e, oevs(&core.view())) }
                Action::Resolve(t, v, o, out) => match lfind(&held, *t, *v, *o) {
                    Some(i) if held[i].req.is_some() => match core.resolve(held[i].req.as_mut().unwrap(), *out) {
                        Ok(es) => { let e = loeffs(es, &mut held); format!("OCall 0 {} {}", e, oevs(&core.view())) }
                        Err(err) => format!("OCall {} [] {}", rcode(Err(err)), oevs(&core.view())),
                    },
                    _ => "OResolve 3".into(),
                },
                Action::DropReq(t, v, o) => { if let Some(i) = lfind(&held, *t, *v, *o) { held[i].req = None; } "ONone".into() }
                _ => "ONone".into(),
            };
            acts.push(a); obs.push(o);
        }
        (acts, obs)
    }
}


// ---------------------------------------------------------------- exhaustive small scope
// All commands built from tasks of at most two statements (over emit / request / stream loop / spawn with
// immediate join and/or abort of the handle / self-abort / self-wake), an optional extra task, and one
// of five wrappers; under ALL input sequences up to length 3 over {resolve the oldest live request,
// resolve the newest live request, drop the oldest live request, abort handle 1, spawn a task from
// outside}, inspecting after every input.  `stride` keeps every stride-th case (quick tier).
fn enum_stmts() -> Vec<Box<dyn Fn(Task) -> Task>> {
    let mut v: Vec<Box<dyn Fn(Task) -> Task>> = vec![];
    v.push(Box::new(|k| Task::Emit(100, Expr::K(1), Box::new(k))));
    v.push(Box::new(|k| Task::Req(0, Expr::K(0), 0, Box::new(k))));
    v.push(Box::new(|k| Task::Notify(0, Expr::K(2), Box::new(k))));
    v.push(Box::new(|k| Task::ForEach(0, Expr::K(0), 0, Box::new(Task::Ret), Box::new(k))));
    v.push(Box::new(|k| Task::ForEach(0, Expr::K(0), 0, Box::new(Task::Emit(101, Expr::V(0), Box::new(Task::Ret))), Box::new(k))));
    v.push(Box::new(|k| Task::ForEach(0, Expr::K(0), 0, Box::new(Task::AbortC(1, Box::new(Task::Ret))), Box::new(k))));
    for child in 0..3 {
        for usage in 0..4 {
            v.push(Box::new(move |k| {
                let c = match child { 0 => Task::Ret, 1 => Task::Req(0, Expr::K(1), 0, Box::new(Task::Emit(102, Expr::V(0), Box::new(Task::Ret)))), _ => Task::Emit(103, Expr::K(3), Box::new(Task::Ret)) };
                let rest = match usage { 0 => k, 1 => Task::Join(8, Box::new(k)), 2 => Task::AbortT(8, Box::new(k)), _ => Task::AbortT(8, Box::new(Task::Join(8, Box::new(k)))) };
                Task::Spawn(Box::new(c), 8, Box::new(rest))
            }));
        }
    }
    v.push(Box::new(|k| Task::AbortC(1, Box::new(k))));
    v.push(Box::new(|k| Task::Yield(1, Box::new(k))));
    v.push(Box::new(|k| Task::Both(0, Expr::K(0), 0, 0, Expr::K(1), 1, Box::new(k))));
    v.push(Box::new(|k| Task::Race(0, Expr::K(0), 0, Expr::K(1), 0, Box::new(k))));
    v
}
fn retag_task(t: &mut Task, n: &mut u64) {
    let mut fresh = |n: &mut u64| { *n += 1; *n };
    match t {
        Task::Ret => {}
        Task::Emit(_, _, k) | Task::Join(_, k) | Task::AbortT(_, k) | Task::Yield(_, k) | Task::AbortC(_, k) => retag_task(k, n),
        Task::BothJ(_, t, _, _, k) => { *t = fresh(n); retag_task(k, n) }
        Task::Notify(tg, _, k) | Task::Req(tg, _, _, k) | Task::LegReq(tg, _, _, k) => { *tg = fresh(n); retag_task(k, n) }
        Task::ForEach(tg, _, _, b, k) => { *tg = fresh(n); retag_task(b, n); retag_task(k, n) }
        Task::Spawn(c, _, k) => { retag_task(c, n); retag_task(k, n) }
        Task::Both(t1, _, _, t2, _, _, k) | Task::BothL(t1, _, _, t2, _, _, k) => { *t1 = fresh(n); *t2 = fresh(n); retag_task(k, n) }
        Task::Race(t1, _, t2, _, _, k) => { *t1 = fresh(n); *t2 = fresh(n); retag_task(k, n) }
    }
}
fn enum_commands() -> Vec<Cmd> {
    let st = enum_stmts();
    let mut one: Vec<Task> = vec![Task::Ret];
    for f in &st { one.push(f(Task::Ret)); }
    let mut two: Vec<Task> = vec![];
    for f in &st { for g in &st { two.push(f(g(Task::Ret))); } }
    let mut bases: Vec<Cmd> = vec![];
    for m in &one { bases.push(Cmd::New(m.clone(), vec![])); for e in one.iter().skip(1) { bases.push(Cmd::New(m.clone(), vec![e.clone()])); } }
    for m in &two { bases.push(Cmd::New(m.clone(), vec![])); }
    let mut out = vec![];
    for b in bases {
        for w in 0..5 {
            let mut c = match w {
                0 => b.clone(),
                1 => Cmd::Abortable(1, Box::new(b.clone())),
                2 => Cmd::Then(Box::new(Cmd::Abortable(1, Box::new(b.clone()))), Box::new(Cmd::New(Task::Emit(104, Expr::K(4), Box::new(Task::Ret)), vec![]))),
                3 => Cmd::All(vec![Cmd::Abortable(1, Box::new(b.clone())), Cmd::New(Task::Req(0, Expr::K(5), 0, Box::new(Task::Emit(105, Expr::V(0), Box::new(Task::Ret)))), vec![])]),
                _ => Cmd::IdEff(Box::new(Cmd::Abortable(1, Box::new(b.clone())))),
            };
            let mut n = 0u64; retag_cmd(&mut c, &mut n);
            out.push(c);
        }
    }
    out
}
fn retag_cmd(c: &mut Cmd, n: &mut u64) {
    match c {
        Cmd::New(m, ex) => { retag_task(m, n); for t in ex { retag_task(t, n); } }
        Cmd::Then(a, b) | Cmd::And(a, b) => { retag_cmd(a, n); retag_cmd(b, n); }
        Cmd::All(cs) => for x in cs { retag_cmd(x, n); },
        Cmd::MapEff(_, x) | Cmd::MapEv(_, x) | Cmd::IdEff(x) | Cmd::IdEv(x) | Cmd::Into(x) | Cmd::Abortable(_, x) => retag_cmd(x, n),
        Cmd::SendR(..) | Cmd::SendS(..) => {}
    }
}
fn enum_schedules() -> Vec<Vec<u8>> {
    let mut out = vec![vec![]];
    let mut frontier = vec![vec![]];
    for _ in 0..3 { let mut next = vec![]; for s in &frontier { for a in 0..5u8 { let mut t: Vec<u8> = s.clone(); t.push(a); next.push(t); } } out.extend(next.clone()); frontier = next; }
    out
}
fn run_enum_case(c: &Cmd, sched: &[u8]) -> (Vec<Action>, Vec<String>) {
    let aborts: Aborts = Default::default();
    let mut cmd = build(c, &Env::default(), &aborts);
    let mut held: Vec<Held> = vec![];
    let mut acts: Vec<Action> = vec![]; let mut obs: Vec<String> = vec![];
    let mut inspect = |cmd: &mut C, held: &mut Vec<Held>, acts: &mut Vec<Action>, obs: &mut Vec<String>| {
        let es: Vec<Eff> = cmd.effects().collect(); acts.push(Action::Effects); obs.push(format!("OEffects {}", oeffs(es, held)));
        let evs: Vec<Ev> = cmd.events().collect(); acts.push(Action::Events); obs.push(format!("OEvents {}", oevs(&evs)));
        let d = cmd.is_done(); acts.push(Action::IsDone); obs.push(format!("ODone {} {}", if d { "true" } else { "false" }, live(cmd)));
    };
    inspect(&mut cmd, &mut held, &mut acts, &mut obs);
    for (i, a) in sched.iter().enumerate() {
        let livei: Vec<usize> = held.iter().enumerate().filter(|(_, h)| h.req.is_some()).map(|(i, _)| i).collect();
        let act = match a {
            0 => match livei.first() { Some(&j) => Action::Resolve(held[j].tag, held[j].val, occ_of(&held, j), 7 + i as u64), None => Action::Resolve(77, 0, 0, 1) },
            1 => match livei.last() { Some(&j) => Action::Resolve(held[j].tag, held[j].val, occ_of(&held, j), 20 + i as u64), None => Action::Resolve(77, 0, 0, 1) },
            2 => match livei.first() { Some(&j) => Action::DropReq(held[j].tag, held[j].val, occ_of(&held, j)), None => Action::DropReq(77, 0, 0) },
            3 => Action::Abort(1),
            _ => Action::Spawn(Task::Req(900 + i as u64, Expr::K(0), 0, Box::new(Task::Emit(106, Expr::V(0), Box::new(Task::Ret))))),
        };
        let o = match &act {
            Action::Resolve(t, v, o, out) => match find(&held, *t, *v, *o) { Some(j) if held[j].req.is_some() => format!("OResolve {}", rcode(held[j].req.as_mut().unwrap().resolve(*out))), _ => "OResolve 3".into() },
            Action::DropReq(t, v, o) => { if let Some(j) = find(&held, *t, *v, *o) { held[j].req = None; } "ONone".into() }
            Action::Abort(n) => { for (m, h) in aborts.lock().unwrap().iter() { if m == n { h(); } } "ONone".into() }
            Action::Spawn(t) => { let (t, ab) = (t.clone(), aborts.clone()); cmd.spawn(move |ctx| async move { let mut e = Env::default(); exec(&t, &mut e, &ctx, &ab).await }); "ONone".into() }
            _ => "ONone".into(),
        };
        acts.push(act); obs.push(o);
        inspect(&mut cmd, &mut held, &mut acts, &mut obs);
    }
    (acts, obs)
}
fn run_enum(stride: usize, offset: usize) {
    let cmds = enum_commands(); let scheds = enum_schedules();
    let total = cmds.len() * scheds.len();
    eprintln!("enum: {} commands x {} schedules = {} cases, stride {}", cmds.len(), scheds.len(), total, stride);
    let mut idx = 0usize;
    for c in &cmds { for s in &scheds {
        idx += 1;
        if (idx + offset) % stride != 0 { continue; }
        let r = std::panic::catch_unwind(std::panic::AssertUnwindSafe(|| run_enum_case(c, s)));
        match r {
            Ok((acts, obs)) => println!("{{\"idx\":{},\"seed\":0,\"drained\":false,\"host\":\"direct\",\"prog\":{},\"handlers\":\"[]\",\"acts\":{},\"impl\":{},\"size\":{},\"depth\":{},\"hist\":{{}},\"ahist\":{{}},\"enum\":true}}",
                idx, json_str(&c.coq()), json_str(&coq_list(acts.iter().map(|a| a.coq()).collect())), json_str(&coq_list(obs)), c.size(), c.depth()),
            Err(_) => println!("{{\"idx\":{},\"seed\":0,\"drained\":false,\"host\":\"direct\",\"prog\":{},\"handlers\":\"[]\",\"acts\":\"[AIsDone]\",\"impl\":\"[OPanic]\",\"size\":0,\"depth\":0,\"hist\":{{}},\"ahist\":{{}},\"enum\":true,\"panic\":true}}", idx, json_str(&c.coq())),
        }
    } }
}

fn json_str(s: &str) -> String { format!("\"{}\"", s.replace('\\', "\\\\").replace('"', "\\\"")) }


// ---------------------------------------------------------------- parser of the Coq syntax the cases are printed in
// (replay mode: a stored case - program, handler table, schedule - is run again on the implementation)
#[derive(Debug, Clone)]
enum Sx { Atom(String), App(Vec<Sx>), List(Vec<Sx>) }
fn sx_tokens(s: &str) -> Vec<String> {
    let mut out = vec![]; let mut cur = String::new();
    for ch in s.chars() {
        if "()[];,".contains(ch) { if !cur.is_empty() { out.push(std::mem::take(&mut cur)); } out.push(ch.to_string()); }
        else if ch.is_whitespace() { if !cur.is_empty() { out.push(std::mem::take(&mut cur)); } }
        else { cur.push(ch); }
    }
    if !cur.is_empty() { out.push(cur); }
    out
}
// term := atom | '(' term+ [',' term+]* ')' | '[' (term+ (';' term+)*)? ']' ; a juxtaposition of terms is an application
fn sx_seq(t: &[String], i: &mut usize, stops: &[&str]) -> Sx {
    let mut items = vec![];
    while *i < t.len() && !stops.contains(&t[*i].as_str()) {
        match t[*i].as_str() {
            "(" => { *i += 1; let mut parts = vec![sx_seq(t, i, &[")", ","])];
                     while t[*i] == "," { *i += 1; parts.push(sx_seq(t, i, &[")", ","])); }
                     *i += 1; items.push(if parts.len() == 1 { parts.pop().unwrap() } else { let mut v = vec![Sx::Atom("pair".into())]; v.extend(parts); Sx::App(v) }); }
            "[" => { *i += 1; let mut elems = vec![];
                     if t[*i] != "]" { elems.push(sx_seq(t, i, &["]", ";"])); while t[*i] == ";" { *i += 1; elems.push(sx_seq(t, i, &["]", ";"])); } }
                     *i += 1; items.push(Sx::List(elems)); }
            a => { items.push(Sx::Atom(a.to_string())); *i += 1; }
        }
    }
    if items.len() == 1 { items.pop().unwrap() } else { Sx::App(items) }
}
fn sx_parse(s: &str) -> Sx { let t = sx_tokens(s); let mut i = 0; sx_seq(&t, &mut i, &[]) }
impl Sx {
    fn head(&self) -> (&str, &[Sx]) { match self { Sx::Atom(a) => (a.as_str(), &[]), Sx::App(v) => match &v[0] { Sx::Atom(a) => (a.as_str(), &v[1..]), _ => panic!("head {:?}", self) }, _ => panic!("head {:?}", self) } }
    fn n(&self) -> u64 { match self { Sx::Atom(a) => a.parse().unwrap_or_else(|_| panic!("number {:?}", a)), _ => panic!("number {:?}", self) } }
    fn list(&self) -> &[Sx] { match self { Sx::List(v) => v, _ => panic!("list {:?}", self) } }
}
fn p_expr(x: &Sx) -> Expr { let (h, a) = x.head(); match h { "K" => Expr::K(a[0].n()), "V" => Expr::V(a[0].n() as usize), "Plus" => Expr::Plus(Box::new(p_expr(&a[0])), Box::new(p_expr(&a[1]))), _ => panic!("expr {}", h) } }
fn p_task(x: &Sx) -> Task {
    let (h, a) = x.head(); let b = |i: usize| Box::new(p_task(&a[i]));
    match h {
        "TRet" => Task::Ret,
        "TEmit" => Task::Emit(a[0].n(), p_expr(&a[1]), b(2)),
        "TNotify" => Task::Notify(a[0].n(), p_expr(&a[1]), b(2)),
        "TReq" => Task::Req(a[0].n(), p_expr(&a[1]), a[2].n() as usize, b(3)),
        "TForEach" => Task::ForEach(a[0].n(), p_expr(&a[1]), a[2].n() as usize, b(3), b(4)),
        "TSpawn" => Task::Spawn(b(0), a[1].n() as usize, b(2)),
        "TJoin" => Task::Join(a[0].n() as usize, b(1)),
        "TAbortT" => Task::AbortT(a[0].n() as usize, b(1)),
        "TYield" => Task::Yield(a[0].n(), b(1)),
        "TAbortC" => Task::AbortC(a[0].n(), b(1)),
        "TLegReq" => Task::LegReq(a[0].n(), p_expr(&a[1]), a[2].n() as usize, b(3)),
        "TBoth" => Task::Both(a[0].n(), p_expr(&a[1]), a[2].n() as usize, a[3].n(), p_expr(&a[4]), a[5].n() as usize, b(6)),
        "TBothL" => Task::BothL(a[0].n(), p_expr(&a[1]), a[2].n() as usize, a[3].n(), p_expr(&a[4]), a[5].n() as usize, b(6)),
        "TBothJ" => Task::BothJ(a[0].n() as usize, a[1].n(), p_expr(&a[2]), a[3].n() as usize, b(4)),
        "TRace" => Task::Race(a[0].n(), p_expr(&a[1]), a[2].n(), p_expr(&a[3]), a[4].n() as usize, b(5)),
        _ => panic!("task {}", h),
    }
}
fn p_rb(x: &Sx) -> Rb { let (h, a) = x.head(); match h { "RbReq" => Rb::Req(a[0].n(), p_expr(&a[1])), "RbMap" => Rb::Map(Box::new(p_rb(&a[0])), a[1].n()), "RbThenReq" => Rb::ThenReq(Box::new(p_rb(&a[0])), a[1].n()), _ => panic!("rb {}", h) } }
fn p_sb(x: &Sx) -> Sb { let (h, a) = x.head(); match h { "SbStr" => Sb::Str(a[0].n(), p_expr(&a[1])), "SbMap" => Sb::Map(Box::new(p_sb(&a[0])), a[1].n()), "SbThenReq" => Sb::ThenReq(Box::new(p_sb(&a[0])), a[1].n()),
    "SbOfReq" => Sb::OfReq(Box::new(p_rb(&a[0])), a[1].n()), "SbThenStr" => Sb::ThenStr(Box::new(p_sb(&a[0])), a[1].n()), _ => panic!("sb {}", h) } }
fn p_cmd(x: &Sx) -> Cmd {
    let (h, a) = x.head(); let b = |i: usize| Box::new(p_cmd(&a[i]));
    match h {
        "c_done" => Cmd::New(Task::Ret, vec![]),
        "CNew" => Cmd::New(p_task(&a[0]), a[1].list().iter().map(p_task).collect()),
        "CThen" => Cmd::Then(b(0), b(1)), "CAnd" => Cmd::And(b(0), b(1)),
        "CAll" => Cmd::All(a[0].list().iter().map(p_cmd).collect()),
        "CMapEff" => Cmd::MapEff(a[0].n(), b(1)), "CMapEv" => Cmd::MapEv(a[0].n(), b(1)),
        "CIdEff" => Cmd::IdEff(b(0)), "CIdEv" => Cmd::IdEv(b(0)), "CInto" => Cmd::Into(b(0)),
        "CAbortable" => Cmd::Abortable(a[0].n(), b(1)),
        "CSendR" => Cmd::SendR(p_rb(&a[0]), a[1].n()), "CSendS" => Cmd::SendS(p_sb(&a[0]), a[1].n()),
        _ => panic!("cmd {}", h),
    }
}
fn p_action(x: &Sx) -> Action {
    let (h, a) = x.head();
    match h {
        "AEffects" => Action::Effects, "AEvents" => Action::Events, "AIsDone" => Action::IsDone, "ALive" => Action::Live,
        "AResolve" => Action::Resolve(a[0].n(), a[1].n(), a[2].n(), a[3].n()), "ADropReq" => Action::DropReq(a[0].n(), a[1].n(), a[2].n()),
        "AAbort" => Action::Abort(a[0].n()), "AEvent" => Action::Event(a[0].n(), a[1].n()), "ASpawn" => Action::Spawn(p_task(&a[0])),
        _ => panic!("action {}", h),
    }
}
fn names_of(c: &Cmd, out: &mut Vec<u64>) {
    match c { Cmd::Abortable(n, c) => { out.push(*n); names_of(c, out) }
              Cmd::Then(a, b) | Cmd::And(a, b) => { names_of(a, out); names_of(b, out) }
              Cmd::All(cs) => for c in cs { names_of(c, out) },
              Cmd::MapEff(_, c) | Cmd::MapEv(_, c) | Cmd::IdEff(c) | Cmd::IdEv(c) | Cmd::Into(c) => names_of(c, out),
              _ => {} }
}
// rt_run <seed> 0 '' replay <host> <prog> <handlers> <acts> : prints the implementation's observations
fn run_replay(args: &[String]) {
    let (host, prog, hs, acts) = (&args[5], &args[6], &args[7], &args[8]);
    let acts: Vec<Action> = sx_parse(acts).list().iter().map(p_action).collect();
    let mut rng = Rng::new(1);
    let obs = if host == "core" {
        let hs: Vec<(u64, Cmd)> = sx_parse(hs).list().iter().map(|p| { let (_, a) = p.head(); (a[0].n(), p_cmd(&a[1])) }).collect();
        let mut names = vec![]; for (_, c) in &hs { names_of(c, &mut names); }
        run_core(&hs, &mut rng, &names, 0, Some(&acts)).1
    } else {
        let c = p_cmd(&sx_parse(prog)); let mut names = vec![]; names_of(&c, &mut names);
        run_direct(&c, &mut rng, &names, 0, Some(&acts), false).1
    };
    println!("{}", coq_list(obs));
}

fn main() {
    std::panic::set_hook(Box::new(|_| {}));
    let args: Vec<String> = std::env::args().collect();
    let seed: u64 = args.get(1).and_then(|s| s.parse().ok()).unwrap_or(1);
    let count: usize = args.get(2).and_then(|s| s.parse().ok()).unwrap_or(100);
    let only: Option<usize> = args.get(3).and_then(|s| s.parse().ok());
    let mode: String = args.get(4).cloned().unwrap_or_else(|| "mix".into());
    if mode == "enum" { run_enum(count.max(1), seed as usize); return; }
    if mode == "replay" { run_replay(&args); return; }
    if mode == "mix" && only.is_none() {
        // fixed witness of a recorded finding (KNOWN_FINDINGS.txt, class flat_task_never_evicted): then_stream on a
        // stream keeps the task's waker inside flatten_unordered, so when the one-shot request upstream of it is
        // dropped the task is never evicted and the command never reports done
        let c = Cmd::SendS(Sb::ThenStr(Box::new(Sb::OfReq(Box::new(Rb::Req(1, Expr::K(3))), 2)), 4), 104);
        let fixed = [Action::Effects, Action::Events, Action::IsDone, Action::DropReq(1, 3, 0), Action::Effects, Action::Events, Action::IsDone];
        let mut rng = Rng::new(1);
        let (acts, obs) = run_direct(&c, &mut rng, &[], 0, Some(&fixed), false);
        let mut h = HashMap::new(); c.hist(&mut h);
        let mut ah: HashMap<&str, u64> = HashMap::new(); for a in &acts { *ah.entry(a.name()).or_default() += 1; }
        println!("{{\"idx\":{},\"seed\":{},\"drained\":true,\"host\":\"direct\",\"prog\":{},\"handlers\":\"[]\",\"acts\":{},\"impl\":{},\"size\":{},\"depth\":{},\"hist\":{:?},\"ahist\":{:?},\"witness\":true}}",
            count, seed, json_str(&c.coq()), json_str(&coq_list(acts.iter().map(|a| a.coq()).collect())), json_str(&coq_list(obs)), c.size(), c.depth(), h, ah);
    }
    for idx in 0..count {
        // one independent generator state per case so that a single case can be regenerated
        let mut g = Gen { rng: Rng::new(seed.wrapping_mul(1_000_003).wrapping_add(idx as u64)), next_tag: 0, next_name: 0, names: vec![], ev_tags: vec![], legacy: false, scope: vec![], mix: false, huge: idx < 4000 };
        let core_host = idx % 3 == 2 || mode == "core";      // mode core: every case runs under a real Core
        let legacy_host = idx % 6 == 5;
        let depth = match g.rng.below(10) { 0..=2 => 0, 3..=5 => 1, 6..=7 => 2, 8 => 3, _ => 4 };
        let nsteps = 4 + g.rng.below(14) as usize;
        if only.is_some() && only != Some(idx) { continue; }
        if mode == "hosts" {
            g.ev_tags = vec![];
            match std::panic::catch_unwind(std::panic::AssertUnwindSafe(|| run_hosts(idx, seed, &mut g, depth.min(3), nsteps.min(10)))) {
                Ok(l) => println!("{}", l),
                Err(_) => println!("{{\"idx\":{},\"seed\":{},\"mode\":\"hosts\",\"panic\":true}}", idx, seed),
            }
            continue;
        }
        if legacy_host && mode == "mix" {
            let r = std::panic::catch_unwind(std::panic::AssertUnwindSafe(|| {
                g.legacy = true;
                let n = 1 + g.rng.below(3);
                let hs: Vec<(u64, Vec<Task>)> = (1..=n).map(|t| { g.ev_tags = (t + 1..=n).collect();
                    let k = 1 + g.rng.below(3); (t, (0..k).map(|_| { let b = 2 + g.rng.below(7) as i64; g.top_task(b, 1) }).collect()) }).collect();
                let mut rng = g.rng.clone();
                let (acts, obs) = legacy::run_legacy(&hs, &mut rng, nsteps);
                let mut h = HashMap::new(); for (_, ts) in &hs { for t in ts { t.hist(&mut h); } }
                let mut ah: HashMap<&str, u64> = HashMap::new(); for a in &acts { *ah.entry(a.name()).or_default() += 1; }
                let hcoq = coq_list(hs.iter().map(|(t, ts)| format!("({}, {})", t, coq_list(ts.iter().map(|x| x.coq()).collect()))).collect());
                format!("{{\"idx\":{},\"seed\":{},\"drained\":false,\"host\":\"legacy\",\"prog\":\"c_done\",\"handlers\":{},\"acts\":{},\"impl\":{},\"size\":{},\"depth\":0,\"hist\":{:?},\"ahist\":{:?}}}",
                    idx, seed, json_str(&hcoq), json_str(&coq_list(acts.iter().map(|a| a.coq()).collect())), json_str(&coq_list(obs)),
                    hs.iter().map(|(_, ts)| ts.iter().map(|t| t.size()).sum::<usize>()).sum::<usize>(), h, ah)
            }));
            match r { Ok(l) => println!("{}", l),
                      Err(_) => println!("{{\"idx\":{},\"seed\":{},\"drained\":false,\"host\":\"legacy\",\"prog\":\"c_done\",\"handlers\":\"[]\",\"acts\":\"[AIsDone]\",\"impl\":\"[OPanic]\",\"size\":0,\"depth\":0,\"hist\":{{}},\"ahist\":{{}},\"panic\":true}}", idx, seed) }
            continue;
        }
        let line = std::panic::catch_unwind(std::panic::AssertUnwindSafe(|| if !core_host {
            let c = g.cmd(depth, 0);
            let names = g.names.clone();
            let mut rng = g.rng.clone();
            let drained = idx % 2 == 0;
            let (acts, obs) = run_direct(&c, &mut rng, &names, nsteps, None, drained);
            let mut h = HashMap::new(); c.hist(&mut h);
            let mut ah: HashMap<&str, u64> = HashMap::new(); for a in &acts { *ah.entry(a.name()).or_default() += 1; }
            format!("{{\"idx\":{},\"seed\":{},\"drained\":{},\"host\":\"direct\",\"prog\":{},\"handlers\":\"[]\",\"acts\":{},\"impl\":{},\"size\":{},\"depth\":{},\"hist\":{:?},\"ahist\":{:?}}}",
                idx, seed, drained, json_str(&c.coq()), json_str(&coq_list(acts.iter().map(|a| a.coq()).collect())), json_str(&coq_list(obs)), c.size(), c.depth(), h, ah)
        } else {
            // handlers: event tags 1..=n each mapped to a command; emitted events may hit them
            let n = 1 + g.rng.below(3);
            g.mix = true;
            // handler t may only emit handler events > t: the app terminates (a cyclic app makes the real
            // call loop forever; the model says OutOfFuel; the theorems are silent there)
            let hs: Vec<(u64, Cmd)> = (1..=n).map(|t| { g.ev_tags = (t + 1..=n).collect(); (t, g.cmd(depth.min(2), 1)) }).collect();
            g.ev_tags = (1..=n).collect();
            let names = g.names.clone();
            let mut rng = g.rng.clone();
            if std::env::var("RT_DEBUG").is_ok() { eprintln!("{}", coq_list(hs.iter().map(|(t, c)| format!("({}, {})", t, c.coq())).collect())); }
            let (acts, obs) = run_core(&hs, &mut rng, &names, nsteps, None);
            let mut h = HashMap::new(); for (_, c) in &hs { c.hist(&mut h); }
            let mut ah: HashMap<&str, u64> = HashMap::new(); for a in &acts { *ah.entry(a.name()).or_default() += 1; }
            let hcoq = coq_list(hs.iter().map(|(t, c)| format!("({}, {})", t, c.coq())).collect());
            format!("{{\"idx\":{},\"seed\":{},\"drained\":false,\"host\":\"core\",\"prog\":\"c_done\",\"handlers\":{},\"acts\":{},\"impl\":{},\"size\":{},\"depth\":{},\"hist\":{:?},\"ahist\":{:?}}}",
                idx, seed, json_str(&hcoq), json_str(&coq_list(acts.iter().map(|a| a.coq()).collect())), json_str(&coq_list(obs)),
                hs.iter().map(|(_, c)| c.size()).sum::<usize>(), hs.iter().map(|(_, c)| c.depth()).max().unwrap_or(0), h, ah)
        }));
        match line {
            Ok(l) => println!("{}", l),
            Err(_) => println!("{{\"idx\":{},\"seed\":{},\"drained\":false,\"host\":\"{}\",\"prog\":\"c_done\",\"handlers\":\"[]\",\"acts\":\"[AIsDone]\",\"impl\":\"[OPanic]\",\"size\":0,\"depth\":0,\"hist\":{{}},\"ahist\":{{}},\"panic\":true}}", idx, seed, if core_host { "core" } else { "direct" }),
        }
    }
}
