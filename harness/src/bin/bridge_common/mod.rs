//! Test apps shared by the bridge_* harness binaries (C09, C02, C13).
//!
//! Two apps interpret the same little script language, so the same history can be run through
//!  * `NewApp`: the Command API (`command/context.rs` request/stream/notify) with an `#[effect]` enum
//!    (crux_macros/src/effect.rs), and
//!  * `OldApp`: legacy capabilities (`capability/shell_request.rs`, `shell_stream.rs`, CapabilityContext)
//!    with `#[derive(Effect)]` on the capabilities struct (crux_macros/src/effect_derive.rs; variants are
//!    ordered by *field name*, which the field names below scramble on purpose).
//! Every task gets a fresh serial when its event is processed and reports `(serial, value)` for every
//! value it receives from the shell; the model keeps the log of these pairs and the view exposes it, so
//! "which task got which value" is observable without peeking into the runtime.
#![allow(dead_code)]
use crux_core::capability::{CapabilityContext, Operation};
use crux_core::macros::{effect, Effect};
use crux_core::render::{Render, RenderOperation};
use crux_core::{App, Capability, Command, Request};
use futures::StreamExt;
use serde::{Deserialize, Serialize};
use std::sync::atomic::{AtomicUsize, Ordering};

// ------------------------------------------------------------------ operations
#[derive(Clone, Serialize, Deserialize, Debug, PartialEq, Eq)]
pub struct NoteOp { pub label: u8 }
impl Operation for NoteOp { type Output = (); }

/// notification that links the next request of the same task to its serial (C02 routing oracle)
#[derive(Clone, Serialize, Deserialize, Debug, PartialEq, Eq)]
pub struct MarkOp { pub serial: u32 }
impl Operation for MarkOp { type Output = (); }

/// `witness`: not part of the protocol (never serialized); lets a drop counter see how long the runtime keeps an
/// operation - and with it the request future's shared state and callback - alive
#[derive(Clone, Serialize, Deserialize, Debug)]
pub struct GetOp { pub label: u8, #[serde(skip)] pub witness: Option<std::sync::Arc<Token>> }
impl PartialEq for GetOp { fn eq(&self, o: &Self) -> bool { self.label == o.label } }
impl Eq for GetOp {}
impl Operation for GetOp { type Output = u64; }

#[derive(Clone, Serialize, Deserialize, Debug, PartialEq, Eq)]
pub struct FetchOp { pub label: u8 }
impl Operation for FetchOp { type Output = String; }

#[derive(Clone, Serialize, Deserialize, Debug, PartialEq, Eq)]
pub struct SubOp { pub label: u8 }
impl Operation for SubOp { type Output = u64; }

// ------------------------------------------------------------------ script language, events, model, view
#[derive(Clone, Serialize, Deserialize, Debug, PartialEq, Eq)]
pub enum Act {
    Render,
    Note(u8),
    /// one-shot u64 request; `chain` further one-shot requests follow in the same task, each after the
    /// previous response; `mark`: a MarkOp notification precedes every request of the task
    Get { label: u8, chain: u8, mark: bool },
    /// one-shot String request
    Fetch { label: u8, mark: bool },
    /// stream request; the task takes `take` items and then ends (255 = never ends by itself)
    Sub { label: u8, take: u8, mark: bool },
}

#[derive(Clone, Serialize, Deserialize, Debug, PartialEq, Eq)]
pub enum Event {
    Run(Vec<Act>),
    Got { serial: u32, val: u64 },
    Text { serial: u32, val: String },
    Item { serial: u32, val: u64 },
    Ended { serial: u32 },
}

pub const TAIL: usize = 6;

#[derive(Default)]
pub struct Model {
    pub next_serial: u32,
    pub count: u64,
    pub hash: u64,
    pub tail: Vec<(u32, u64)>,
}

#[derive(Clone, Serialize, Deserialize, Debug, PartialEq, Eq)]
pub struct ViewModel {
    pub count: u64,
    pub hash: u64,
    pub tail: Vec<(u32, u64)>,
}

impl ViewModel {
    /// flat form compared in Coq: [count; hash; s1; v1; s2; v2; ...]
    pub fn flat(&self) -> Vec<u64> {
        let mut v = vec![self.count, self.hash];
        for (s, x) in &self.tail { v.push(*s as u64); v.push(*x); }
        v
    }
}

impl Model {
    fn record(&mut self, serial: u32, val: u64) {
        self.count += 1;
        self.hash = self.hash.wrapping_mul(0x100_0000_01B3).wrapping_add(((serial as u64) << 40) ^ val ^ 0x9E37);
        self.tail.push((serial, val));
        if self.tail.len() > TAIL { self.tail.remove(0); }
    }
    fn view(&self) -> ViewModel { ViewModel { count: self.count, hash: self.hash, tail: self.tail.clone() } }
}

pub const ENDED_MARK: u64 = u64::MAX;
pub fn text_val(s: &str) -> u64 { s.parse::<u64>().unwrap_or(u64::MAX - 1) }

/// what an app does after a value arrived (follow-up effects of a response)
#[derive(Clone, Copy, PartialEq, Eq)]
pub enum Follow { Nothing, Render, Get(u8), Note(u8) }
pub fn follow_of(val: u64) -> Follow {
    match val % 8 {
        1 => Follow::Render,
        2 => Follow::Get(((val >> 3) % 4) as u8),
        3 => Follow::Note(((val >> 3) % 4) as u8),
        _ => Follow::Nothing,
    }
}

// ------------------------------------------------------------------ drop counters (C13)
/// A value captured by every task.  Creations and drops are counted per "system" (the harness runs several
/// cores in lockstep and sets CUR_SYS before entering one), so `created - dropped` of a system is the number
/// of its task futures that still exist.
pub const NSYS: usize = 8;
pub static CUR_SYS: AtomicUsize = AtomicUsize::new(0);
pub static CREATED: [AtomicUsize; NSYS] = [const { AtomicUsize::new(0) }; NSYS];
pub static DROPPED: [AtomicUsize; NSYS] = [const { AtomicUsize::new(0) }; NSYS];
#[derive(Debug)]
pub struct Token(usize);
impl Token {
    pub fn new() -> Self { let s = CUR_SYS.load(Ordering::SeqCst); CREATED[s].fetch_add(1, Ordering::SeqCst); Token(s) }
}
impl Drop for Token { fn drop(&mut self) { DROPPED[self.0].fetch_add(1, Ordering::SeqCst); } }
pub fn enter_sys(s: usize) { CUR_SYS.store(s, Ordering::SeqCst); }
/// task futures of system `s` that still exist
pub fn tokens_live(s: usize) -> i64 { CREATED[s].load(Ordering::SeqCst) as i64 - DROPPED[s].load(Ordering::SeqCst) as i64 }

// ================================================================== NewApp: Command API + #[effect]
pub mod new_app {
    use super::*;

    #[effect]
    pub enum Effect {
        Render(RenderOperation),
        Note(NoteOp),
        Mark(MarkOp),
        Get(GetOp),
        Fetch(FetchOp),
        Sub(SubOp),
    }

    #[derive(Default)]
    pub struct NewApp;

    pub fn act_command(act: Act, serial: u32) -> Command<Effect, Event> {
        let token = Token::new();
        match act {
            Act::Render => crux_core::render::render(),
            Act::Note(label) => Command::notify_shell(NoteOp { label }).into(),
            Act::Get { label, chain, mark } => Command::new(move |ctx| async move {
                let tok = std::sync::Arc::new(token);
                { let abandoned = ctx.request_from_shell(GetOp { label: 250, witness: Some(tok.clone()) }); drop(abandoned); }
                let _t = tok;
                for k in 0..=chain {
                    if mark { ctx.notify_shell(MarkOp { serial }); }
                    let v = ctx.request_from_shell(GetOp { label: label.wrapping_add(k), witness: None }).await;
                    ctx.send_event(Event::Got { serial, val: v });
                }
            }),
            Act::Fetch { label, mark } => Command::new(move |ctx| async move {
                let _t = token;
                if mark { ctx.notify_shell(MarkOp { serial }); }
                let s = ctx.request_from_shell(FetchOp { label }).await;
                ctx.send_event(Event::Text { serial, val: s });
            }),
            Act::Sub { label, take, mark } => Command::new(move |ctx| async move {
                let _t = token;
                if mark { ctx.notify_shell(MarkOp { serial }); }
                let mut stream = ctx.stream_from_shell(SubOp { label });
                let mut n = 0u8;
                while let Some(v) = stream.next().await {
                    ctx.send_event(Event::Item { serial, val: v });
                    n = n.saturating_add(1);
                    if take != 255 && n >= take { break; }
                }
                drop(stream);
                ctx.send_event(Event::Ended { serial });
            }),
        }
    }

    impl App for NewApp {
        type Event = Event;
        type Model = Model;
        type ViewModel = ViewModel;
        type Capabilities = ();
        type Effect = Effect;

        fn update(&self, event: Event, model: &mut Model, _caps: &()) -> Command<Effect, Event> {
            match event {
                Event::Run(acts) => {
                    let mut cmds = Vec::new();
                    for a in acts {
                        let serial = model.next_serial;
                        model.next_serial += 1;
                        cmds.push(act_command(a, serial));
                    }
                    Command::all(cmds)
                }
                Event::Got { serial, val } | Event::Item { serial, val } => {
                    model.record(serial, val);
                    match follow_of(val) {
                        Follow::Nothing => Command::done(),
                        Follow::Render => crux_core::render::render(),
                        Follow::Get(label) => {
                            let serial = model.next_serial;
                            model.next_serial += 1;
                            act_command(Act::Get { label, chain: 0, mark: false }, serial)
                        }
                        Follow::Note(label) => Command::notify_shell(NoteOp { label }).into(),
                    }
                }
                Event::Text { serial, val } => { model.record(serial, text_val(&val)); Command::done() }
                Event::Ended { serial } => { model.record(serial, ENDED_MARK); Command::done() }
            }
        }

        fn view(&self, model: &Model) -> ViewModel { model.view() }
    }
}

// ================================================================== OldApp: legacy capabilities + derive(Effect)
pub mod old_app {
    use super::*;

    macro_rules! legacy_cap {
        ($name:ident, $op:ty) => {
            pub struct $name<Ev> { pub context: CapabilityContext<$op, Ev> }
            impl<Ev> Clone for $name<Ev> { fn clone(&self) -> Self { Self { context: self.context.clone() } } }
            impl<Ev: 'static> $name<Ev> {
                pub fn new(context: CapabilityContext<$op, Ev>) -> Self { Self { context } }
            }
            impl<Ev> Capability<Ev> for $name<Ev> {
                type Operation = $op;
                type MappedSelf<MappedEv> = $name<MappedEv>;
                fn map_event<F, NewEv>(&self, f: F) -> Self::MappedSelf<NewEv>
                where F: Fn(NewEv) -> Ev + Send + Sync + 'static, Ev: 'static, NewEv: 'static + Send {
                    $name::new(self.context.map_event(f))
                }
            }
        };
    }
    legacy_cap!(Note, NoteOp);
    legacy_cap!(Mark, MarkOp);
    legacy_cap!(Get, GetOp);
    legacy_cap!(Fetch, FetchOp);
    legacy_cap!(Sub, SubOp);

    // field names chosen so that the BTreeMap order used by derive(Effect) differs from the
    // declaration order: e_get < k_render < m_sub < p_note < t_fetch < z_mark
    #[derive(Effect)]
    pub struct Capabilities {
        pub k_render: Render<Event>,
        pub p_note: Note<Event>,
        pub z_mark: Mark<Event>,
        pub e_get: Get<Event>,
        pub t_fetch: Fetch<Event>,
        pub m_sub: Sub<Event>,
    }

    #[derive(Default)]
    pub struct OldApp;

    fn run_act(caps: &Capabilities, act: Act, serial: u32) {
        let token = Token::new();
        match act {
            Act::Render => caps.k_render.render(),
            Act::Note(label) => {
                let ctx = caps.p_note.context.clone();
                caps.p_note.context.spawn(async move { ctx.notify_shell(NoteOp { label }).await; });
            }
            Act::Get { label, chain, mark } => {
                let ctx = caps.e_get.context.clone();
                let mctx = caps.z_mark.context.clone();
                caps.e_get.context.spawn(async move {
                    let tok = std::sync::Arc::new(token);
                    // a request future that is made and abandoned without ever being polled (the other side of a
                    // select was ready, an early return ...): nothing is sent, and nothing of it may outlive the task
                    { let abandoned = ctx.request_from_shell(GetOp { label: 250, witness: Some(tok.clone()) }); drop(abandoned); }
                    let _t = tok;
                    for k in 0..=chain {
                        if mark { mctx.notify_shell(MarkOp { serial }).await; }
                        let v = ctx.request_from_shell(GetOp { label: label.wrapping_add(k), witness: None }).await;
                        ctx.update_app(Event::Got { serial, val: v });
                    }
                });
            }
            Act::Fetch { label, mark } => {
                let ctx = caps.t_fetch.context.clone();
                let mctx = caps.z_mark.context.clone();
                caps.t_fetch.context.spawn(async move {
                    let _t = token;
                    if mark { mctx.notify_shell(MarkOp { serial }).await; }
                    let s = ctx.request_from_shell(FetchOp { label }).await;
                    ctx.update_app(Event::Text { serial, val: s });
                });
            }
            Act::Sub { label, take, mark } => {
                let ctx = caps.m_sub.context.clone();
                let mctx = caps.z_mark.context.clone();
                caps.m_sub.context.spawn(async move {
                    let _t = token;
                    if mark { mctx.notify_shell(MarkOp { serial }).await; }
                    let mut stream = ctx.stream_from_shell(SubOp { label });
                    let mut n = 0u8;
                    while let Some(v) = stream.next().await {
                        ctx.update_app(Event::Item { serial, val: v });
                        n = n.saturating_add(1);
                        if take != 255 && n >= take { break; }
                    }
                    drop(stream);
                    ctx.update_app(Event::Ended { serial });
                });
            }
        }
    }

    impl App for OldApp {
        type Event = Event;
        type Model = Model;
        type ViewModel = ViewModel;
        type Capabilities = Capabilities;
        type Effect = Effect;

        fn update(&self, event: Event, model: &mut Model, caps: &Capabilities) -> Command<Effect, Event> {
            match event {
                Event::Run(acts) => {
                    for a in acts {
                        let serial = model.next_serial;
                        model.next_serial += 1;
                        run_act(caps, a, serial);
                    }
                }
                Event::Got { serial, val } | Event::Item { serial, val } => {
                    model.record(serial, val);
                    match follow_of(val) {
                        Follow::Nothing => {}
                        Follow::Render => caps.k_render.render(),
                        Follow::Get(label) => {
                            let serial = model.next_serial;
                            model.next_serial += 1;
                            run_act(caps, Act::Get { label, chain: 0, mark: false }, serial);
                        }
                        Follow::Note(label) => run_act(caps, Act::Note(label), 0),
                    }
                }
                Event::Text { serial, val } => model.record(serial, text_val(&val)),
                Event::Ended { serial } => model.record(serial, ENDED_MARK),
            }
            Command::done()
        }

        fn view(&self, model: &Model) -> ViewModel { model.view() }
    }
}

// ------------------------------------------------------------------ a uniform face on both apps
/// abstract variant codes shared with the Coq side
pub const V_RENDER: u64 = 0;
pub const V_NOTE: u64 = 1;
pub const V_MARK: u64 = 2;
pub const V_GET: u64 = 3;
pub const V_FETCH: u64 = 4;
pub const V_SUB: u64 = 5;

/// arity of the resolve callback each operation is issued with (0 never, 1 once, 2 many)
pub fn kind_of_variant(v: u64) -> u8 { match v { V_GET | V_FETCH => 1, V_SUB => 2, _ => 0 } }

/// a typed request held by the typed shell
pub enum Held {
    Render(Request<RenderOperation>),
    Note(Request<NoteOp>),
    Mark(Request<MarkOp>),
    Get(Request<GetOp>),
    Fetch(Request<FetchOp>),
    Sub(Request<SubOp>),
}
impl Held {
    pub fn variant(&self) -> u64 {
        match self { Held::Render(_) => V_RENDER, Held::Note(_) => V_NOTE, Held::Mark(_) => V_MARK,
                     Held::Get(_) => V_GET, Held::Fetch(_) => V_FETCH, Held::Sub(_) => V_SUB }
    }
    pub fn payload(&self) -> u64 {
        match self { Held::Render(_) => 0, Held::Note(r) => r.operation.label as u64, Held::Mark(r) => r.operation.serial as u64,
                     Held::Get(r) => r.operation.label as u64, Held::Fetch(r) => r.operation.label as u64,
                     Held::Sub(r) => r.operation.label as u64 }
    }
}

pub trait TwinApp: App<Event = Event, ViewModel = ViewModel> + 'static
where Self::Effect: Send {
    const NAME: &'static str;
    fn hold(eff: Self::Effect) -> Held;
    /// (variant, payload) of a decoded FFI effect
    fn ffi(eff: &<Self::Effect as crux_core::Effect>::Ffi) -> (u64, u64);
}

impl TwinApp for new_app::NewApp {
    const NAME: &'static str = "new";
    fn hold(eff: new_app::Effect) -> Held {
        use new_app::Effect as E;
        match eff { E::Render(r) => Held::Render(r), E::Note(r) => Held::Note(r), E::Mark(r) => Held::Mark(r),
                    E::Get(r) => Held::Get(r), E::Fetch(r) => Held::Fetch(r), E::Sub(r) => Held::Sub(r) }
    }
    fn ffi(eff: &new_app::EffectFfi) -> (u64, u64) {
        use new_app::EffectFfi as F;
        match eff { F::Render(_) => (V_RENDER, 0), F::Note(o) => (V_NOTE, o.label as u64), F::Mark(o) => (V_MARK, o.serial as u64),
                    F::Get(o) => (V_GET, o.label as u64), F::Fetch(o) => (V_FETCH, o.label as u64), F::Sub(o) => (V_SUB, o.label as u64) }
    }
}

impl TwinApp for old_app::OldApp {
    const NAME: &'static str = "old";
    fn hold(eff: old_app::Effect) -> Held {
        use old_app::Effect as E;
        match eff { E::Render(r) => Held::Render(r), E::Note(r) => Held::Note(r), E::Mark(r) => Held::Mark(r),
                    E::Get(r) => Held::Get(r), E::Fetch(r) => Held::Fetch(r), E::Sub(r) => Held::Sub(r) }
    }
    fn ffi(eff: &old_app::EffectFfi) -> (u64, u64) {
        use old_app::EffectFfi as F;
        match eff { F::Render(_) => (V_RENDER, 0), F::Note(o) => (V_NOTE, o.label as u64), F::Mark(o) => (V_MARK, o.serial as u64),
                    F::Get(o) => (V_GET, o.label as u64), F::Fetch(o) => (V_FETCH, o.label as u64), F::Sub(o) => (V_SUB, o.label as u64) }
    }
}

/// typed Core::resolve on a held request with the abstract value `v`:
/// Ok(effects) | Err(3 = Never) | Err(4 = FinishedMany)
pub fn typed_resolve<A: TwinApp>(core: &crux_core::Core<A>, held: &mut Held, v: u64) -> Result<Vec<A::Effect>, i64>
where A::Effect: Send {
    use crux_core::ResolveError as RE;
    let r = match held {
        Held::Render(r) => core.resolve(r, ()),
        Held::Note(r) => core.resolve(r, ()),
        Held::Mark(r) => core.resolve(r, ()),
        Held::Get(r) => core.resolve(r, v),
        Held::Fetch(r) => core.resolve(r, v.to_string()),
        Held::Sub(r) => core.resolve(r, v),
    };
    r.map_err(|e| match e { RE::Never => 3, RE::FinishedMany => 4 })
}

/// BridgeError -> the code used by the Coq model
pub fn bridge_err_code(e: &crux_core::bridge::BridgeError) -> i64 {
    use crux_core::bridge::BridgeError as B;
    use crux_core::ResolveError as RE;
    match e {
        B::DeserializeEvent(_) => 1,
        B::DeserializeOutput(_) => 2,
        B::ProcessResponse(RE::Never) => 3,
        B::ProcessResponse(RE::FinishedMany) => 4,
        B::SerializeRequests(_) => 5,
        B::SerializeView(_) => 6,
    }
}

// ------------------------------------------------------------------ the two byte-level faces of the bridge
use bincode::Options as _;
use crux_core::bridge::{Bridge, BridgeError, BridgeWithSerializer};
use serde::de::DeserializeOwned;
use std::panic::{catch_unwind, AssertUnwindSafe};
use vh::rng::Rng;

pub fn bopts() -> impl bincode::Options + Copy {
    bincode::DefaultOptions::new().with_fixint_encoding().allow_trailing_bytes()
}

#[derive(Clone, Copy, PartialEq, Eq, Debug)]
pub enum Codec { Bincode, Json }

pub enum BOut { Ok(Vec<u8>), Err(i64), Panic }

pub trait Face {
    fn event(&self, bytes: &[u8]) -> Result<Vec<u8>, BridgeError>;
    fn response(&self, id: u32, bytes: &[u8]) -> Result<Vec<u8>, BridgeError>;
    fn view(&self) -> Result<Vec<u8>, BridgeError>;
    fn snap(&self) -> Vec<(u32, u8)>;
    fn exec(&self) -> usize;
}
pub struct BinFace<A: TwinApp>(pub Bridge<A>);
impl<A: TwinApp> Face for BinFace<A> {
    fn event(&self, b: &[u8]) -> Result<Vec<u8>, BridgeError> { self.0.process_event(b) }
    fn response(&self, id: u32, b: &[u8]) -> Result<Vec<u8>, BridgeError> { self.0.handle_response(id, b) }
    fn view(&self) -> Result<Vec<u8>, BridgeError> { self.0.view() }
    fn snap(&self) -> Vec<(u32, u8)> { self.0.verif_registry() }
    fn exec(&self) -> usize { self.0.verif_executor_tasks() }
}
pub struct JsonFace<A: TwinApp>(pub BridgeWithSerializer<A>);
impl<A: TwinApp> Face for JsonFace<A> {
    fn event(&self, b: &[u8]) -> Result<Vec<u8>, BridgeError> {
        let mut out = vec![];
        let mut de = serde_json::Deserializer::from_slice(b);
        self.0.process_event(&mut de, &mut serde_json::Serializer::new(&mut out))?;
        Ok(out)
    }
    fn response(&self, id: u32, b: &[u8]) -> Result<Vec<u8>, BridgeError> {
        let mut out = vec![];
        let mut de = serde_json::Deserializer::from_slice(b);
        self.0.handle_response(id, &mut de, &mut serde_json::Serializer::new(&mut out))?;
        Ok(out)
    }
    fn view(&self) -> Result<Vec<u8>, BridgeError> {
        let mut out = vec![];
        self.0.view(&mut serde_json::Serializer::new(&mut out))?;
        Ok(out)
    }
    fn snap(&self) -> Vec<(u32, u8)> { self.0.verif_registry() }
    fn exec(&self) -> usize { self.0.verif_executor_tasks() }
}

pub fn guarded(f: impl FnOnce() -> Result<Vec<u8>, BridgeError>) -> BOut {
    match catch_unwind(AssertUnwindSafe(f)) {
        Ok(Ok(b)) => BOut::Ok(b),
        Ok(Err(e)) => BOut::Err(bridge_err_code(&e)),
        Err(_) => BOut::Panic,
    }
}

pub fn dec<T: DeserializeOwned>(c: Codec, b: &[u8]) -> Option<T> {
    match c {
        Codec::Bincode => bopts().deserialize::<T>(b).ok(),
        Codec::Json => { let mut de = serde_json::Deserializer::from_slice(b); T::deserialize(&mut de).ok() }
    }
}
pub fn enc<T: serde::Serialize>(c: Codec, v: &T) -> Vec<u8> {
    match c { Codec::Bincode => bopts().serialize(v).unwrap(), Codec::Json => serde_json::to_vec(v).unwrap() }
}

/// body for a response to an operation of variant `var`: valid encoding of `v`, or garbage
pub fn body(c: Codec, var: u64, v: Option<u64>, rng: &mut Rng) -> Vec<u8> {
    match (v, var) {
        (Some(v), V_GET) | (Some(v), V_SUB) => enc(c, &v),
        (Some(v), V_FETCH) => enc(c, &v.to_string()),
        (Some(_), _) => enc(c, &()),
        (None, V_FETCH) => match c {
            Codec::Bincode => match rng.below(3) { 0 => vec![0xff; 8], 1 => vec![3, 0, 0, 0, 0, 0, 0, 0, b'1'], _ => vec![2, 0, 0, 0, 0, 0, 0, 0, 0xff, 0xfe] },
            Codec::Json => match rng.below(3) { 0 => b"12".to_vec(), 1 => b"{".to_vec(), _ => b"\"unterminated".to_vec() },
        },
        (None, _) => match c {
            Codec::Bincode => vec![7u8; rng.below(8) as usize],
            Codec::Json => match rng.below(3) { 0 => b"\"x\"".to_vec(), 1 => b"".to_vec(), _ => b"-1".to_vec() },
        },
    }
}
/// what the body decodes to for an operation of variant `var` (real serde, same options as the bridge)
pub fn body_value(c: Codec, var: u64, b: &[u8]) -> Option<u64> {
    match var {
        V_GET | V_SUB => dec::<u64>(c, b),
        V_FETCH => dec::<String>(c, b).map(|s| text_val(&s)),
        _ => Some(0),
    }
}

