//! C18 correspondence, command API hosted under a real `Core`: a small test app starts
//! `crux_time::command::Time::notify_after / notify_at` timers from `update`, keeps the
//! `TimerHandle`s in its model, clears / drops them on events, and logs every `TimerOutcome`
//! event it receives.  The shell side resolves / drops the real requests through `Core::resolve`.
//!
//! Every core call is printed in the vocabulary of coq/Timer/Machine.v as "the input on timer i,
//! then a run (IPoll) of every timer": the effects the call returned are attributed to timers by
//! id, the outcome events by the index the app tagged them with.  A hosted command's is_done is
//! not observable through Core, so the done flag printed is "an outcome has been reported so far"
//! (Spec.weak; C18_ok stays sound under that replacement: SpecWeak.weak_ok).
//!
//! usage: timer_core <seed> <max_len_1> <max_len_2> <n_random> <n_malformed>
use crux_core::{macros::effect, App, Command, Core, Request};
use crux_time::command::{Time, TimerHandle, TimerOutcome};
use crux_time::{TimeRequest, TimeResponse, TimerId};
use std::panic::{catch_unwind, AssertUnwindSafe};
use std::time::{Duration, SystemTime};
use vh::rng::Rng;

#[derive(Clone, Copy, PartialEq, Debug)]
pub enum Kind { After, At }

pub enum Ev { Start(Kind), Clear(usize), DropHandle(usize), Out(usize, TimerOutcome), Noop }

#[effect]
pub enum Effect { Time(TimeRequest) }

#[derive(Default)]
pub struct Model { handles: Vec<Option<TimerHandle>>, ids: Vec<u64>, log: Vec<(usize, String)> }

#[derive(Default)]
pub struct TApp;

fn id_of_debug(s: &str) -> u64 {
    let p = s.find("TimerId(").expect("no TimerId in Debug output") + 8;
    s[p..].chars().take_while(|c| c.is_ascii_digit()).collect::<String>().parse().unwrap()
}

impl App for TApp {
    type Event = Ev;
    type Model = Model;
    type ViewModel = (Vec<u64>, Vec<(usize, String)>);
    type Capabilities = ();
    type Effect = Effect;
    fn update(&self, event: Ev, model: &mut Model, _caps: &()) -> Command<Effect, Ev> {
        match event {
            Ev::Start(k) => {
                let i = model.handles.len();
                let (cmd, handle) = match k {
                    Kind::After => { let (b, h) = Time::notify_after(vh::when::dur(i)); (b.then_send(move |o| Ev::Out(i, o)), h) }
                    Kind::At => { let (b, h) = Time::notify_at(vh::when::at(i)); (b.then_send(move |o| Ev::Out(i, o)), h) }
                };
                model.ids.push(id_of_debug(&format!("{:?}", handle)));
                model.handles.push(Some(handle));
                cmd
            }
            Ev::Clear(i) => { if let Some(h) = model.handles.get_mut(i).and_then(Option::take) { h.clear(); } Command::done() }
            Ev::DropHandle(i) => { if let Some(h) = model.handles.get_mut(i).and_then(Option::take) { drop(h); } Command::done() }
            Ev::Out(i, o) => {
                let s = match o {
                    TimerOutcome::Completed(h) => format!("Completed {}", id_of_debug(&format!("{:?}", h))),
                    TimerOutcome::Cleared => "Cleared".to_string(),
                };
                model.log.push((i, s));
                Command::done()
            }
            Ev::Noop => Command::done(),
        }
    }
    fn view(&self, model: &Model) -> Self::ViewModel { (model.ids.clone(), model.log.clone()) }
}

#[derive(Clone, Copy, PartialEq, Debug)]
struct Resp { kind: u8, off: u64 }
#[derive(Clone, Copy, PartialEq, Debug)]
enum In { Start(Kind), Noop, Fire(usize, Resp), DropReq(usize), Clear(usize), DropHandle(usize), AnsClr(usize, Resp), DropClr(usize) }

fn mk_resp(r: Resp, id: u64) -> TimeResponse {
    let tid = TimerId(id.wrapping_add(r.off) as usize);
    match r.kind {
        0 => TimeResponse::Now { instant: crux_time::Instant::new(1, 2) },
        1 => TimeResponse::InstantArrived { id: tid },
        2 => TimeResponse::DurationElapsed { id: tid },
        _ => TimeResponse::Cleared { id: tid },
    }
}
fn resp_coq(r: Resp, id: u64) -> String {
    let i = id.wrapping_add(r.off);
    match r.kind { 0 => "RNow".into(), 1 => format!("(RInstant {})", i), 2 => format!("(RElapsed {})", i), _ => format!("(RCleared {})", i) }
}
fn right_start(k: Kind) -> Resp { Resp { kind: if k == Kind::After { 2 } else { 1 }, off: 0 } }
const RIGHT_CLR: Resp = Resp { kind: 3, off: 0 };

struct T { kind: Kind, id: u64, req: Option<Request<TimeRequest>>, req_used: bool, clr: Option<Request<TimeRequest>>, clr_used: bool, handle: bool, out: bool }

struct World { core: Core<TApp>, ts: Vec<T>, seen_log: usize, ins: Vec<String>, obs: Vec<String>, panicked: bool }

impl World {
    fn new() -> Self { World { core: Core::new(), ts: vec![], seen_log: 0, ins: vec![], obs: vec![], panicked: false } }

    /// record the result of one core call: a run of every timer
    fn absorb(&mut self, effects: Vec<Effect>) {
        let n = self.ts.len();
        let mut es: Vec<Vec<String>> = vec![vec![]; n];
        let mut vs: Vec<Vec<String>> = vec![vec![]; n];
        for Effect::Time(req) in effects {
            let (s, id, is_clear) = match &req.operation {
                TimeRequest::NotifyAfter { id, .. } => (format!("ENotifyAfter {}", id.0), id.0 as u64, false),
                TimeRequest::NotifyAt { id, .. } => (format!("ENotifyAt {}", id.0), id.0 as u64, false),
                TimeRequest::Clear { id } => (format!("EClear {}", id.0), id.0 as u64, true),
                TimeRequest::Now => ("ENotifyAt 0".to_string(), 0, false),
            };
            let j = self.ts.iter().position(|t| t.id == id).expect("effect for an unknown timer id");
            es[j].push(s);
            if is_clear { self.ts[j].clr = Some(req); self.ts[j].clr_used = false; } else { self.ts[j].req = Some(req); self.ts[j].req_used = false; }
        }
        let (_, log) = self.core.view();
        for (j, s) in &log[self.seen_log..] { vs[*j].push(s.clone()); }
        self.seen_log = log.len();
        for j in 0..n {
            if !vs[j].is_empty() { self.ts[j].out = true; }
            self.ins.push(format!("SOn {}%nat IPoll", j));
            self.obs.push(format!("OPoll [{}] [{}] {}", es[j].join("; "), vs[j].join("; "), self.ts[j].out));
        }
    }
    fn call(&mut self, i_for_panic: Option<usize>, f: impl FnOnce(&Core<TApp>) -> Vec<Effect>) {
        let core = &self.core;
        match catch_unwind(AssertUnwindSafe(|| f(core))) {
            Ok(effs) => self.absorb(effs),
            Err(_) => {
                // only the timer acted upon can have consumed a wrong response in this call
                let i = i_for_panic.unwrap_or(0);
                self.ins.push(format!("SOn {}%nat IPoll", i)); self.obs.push("OPanic".into()); self.panicked = true;
            }
        }
    }
    fn resolve(&mut self, i: usize, clear: bool, resp: TimeResponse) {
        let (taken, used) = { let t = &mut self.ts[i]; if clear { (t.clr.take(), t.clr_used) } else { (t.req.take(), t.req_used) } };
        match taken {
            None => { self.obs.push("ORes 2".into()); self.call(Some(i), |c| c.process_event(Ev::Noop)); }
            Some(mut req) => {
                if used {
                    // Core::resolve debug_asserts on a second resolution (C02's finding): resolve the
                    // request directly, then let the core run
                    let r = req.resolve(resp);
                    self.obs.push(if r.is_ok() { "ORes 0" } else { "ORes 1" }.into());
                    if clear { self.ts[i].clr = Some(req); } else { self.ts[i].req = Some(req); }
                    self.call(Some(i), |c| c.process_event(Ev::Noop));
                } else {
                    if clear { self.ts[i].clr_used = true; } else { self.ts[i].req_used = true; }
                    self.obs.push("ORes 0".into());
                    let r = { let core = &self.core; catch_unwind(AssertUnwindSafe(|| core.resolve(&mut req, resp))) };
                    if clear { self.ts[i].clr = Some(req); } else { self.ts[i].req = Some(req); }
                    match r {
                        Ok(Ok(effs)) => self.absorb(effs),
                        Ok(Err(_)) => { let l = self.obs.len(); self.obs[l - 1] = "ORes 1".into(); self.call(Some(i), |c| c.process_event(Ev::Noop)); }
                        Err(_) => { self.ins.push(format!("SOn {}%nat IPoll", i)); self.obs.push("OPanic".into()); self.panicked = true; }
                    }
                }
            }
        }
    }
    fn step(&mut self, x: In) {
        let n = self.ts.len();
        let idx = match x { In::Start(_) | In::Noop => 0, In::Fire(i, _) | In::DropReq(i) | In::Clear(i) | In::DropHandle(i) | In::AnsClr(i, _) | In::DropClr(i) => i };
        if !matches!(x, In::Start(_) | In::Noop) && idx >= n {
            self.ins.push(format!("SOn {}%nat IPoll", idx)); self.obs.push("OBad".into()); return;
        }
        match x {
            In::Start(k) => {
                self.ins.push(format!("SStart {}", if k == Kind::After { "KAfter" } else { "KAt" }));
                let core = &self.core;
                let effs = core.process_event(Ev::Start(k));
                let (ids, _) = core.view();
                let id = *ids.last().unwrap();
                self.ts.push(T { kind: k, id, req: None, req_used: false, clr: None, clr_used: false, handle: true, out: false });
                self.obs.push(format!("OStarted {}", id));
                self.absorb(effs);
            }
            In::Noop => self.call(None, |c| c.process_event(Ev::Noop)),
            In::Fire(i, r) => {
                let id = self.ts[i].id;
                self.ins.push(format!("SOn {}%nat (IFire {})", i, resp_coq(r, id)));
                self.resolve(i, false, mk_resp(r, id));
            }
            In::AnsClr(i, r) => {
                let id = self.ts[i].id;
                self.ins.push(format!("SOn {}%nat (IAnsClr {})", i, resp_coq(r, id)));
                self.resolve(i, true, mk_resp(r, id));
            }
            In::DropReq(i) => {
                self.ins.push(format!("SOn {}%nat IDropReq", i));
                let o = if self.ts[i].req.take().is_some() { "ORes 3" } else { "ORes 2" }; self.obs.push(o.into());
            }
            In::DropClr(i) => {
                self.ins.push(format!("SOn {}%nat IDropClr", i));
                let o = if self.ts[i].clr.take().is_some() { "ORes 3" } else { "ORes 2" }; self.obs.push(o.into());
            }
            In::Clear(i) => {
                self.ins.push(format!("SOn {}%nat IClear", i)); self.obs.push("ORes 3".into());
                self.ts[i].handle = false;
                self.call(Some(i), |c| c.process_event(Ev::Clear(i)));
            }
            In::DropHandle(i) => {
                self.ins.push(format!("SOn {}%nat IDropHandle", i)); self.obs.push("ORes 3".into());
                self.ts[i].handle = false;
                self.call(Some(i), |c| c.process_event(Ev::DropHandle(i)));
            }
        }
    }
    fn enabled(&self, wrong: bool) -> Vec<In> {
        let mut v = vec![In::Noop];
        for (i, t) in self.ts.iter().enumerate() {
            if t.req.is_some() {
                v.push(In::Fire(i, right_start(t.kind))); v.push(In::DropReq(i));
                if wrong && !t.req_used {
                    v.push(In::Fire(i, Resp { kind: if t.kind == Kind::After { 1 } else { 2 }, off: 0 }));
                    v.push(In::Fire(i, Resp { kind: right_start(t.kind).kind, off: 1 }));
                    v.push(In::Fire(i, Resp { kind: 3, off: 0 }));
                }
            }
            if t.clr.is_some() {
                v.push(In::AnsClr(i, RIGHT_CLR)); v.push(In::DropClr(i));
                if wrong && !t.clr_used { v.push(In::AnsClr(i, Resp { kind: 3, off: 1 })); v.push(In::AnsClr(i, right_start(t.kind))); }
            }
            if t.handle { v.push(In::Clear(i)); v.push(In::DropHandle(i)); }
        }
        v
    }
    fn emit(&self, class: &str) {
        println!("{{\"host\":\"core\",\"class\":\"{}\",\"n\":{},\"ins\":\"[{}]\",\"obs\":\"[{}]\"}}",
            class, self.ts.len(), self.ins.join("; "), self.obs.join("; "));
    }
}

fn replay(prefix: &[In]) -> World { let mut w = World::new(); for x in prefix { if w.panicked { break; } w.step(*x); } w }

fn exhaustive(starts: &[In], max: usize, wrong: bool, class: &str, count: &mut u64) {
    fn go(prefix: &mut Vec<In>, nstart: usize, max: usize, wrong: bool, class: &str, count: &mut u64) {
        let w = replay(prefix);
        if w.panicked || prefix.len() - nstart >= max { w.emit(class); *count += 1; return; }
        for x in w.enabled(wrong) { prefix.push(x); go(prefix, nstart, max, wrong, class, count); prefix.pop(); }
    }
    let mut p = starts.to_vec();
    go(&mut p, starts.len(), max, wrong, class, count);
}

fn random_case(rng: &mut Rng, malformed: bool) {
    let mut w = World::new();
    let nt = rng.range(1, 4) as usize;
    let len = rng.range(4, 30) as usize;
    let mut started = 0;
    for _ in 0..len {
        if w.panicked { break; }
        if started == 0 || (started < nt && rng.coin(1, 4)) {
            w.step(In::Start(if rng.coin(1, 2) { Kind::After } else { Kind::At })); started += 1; continue;
        }
        let en = w.enabled(malformed && rng.coin(1, 3));
        let x = if !rng.coin(1, 6) { *rng.pick(&en) } else {
            let i = if malformed && rng.coin(1, 10) { started + rng.below(2) as usize } else { rng.below(started as u64) as usize };
            let k = if i < w.ts.len() { w.ts[i].kind } else { Kind::After };
            let fresh_req = i < w.ts.len() && !w.ts[i].req_used;
            let fresh_clr = i < w.ts.len() && !w.ts[i].clr_used;
            let r = if malformed && fresh_req && rng.coin(1, 2) { Resp { kind: 1 + rng.below(3) as u8, off: rng.below(2) } } else { right_start(k) };
            let rc = if malformed && fresh_clr && rng.coin(1, 2) { Resp { kind: 1 + rng.below(3) as u8, off: rng.below(2) } } else { RIGHT_CLR };
            match rng.below(7) { 0 => In::Noop, 1 => In::Fire(i, r), 2 => In::DropReq(i), 3 => In::Clear(i), 4 => In::DropHandle(i), 5 => In::AnsClr(i, rc), _ => In::DropClr(i) }
        };
        w.step(x);
    }
    w.emit(if malformed { "malformed" } else { "random" });
}


/// corpus syntax (one case per line, tokens separated by spaces): Sa/St start notify_after/notify_at;
/// N noop (a core call that only runs the executor); F<i> fire (right response), Fk<i> wrong kind, Fi<i> wrong id; R<i> drop request; C<i> clear;
/// H<i> drop handle; A<i> answer clear (right), Ak<i> wrong kind, Ai<i> wrong id; D<i> drop clear request
fn parse_case(line: &str, kinds: &mut Vec<Kind>) -> Vec<In> {
    let mut v = vec![];
    for tok in line.split_whitespace() {
        let (head, idx): (String, String) = (tok.chars().take_while(|c| c.is_alphabetic()).collect(), tok.chars().skip_while(|c| c.is_alphabetic()).collect());
        let i: usize = idx.parse().unwrap_or(0);
        let k = kinds.get(i).copied().unwrap_or(Kind::After);
        let wrong_kind = Resp { kind: if k == Kind::After { 1 } else { 2 }, off: 0 };
        v.push(match head.as_str() {
            "Sa" => { kinds.push(Kind::After); In::Start(Kind::After) }
            "St" => { kinds.push(Kind::At); In::Start(Kind::At) }
            "N" => In::Noop,
            "F" => In::Fire(i, right_start(k)), "Fk" => In::Fire(i, wrong_kind), "Fi" => In::Fire(i, Resp { kind: right_start(k).kind, off: 1 }),
            "R" => In::DropReq(i), "C" => In::Clear(i), "H" => In::DropHandle(i),
            "A" => In::AnsClr(i, RIGHT_CLR), "Ak" => In::AnsClr(i, right_start(k)), "Ai" => In::AnsClr(i, Resp { kind: 3, off: 1 }),
            "D" => In::DropClr(i),
            other => panic!("corpus: unknown token {}", other),
        });
    }
    v
}
fn run_corpus(file: &str) {
    let dir = std::env::var("TIMER_CORPUS_DIR").unwrap_or_else(|_| "/verif/corpus/timer".into());
    if let Ok(text) = std::fs::read_to_string(format!("{}/{}", dir, file)) {
        for line in text.lines() {
            let line = line.split('#').next().unwrap().trim();
            if line.is_empty() { continue; }
            let mut kinds = vec![];
            let w = replay(&parse_case(line, &mut kinds));
            w.emit("corpus");
        }
    }
}

fn main() {
    std::panic::set_hook(Box::new(|_| {}));
    let a: Vec<u64> = std::env::args().skip(1).map(|s| s.parse().expect("numeric args")).collect();
    let (seed, l1, l2, nrand, nmal) = (a[0], a[1] as usize, a[2] as usize, a[3], a[4]);
    run_corpus("core.txt");
    let mut count = 0u64;
    for k in [Kind::After, Kind::At] {
        exhaustive(&[In::Start(k)], l1, false, "exh1", &mut count);
        exhaustive(&[In::Start(k)], l1.min(4), true, "exh1wrong", &mut count);
    }
    exhaustive(&[In::Start(Kind::After), In::Start(Kind::At)], l2, false, "exh2", &mut count);
    let mut rng = Rng::new(seed);
    for _ in 0..nrand { random_case(&mut rng, false); }
    for _ in 0..nmal { random_case(&mut rng, true); }
    eprintln!("exhaustive cases: {}", count);
}
