//! Translator: prints the serde-reflection registries traced by the real `TypeGen` as Coq terms.
//! usage: wire_registry <outdir>   (writes Registry_<app>.v and Registry_<app>.json, prints a summary)
#[path = "wire_common/mod.rs"]
mod wire_common;
use wire_common::{apps, json_str, schema, table};

fn main() {
    let out = std::env::args().nth(1).expect("outdir");
    std::fs::create_dir_all(&out).unwrap();
    for (app, reg) in apps::registries() {
        match reg {
            Ok(reg) => {
                std::fs::write(format!("{}/Registry_{}.v", out, app), schema::coq_registry(app, &reg)).unwrap();
                std::fs::write(format!("{}/Registry_{}.json", out, app), serde_json::to_string_pretty(&reg).unwrap()).unwrap();
                let bound: Vec<&str> = table::types_of(app).iter().map(|t| t.name).collect();
                let unbound: Vec<String> = reg.keys().filter(|n| !bound.contains(&n.as_str())).map(|n| json_str(n)).collect();
                let names: Vec<String> = schema::dependency_order(&reg).iter().map(|n| json_str(n)).collect();
                println!("{{\"app\":{},\"ok\":true,\"types\":{},\"names\":[{}],\"unbound\":[{}]}}", json_str(app), reg.len(), names.join(","), unbound.join(","));
            }
            Err(e) => println!("{{\"app\":{},\"ok\":false,\"error\":{}}}", json_str(app), json_str(&e)),
        }
    }
}
