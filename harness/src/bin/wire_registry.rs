//! Translator: prints the serde-reflection registries traced by the real `TypeGen` as Coq terms.
//! usage: wire_registry <outdir>   (writes Registry_<app>.v and Registry_<app>.json, prints a summary)
#[path = "wire_common/mod.rs"]
mod wire_common;
use wire_common::{apps, json_str, schema, table};

fn main() {
    let out = std::env::args().nth(1).expect("outdir");
    std::fs::create_dir_all(&out).unwrap();
    for (app, reg) in apps::registries() {
        match reg {
            Ok(reg) => {
                std::fs::write(format!("{}/Registry_{}.v", out, app), schema::coq_registry(app, &reg)).unwrap();
                std::fs::write(format!("{}/Registry_{}.json", out, app), serde_json::to_string_pretty(&reg).unwrap()).unwrap();
                let bound: Vec<&str> = table::types_of(app).iter().map(|t| t.name).collect();
                let unbound: Vec<String> = reg.keys().filter(|n| !bound.contains(&n.as_str())).map(|n| json_str(n)).collect();
                let names: Vec<String> = schema::dependency_order(&reg).iter().map(|n| json_str(n)).collect();
                println!("{{\"app\":{},\"ok\":true,\"types\":{},\"names\":[{}],\"unbound\":[{}]}}", json_str(app), reg.len(), names.join(","), unbound.join(","));
            }
            Err(e) => println!("{{\"app\":{},\"ok\":false,\"error\":{}}}", json_str(app), json_str(&e)),
        }
    }
    // the registry TypeGen's own generators use must be the one traced above; what tracing refuses they must refuse
    let traced: std::collections::BTreeMap<&str, Option<String>> = apps::registries().into_iter().map(|(a, r)| (a, r.ok().map(|r| serde_json::to_string(&r).unwrap()))).collect();
    for (app, gen) in apps::typegens() {
        let dir = format!("{}/java_{}", out, app);
        let g = gen.and_then(|g| apps::generated_registry(g, &dir)).map(|r| serde_json::to_string(&r).unwrap());
        let equal = match (&g, traced.get(app)) { (Ok(a), Some(Some(b))) => a == b, (Err(_), Some(None)) => true, _ => false };
        println!("{{\"generator\":{},\"ok\":{},\"equal\":{},\"error\":{}}}", json_str(app), g.is_ok(), equal, json_str(&g.err().unwrap_or_default()));
    }
    // another registration route (samples first) must end in the same registry
    for (app, gen) in apps::typegens_via_samples() {
        let g = gen.and_then(apps::take_registry).map(|r| serde_json::to_string(&r).unwrap());
        let equal = match (&g, traced.get(app)) { (Ok(a), Some(Some(b))) => a == b, _ => false };
        println!("{{\"route\":\"samples\",\"of\":{},\"ok\":{},\"equal\":{},\"error\":{}}}", json_str(app), g.is_ok(), equal, json_str(&g.err().unwrap_or_default()));
    }
    let direct = apps::incomplete_typegen().and_then(|g| { let mut g = g; match std::mem::replace(&mut g.state, crux_core::typegen::State::Generating(Default::default())) {
        crux_core::typegen::State::Registering(t, _) => t.registry().map(|_| ()).map_err(|e| e.to_string()), _ => Ok(()) } });
    let viagen = apps::incomplete_typegen().and_then(|g| apps::generated_registry(g, &format!("{}/java_incomplete", out)).map(|_| ()));
    println!("{{\"incomplete\":true,\"tracer_refuses\":{},\"generator_refuses\":{}}}", direct.is_err(), viagen.is_err());
}
