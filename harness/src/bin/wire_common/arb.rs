//! Seeded random Rust values of every type that crosses the bridge (direction (b) of C10: what
//! Rust writes must be readable under the traced schema).
use super::apps::{kvapp, malapp, zoo};
use super::schema::{rand_bytes, rand_char, rand_len, rand_string};
use crux_http::protocol::{HttpHeader, HttpRequest, HttpResponse, HttpResult};
use crux_http::HttpError;
use crux_kv::{error::KeyValueError, value::Value, KeyValueOperation, KeyValueResponse, KeyValueResult};
use crux_platform::{PlatformRequest, PlatformResponse};
use crux_time::{Duration, Instant, TimeRequest, TimeResponse, TimerId};
use vh::rng::Rng;

pub trait Arb: Sized { fn arb(r: &mut Rng) -> Self; }

fn u64x(r: &mut Rng) -> u64 {
    match r.below(8) { 0 => 0, 1 => u64::MAX, 2 => 1, 3 => u64::MAX - 1, 4 => r.below(1000), 5 => 1 << r.below(64), _ => r.next() }
}
impl Arb for u64 { fn arb(r: &mut Rng) -> Self { u64x(r) } }
impl Arb for u32 { fn arb(r: &mut Rng) -> Self { match r.below(5) { 0 => 0, 1 => u32::MAX, 2 => 999_999_999, 3 => 1_000_000_000, _ => r.next() as u32 } } }
impl Arb for u16 { fn arb(r: &mut Rng) -> Self { match r.below(5) { 0 => 0, 1 => u16::MAX, 2 => 200, 3 => 404, _ => r.next() as u16 } } }
impl Arb for u8 { fn arb(r: &mut Rng) -> Self { match r.below(4) { 0 => 0, 1 => 255, _ => r.next() as u8 } } }
impl Arb for bool { fn arb(r: &mut Rng) -> Self { r.coin(1, 2) } }
impl Arb for String { fn arb(r: &mut Rng) -> Self { let long = r.coin(1, 5); rand_string(r, long) } }
impl Arb for char { fn arb(r: &mut Rng) -> Self { rand_char(r) } }
pub struct Blob(pub Vec<u8>);
impl Arb for Blob { fn arb(r: &mut Rng) -> Self { let long = r.coin(1, 5); Blob(rand_bytes(r, long)) } }
impl<T: Arb> Arb for Vec<T> { fn arb(r: &mut Rng) -> Self { let n = rand_len(r, false).min(7); (0..n).map(|_| T::arb(r)).collect() } }
impl<T: Arb> Arb for Option<T> { fn arb(r: &mut Rng) -> Self { if r.coin(1, 3) { None } else { Some(T::arb(r)) } } }

// ---- render / platform
impl Arb for crux_core::render::RenderOperation { fn arb(_: &mut Rng) -> Self { crux_core::render::RenderOperation } }
impl Arb for PlatformRequest { fn arb(_: &mut Rng) -> Self { PlatformRequest } }
impl Arb for PlatformResponse { fn arb(r: &mut Rng) -> Self { PlatformResponse(String::arb(r)) } }

// ---- key-value
impl Arb for Value { fn arb(r: &mut Rng) -> Self { match r.below(3) { 0 => Value::None, 1 => Value::Bytes(vec![]), _ => Value::Bytes(Blob::arb(r).0) } } }
impl Arb for KeyValueError {
    fn arb(r: &mut Rng) -> Self {
        match r.below(4) { 0 => KeyValueError::Io { message: String::arb(r) }, 1 => KeyValueError::Timeout, 2 => KeyValueError::CursorNotFound, _ => KeyValueError::Other { message: String::arb(r) } }
    }
}
impl Arb for KeyValueOperation {
    fn arb(r: &mut Rng) -> Self {
        match r.below(5) {
            0 => KeyValueOperation::Get { key: String::arb(r) },
            1 => KeyValueOperation::Set { key: String::arb(r), value: Blob::arb(r).0 },
            2 => KeyValueOperation::Delete { key: String::arb(r) },
            3 => KeyValueOperation::Exists { key: String::arb(r) },
            _ => KeyValueOperation::ListKeys { prefix: String::arb(r), cursor: u64x(r) },
        }
    }
}
impl Arb for KeyValueResponse {
    fn arb(r: &mut Rng) -> Self {
        match r.below(5) {
            0 => KeyValueResponse::Get { value: Value::arb(r) },
            1 => KeyValueResponse::Set { previous: Value::arb(r) },
            2 => KeyValueResponse::Delete { previous: Value::arb(r) },
            3 => KeyValueResponse::Exists { is_present: bool::arb(r) },
            _ => KeyValueResponse::ListKeys { keys: Vec::<String>::arb(r), next_cursor: u64x(r) },
        }
    }
}
impl Arb for KeyValueResult {
    fn arb(r: &mut Rng) -> Self { if r.coin(3, 4) { KeyValueResult::Ok { response: KeyValueResponse::arb(r) } } else { KeyValueResult::Err { error: KeyValueError::arb(r) } } }
}

// ---- http
impl Arb for HttpHeader { fn arb(r: &mut Rng) -> Self { HttpHeader { name: String::arb(r), value: String::arb(r) } } }
impl Arb for HttpRequest {
    fn arb(r: &mut Rng) -> Self {
        HttpRequest { method: r.pick(&["GET", "POST", "PUT", "", "PATCH", "délété"]).to_string(), url: String::arb(r), headers: Vec::arb(r), body: Blob::arb(r).0 }
    }
}
impl Arb for HttpResponse { fn arb(r: &mut Rng) -> Self { HttpResponse { status: u16::arb(r), headers: Vec::arb(r), body: Blob::arb(r).0 } } }
impl Arb for HttpError {
    fn arb(r: &mut Rng) -> Self { match r.below(3) { 0 => HttpError::Url(String::arb(r)), 1 => HttpError::Io(String::arb(r)), _ => HttpError::Timeout } }
}
impl Arb for HttpResult { fn arb(r: &mut Rng) -> Self { if r.coin(2, 3) { HttpResult::Ok(HttpResponse::arb(r)) } else { HttpResult::Err(HttpError::arb(r)) } } }

// ---- time
impl Arb for TimerId { fn arb(r: &mut Rng) -> Self { TimerId(u64x(r) as usize) } }
impl Arb for Instant { fn arb(r: &mut Rng) -> Self { Instant::new(u64x(r), (r.below(1_000_000_000)) as u32) } }
impl Arb for Duration { fn arb(r: &mut Rng) -> Self { Duration::new(u64x(r)) } }
impl Arb for TimeRequest {
    fn arb(r: &mut Rng) -> Self {
        match r.below(4) {
            0 => TimeRequest::Now,
            1 => TimeRequest::NotifyAt { id: TimerId::arb(r), instant: Instant::arb(r) },
            2 => TimeRequest::NotifyAfter { id: TimerId::arb(r), duration: Duration::arb(r) },
            _ => TimeRequest::Clear { id: TimerId::arb(r) },
        }
    }
}
impl Arb for TimeResponse {
    fn arb(r: &mut Rng) -> Self {
        match r.below(4) {
            0 => TimeResponse::Now { instant: Instant::arb(r) },
            1 => TimeResponse::InstantArrived { id: TimerId::arb(r) },
            2 => TimeResponse::DurationElapsed { id: TimerId::arb(r) },
            _ => TimeResponse::Cleared { id: TimerId::arb(r) },
        }
    }
}

// ---- kvapp
impl Arb for kvapp::Api { fn arb(r: &mut Rng) -> Self { if r.coin(1, 2) { kvapp::Api::Capability } else { kvapp::Api::Command } } }
impl Arb for kvapp::Event {
    /// only the variants that cross the boundary
    fn arb(r: &mut Rng) -> Self {
        use kvapp::Event::*;
        match r.below(14) {
            0 | 1 => KvGet { api: Arb::arb(r), key: Arb::arb(r) },
            2 | 3 => KvSet { api: Arb::arb(r), key: Arb::arb(r), value: Blob::arb(r).0 },
            4 => KvDelete { api: Arb::arb(r), key: Arb::arb(r) },
            5 => KvExists { api: Arb::arb(r), key: Arb::arb(r) },
            6 | 7 => KvList { api: Arb::arb(r), prefix: Arb::arb(r), cursor: u64x(r) },
            8 | 9 => Http { which: r.next() as u8, body: Blob::arb(r).0 },
            10 => TimeNow,
            11 => TimeAfter { millis: Arb::arb(r) },
            12 => Platform,
            _ => Render,
        }
    }
}
impl Arb for kvapp::Outcome { fn arb(r: &mut Rng) -> Self { match r.below(3) { 0 => kvapp::Outcome::Absent, 1 => kvapp::Outcome::Present(Blob::arb(r).0), _ => kvapp::Outcome::Failed(Arb::arb(r)) } } }
impl Arb for kvapp::StatusOutcome { fn arb(r: &mut Rng) -> Self { if r.coin(2, 3) { kvapp::StatusOutcome::Is(Arb::arb(r)) } else { kvapp::StatusOutcome::Failed(Arb::arb(r)) } } }
impl Arb for kvapp::KeysOutcome { fn arb(r: &mut Rng) -> Self { if r.coin(2, 3) { kvapp::KeysOutcome::Page { keys: Arb::arb(r), cursor: u64x(r) } } else { kvapp::KeysOutcome::Failed(Arb::arb(r)) } } }
impl Arb for kvapp::Entry {
    fn arb(r: &mut Rng) -> Self {
        use kvapp::Entry::*;
        match r.below(7) {
            0 => Data(Arb::arb(r)), 1 => Status(Arb::arb(r)), 2 => Keys(Arb::arb(r)),
            3 => Http { status: Arb::arb(r), body: Blob::arb(r).0 }, 4 => HttpFailed(Arb::arb(r)),
            5 => Time(Arb::arb(r)), _ => Platform(Arb::arb(r)),
        }
    }
}
impl Arb for kvapp::ViewModel { fn arb(r: &mut Rng) -> Self { kvapp::ViewModel { events: u64x(r), entries: Arb::arb(r) } } }
impl Arb for kvapp::EffectFfi {
    fn arb(r: &mut Rng) -> Self {
        match r.below(5) {
            0 => kvapp::EffectFfi::Http(Arb::arb(r)), 1 => kvapp::EffectFfi::KeyValue(Arb::arb(r)),
            2 => kvapp::EffectFfi::Platform(Arb::arb(r)), 3 => kvapp::EffectFfi::Render(Arb::arb(r)), _ => kvapp::EffectFfi::Time(Arb::arb(r)),
        }
    }
}
impl<E: Arb + serde::Serialize> Arb for crux_core::bridge::Request<E> {
    fn arb(r: &mut Rng) -> Self { let id: u32 = Arb::arb(r); request_with_id(id, E::arb(r)) }
}
/// `EffectId` lives in a private module, but `Request`'s fields and `EffectId`'s field are public:
/// take an id from a deserialized dummy request and overwrite it.
pub fn request_with_id<E: serde::Serialize>(id: u32, effect: E) -> crux_core::bridge::Request<E> {
    let mut req: crux_core::bridge::Request<Dummy> = bincode::deserialize(&[0u8, 0, 0, 0]).unwrap();
    req.id.0 = id;
    crux_core::bridge::Request { id: req.id, effect }
}
#[derive(serde::Serialize, serde::Deserialize)]
pub struct Dummy;

// ---- zoo
impl Arb for zoo::Kind { fn arb(r: &mut Rng) -> Self { match r.below(4) { 0 => zoo::Kind::A, 1 => zoo::Kind::B(r.next() as i64), 2 => zoo::Kind::C { x: Arb::arb(r) }, _ => zoo::Kind::D(Arb::arb(r), Arb::arb(r)) } } }
impl Arb for zoo::Inner {
    fn arb(r: &mut Rng) -> Self {
        zoo::Inner { id: zoo::Wrapper(u64x(r)), kind: Arb::arb(r), tags: Arb::arb(r), unit: zoo::UnitStruct, ts: zoo::TupleStruct(Arb::arb(r), Arb::arb(r)) }
    }
}
impl Arb for zoo::ZooEvent {
    fn arb(r: &mut Rng) -> Self {
        use zoo::ZooEvent::*;
        match r.below(17) {
            0 => Unit,
            1 => Newtype(Arb::arb(r)),
            2 => Signed(r.next() as i8, r.next() as i16, r.next() as i32, r.next() as i64, ((r.next() as u128) << 64 | r.next() as u128) as i128),
            3 => Unsigned { a: Arb::arb(r), b: Arb::arb(r), c: Arb::arb(r), d: u64x(r), e: (r.next() as u128) << 64 | r.next() as u128 },
            4 => Floats(f32::from_bits(r.next() as u32), f64::from_bits(r.next())),
            5 => Text { c: Arb::arb(r), s: Arb::arb(r), b: Blob::arb(r).0 },
            6 => Opt(Arb::arb(r)),
            7 => Seq(Arb::arb(r)),
            8 => Array([Arb::arb(r), Arb::arb(r), Arb::arb(r)]),
            9 => Map((0..r.below(6)).map(|_| (r.next() as u32, String::arb(r))).collect()),
            10 => Nested(Arb::arb(r)),
            11 => Pair((Arb::arb(r), ())),
            12 => Many(Arb::arb(r)),
            13 => Boxed(Box::new(Arb::arb(r))),
            14 => Sizes(u64x(r) as usize, r.next() as isize),
            15 => Chars(Arb::arb(r)),
            _ => Bools(Arb::arb(r)),
        }
    }
}
impl Arb for zoo::ZooView { fn arb(r: &mut Rng) -> Self { zoo::ZooView { count: u64x(r), last: Arb::arb(r) } } }
impl Arb for zoo::EffectFfi { fn arb(r: &mut Rng) -> Self { zoo::EffectFfi::Render(Arb::arb(r)) } }
impl Arb for zoo::Wrapper { fn arb(r: &mut Rng) -> Self { zoo::Wrapper(u64x(r)) } }
impl Arb for zoo::UnitStruct { fn arb(_: &mut Rng) -> Self { zoo::UnitStruct } }
impl Arb for zoo::TupleStruct { fn arb(r: &mut Rng) -> Self { zoo::TupleStruct(Arb::arb(r), Arb::arb(r)) } }

// ---- malapp
impl Arb for malapp::AskOp { fn arb(r: &mut Rng) -> Self { malapp::AskOp { tag: Arb::arb(r), text: Arb::arb(r) } } }
impl Arb for malapp::WatchOp { fn arb(r: &mut Rng) -> Self { malapp::WatchOp { tag: Arb::arb(r) } } }
impl Arb for malapp::Item { fn arb(r: &mut Rng) -> Self { malapp::Item { name: Arb::arb(r), data: Blob::arb(r).0, weight: Arb::arb(r) } } }
impl Arb for malapp::Answer {
    fn arb(r: &mut Rng) -> Self {
        match r.below(4) { 0 => malapp::Answer::Empty, 1 => malapp::Answer::Code(Arb::arb(r)), 2 => malapp::Answer::Items { items: Arb::arb(r), note: Arb::arb(r) }, _ => malapp::Answer::Pair(u64x(r), Arb::arb(r)) }
    }
}
impl Arb for malapp::Tick { fn arb(r: &mut Rng) -> Self { malapp::Tick { seq: u64x(r), label: Arb::arb(r) } } }
impl Arb for malapp::MalEvent {
    fn arb(r: &mut Rng) -> Self {
        match r.below(9) {
            6 | 7 => malapp::MalEvent::Chain { tag: Arb::arb(r) },
            8 => malapp::MalEvent::Fork { tag: Arb::arb(r) },
            0 | 1 => malapp::MalEvent::Ask { tag: Arb::arb(r), text: Arb::arb(r) },
            2 => malapp::MalEvent::Watch { tag: Arb::arb(r) },
            3 | 4 => malapp::MalEvent::Note { text: Arb::arb(r), blob: Blob::arb(r).0, nums: Arb::arb(r), flag: Arb::arb(r) },
            _ => malapp::MalEvent::Render,
        }
    }
}
impl Arb for malapp::Line {
    fn arb(r: &mut Rng) -> Self {
        match r.below(5) {
            0 => malapp::Line::Asked(Arb::arb(r)), 1 => malapp::Line::Watching(Arb::arb(r)),
            2 => malapp::Line::Noted { text: Arb::arb(r), size: u64x(r), sum: u64x(r), flag: Arb::arb(r) },
            3 => malapp::Line::Got(Arb::arb(r), Arb::arb(r)), _ => malapp::Line::Tick(Arb::arb(r), Arb::arb(r)),
        }
    }
}
impl Arb for malapp::MalView { fn arb(r: &mut Rng) -> Self { malapp::MalView { lines: Arb::arb(r) } } }
impl Arb for malapp::EffectFfi {
    fn arb(r: &mut Rng) -> Self { match r.below(3) { 0 => malapp::EffectFfi::Ask(Arb::arb(r)), 1 => malapp::EffectFfi::Render(Arb::arb(r)), _ => malapp::EffectFfi::Watch(Arb::arb(r)) } }
}

// ---- responses a well-behaved shell would give
pub fn kv_response(r: &mut Rng, op: &crux_kv::KeyValueOperation) -> crux_kv::KeyValueResult {
    use crux_kv::{value::Value, KeyValueOperation as O, KeyValueResponse as R, KeyValueResult};
    if r.coin(1, 5) { return KeyValueResult::Err { error: Arb::arb(r) }; }
    let response = match op {
        O::Get { .. } => R::Get { value: Value::arb(r) },
        O::Set { .. } => R::Set { previous: Value::arb(r) },
        O::Delete { .. } => R::Delete { previous: Value::arb(r) },
        O::Exists { .. } => R::Exists { is_present: Arb::arb(r) },
        O::ListKeys { .. } => R::ListKeys { keys: Arb::arb(r), next_cursor: Arb::arb(r) },
    };
    KeyValueResult::Ok { response }
}
pub fn http_response(r: &mut Rng) -> crux_http::protocol::HttpResult {
    use crux_http::protocol::{HttpHeader, HttpResponse, HttpResult};
    if r.coin(1, 4) { return HttpResult::Err(Arb::arb(r)); }
    let status = *r.pick(&[200u16, 201, 204, 301, 400, 404, 500, 503]);
    let headers = (0..r.below(3)).map(|i| HttpHeader { name: format!("x-h{}", i), value: format!("v{}", r.below(100)) }).collect();
    HttpResult::Ok(HttpResponse { status, headers, body: Blob::arb(r).0 })
}

pub fn time_response(r: &mut Rng, t: &crux_time::TimeRequest) -> crux_time::TimeResponse {
    match t {
        crux_time::TimeRequest::Now => crux_time::TimeResponse::Now { instant: Arb::arb(r) },
        crux_time::TimeRequest::NotifyAfter { id, .. } => crux_time::TimeResponse::DurationElapsed { id: *id },
        crux_time::TimeRequest::NotifyAt { id, .. } => crux_time::TimeResponse::InstantArrived { id: *id },
        crux_time::TimeRequest::Clear { id } => crux_time::TimeResponse::Cleared { id: *id },
    }
}
