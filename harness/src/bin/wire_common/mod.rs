//! Shared code of the `wire_*` harness binaries (engine `wire`: C10, C17, C12).
//!
//! * `schema`: the translator (serde_reflection::Registry -> Coq term), a schema-directed value
//!   generator and an encoder written independently of bincode (its output is compared with the Coq
//!   model's `encode` on every case, so it is not trusted);
//! * `apps`: two test apps driving the real crux crates (render, kv, http, time, platform);
//! * `arb`: seeded random Rust values of every protocol type;
//! * `table`: for every traced type name the Rust type, so that model encodings can be offered to
//!   `bincode::deserialize::<T>` with exactly the options the Bridge uses.
#![allow(dead_code)]

pub mod schema;
pub mod apps;
pub mod arb;
pub mod table;

pub fn hex(b: &[u8]) -> String {
    let mut s = String::with_capacity(b.len() * 2);
    for x in b { s.push_str(&format!("{:02x}", x)); }
    s
}

pub fn json_str(s: &str) -> String { serde_json::to_string(s).unwrap() }
