//! Test apps for the wire engine.  They are ordinary crux apps: everything below the `update`
//! functions is the real crux code from /repo.

/// `kvapp`: render + key-value (both APIs) + http + time + platform behind one bridge.
pub mod kvapp {
    use crux_core::macros::{Effect, Export};
    use crux_core::render::Render;
    use crux_core::Command;
    use crux_http::Http;
    use crux_kv::{error::KeyValueError, KeyValue};
    use crux_platform::Platform;
    use crux_time::{Time, TimeResponse};
    use serde::{Deserialize, Serialize};

    #[derive(Serialize, Deserialize, Clone, Copy, Debug, PartialEq, Eq)]
    pub enum Api { Capability, Command }

    #[derive(Serialize, Deserialize, Clone, Debug, PartialEq)]
    pub enum Event {
        KvGet { api: Api, key: String },
        KvSet { api: Api, key: String, #[serde(with = "serde_bytes")] value: Vec<u8> },
        KvDelete { api: Api, key: String },
        KvExists { api: Api, key: String },
        KvList { api: Api, prefix: String, cursor: u64 },
        Http { which: u8, #[serde(with = "serde_bytes")] body: Vec<u8> },
        TimeNow,
        TimeAfter { millis: u32 },
        Platform,
        Render,
        // responses never cross the boundary; they stay last (see the HttpError fix)
        #[serde(skip)] Data(Result<Option<Vec<u8>>, KeyValueError>),
        #[serde(skip)] Status(Result<bool, KeyValueError>),
        #[serde(skip)] Keys(Result<(Vec<String>, u64), KeyValueError>),
        #[serde(skip)] HttpDone(crux_http::Result<crux_http::Response<Vec<u8>>>),
        #[serde(skip)] TimeDone(TimeResponse),
        #[serde(skip)] PlatformDone(String),
    }

    #[derive(Serialize, Deserialize, Clone, Debug, PartialEq, Eq)]
    pub enum Outcome { Absent, Present(#[serde(with = "serde_bytes")] Vec<u8>), Failed(KeyValueError) }
    #[derive(Serialize, Deserialize, Clone, Debug, PartialEq, Eq)]
    pub enum StatusOutcome { Is(bool), Failed(KeyValueError) }
    #[derive(Serialize, Deserialize, Clone, Debug, PartialEq, Eq)]
    pub enum KeysOutcome { Page { keys: Vec<String>, cursor: u64 }, Failed(KeyValueError) }

    #[derive(Serialize, Deserialize, Clone, Debug, PartialEq, Eq)]
    pub enum Entry {
        Data(Outcome),
        Status(StatusOutcome),
        Keys(KeysOutcome),
        Http { status: u16, #[serde(with = "serde_bytes")] body: Vec<u8> },
        HttpFailed(String),
        Time(TimeResponse),
        Platform(String),
    }

    #[derive(Default)]
    pub struct Model { pub entries: Vec<Entry>, pub events: u64 }

    #[derive(Serialize, Deserialize, Clone, Debug, PartialEq, Eq)]
    pub struct ViewModel { pub events: u64, pub entries: Vec<Entry> }

    #[derive(Effect, Export)]
    pub struct Capabilities {
        pub http: Http<Event>,
        pub key_value: KeyValue<Event>,
        pub platform: Platform<Event>,
        pub render: Render<Event>,
        pub time: Time<Event>,
    }

    #[derive(Default)]
    pub struct App;

    type Kv = crux_kv::command::KeyValue<Effect, Event>;

    impl crux_core::App for App {
        type Event = Event;
        type Model = Model;
        type ViewModel = ViewModel;
        type Capabilities = Capabilities;
        type Effect = Effect;

        fn update(&self, event: Event, model: &mut Model, caps: &Capabilities) -> Command<Effect, Event> {
            model.events += 1;
            match event {
                Event::KvGet { api: Api::Capability, key } => { caps.key_value.get(key, Event::Data); Command::done() }
                Event::KvGet { api: Api::Command, key } => Kv::get(key).then_send(Event::Data),
                Event::KvSet { api: Api::Capability, key, value } => { caps.key_value.set(key, value, Event::Data); Command::done() }
                Event::KvSet { api: Api::Command, key, value } => Kv::set(key, value).then_send(Event::Data),
                Event::KvDelete { api: Api::Capability, key } => { caps.key_value.delete(key, Event::Data); Command::done() }
                Event::KvDelete { api: Api::Command, key } => Kv::delete(key).then_send(Event::Data),
                Event::KvExists { api: Api::Capability, key } => { caps.key_value.exists(key, Event::Status); Command::done() }
                Event::KvExists { api: Api::Command, key } => Kv::exists(key).then_send(Event::Status),
                Event::KvList { api: Api::Capability, prefix, cursor } => { caps.key_value.list_keys(prefix, cursor, Event::Keys); Command::done() }
                Event::KvList { api: Api::Command, prefix, cursor } => Kv::list_keys(prefix, cursor).then_send(Event::Keys),
                Event::Http { which, body } if which >= 128 => {
                    // capability API
                    let url = format!("https://example.com/c{}", which);
                    let b = match which % 3 { 0 => caps.http.get(url), 1 => caps.http.post(url), _ => caps.http.put(url) };
                    b.header("x-k", format!("v{}", which)).body_bytes(body).send(Event::HttpDone);
                    Command::done()
                }
                Event::Http { which, body } => {
                    // command API
                    let url = format!("https://example.com/p{}", which);
                    let b = match which % 3 {
                        0 => crux_http::command::Http::get(url),
                        1 => crux_http::command::Http::post(url),
                        _ => crux_http::command::Http::put(url),
                    };
                    b.header("x-k", format!("v{}", which)).body_bytes(body).build().then_send(Event::HttpDone)
                }
                Event::TimeNow => { caps.time.now(Event::TimeDone); Command::done() }
                Event::TimeAfter { millis } => {
                    caps.time.notify_after(std::time::Duration::from_millis(millis as u64), Event::TimeDone);
                    Command::done()
                }
                Event::Platform => { caps.platform.get(|r| Event::PlatformDone(r.0)); Command::done() }
                Event::Render => crux_core::render::render(),
                Event::Data(r) => {
                    model.entries.push(Entry::Data(match r { Ok(None) => Outcome::Absent, Ok(Some(b)) => Outcome::Present(b), Err(e) => Outcome::Failed(e) }));
                    crux_core::render::render()
                }
                Event::Status(r) => {
                    model.entries.push(Entry::Status(match r { Ok(b) => StatusOutcome::Is(b), Err(e) => StatusOutcome::Failed(e) }));
                    crux_core::render::render()
                }
                Event::Keys(r) => {
                    model.entries.push(Entry::Keys(match r { Ok((keys, cursor)) => KeysOutcome::Page { keys, cursor }, Err(e) => KeysOutcome::Failed(e) }));
                    crux_core::render::render()
                }
                Event::HttpDone(r) => {
                    model.entries.push(match r {
                        Ok(mut resp) => Entry::Http { status: resp.status().into(), body: resp.take_body().unwrap_or_default() },
                        Err(e) => Entry::HttpFailed(e.to_string()),
                    });
                    crux_core::render::render()
                }
                Event::TimeDone(t) => { model.entries.push(Entry::Time(t)); crux_core::render::render() }
                Event::PlatformDone(p) => { model.entries.push(Entry::Platform(p)); crux_core::render::render() }
            }
        }

        fn view(&self, model: &Model) -> ViewModel {
            ViewModel { events: model.events, entries: model.entries.clone() }
        }
    }
}

/// `zoo`: an app whose event type exercises every format the schema language has.
pub mod zoo {
    use crux_core::macros::effect;
    use crux_core::render::RenderOperation;
    use crux_core::Command;
    use serde::{Deserialize, Serialize};
    use std::collections::BTreeMap;

    #[derive(Serialize, Deserialize, Clone, Debug, PartialEq)]
    pub struct Wrapper(pub u64);
    #[derive(Serialize, Deserialize, Clone, Debug, PartialEq)]
    pub struct UnitStruct;
    #[derive(Serialize, Deserialize, Clone, Debug, PartialEq)]
    pub struct TupleStruct(pub u8, pub String);
    #[derive(Serialize, Deserialize, Clone, Debug, PartialEq)]
    pub enum Kind { A, B(i64), C { x: bool }, D(u8, u8) }
    #[derive(Serialize, Deserialize, Clone, Debug, PartialEq)]
    pub struct Inner {
        pub id: Wrapper,
        pub kind: Kind,
        pub tags: Vec<Option<String>>,
        pub unit: UnitStruct,
        pub ts: TupleStruct,
    }

    #[derive(Serialize, Deserialize, Clone, Debug, PartialEq)]
    pub enum ZooEvent {
        Unit,
        Newtype(u8),
        Signed(i8, i16, i32, i64, i128),
        Unsigned { a: u8, b: u16, c: u32, d: u64, e: u128 },
        Floats(f32, f64),
        Text { c: char, s: String, #[serde(with = "serde_bytes")] b: Vec<u8> },
        Opt(Option<Option<u32>>),
        Seq(Vec<Vec<String>>),
        Array([u16; 3]),
        Map(BTreeMap<u32, String>),
        Nested(Inner),
        Pair((bool, ())),
        Many(Vec<Inner>),
        Boxed(Box<Inner>),
        Sizes(usize, isize),
        Chars(Vec<char>),
        Bools(Vec<bool>),
    }

    #[derive(Default)]
    pub struct Model { pub count: u64, pub last: Vec<ZooEvent> }
    #[derive(Serialize, Deserialize, Clone, Debug, PartialEq)]
    pub struct ZooView { pub count: u64, pub last: Vec<ZooEvent> }

    #[effect(typegen)]
    pub enum Effect { Render(RenderOperation) }

    #[derive(Default)]
    pub struct App;

    impl crux_core::App for App {
        type Event = ZooEvent;
        type Model = Model;
        type ViewModel = ZooView;
        type Capabilities = ();
        type Effect = Effect;

        fn update(&self, event: ZooEvent, model: &mut Model, _caps: &()) -> Command<Effect, ZooEvent> {
            model.count += 1;
            model.last = vec![event];
            crux_core::render::render()
        }
        fn view(&self, model: &Model) -> ZooView { ZooView { count: model.count, last: model.last.clone() } }
    }
}

/// `malapp`: one-shot requests with a structured answer, a stream, notifications; used by C12.
pub mod malapp {
    use crux_core::capability::Operation;
    use crux_core::macros::effect;
    use crux_core::render::RenderOperation;
    use crux_core::Command;
    use serde::{Deserialize, Serialize};

    #[derive(Serialize, Deserialize, Clone, Debug, PartialEq, Eq)]
    pub struct AskOp { pub tag: u32, pub text: String }
    #[derive(Serialize, Deserialize, Clone, Debug, PartialEq, Eq)]
    pub struct Item { pub name: String, #[serde(with = "serde_bytes")] pub data: Vec<u8>, pub weight: Option<u64> }
    #[derive(Serialize, Deserialize, Clone, Debug, PartialEq, Eq)]
    pub enum Answer { Empty, Code(u16), Items { items: Vec<Item>, note: Option<String> }, Pair(u64, bool) }
    impl Operation for AskOp { type Output = Answer; }

    #[derive(Serialize, Deserialize, Clone, Debug, PartialEq, Eq)]
    pub struct WatchOp { pub tag: u32 }
    #[derive(Serialize, Deserialize, Clone, Debug, PartialEq, Eq)]
    pub struct Tick { pub seq: u64, pub label: String }
    impl Operation for WatchOp { type Output = Tick; }

    #[derive(Serialize, Deserialize, Clone, Debug, PartialEq, Eq)]
    pub enum MalEvent {
        Ask { tag: u32, text: String },
        Watch { tag: u32 },
        Note { text: String, #[serde(with = "serde_bytes")] blob: Vec<u8>, nums: Vec<u32>, flag: Option<bool> },
        Render,
        /// work sequenced after a request: ask, then (whatever became of the first) ask again and render
        Chain { tag: u32 },
        /// two requests side by side, a third one after both
        Fork { tag: u32 },
        #[serde(skip)] Got(u32, Answer),
        #[serde(skip)] Ticked(u32, Tick),
    }

    #[derive(Serialize, Deserialize, Clone, Debug, PartialEq, Eq)]
    pub enum Line {
        Asked(u32),
        Watching(u32),
        Noted { text: String, size: u64, sum: u64, flag: Option<bool> },
        Got(u32, Answer),
        Tick(u32, Tick),
    }
    #[derive(Default)]
    pub struct Model { pub lines: Vec<Line> }
    #[derive(Serialize, Deserialize, Clone, Debug, PartialEq, Eq)]
    pub struct MalView { pub lines: Vec<Line> }

    #[effect(typegen)]
    pub enum Effect { Ask(AskOp), Render(RenderOperation), Watch(WatchOp) }

    #[derive(Default)]
    pub struct App;
    impl crux_core::App for App {
        type Event = MalEvent;
        type Model = Model;
        type ViewModel = MalView;
        type Capabilities = ();
        type Effect = Effect;
        fn update(&self, event: MalEvent, model: &mut Model, _caps: &()) -> Command<Effect, MalEvent> {
            match event {
                MalEvent::Ask { tag, text } => { model.lines.push(Line::Asked(tag)); Command::request_from_shell(AskOp { tag, text }).then_send(move |a| MalEvent::Got(tag, a)) }
                MalEvent::Watch { tag } => { model.lines.push(Line::Watching(tag)); Command::stream_from_shell(WatchOp { tag }).then_send(move |t| MalEvent::Ticked(tag, t)) }
                MalEvent::Note { text, blob, nums, flag } => {
                    model.lines.push(Line::Noted { text, size: blob.len() as u64, sum: nums.iter().map(|x| *x as u64).sum(), flag });
                    Command::done()
                }
                MalEvent::Render => crux_core::render::render(),
                MalEvent::Chain { tag } => {
                    let ask = |t: u32, text: &str| -> Command<Effect, MalEvent> {
                        Command::request_from_shell(AskOp { tag: t, text: text.to_string() }).then_send(move |a| MalEvent::Got(t, a))
                    };
                    model.lines.push(Line::Asked(tag));
                    ask(tag, "first").then(ask(tag.wrapping_add(1), "second")).then(crux_core::render::render())
                }
                MalEvent::Fork { tag } => {
                    let ask = |t: u32, text: &str| -> Command<Effect, MalEvent> {
                        Command::request_from_shell(AskOp { tag: t, text: text.to_string() }).then_send(move |a| MalEvent::Got(t, a))
                    };
                    model.lines.push(Line::Asked(tag));
                    Command::all([ask(tag, "left"), ask(tag.wrapping_add(1), "right")]).then(ask(tag.wrapping_add(2), "after both"))
                }
                MalEvent::Got(tag, a) => { model.lines.push(Line::Got(tag, a)); crux_core::render::render() }
                MalEvent::Ticked(tag, t) => { model.lines.push(Line::Tick(tag, t)); Command::done() }
            }
        }
        fn view(&self, model: &Model) -> MalView { MalView { lines: model.lines.clone() } }
    }
}

use crux_core::typegen::{State, TypeGen};
use serde_reflection::Registry;

pub fn take_registry(mut gen: TypeGen) -> Result<Registry, String> {
    let state = std::mem::replace(&mut gen.state, State::Generating(Registry::new()));
    match state {
        State::Registering(tracer, _samples) => tracer.registry().map_err(|e| format!("{}: {}", e, e.explanation())),
        State::Generating(r) => Ok(r),
    }
}

/// One fully registered `TypeGen` per test app (what a shared_types/build.rs would do), by app name.  The last one
/// (`protocol`) is every capability's `Operation::register_types` on its own, with no app around it.
pub fn typegens() -> Vec<(&'static str, Result<TypeGen, String>)> {
    use crux_core::capability::Operation;
    let mk = |f: &dyn Fn(&mut TypeGen) -> Result<(), String>| -> Result<TypeGen, String> { let mut g = TypeGen::new(); f(&mut g)?; Ok(g) };
    vec![
        ("kvapp", mk(&|gen| {
            // nested enums have to be registered by hand, as in a real shared_types/build.rs
            gen.register_type::<kvapp::Api>().map_err(|e| e.to_string())?;
            gen.register_type::<kvapp::Outcome>().map_err(|e| e.to_string())?;
            gen.register_type::<kvapp::StatusOutcome>().map_err(|e| e.to_string())?;
            gen.register_type::<kvapp::KeysOutcome>().map_err(|e| e.to_string())?;
            gen.register_type::<kvapp::Entry>().map_err(|e| e.to_string())?;
            gen.register_app::<kvapp::App>().map_err(|e| e.to_string())
        })),
        ("zoo", mk(&|gen| {
            gen.register_type::<zoo::Kind>().map_err(|e| e.to_string())?;
            gen.register_app::<zoo::App>().map_err(|e| e.to_string())
        })),
        ("malapp", mk(&|gen| {
            gen.register_type::<malapp::Answer>().map_err(|e| e.to_string())?;
            gen.register_type::<malapp::Line>().map_err(|e| e.to_string())?;
            gen.register_app::<malapp::App>().map_err(|e| e.to_string())
        })),
        ("protocol", mk(&|gen| {
            crux_core::render::RenderOperation::register_types(gen).map_err(|e| e.to_string())?;
            crux_http::protocol::HttpRequest::register_types(gen).map_err(|e| e.to_string())?;
            crux_kv::KeyValueOperation::register_types(gen).map_err(|e| e.to_string())?;
            crux_time::TimeRequest::register_types(gen).map_err(|e| e.to_string())?;
            crux_platform::PlatformRequest::register_types(gen).map_err(|e| e.to_string())?;
            Ok(())
        })),
    ]
}
/// The same apps registered by another route a build.rs may take: `register_samples` with a FEW sample values first
/// (not covering every variant), then the usual registration.  The later `register_type` / `register_app` must still
/// complete the sampled enums: the traced registry has to be the one of the direct route.
pub fn typegens_via_samples() -> Vec<(&'static str, Result<TypeGen, String>)> {
    let mk = |f: &dyn Fn(&mut TypeGen) -> Result<(), String>| -> Result<TypeGen, String> { let mut g = TypeGen::new(); f(&mut g)?; Ok(g) };
    vec![
        ("kvapp", mk(&|gen| {
            gen.register_samples::<kvapp::Api>(vec![kvapp::Api::Command]).map_err(|e| e.to_string())?;
            gen.register_samples::<kvapp::StatusOutcome>(vec![kvapp::StatusOutcome::Is(true)]).map_err(|e| e.to_string())?;
            gen.register_samples::<kvapp::Event>(vec![kvapp::Event::TimeNow]).map_err(|e| e.to_string())?;
            gen.register_type::<kvapp::Api>().map_err(|e| e.to_string())?;
            gen.register_type::<kvapp::Outcome>().map_err(|e| e.to_string())?;
            gen.register_type::<kvapp::StatusOutcome>().map_err(|e| e.to_string())?;
            gen.register_type::<kvapp::KeysOutcome>().map_err(|e| e.to_string())?;
            gen.register_type::<kvapp::Entry>().map_err(|e| e.to_string())?;
            gen.register_app::<kvapp::App>().map_err(|e| e.to_string())
        })),
        ("zoo", mk(&|gen| {
            gen.register_samples::<zoo::Kind>(vec![zoo::Kind::B(-3), zoo::Kind::D(1, 2)]).map_err(|e| e.to_string())?;
            gen.register_type::<zoo::Kind>().map_err(|e| e.to_string())?;
            gen.register_app::<zoo::App>().map_err(|e| e.to_string())
        })),
        ("malapp", mk(&|gen| {
            gen.register_samples::<malapp::Answer>(vec![malapp::Answer::Code(7), malapp::Answer::Pair(1, true)]).map_err(|e| e.to_string())?;
            gen.register_type::<malapp::Answer>().map_err(|e| e.to_string())?;
            gen.register_type::<malapp::Line>().map_err(|e| e.to_string())?;
            gen.register_app::<malapp::App>().map_err(|e| e.to_string())
        })),
    ]
}
/// malapp registered the way a careless build.rs would: the nested enums (Answer, Line) are only reachable through
/// the app's types, so tracing sees their first variant only.  Both the tracer and TypeGen's generators must refuse.
pub fn incomplete_typegen() -> Result<TypeGen, String> {
    let mut gen = TypeGen::new();
    gen.register_app::<malapp::App>().map_err(|e| e.to_string())?;
    Ok(gen)
}
/// The registry TypeGen's own generators work from: run a real generator (java: pure Rust, no external tool) and
/// read the registry it left in `state`.
pub fn generated_registry(mut gen: TypeGen, out_dir: &str) -> Result<Registry, String> {
    gen.java("com.crux.verif.types", out_dir).map_err(|e| e.to_string())?;
    match std::mem::replace(&mut gen.state, State::Generating(Registry::new())) {
        State::Generating(r) => Ok(r),
        State::Registering(..) => Err("generator returned Ok but left no registry".into()),
    }
}
pub fn registries() -> Vec<(&'static str, Result<Registry, String>)> {
    typegens().into_iter().map(|(n, g)| (n, g.and_then(take_registry))).collect()
}
