//! For every type name a traced registry can contain: the Rust type behind it.
use super::apps::{kvapp, malapp, zoo};
use super::arb::Arb;
use bincode::Options;
use serde::{de::DeserializeOwned, Serialize};
use vh::rng::Rng;

/// exactly `Bridge::bincode_options()` (crux_core/src/bridge/mod.rs)
pub fn bridge_opts() -> impl Options + Copy { bincode::DefaultOptions::new().with_fixint_encoding().allow_trailing_bytes() }
/// the same encoding, but input that is not consumed completely is an error
pub fn strict_opts() -> impl Options + Copy { bincode::DefaultOptions::new().with_fixint_encoding() }

pub struct Accept { pub bridge_ok: bool, pub strict_ok: bool, pub reser: Option<Vec<u8>>, pub err: String, pub panicked: bool }

fn accept<T: Serialize + DeserializeOwned>(b: &[u8]) -> Accept {
    let r = std::panic::catch_unwind(|| {
        let a = bridge_opts().deserialize::<T>(b);
        let s = strict_opts().deserialize::<T>(b);
        let err = match (&a, &s) { (Err(e), _) => e.to_string(), (_, Err(e)) => format!("strict: {}", e), _ => String::new() };
        let reser = a.as_ref().ok().and_then(|v| bridge_opts().serialize(v).ok());
        Accept { bridge_ok: a.is_ok(), strict_ok: s.is_ok(), reser, err, panicked: false }
    });
    r.unwrap_or(Accept { bridge_ok: false, strict_ok: false, reser: None, err: "panic".into(), panicked: true })
}
fn arb_bytes<T: Arb + Serialize>(r: &mut Rng) -> Vec<u8> { bridge_opts().serialize(&T::arb(r)).expect("serialize") }

pub struct TypeEntry {
    pub name: &'static str,
    pub accept: fn(&[u8]) -> Accept,
    pub arb: fn(&mut Rng) -> Vec<u8>,
}
macro_rules! t { ($n:expr, $t:ty) => { TypeEntry { name: $n, accept: accept::<$t>, arb: arb_bytes::<$t> } }; }

fn protocol_types() -> Vec<TypeEntry> {
    vec![
        t!("RenderOperation", crux_core::render::RenderOperation),
        t!("KeyValueOperation", crux_kv::KeyValueOperation),
        t!("KeyValueResult", crux_kv::KeyValueResult),
        t!("KeyValueResponse", crux_kv::KeyValueResponse),
        t!("KeyValueError", crux_kv::error::KeyValueError),
        t!("Value", crux_kv::value::Value),
        t!("HttpRequest", crux_http::protocol::HttpRequest),
        t!("HttpHeader", crux_http::protocol::HttpHeader),
        t!("HttpResult", crux_http::protocol::HttpResult),
        t!("HttpResponse", crux_http::protocol::HttpResponse),
        t!("HttpError", crux_http::HttpError),
        t!("TimeRequest", crux_time::TimeRequest),
        t!("TimeResponse", crux_time::TimeResponse),
        t!("TimerId", crux_time::TimerId),
        t!("Instant", crux_time::Instant),
        t!("Duration", crux_time::Duration),
        t!("PlatformRequest", crux_platform::PlatformRequest),
        t!("PlatformResponse", crux_platform::PlatformResponse),
    ]
}

pub fn types_of(app: &str) -> Vec<TypeEntry> {
    match app {
        "kvapp" => {
            let mut v = protocol_types();
            v.extend(vec![
                t!("Request", crux_core::bridge::Request<kvapp::EffectFfi>),
                t!("Effect", kvapp::EffectFfi),
                t!("Event", kvapp::Event),
                t!("ViewModel", kvapp::ViewModel),
                t!("Api", kvapp::Api),
                t!("Outcome", kvapp::Outcome),
                t!("StatusOutcome", kvapp::StatusOutcome),
                t!("KeysOutcome", kvapp::KeysOutcome),
                t!("Entry", kvapp::Entry),
            ]);
            v
        }
        "zoo" => vec![
            t!("RenderOperation", crux_core::render::RenderOperation),
            t!("Request", crux_core::bridge::Request<zoo::EffectFfi>),
            t!("Effect", zoo::EffectFfi),
            t!("ZooEvent", zoo::ZooEvent),
            t!("ZooView", zoo::ZooView),
            t!("Inner", zoo::Inner),
            t!("Wrapper", zoo::Wrapper),
            t!("UnitStruct", zoo::UnitStruct),
            t!("TupleStruct", zoo::TupleStruct),
            t!("Kind", zoo::Kind),
        ],
        "malapp" => vec![
            t!("RenderOperation", crux_core::render::RenderOperation),
            t!("Request", crux_core::bridge::Request<malapp::EffectFfi>),
            t!("Effect", malapp::EffectFfi),
            t!("MalEvent", malapp::MalEvent),
            t!("MalView", malapp::MalView),
            t!("Line", malapp::Line),
            t!("AskOp", malapp::AskOp),
            t!("WatchOp", malapp::WatchOp),
            t!("Answer", malapp::Answer),
            t!("Item", malapp::Item),
            t!("Tick", malapp::Tick),
        ],
        "protocol" => protocol_types(),
        _ => vec![],
    }
}
