//! C18 correspondence, "an id no other timer in the PROCESS has": one process starts timers through
//! every entry point that hands out ids - the command API in direct `Command`s, the command API from
//! the `update` of an app hosted under a real `Core`, and the legacy `crux_time::Time` capability of
//! the SAME app - interleaved in every order, several in a row.  Observation: the id of every timer
//! in start order.  Model (coq/Timer/Mixed.v): one shared wrapping counter, whatever the API.
//! The case also drives every started timer once (first poll / core call) and checks that each
//! request the shell receives names exactly one timer of the case.
//!
//! usage: timer_mixed <seed> <max_len> <n_random>
use crux_core::{macros::Effect, App, Command, Core, Request};
use crux_time::command::{Time as CmdTime, TimerHandle, TimerOutcome};
use crux_time::{Time, TimeRequest, TimeResponse};
use std::time::{Duration, SystemTime};
use vh::rng::Rng;

#[derive(Clone, Copy, PartialEq, Debug)]
pub enum Kind { After, At }
pub enum Ev { StartCmd(Kind), StartLegacy(Kind), OutCmd(usize, TimerOutcome), OutLegacy(usize, TimeResponse) }

#[derive(Effect)]
pub struct Caps { pub time: Time<Ev> }

#[derive(Default)]
pub struct Model { handles: Vec<TimerHandle>, ids: Vec<u64>, outcomes: usize }
#[derive(Default)]
pub struct MApp;

fn id_of_debug(s: &str) -> u64 {
    let p = s.find("TimerId(").expect("no TimerId in Debug output") + 8;
    s[p..].chars().take_while(|c| c.is_ascii_digit()).collect::<String>().parse().unwrap()
}
fn when(i: usize) -> SystemTime { vh::when::at(i) }

impl App for MApp {
    type Event = Ev;
    type Model = Model;
    type ViewModel = (Vec<u64>, usize);
    type Capabilities = Caps;
    type Effect = Effect;
    fn update(&self, event: Ev, model: &mut Model, caps: &Caps) -> Command<Effect, Ev> {
        let i = model.ids.len();
        match event {
            Ev::StartCmd(k) => {
                let (cmd, handle) = match k {
                    Kind::After => { let (b, h) = CmdTime::notify_after(vh::when::dur(i)); (b.then_send(move |o| Ev::OutCmd(i, o)), h) }
                    Kind::At => { let (b, h) = CmdTime::notify_at(when(i)); (b.then_send(move |o| Ev::OutCmd(i, o)), h) }
                };
                model.ids.push(id_of_debug(&format!("{:?}", handle)));
                model.handles.push(handle);
                cmd
            }
            Ev::StartLegacy(k) => {
                let id = match k {
                    Kind::After => caps.time.notify_after(vh::when::dur(i), move |r| Ev::OutLegacy(i, r)),
                    Kind::At => caps.time.notify_at(when(i), move |r| Ev::OutLegacy(i, r)),
                };
                model.ids.push(id.0 as u64);
                Command::done()
            }
            Ev::OutCmd(..) | Ev::OutLegacy(..) => { model.outcomes += 1; Command::done() }
        }
    }
    fn view(&self, model: &Model) -> Self::ViewModel { (model.ids.clone(), model.outcomes) }
}

// direct host
enum DEff { Time(Request<TimeRequest>) }
impl From<Request<TimeRequest>> for DEff { fn from(r: Request<TimeRequest>) -> Self { DEff::Time(r) } }
enum DEv { Out(TimerOutcome) }

#[derive(Clone, Copy, PartialEq, Debug)]
enum Api { Direct, Core, Legacy }

fn req_id(op: &TimeRequest) -> Option<u64> {
    match op { TimeRequest::NotifyAfter { id, .. } | TimeRequest::NotifyAt { id, .. } | TimeRequest::Clear { id } => Some(id.0 as u64), TimeRequest::Now => None }
}

fn run_case(apis: &[Api], kinds: &[Kind], class: &str) {
    let core: Core<MApp> = Core::new();
    let mut ids: Vec<u64> = vec![];
    let mut requested: Vec<u64> = vec![];
    let mut directs: Vec<(Command<DEff, DEv>, TimerHandle)> = vec![];
    let mut held: Vec<Effect> = vec![];
    for (a, k) in apis.iter().zip(kinds) {
        match a {
            Api::Direct => {
                let (cmd, h) = match k {
                    Kind::After => { let (b, h) = CmdTime::<DEff, DEv>::notify_after(vh::when::dur(ids.len())); (b.then_send(DEv::Out), h) }
                    Kind::At => { let (b, h) = CmdTime::<DEff, DEv>::notify_at(when(ids.len())); (b.then_send(DEv::Out), h) }
                };
                ids.push(id_of_debug(&format!("{:?}", h)));
                directs.push((cmd, h));
            }
            Api::Core | Api::Legacy => {
                let effs = core.process_event(if *a == Api::Core { Ev::StartCmd(*k) } else { Ev::StartLegacy(*k) });
                ids.push(*core.view().0.last().unwrap());
                for e in effs { let Effect::Time(r) = &e; if let Some(id) = req_id(&r.operation) { requested.push(id); } held.push(e); }
            }
        }
    }
    // first poll of every direct timer: the requests carry the ids handed out above
    for (cmd, _h) in directs.iter_mut() {
        for DEff::Time(r) in cmd.effects() { if let Some(id) = req_id(&r.operation) { requested.push(id); } }
    }
    // every timer was requested exactly once, under its own id
    let mut a = ids.clone(); a.sort(); let mut b = requested.clone(); b.sort();
    let routed = a == b;
    println!("{{\"host\":\"mixed\",\"class\":\"{}\",\"n\":{},\"ins\":\"[{}]\",\"obs\":\"[{}]\",\"routed\":{}}}",
        class, apis.len(),
        apis.iter().map(|a| match a { Api::Direct => "ADirect", Api::Core => "ACore", Api::Legacy => "ALegacy" }).collect::<Vec<_>>().join("; "),
        ids.iter().map(|i| i.to_string()).collect::<Vec<_>>().join("; "), routed);
}

fn main() {
    let a: Vec<u64> = std::env::args().skip(1).map(|s| s.parse().expect("numeric args")).collect();
    let (seed, max_len, nrand) = (a[0], a[1] as usize, a[2]);
    const APIS: [Api; 3] = [Api::Direct, Api::Core, Api::Legacy];
    // the shapes named in the corpus: alternating, several in a row, direct before/after
    for (s, class) in [("CLCLCL", "corpus"), ("LLLCCC", "corpus"), ("CCCLLL", "corpus"), ("DCLDCLD", "corpus"), ("DDLLCCDD", "corpus"), ("LCDLCD", "corpus")] {
        let apis: Vec<Api> = s.chars().map(|c| match c { 'D' => Api::Direct, 'C' => Api::Core, _ => Api::Legacy }).collect();
        let kinds: Vec<Kind> = (0..apis.len()).map(|i| if i % 2 == 0 { Kind::After } else { Kind::At }).collect();
        run_case(&apis, &kinds, class);
    }
    // every sequence of entry points up to max_len
    for len in 1..=max_len {
        let total = 3usize.pow(len as u32);
        for code in 0..total {
            let mut c = code; let mut apis = vec![]; let mut kinds = vec![];
            for j in 0..len { apis.push(APIS[c % 3]); kinds.push(if (code + j) % 2 == 0 { Kind::After } else { Kind::At }); c /= 3; }
            run_case(&apis, &kinds, "exh");
        }
    }
    let mut rng = Rng::new(seed);
    for _ in 0..nrand {
        let len = rng.range(6, 24) as usize;
        let apis: Vec<Api> = (0..len).map(|_| *rng.pick(&APIS)).collect();
        let kinds: Vec<Kind> = (0..len).map(|_| if rng.coin(1, 2) { Kind::After } else { Kind::At }).collect();
        run_case(&apis, &kinds, "random");
    }
}
