//! C12 correspondence driver: malformed input at every point of generated histories.
//! usage: wire_c12 <seed> <histories>
//!
//! A history drives a real bridge M (bincode `Bridge` or serde_json `BridgeWithSerializer`) and a twin T.
//! Valid events and responses go to both; probes (five mutators over valid encodings: random bytes,
//! truncate, extend, bit-flip, length-field corruption) go to M only, under a counting allocator, a
//! watchdog and catch_unwind.  A probe that M accepts is a valid input after all and is replayed on T.
//! After every action the two must agree (effects modulo request ids, views byte for byte).
//! Output: one JSON line per probe, one per history.
#[path = "wire_common/mod.rs"]
mod wire_common;
use bincode::Options;
use std::alloc::{GlobalAlloc, Layout, System};
use std::panic::{catch_unwind, AssertUnwindSafe};
use std::sync::atomic::{AtomicU64, AtomicUsize, Ordering::SeqCst};
use vh::rng::Rng;
use wire_common::apps::{kvapp, malapp};
use wire_common::arb::{http_response, kv_response, time_response, Arb};
use wire_common::table::bridge_opts;
use wire_common::{hex, json_str};

// ---------------------------------------------------------------- counting allocator
struct Counting;
static CUR: AtomicUsize = AtomicUsize::new(0);
static PEAK: AtomicUsize = AtomicUsize::new(0);
static MAXS: AtomicUsize = AtomicUsize::new(0);
unsafe impl GlobalAlloc for Counting {
    unsafe fn alloc(&self, l: Layout) -> *mut u8 {
        let c = CUR.fetch_add(l.size(), SeqCst) + l.size();
        PEAK.fetch_max(c, SeqCst); MAXS.fetch_max(l.size(), SeqCst);
        System.alloc(l)
    }
    unsafe fn dealloc(&self, p: *mut u8, l: Layout) { CUR.fetch_sub(l.size(), SeqCst); System.dealloc(p, l) }
    unsafe fn realloc(&self, p: *mut u8, l: Layout, n: usize) -> *mut u8 {
        if n >= l.size() { let c = CUR.fetch_add(n - l.size(), SeqCst) + (n - l.size()); PEAK.fetch_max(c, SeqCst); } else { CUR.fetch_sub(l.size() - n, SeqCst); }
        MAXS.fetch_max(n, SeqCst);
        System.realloc(p, l, n)
    }
}
#[global_allocator]
static A: Counting = Counting;
fn measured<R>(f: impl FnOnce() -> R) -> (R, usize, usize) {
    let base = CUR.load(SeqCst); PEAK.store(base, SeqCst); MAXS.store(0, SeqCst);
    let r = f();
    (r, MAXS.load(SeqCst), PEAK.load(SeqCst).saturating_sub(base))
}

// ---------------------------------------------------------------- watchdog
static CALL_START_MS: AtomicU64 = AtomicU64::new(0);
fn now_ms() -> u64 { std::time::SystemTime::now().duration_since(std::time::UNIX_EPOCH).unwrap().as_millis() as u64 }
fn guarded<R>(f: impl FnOnce() -> R) -> R { CALL_START_MS.store(now_ms(), SeqCst); let r = f(); CALL_START_MS.store(0, SeqCst); r }

// ---------------------------------------------------------------- drivers
#[derive(Clone, Copy, PartialEq, Debug)]
enum Kind { Once, Many, Never }
struct Issued { id: u32, kind: Kind, fmt: &'static str, payload: Vec<u8>, raw: Vec<u8>, tag: String }

trait Driver {
    const APP: &'static str;
    const CODEC: &'static str;
    const EVENT_FMT: &'static str;
    fn new() -> Self;
    fn event(&self, b: &[u8]) -> Result<Vec<u8>, String>;
    fn response(&self, id: u32, b: &[u8]) -> Result<Vec<u8>, String>;
    fn view(&self) -> Vec<u8>;
    fn issued(out: &[u8]) -> Vec<Issued>;
    fn valid_event(r: &mut Rng) -> Vec<u8>;
    /// a response a well-behaved shell could give to `q`
    fn valid_output(r: &mut Rng, q: &Issued) -> Vec<u8>;
    /// a schema-valid but unusual response (odd status codes, non-ASCII headers, huge or empty bodies ...)
    fn unusual_output(r: &mut Rng, q: &Issued) -> Vec<u8> { Self::valid_output(r, q) }
    /// requests that may be probed
    fn probeable(_q: &Issued) -> bool { true }
    // ---- typed shadow: the same app on a typed `Core`, driven with the decoded values; a rejected
    // response to a one-shot request is modelled by dropping the typed request
    type Shadow;
    fn shadow_new() -> Option<Self::Shadow> { None }
    fn shadow_event(_s: &mut Self::Shadow, _b: &[u8]) -> Option<Vec<Vec<u8>>> { None }
    fn shadow_response(_s: &mut Self::Shadow, _i: usize, _b: &[u8]) -> Option<Result<Vec<Vec<u8>>, String>> { None }
    fn shadow_drop(_s: &mut Self::Shadow, _i: usize) {}
    fn shadow_view(_s: &Self::Shadow) -> Vec<u8> { vec![] }
}

fn dej<T: serde::de::DeserializeOwned>(json: bool, b: &[u8]) -> Option<T> {
    if json { T::deserialize(&mut serde_json::Deserializer::from_slice(b)).ok() } else { bridge_opts().deserialize(b).ok() }
}
/// malapp on a typed core
struct MalShadow { core: crux_core::Core<malapp::App>, pend: Vec<Option<malapp::Effect>>, json: bool }
impl MalShadow {
    fn new(json: bool) -> Self { MalShadow { core: crux_core::Core::new(), pend: vec![], json } }
    fn de<T: serde::de::DeserializeOwned>(&self, b: &[u8]) -> Option<T> {
        // like the bridge: a streaming deserializer that does not look at what follows the value
        if self.json { T::deserialize(&mut serde_json::Deserializer::from_slice(b)).ok() } else { bridge_opts().deserialize(b).ok() }
    }
    fn take(&mut self, effects: Vec<malapp::Effect>) -> Vec<Vec<u8>> {
        effects.into_iter().map(|e| {
            let ffi = match &e {
                malapp::Effect::Ask(q) => malapp::EffectFfi::Ask(q.operation.clone()),
                malapp::Effect::Watch(q) => malapp::EffectFfi::Watch(q.operation.clone()),
                malapp::Effect::Render(q) => malapp::EffectFfi::Render(q.operation.clone()),
            };
            self.pend.push(Some(e));
            bridge_opts().serialize(&ffi).unwrap()
        }).collect()
    }
    fn event(&mut self, b: &[u8]) -> Option<Vec<Vec<u8>>> {
        let ev: malapp::MalEvent = self.de(b)?;
        let effects = self.core.process_event(ev);
        Some(self.take(effects))
    }
    fn response(&mut self, i: usize, b: &[u8]) -> Option<Result<Vec<Vec<u8>>, String>> {
        let slot = self.pend.get_mut(i)?;
        let res = match slot {
            Some(malapp::Effect::Ask(q)) => { let out: malapp::Answer = dej(self.json, b)?; let r = self.core.resolve(q, out); *slot = None; r }
            Some(malapp::Effect::Watch(q)) => { let out: malapp::Tick = dej(self.json, b)?; self.core.resolve(q, out) }
            _ => return None,
        };
        Some(match res { Ok(effects) => Ok(self.take(effects)), Err(e) => Err(e.to_string()) })
    }
    fn view(&self) -> Vec<u8> { if self.json { serde_json::to_vec(&self.core.view()).unwrap() } else { bridge_opts().serialize(&self.core.view()).unwrap() } }
}


struct MalBin(crux_core::bridge::Bridge<malapp::App>);
impl Driver for MalBin {
    const APP: &'static str = "malapp"; const CODEC: &'static str = "bincode"; const EVENT_FMT: &'static str = "MalEvent";
    type Shadow = MalShadow;
    fn shadow_new() -> Option<MalShadow> { Some(MalShadow::new(Self::CODEC == "json")) }
    fn shadow_event(s: &mut MalShadow, b: &[u8]) -> Option<Vec<Vec<u8>>> { s.event(b) }
    fn shadow_response(s: &mut MalShadow, i: usize, b: &[u8]) -> Option<Result<Vec<Vec<u8>>, String>> { s.response(i, b) }
    fn shadow_drop(s: &mut MalShadow, i: usize) { if let Some(x) = s.pend.get_mut(i) { *x = None; } }
    fn shadow_view(s: &MalShadow) -> Vec<u8> { s.view() }
    fn new() -> Self { MalBin(crux_core::bridge::Bridge::new(crux_core::Core::new())) }
    fn event(&self, b: &[u8]) -> Result<Vec<u8>, String> { self.0.process_event(b).map_err(|e| e.to_string()) }
    fn response(&self, id: u32, b: &[u8]) -> Result<Vec<u8>, String> { self.0.handle_response(id, b).map_err(|e| e.to_string()) }
    fn view(&self) -> Vec<u8> { self.0.view().unwrap_or_default() }
    fn issued(out: &[u8]) -> Vec<Issued> {
        let reqs: Vec<crux_core::bridge::Request<malapp::EffectFfi>> = bridge_opts().deserialize(out).unwrap_or_default();
        reqs.into_iter().map(|q| mal_issued(q.id.0, &q.effect)).collect()
    }
    fn valid_event(r: &mut Rng) -> Vec<u8> { bridge_opts().serialize(&malapp::MalEvent::arb(r)).unwrap() }
    fn valid_output(r: &mut Rng, q: &Issued) -> Vec<u8> {
        match q.fmt { "Answer" => bridge_opts().serialize(&malapp::Answer::arb(r)).unwrap(), "Tick" => bridge_opts().serialize(&malapp::Tick::arb(r)).unwrap(), _ => vec![] }
    }
}
fn mal_issued(id: u32, e: &malapp::EffectFfi) -> Issued {
    let payload = bridge_opts().serialize(e).unwrap();
    match e {
        malapp::EffectFfi::Ask(_) => Issued { id, kind: Kind::Once, fmt: "Answer", raw: payload.clone(), payload, tag: String::new() },
        malapp::EffectFfi::Watch(_) => Issued { id, kind: Kind::Many, fmt: "Tick", raw: payload.clone(), payload, tag: String::new() },
        malapp::EffectFfi::Render(_) => Issued { id, kind: Kind::Never, fmt: "unit", raw: payload.clone(), payload, tag: String::new() },
    }
}

struct MalJson(crux_core::bridge::BridgeWithSerializer<malapp::App>);
impl Driver for MalJson {
    const APP: &'static str = "malapp"; const CODEC: &'static str = "json"; const EVENT_FMT: &'static str = "MalEvent";
    type Shadow = MalShadow;
    fn shadow_new() -> Option<MalShadow> { Some(MalShadow::new(Self::CODEC == "json")) }
    fn shadow_event(s: &mut MalShadow, b: &[u8]) -> Option<Vec<Vec<u8>>> { s.event(b) }
    fn shadow_response(s: &mut MalShadow, i: usize, b: &[u8]) -> Option<Result<Vec<Vec<u8>>, String>> { s.response(i, b) }
    fn shadow_drop(s: &mut MalShadow, i: usize) { if let Some(x) = s.pend.get_mut(i) { *x = None; } }
    fn shadow_view(s: &MalShadow) -> Vec<u8> { s.view() }
    fn new() -> Self { MalJson(crux_core::bridge::BridgeWithSerializer::new(crux_core::Core::new())) }
    fn event(&self, b: &[u8]) -> Result<Vec<u8>, String> {
        let mut out = vec![];
        let mut de = serde_json::Deserializer::from_slice(b);
        self.0.process_event(&mut de, &mut serde_json::Serializer::new(&mut out)).map_err(|e| e.to_string())?;
        Ok(out)
    }
    fn response(&self, id: u32, b: &[u8]) -> Result<Vec<u8>, String> {
        let mut out = vec![];
        let mut de = serde_json::Deserializer::from_slice(b);
        self.0.handle_response(id, &mut de, &mut serde_json::Serializer::new(&mut out)).map_err(|e| e.to_string())?;
        Ok(out)
    }
    fn view(&self) -> Vec<u8> { let mut out = vec![]; let _ = self.0.view(&mut serde_json::Serializer::new(&mut out)); out }
    fn issued(out: &[u8]) -> Vec<Issued> {
        let reqs: Vec<crux_core::bridge::Request<malapp::EffectFfi>> = serde_json::from_slice(out).unwrap_or_default();
        reqs.into_iter().map(|q| mal_issued(q.id.0, &q.effect)).collect()
    }
    fn valid_event(r: &mut Rng) -> Vec<u8> { serde_json::to_vec(&malapp::MalEvent::arb(r)).unwrap() }
    fn valid_output(r: &mut Rng, q: &Issued) -> Vec<u8> {
        match q.fmt { "Answer" => serde_json::to_vec(&malapp::Answer::arb(r)).unwrap(), "Tick" => serde_json::to_vec(&malapp::Tick::arb(r)).unwrap(), _ => b"null".to_vec() }
    }
}

struct KvBin(crux_core::bridge::Bridge<kvapp::App>);
impl Driver for KvBin {
    const APP: &'static str = "kvapp"; const CODEC: &'static str = "bincode"; const EVENT_FMT: &'static str = "Event";
    type Shadow = ();
    fn unusual_output(r: &mut Rng, q: &Issued) -> Vec<u8> {
        use crux_http::protocol::{HttpHeader, HttpResponse, HttpResult};
        if q.fmt == "TimeResponse" {
            // a well-framed answer whose Instant carries a nanosecond count of a second or more (the wire type is a bare
            // u32): whatever the core makes of it, it must not panic and the other requests must stay usable
            let eff: kvapp::EffectFfi = bridge_opts().deserialize(&q.raw).unwrap();
            if let kvapp::EffectFfi::Time(crux_time::TimeRequest::Now) = eff {
                let mut b = bridge_opts().serialize(&crux_time::TimeResponse::Now { instant: crux_time::Instant::new(r.below(4_000_000_000), 0) }).unwrap();
                let n = b.len();
                let nanos: u32 = *r.pick(&[1_000_000_000u32, 1_000_000_001, 1_999_999_999, 1 << 30, 1 << 31, u32::MAX]);
                b[n - 4..].copy_from_slice(&nanos.to_le_bytes());
                return b;
            }
            return Self::valid_output(r, q);
        }
        if q.fmt != "HttpResult" { return Self::valid_output(r, q); }
        let odd = ["caf\u{e9}", "\u{dc}n\u{ef}", "", "a b", "x\ny", "x-ok", "\u{1f511}", "content-type", "text/plain; charset=\u{fc}tf-8"];
        let status = *r.pick(&[0u16, 99, 100, 199, 200, 204, 299, 304, 418, 451, 599, 600, 999, u16::MAX]);
        let mut headers: Vec<HttpHeader> = (0..r.below(4)).map(|_| HttpHeader { name: r.pick(&odd).to_string(), value: r.pick(&odd).to_string() }).collect();
        // a declared length that has nothing to do with the body (the shell relays whatever the server said)
        if r.coin(1, 2) { headers.push(HttpHeader { name: r.pick(&["content-length", "Content-Length"]).to_string(),
            value: r.pick(&["18446744073709551615", "9223372036854775808", "18446744073709551615", "99999999999999", "-1", "0", "12 "]).to_string() }); }
        let body = match r.below(4) { 0 => vec![], 1 => vec![0xff; 100_000], 2 => "\u{feff}bom".as_bytes().to_vec(), _ => wire_common::arb::Blob::arb(r).0 };
        bridge_opts().serialize(&HttpResult::Ok(HttpResponse { status, headers, body })).unwrap()
    }
    fn new() -> Self { KvBin(crux_core::bridge::Bridge::new(crux_core::Core::new())) }
    fn event(&self, b: &[u8]) -> Result<Vec<u8>, String> { self.0.process_event(b).map_err(|e| e.to_string()) }
    fn response(&self, id: u32, b: &[u8]) -> Result<Vec<u8>, String> { self.0.handle_response(id, b).map_err(|e| e.to_string()) }
    fn view(&self) -> Vec<u8> { self.0.view().unwrap_or_default() }
    fn issued(out: &[u8]) -> Vec<Issued> {
        let reqs: Vec<crux_core::bridge::Request<kvapp::EffectFfi>> = bridge_opts().deserialize(out).unwrap_or_default();
        reqs.into_iter().map(|q| {
            let raw = bridge_opts().serialize(&q.effect).unwrap();
            // timer ids come from a process-wide counter: they differ between the twins by construction
            let payload = match &q.effect {
                kvapp::EffectFfi::Time(t) => {
                    let z = crux_time::TimerId(0);
                    let t0 = match t.clone() {
                        crux_time::TimeRequest::Now => crux_time::TimeRequest::Now,
                        crux_time::TimeRequest::NotifyAt { instant, .. } => crux_time::TimeRequest::NotifyAt { id: z, instant },
                        crux_time::TimeRequest::NotifyAfter { duration, .. } => crux_time::TimeRequest::NotifyAfter { id: z, duration },
                        crux_time::TimeRequest::Clear { .. } => crux_time::TimeRequest::Clear { id: z },
                    };
                    bridge_opts().serialize(&kvapp::EffectFfi::Time(t0)).unwrap()
                }
                _ => raw.clone(),
            };
            let (kind, fmt, tag) = match &q.effect {
                kvapp::EffectFfi::KeyValue(op) => (Kind::Once, "KeyValueResult", format!("{}", match op {
                    crux_kv::KeyValueOperation::Get { .. } => 0, crux_kv::KeyValueOperation::Set { .. } => 1, crux_kv::KeyValueOperation::Delete { .. } => 2,
                    crux_kv::KeyValueOperation::Exists { .. } => 3, crux_kv::KeyValueOperation::ListKeys { .. } => 4 })),
                kvapp::EffectFfi::Http(_) => (Kind::Once, "HttpResult", String::new()),
                kvapp::EffectFfi::Time(_) => (Kind::Once, "TimeResponse", String::new()),
                kvapp::EffectFfi::Platform(_) => (Kind::Once, "PlatformResponse", String::new()),
                kvapp::EffectFfi::Render(_) => (Kind::Never, "unit", String::new()),
            };
            Issued { id: q.id.0, kind, fmt, payload, raw, tag }
        }).collect()
    }
    fn valid_event(r: &mut Rng) -> Vec<u8> { bridge_opts().serialize(&kvapp::Event::arb(r)).unwrap() }
    fn valid_output(r: &mut Rng, q: &Issued) -> Vec<u8> {
        let eff: kvapp::EffectFfi = bridge_opts().deserialize(&q.raw).unwrap();
        match &eff {
            kvapp::EffectFfi::KeyValue(op) => bridge_opts().serialize(&kv_response(r, op)).unwrap(),
            kvapp::EffectFfi::Http(_) => bridge_opts().serialize(&http_response(r)).unwrap(),
            kvapp::EffectFfi::Time(t) => bridge_opts().serialize(&time_response(r, t)).unwrap(),
            kvapp::EffectFfi::Platform(_) => bridge_opts().serialize(&crux_platform::PlatformResponse::arb(r)).unwrap(),
            kvapp::EffectFfi::Render(_) => vec![],
        }
    }
}

// ---------------------------------------------------------------- mutators
const MUTATORS: [&str; 6] = ["random", "truncate", "extend", "bitflip", "length", "unusual"];
fn mutate(r: &mut Rng, base: &[u8], which: usize, json: bool) -> Vec<u8> {
    let mut b = base.to_vec();
    match which {
        0 => { let n = r.below(64) as usize; (0..n).map(|_| r.next() as u8).collect() }
        1 => { if b.is_empty() { b } else { let n = r.below(b.len() as u64) as usize; b.truncate(n); b } }
        2 => { let n = 1 + r.below(24) as usize; for _ in 0..n { b.push(if json { *r.pick(b"{}[],:\"0 a\\") } else { r.next() as u8 }); } b }
        3 => { if b.is_empty() { return vec![r.next() as u8]; } for _ in 0..(1 + r.below(3)) { let i = r.below(b.len() as u64) as usize; b[i] ^= 1 << r.below(8); } b }
        _ => {
            if json {
                // a number token becomes enormous, or a value becomes absurdly deep
                if r.coin(1, 3) { let depth = 200 + r.below(20000) as usize; let mut v = vec![b'['; depth]; v.extend_from_slice(&b); return v; }
                let digits: Vec<usize> = (0..b.len()).filter(|&i| b[i].is_ascii_digit()).collect();
                if digits.is_empty() { b.extend_from_slice(b"99999999999999999999999999"); return b; }
                let i = *r.pick(&digits);
                let big = *r.pick(&["18446744073709551616", "99999999999999999999999999999", "-1", "1e999", "4294967296"]);
                let mut v = b[..i].to_vec(); v.extend_from_slice(big.as_bytes()); v.extend_from_slice(&b[i + 1..]); v
            } else {
                // overwrite 8 bytes that look like a small u64 (a length prefix) with something large
                let cands: Vec<usize> = (0..b.len().saturating_sub(7)).filter(|&i| b[i + 4..i + 8] == [0, 0, 0, 0] && b[i + 2..i + 4] == [0, 0]).collect();
                let i = if cands.is_empty() { if b.len() < 8 { b.resize(8, 0); } r.below((b.len() - 7) as u64) as usize } else { *r.pick(&cands) };
                let cur = u64::from_le_bytes(b[i..i + 8].try_into().unwrap());
                let new = match r.below(8) { 0 => u64::MAX, 1 => 1 << 63, 2 => (1 << 32) + 1, 3 => b.len() as u64 + 1, 4 => cur.wrapping_add(1), 5 => cur.wrapping_sub(1), 6 => 1 << 40, _ => (b.len() as u64) * 1000 };
                b[i..i + 8].copy_from_slice(&new.to_le_bytes()); b
            }
        }
    }
}

// ---------------------------------------------------------------- one history
struct Req { m: Issued, t_id: u32, alive: bool }

fn payloads(v: &[Issued]) -> Vec<Vec<u8>> { v.iter().map(|q| q.payload.clone()).collect() }

fn history<D: Driver>(r: &mut Rng, hno: u64) {
    let (m, t) = (D::new(), D::new());
    let mut shadow = D::shadow_new();
    // what was done, in order (printed when the parties end up disagreeing): E = event, R<i> = response to the i-th request issued
    let actions: std::cell::RefCell<Vec<String>> = std::cell::RefCell::new(vec![]);
    let mut reqs: Vec<Req> = vec![];
    let mut mismatch: Vec<String> = vec![];
    let (mut probes, mut steps_done) = (0u32, 0u32);
    let json = D::CODEC == "json";
    let steps = 4 + r.below(14);
    let mut dead = false;
    // apply one input to both bridges and compare
    let both = |m: &D, t: &D, shadow: &mut Option<D::Shadow>, reqs: &mut Vec<Req>, mismatch: &mut Vec<String>, target: Option<usize>, bytes: &[u8], what: &str| -> bool {
        actions.borrow_mut().push(format!("{{\"do\":{},\"to\":{},\"bytes\":\"{}\"}}", json_str(what), match target { None => "\"event\"".to_string(), Some(i) => format!("\"request #{}\"", i) }, hex(bytes)));
        let (rm, rt) = match target {
            None => (catch_unwind(AssertUnwindSafe(|| m.event(bytes))), catch_unwind(AssertUnwindSafe(|| t.event(bytes)))),
            Some(i) => { let (a, b) = (reqs[i].m.id, reqs[i].t_id); (catch_unwind(AssertUnwindSafe(|| m.response(a, bytes))), catch_unwind(AssertUnwindSafe(|| t.response(b, bytes)))) }
        };
        let (rm, rt) = match (rm, rt) { (Ok(a), Ok(b)) => (a, b), _ => { mismatch.push(format!("{}: panic on a valid input", what)); return false; } };
        match (&rm, &rt) {
            (Ok(om), Ok(ot)) => {
                let (im, it) = (D::issued(om), D::issued(ot));
                if payloads(&im) != payloads(&it) { mismatch.push(format!("{}: effects differ", what)); }
                if let Some(sh) = shadow.as_mut() {
                    let ps = match target { None => D::shadow_event(sh, bytes).map(Ok), Some(i) => D::shadow_response(sh, i, bytes) };
                    match ps {
                        Some(Ok(ps)) => if ps != payloads(&im) { mismatch.push(format!("{}: bridge and typed core emit different effects ({} vs {})", what, im.len(), ps.len())); return false; },
                        _ => { mismatch.push(format!("{}: typed core did not accept what the bridge accepted", what)); return false; }
                    }
                }
                for (a, b) in im.into_iter().zip(it.into_iter()) { reqs.push(Req { m: a, t_id: b.id, alive: true }); }
            }
            (Err(a), Err(b)) => { if a != b { mismatch.push(format!("{}: errors differ: {} / {}", what, a, b)); } }
            _ => mismatch.push(format!("{}: one accepted, one rejected", what)),
        }
        if let Some(i) = target { if reqs[i].m.kind != Kind::Many { reqs[i].alive = false; } }
        if m.view() != t.view() { mismatch.push(format!("{}: views differ", what)); }
        if let Some(sh) = shadow.as_ref() { if D::shadow_view(sh) != m.view() { mismatch.push(format!("{}: bridge view differs from the typed core's", what)); } }
        true
    };
    for _ in 0..steps {
        if dead { break; }
        steps_done += 1;
        let alive: Vec<usize> = (0..reqs.len()).filter(|&i| reqs[i].alive).collect();
        let answerable: Vec<usize> = alive.iter().cloned().filter(|&i| reqs[i].m.kind != Kind::Never).collect();
        let roll = r.below(100);
        if roll < 35 || (roll < 60 && answerable.is_empty()) {
            let bytes = D::valid_event(r);
            if !both(&m, &t, &mut shadow, &mut reqs, &mut mismatch, None, &bytes, "valid event") { dead = true; }
        } else if roll < 60 {
            let i = *r.pick(&answerable);
            let bytes = D::valid_output(r, &reqs[i].m);
            if !both(&m, &t, &mut shadow, &mut reqs, &mut mismatch, Some(i), &bytes, "valid response") { dead = true; }
        } else {
            // ---- probe
            probes += 1;
            let target: Option<usize> = if alive.is_empty() || r.coin(2, 5) { None } else {
                // notifications (Never entries) only now and then
                let probeable: Vec<usize> = alive.iter().cloned().filter(|&i| D::probeable(&reqs[i].m)).collect();
                let pick = if probeable.is_empty() { *r.pick(&alive) } else { *r.pick(&probeable) };
                if reqs[pick].m.kind == Kind::Never && r.coin(2, 3) && !answerable.is_empty() { Some(*r.pick(&answerable)) } else { Some(pick) }
            };
            let which = if target.map_or(false, |i| reqs[i].m.fmt == "TimeResponse") && r.coin(2, 3) { 5 } else { r.below(6) as usize };
            let input = if which == 5 {
                match target { None => D::valid_event(r), Some(i) => D::unusual_output(r, &reqs[i].m) }
            } else {
                let base = match target { None => D::valid_event(r), Some(i) => D::valid_output(r, &reqs[i].m) };
                mutate(r, &base, which, json)
            };
            let before = m.view();
            actions.borrow_mut().push(format!("{{\"do\":\"probe ({})\",\"to\":{},\"bytes\":\"{}\"}}", MUTATORS[which], match target { None => "\"event\"".to_string(), Some(i) => format!("\"request #{}\"", i) }, hex(&input)));
            let (res, max_single, peak) = measured(|| guarded(|| catch_unwind(AssertUnwindSafe(|| match target {
                None => m.event(&input), Some(i) => m.response(reqs[i].m.id, &input) }))));
            let (tname, fmt, tag) = match target { None => ("event", D::EVENT_FMT, String::new()), Some(i) => (match reqs[i].m.kind { Kind::Once => "once", Kind::Many => "many", Kind::Never => "never" }, reqs[i].m.fmt, reqs[i].m.tag.clone()) };
            let (rs, err, view_same) = match &res {
                Err(_) => ("panic", String::new(), false),
                Ok(Ok(_)) => ("ok", String::new(), m.view() == before),
                Ok(Err(e)) => ("err", e.clone(), m.view() == before),
            };
            println!("{{\"t\":\"probe\",\"h\":{},\"codec\":\"{}\",\"app\":\"{}\",\"target\":\"{}\",\"fmt\":\"{}\",\"tag\":{},\"mut\":\"{}\",\"in\":\"{}\",\"res\":\"{}\",\"err\":{},\"view_same\":{},\"max_single\":{},\"peak\":{},\"len\":{}}}",
                hno, D::CODEC, D::APP, tname, fmt, json_str(&tag), MUTATORS[which], hex(&input), rs, json_str(&err), view_same, max_single, peak, input.len());
            match res {
                Err(_) => { dead = true; }
                Ok(Ok(out)) => {
                    // the mutant is a valid input: the twin gets it too
                    let im = D::issued(&out);
                    let rt = match target { None => catch_unwind(AssertUnwindSafe(|| t.event(&input))), Some(i) => { let id = reqs[i].t_id; catch_unwind(AssertUnwindSafe(|| t.response(id, &input))) } };
                    match rt {
                        Ok(Ok(ot)) => {
                            let it = D::issued(&ot);
                            if payloads(&im) != payloads(&it) { mismatch.push("accepted mutant: effects differ".into()); }
                            if let Some(sh) = shadow.as_mut() {
                                let ps = match target { None => D::shadow_event(sh, &input).map(Ok), Some(i) => D::shadow_response(sh, i, &input) };
                                match ps {
                                    Some(Ok(ps)) => if ps != payloads(&im) { mismatch.push("accepted mutant: bridge and typed core emit different effects".into()); dead = true; },
                                    _ => { mismatch.push("accepted mutant: typed core did not accept it".into()); dead = true; }
                                }
                            }
                            for (a, b) in im.into_iter().zip(it.into_iter()) { reqs.push(Req { m: a, t_id: b.id, alive: true }); }
                        }
                        _ => { mismatch.push("accepted mutant: twin did not accept".into()); dead = true; }
                    }
                    if let Some(i) = target { if reqs[i].m.kind != Kind::Many { reqs[i].alive = false; } }
                }
                Ok(Err(_)) => {
                    // rejected: an event must leave no trace; a response may cost that one request
                    if let Some(i) = target {
                        if reqs[i].m.kind != Kind::Many { reqs[i].alive = false; }
                        if reqs[i].m.kind == Kind::Once {
                            // the request is gone in M: the bridge twin loses it the same way, the typed core by dropping the request;
                            // whatever was sequenced after it must come out of all three with the next call
                            let id = reqs[i].t_id;
                            let _ = catch_unwind(AssertUnwindSafe(|| t.response(id, &input)));
                            if let Some(sh) = shadow.as_mut() { D::shadow_drop(sh, i); }
                        }
                    }
                }
            }
            if !dead && m.view() != t.view() { mismatch.push("after probe: views differ".into()); }
            if !dead { if let Some(sh) = shadow.as_ref() { if D::shadow_view(sh) != m.view() { mismatch.push("after probe: bridge view differs from the typed core's".into()); } } }
        }
    }
    // the rest of the world still works the same: one more valid event and every live request answered
    if !dead {
        let bytes = D::valid_event(r);
        both(&m, &t, &mut shadow, &mut reqs, &mut mismatch, None, &bytes, "closing event");
        let live: Vec<usize> = (0..reqs.len()).filter(|&i| reqs[i].alive && reqs[i].m.kind != Kind::Never).collect();
        for i in live { let bytes = D::valid_output(r, &reqs[i].m); if !both(&m, &t, &mut shadow, &mut reqs, &mut mismatch, Some(i), &bytes, "closing response") { break; } }
    }
    mismatch.truncate(5);
    println!("{{\"t\":\"history\",\"h\":{},\"codec\":\"{}\",\"app\":\"{}\",\"steps\":{},\"probes\":{},\"requests\":{},\"twin_ok\":{},\"mismatch\":[{}],\"actions\":[{}]}}",
        hno, D::CODEC, D::APP, steps_done, probes, reqs.len(), mismatch.is_empty(), mismatch.iter().map(|s| json_str(s)).collect::<Vec<_>>().join(","),
        if mismatch.is_empty() { String::new() } else { actions.borrow().join(",") });
}

/// replay of a stored probe: the `pre` events on a fresh bridge, then the input as an event or as the
/// response to the first request that expects one
fn corpus_probe<D: Driver>(k: usize, pre: &[Vec<u8>], first: bool, input: &[u8]) {
    let m = D::new();
    let mut issued: Vec<Issued> = vec![];
    for e in pre { if let Ok(Ok(out)) = catch_unwind(AssertUnwindSafe(|| m.event(e))) { issued.extend(D::issued(&out)); } }
    let target = if first { issued.iter().find(|q| q.kind != Kind::Never) } else { None };
    if first && target.is_none() { println!("{{\"t\":\"corpus-skip\",\"k\":{}}}", k); return; }
    let before = m.view();
    let (res, max_single, peak) = measured(|| guarded(|| catch_unwind(AssertUnwindSafe(|| match target { None => m.event(input), Some(q) => m.response(q.id, input) }))));
    let (tname, fmt, tag) = match target { None => ("event", D::EVENT_FMT, String::new()), Some(q) => (match q.kind { Kind::Once => "once", Kind::Many => "many", Kind::Never => "never" }, q.fmt, q.tag.clone()) };
    let (rs, err, view_same) = match &res { Err(_) => ("panic", String::new(), false), Ok(Ok(_)) => ("ok", String::new(), m.view() == before), Ok(Err(e)) => ("err", e.clone(), m.view() == before) };
    println!("{{\"t\":\"probe\",\"h\":-{},\"codec\":\"{}\",\"app\":\"{}\",\"target\":\"{}\",\"fmt\":\"{}\",\"tag\":{},\"mut\":\"corpus\",\"in\":\"{}\",\"res\":\"{}\",\"err\":{},\"view_same\":{},\"max_single\":{},\"peak\":{},\"len\":{}}}",
        k + 1, D::CODEC, D::APP, tname, fmt, json_str(&tag), hex(input), rs, json_str(&err), view_same, max_single, peak, input.len());
}

fn main() {
    let a: Vec<String> = std::env::args().collect();
    let seed: u64 = a.get(1).and_then(|s| s.parse().ok()).unwrap_or(1);
    let n: u64 = a.get(2).and_then(|s| s.parse().ok()).unwrap_or(50);
    std::panic::set_hook(Box::new(|_| {}));
    std::thread::spawn(|| loop {
        std::thread::sleep(std::time::Duration::from_millis(250));
        let s = CALL_START_MS.load(SeqCst);
        if s != 0 && now_ms().saturating_sub(s) > 20_000 { println!("{{\"t\":\"hang\",\"after_ms\":{}}}", now_ms() - s); std::process::exit(4); }
    });
    if a.get(1).map(|s| s == "corpus").unwrap_or(false) {
        // corpus mode: lines {"driver":"malbin|maljson|kvbin","pre":[hex..],"target":"event|first","in":hex}
        let text = std::fs::read_to_string(&a[2]).unwrap_or_default();
        for (k, line) in text.lines().filter(|l| l.starts_with('{')).enumerate() {
            let j: serde_json::Value = match serde_json::from_str(line) { Ok(j) => j, Err(_) => continue };
            let unhex = |s: &str| -> Vec<u8> { (0..s.len() / 2).filter_map(|i| u8::from_str_radix(&s[2 * i..2 * i + 2], 16).ok()).collect() };
            let pre: Vec<Vec<u8>> = j["pre"].as_array().map(|v| v.iter().map(|x| unhex(x.as_str().unwrap_or(""))).collect()).unwrap_or_default();
            let input = unhex(j["in"].as_str().unwrap_or(""));
            let first = j["target"].as_str() == Some("first");
            match j["driver"].as_str().unwrap_or("") {
                "malbin" => corpus_probe::<MalBin>(k, &pre, first, &input),
                "maljson" => corpus_probe::<MalJson>(k, &pre, first, &input),
                _ => corpus_probe::<KvBin>(k, &pre, first, &input),
            }
        }
        return;
    }
    let mut r = Rng::new(seed ^ 0xC12);
    for h in 0..n {
        match h % 5 { 0 | 1 => history::<MalBin>(&mut r, h), 2 | 3 => history::<MalJson>(&mut r, h), _ => history::<KvBin>(&mut r, h) }
    }
}
