//! C18 correspondence, legacy capability API: the real `crux_time::Time` capability under a real
//! `Core` with a small test app whose `update` calls `notify_after` / `notify_at` / `clear` and logs
//! every `TimeResponse` its callbacks receive.  One JSON line per case; inputs and observations are
//! printed as Coq terms of coq/Timer/Legacy.v (`list lin`, `list lobs`).
//!
//! usage: timer_legacy <seed> <max_len_1> <max_len_2> <n_random> <n_malformed>
use crux_core::{macros::Effect, App, Command, Core, Request};
use crux_time::{Time, TimeRequest, TimeResponse, TimerId};
use std::time::{Duration, SystemTime};
use vh::rng::Rng;

#[derive(Clone, Copy, PartialEq, Debug)]
pub enum Kind { After, At }
pub enum Ev { Start(Kind), StartClear(Kind), Clear(usize), Out(usize, TimeResponse), Noop }

#[derive(Effect)]
pub struct Caps { pub time: Time<Ev> }

#[derive(Default)]
pub struct Model { ids: Vec<u64>, log: Vec<(usize, String)> }
#[derive(Default)]
pub struct LApp;

fn resp_coq(r: &TimeResponse) -> String {
    match r {
        TimeResponse::Now { .. } => "RNow".into(),
        TimeResponse::InstantArrived { id } => format!("(RInstant {})", id.0),
        TimeResponse::DurationElapsed { id } => format!("(RElapsed {})", id.0),
        TimeResponse::Cleared { id } => format!("(RCleared {})", id.0),
    }
}

impl App for LApp {
    type Event = Ev;
    type Model = Model;
    type ViewModel = (Vec<u64>, Vec<(usize, String)>);
    type Capabilities = Caps;
    type Effect = Effect;
    fn update(&self, event: Ev, model: &mut Model, caps: &Caps) -> Command<Effect, Ev> {
        let start = |k: Kind, i: usize| -> TimerId {
            match k {
                Kind::After => caps.time.notify_after(vh::when::dur(i), move |r| Ev::Out(i, r)),
                Kind::At => caps.time.notify_at(vh::when::at(i), move |r| Ev::Out(i, r)),
            }
        };
        match event {
            Ev::Start(k) => { let id = start(k, model.ids.len()); model.ids.push(id.0 as u64); }
            Ev::StartClear(k) => { let id = start(k, model.ids.len()); model.ids.push(id.0 as u64); caps.time.clear(id); }
            Ev::Clear(i) => { if let Some(id) = model.ids.get(i) { caps.time.clear(TimerId(*id as usize)); } }
            Ev::Out(i, r) => model.log.push((i, resp_coq(&r))),
            Ev::Noop => {}
        }
        Command::done()
    }
    fn view(&self, model: &Model) -> Self::ViewModel { (model.ids.clone(), model.log.clone()) }
}

#[derive(Clone, Copy, PartialEq, Debug)]
struct Resp { kind: u8, off: u64 }
#[derive(Clone, Copy, PartialEq, Debug)]
enum In { Start(Kind), StartClear(Kind), Clear(usize), Fire(usize, Resp), DropReq(usize), Noop }

fn mk_resp(r: Resp, id: u64) -> TimeResponse {
    let tid = TimerId(id.wrapping_add(r.off) as usize);
    match r.kind {
        0 => TimeResponse::Now { instant: crux_time::Instant::new(1, 2) },
        1 => TimeResponse::InstantArrived { id: tid },
        2 => TimeResponse::DurationElapsed { id: tid },
        _ => TimeResponse::Cleared { id: tid },
    }
}
fn right_start(k: Kind) -> Resp { Resp { kind: if k == Kind::After { 2 } else { 1 }, off: 0 } }
fn kind_coq(k: Kind) -> &'static str { if k == Kind::After { "KAfter" } else { "KAt" } }

struct T { kind: Kind, id: u64, req: Option<Request<TimeRequest>>, used: bool }
struct World { core: Core<LApp>, ts: Vec<T>, seen_log: usize, ins: Vec<String>, obs: Vec<String> }

impl World {
    fn new() -> Self { World { core: Core::new(), ts: vec![], seen_log: 0, ins: vec![], obs: vec![] } }
    /// effects and new log entries of one core call, as Coq lists
    fn absorb(&mut self, effects: Vec<Effect>) -> (String, String) {
        let mut es = vec![];
        for Effect::Time(req) in effects {
            match &req.operation {
                TimeRequest::NotifyAfter { id, .. } => { es.push(format!("ENotifyAfter {}", id.0)); let j = self.ts.iter().position(|t| t.id == id.0 as u64).expect("unknown id"); self.ts[j].req = Some(req); }
                TimeRequest::NotifyAt { id, .. } => { es.push(format!("ENotifyAt {}", id.0)); let j = self.ts.iter().position(|t| t.id == id.0 as u64).expect("unknown id"); self.ts[j].req = Some(req); }
                TimeRequest::Clear { id } => es.push(format!("EClear {}", id.0)),
                TimeRequest::Now => es.push("ENotifyAt 0".into()),
            }
        }
        let (_, log) = self.core.view();
        let vs: Vec<String> = log[self.seen_log..].iter().map(|(j, s)| format!("({}%nat, {})", j, s)).collect();
        self.seen_log = log.len();
        (format!("[{}]", es.join("; ")), format!("[{}]", vs.join("; ")))
    }
    fn step(&mut self, x: In) {
        let n = self.ts.len();
        match x {
            In::Start(k) | In::StartClear(k) => {
                let sc = matches!(x, In::StartClear(_));
                self.ins.push(format!("{} {}", if sc { "LStartClear" } else { "LStart" }, kind_coq(k)));
                let effs = self.core.process_event(if sc { Ev::StartClear(k) } else { Ev::Start(k) });
                let (ids, _) = self.core.view();
                let id = *ids.last().unwrap();
                self.ts.push(T { kind: k, id, req: None, used: false });
                let (e, v) = self.absorb(effs);
                self.obs.push(format!("LStarted {} {} {}", id, e, v));
            }
            In::Clear(i) => {
                self.ins.push(format!("LClear {}%nat", i));
                if i >= n { self.obs.push("LBad".into()); return; }
                let effs = self.core.process_event(Ev::Clear(i));
                let (e, v) = self.absorb(effs);
                self.obs.push(format!("LCall 3 {} {}", e, v));
            }
            In::Fire(i, r) => {
                if i >= n { self.ins.push(format!("LFire {}%nat RNow", i)); self.obs.push("LBad".into()); return; }
                let id = self.ts[i].id;
                let resp = mk_resp(r, id);
                self.ins.push(format!("LFire {}%nat {}", i, resp_coq(&resp)));
                match self.ts[i].req.take() {
                    None => { let effs = self.core.process_event(Ev::Noop); let (e, v) = self.absorb(effs); self.obs.push(format!("LCall 2 {} {}", e, v)); }
                    Some(mut req) => {
                        if self.ts[i].used {
                            // Core::resolve debug_asserts on a second resolution (C02's finding)
                            let code = if req.resolve(resp).is_ok() { 0 } else { 1 };
                            self.ts[i].req = Some(req);
                            let effs = self.core.process_event(Ev::Noop); let (e, v) = self.absorb(effs);
                            self.obs.push(format!("LCall {} {} {}", code, e, v));
                        } else {
                            self.ts[i].used = true;
                            let effs = self.core.resolve(&mut req, resp).expect("first resolution of a one-shot request");
                            self.ts[i].req = Some(req);
                            let (e, v) = self.absorb(effs);
                            self.obs.push(format!("LCall 0 {} {}", e, v));
                        }
                    }
                }
            }
            In::DropReq(i) => {
                self.ins.push(format!("LDropReq {}%nat", i));
                if i >= n { self.obs.push("LBad".into()); return; }
                let o = if self.ts[i].req.take().is_some() { "LRes 3" } else { "LRes 2" }; self.obs.push(o.into());
            }
            In::Noop => {
                self.ins.push("LNoop".into());
                let effs = self.core.process_event(Ev::Noop); let (e, v) = self.absorb(effs);
                self.obs.push(format!("LCall 3 {} {}", e, v));
            }
        }
    }
    fn enabled(&self, wrong: bool, allow_start: bool) -> Vec<In> {
        let mut v = vec![In::Noop];
        if allow_start { v.push(In::Start(Kind::After)); v.push(In::StartClear(Kind::At)); }
        for (i, t) in self.ts.iter().enumerate() {
            v.push(In::Clear(i));
            if t.req.is_some() {
                v.push(In::Fire(i, right_start(t.kind))); v.push(In::DropReq(i));
                if wrong && !t.used { v.push(In::Fire(i, Resp { kind: 3, off: 0 })); v.push(In::Fire(i, Resp { kind: right_start(t.kind).kind, off: 1 })); v.push(In::Fire(i, Resp { kind: 0, off: 0 })); }
            }
        }
        v
    }
    fn emit(&self, class: &str) {
        println!("{{\"host\":\"legacy\",\"class\":\"{}\",\"n\":{},\"ins\":\"[{}]\",\"obs\":\"[{}]\"}}",
            class, self.ts.len(), self.ins.join("; "), self.obs.join("; "));
    }
}

fn replay(prefix: &[In]) -> World { let mut w = World::new(); for x in prefix { w.step(*x); } w }

fn exhaustive(starts: &[In], max: usize, wrong: bool, max_timers: usize, class: &str, count: &mut u64) {
    fn go(prefix: &mut Vec<In>, nstart: usize, max: usize, wrong: bool, max_timers: usize, class: &str, count: &mut u64) {
        let w = replay(prefix);
        if prefix.len() - nstart >= max { w.emit(class); *count += 1; return; }
        for x in w.enabled(wrong, w.ts.len() < max_timers) { prefix.push(x); go(prefix, nstart, max, wrong, max_timers, class, count); prefix.pop(); }
    }
    let mut p = starts.to_vec();
    go(&mut p, starts.len(), max, wrong, max_timers, class, count);
}

fn random_case(rng: &mut Rng, malformed: bool) {
    let mut w = World::new();
    let nt = rng.range(1, 4) as usize;
    let len = rng.range(4, 30) as usize;
    for _ in 0..len {
        let started = w.ts.len();
        if started == 0 { w.step(In::Start(if rng.coin(1, 2) { Kind::After } else { Kind::At })); continue; }
        let en = w.enabled(malformed, started < nt);
        let x = if !rng.coin(1, 6) { *rng.pick(&en) } else {
            let i = if malformed && rng.coin(1, 8) { started + rng.below(2) as usize } else { rng.below(started as u64) as usize };
            let k = if i < started { w.ts[i].kind } else { Kind::After };
            match rng.below(4) { 0 => In::Noop, 1 => In::Fire(i, right_start(k)), 2 => In::DropReq(i), _ => In::Clear(i) }
        };
        w.step(x);
    }
    w.emit(if malformed { "malformed" } else { "random" });
}


/// corpus syntax: Sa/St start; Xa/Xt start and clear in the same update; C<i> clear; F<i> fire (right
/// response), Fk<i> Cleared{id} as the answer, Fi<i> wrong id; R<i> drop request; N noop
fn parse_case(line: &str, kinds: &mut Vec<Kind>) -> Vec<In> {
    let mut v = vec![];
    for tok in line.split_whitespace() {
        let (head, idx): (String, String) = (tok.chars().take_while(|c| c.is_alphabetic()).collect(), tok.chars().skip_while(|c| c.is_alphabetic()).collect());
        let i: usize = idx.parse().unwrap_or(0);
        let k = kinds.get(i).copied().unwrap_or(Kind::After);
        v.push(match head.as_str() {
            "Sa" => { kinds.push(Kind::After); In::Start(Kind::After) }
            "St" => { kinds.push(Kind::At); In::Start(Kind::At) }
            "Xa" => { kinds.push(Kind::After); In::StartClear(Kind::After) }
            "Xt" => { kinds.push(Kind::At); In::StartClear(Kind::At) }
            "N" => In::Noop, "C" => In::Clear(i), "R" => In::DropReq(i),
            "F" => In::Fire(i, right_start(k)), "Fk" => In::Fire(i, Resp { kind: 3, off: 0 }), "Fi" => In::Fire(i, Resp { kind: right_start(k).kind, off: 1 }),
            other => panic!("corpus: unknown token {}", other),
        });
    }
    v
}
fn run_corpus(file: &str) {
    let dir = std::env::var("TIMER_CORPUS_DIR").unwrap_or_else(|_| "/verif/corpus/timer".into());
    if let Ok(text) = std::fs::read_to_string(format!("{}/{}", dir, file)) {
        for line in text.lines() {
            let line = line.split('#').next().unwrap().trim();
            if line.is_empty() { continue; }
            let mut kinds = vec![];
            let w = replay(&parse_case(line, &mut kinds));
            w.emit("corpus");
        }
    }
}

fn main() {
    let a: Vec<u64> = std::env::args().skip(1).map(|s| s.parse().expect("numeric args")).collect();
    let (seed, l1, l2, nrand, nmal) = (a[0], a[1] as usize, a[2] as usize, a[3], a[4]);
    run_corpus("legacy.txt");
    let mut count = 0u64;
    for k in [Kind::After, Kind::At] {
        exhaustive(&[In::Start(k)], l1, false, 1, "exh1", &mut count);
        exhaustive(&[In::Start(k)], l1.min(4), true, 1, "exh1wrong", &mut count);
        exhaustive(&[In::StartClear(k)], l1.min(4), false, 1, "exh1", &mut count);
    }
    exhaustive(&[In::Start(Kind::After)], l2, false, 2, "exh2", &mut count);
    let mut rng = Rng::new(seed);
    for _ in 0..nrand { random_case(&mut rng, false); }
    for _ in 0..nmal { random_case(&mut rng, true); }
    eprintln!("exhaustive cases: {}", count);
}
