//! Printing Rust values as Coq terms.
pub fn n(x: u128) -> String { format!("{}%N", x) }
pub fn z(x: i128) -> String { if x < 0 { format!("({})%Z", x) } else { format!("{}%Z", x) } }
pub fn nat(x: u64) -> String { format!("{}", x) }
pub fn b(x: bool) -> &'static str { if x { "true" } else { "false" } }
pub fn list<T: AsRef<str>>(xs: &[T]) -> String {
    let mut s = String::from("[");
    for (i, x) in xs.iter().enumerate() { if i > 0 { s.push_str("; "); } s.push_str(x.as_ref()); }
    s.push(']'); s
}
pub fn opt(x: Option<String>) -> String { match x { Some(s) => format!("(Some {})", s), None => "None".into() } }
pub fn bytes(xs: &[u8]) -> String { list(&xs.iter().map(|b| format!("{}%N", b)).collect::<Vec<_>>()) }
