//! Shared helpers for the verification harness binaries.
pub mod rng;
pub mod coqfmt;
