//! Shared helpers for the verification harness binaries.
pub mod rng;
pub mod coqfmt;

/// Durations and instants handed to the timer APIs by the C18 harnesses.  What a timer does (its id, its requests,
/// its outcome) must not depend on WHEN it is due, so the harnesses vary the value with the timer's index and
/// include the boundary values: zero, one nanosecond, the largest duration the protocol can carry, the epoch.
pub mod when {
    use std::time::{Duration, SystemTime};
    pub fn dur(i: usize) -> Duration {
        match i % 5 { 0 => Duration::from_secs(2), 1 => Duration::ZERO, 2 => Duration::from_nanos(1), 3 => Duration::from_nanos(u64::MAX), _ => Duration::from_millis(1) }
    }
    pub fn at(i: usize) -> SystemTime {
        match i % 4 { 0 => SystemTime::UNIX_EPOCH + Duration::from_secs(1_700_000_000), 1 => SystemTime::UNIX_EPOCH, 2 => SystemTime::UNIX_EPOCH + Duration::from_nanos(1), _ => SystemTime::UNIX_EPOCH + Duration::from_secs(4_000_000_000) }
    }
}
