//! Schedule controller for the C08 correspondence: real threads are parked at the named
//! `crux_core::verif` points and released one at a time in a prescribed order, so that a run is a
//! deterministic function of its schedule (= the sequence of thread ids that were released).
//!
//! * only threads registered through [`spawn`] are controlled or recorded; any other thread passes
//!   every point untouched;
//! * a point whose name is in the session's park set parks the thread, every other point (and
//!   every [`note`]) is only recorded in the global trace;
//! * harness code (the app's `update` / `view`, task futures, a host waker) can call [`point`] itself:
//!   gates that need no hook in the crux source. A thread parked at such a gate may hold a lock
//!   (the model lock inside `update` / `view`), so a released thread can legitimately *block*:
//!   a running thread whose OS state is "sleeping" for a number of consecutive samples
//!   (/proc/self/task/<tid>/stat) is reported as `Blocked` and the schedule goes on with the
//!   other threads; it continues by itself once the lock is released;
//! * a released thread that neither parks, finishes nor blocks within the (generous) step timeout
//!   makes the schedule infeasible (not a violation); the session switches to free running and the
//!   threads are joined; a join that does not complete is a deadlock (reported).
use std::cell::Cell;
use std::sync::{Arc, Condvar, Mutex, Once};
use std::time::{Duration, Instant};

#[derive(Clone, Debug)]
pub struct Ev {
    pub tid: usize,
    pub name: &'static str,
    pub val: u64,
}

#[derive(Clone, Copy, Debug, PartialEq)]
pub enum Status {
    Running,
    Parked,
    Finished,
}

#[derive(Clone, Copy, Debug, PartialEq)]
pub enum StepOutcome {
    Parked,
    Finished,
    Blocked,
}

struct Inner {
    os_tid: Vec<Option<u32>>,
    status: Vec<Status>,
    go: Vec<bool>,
    trace: Vec<Ev>,
    park: Vec<&'static str>,
    free: bool,
    panicked: Vec<bool>,
}

struct Ctl {
    m: Mutex<Inner>,
    cv: Condvar,
}

static CTL: Ctl = Ctl {
    m: Mutex::new(Inner { os_tid: Vec::new(), status: Vec::new(), go: Vec::new(), trace: Vec::new(), park: Vec::new(), free: true, panicked: Vec::new() }),
    cv: Condvar::new(),
};
static INSTALL: Once = Once::new();

thread_local! { static TID: Cell<Option<usize>> = const { Cell::new(None) }; }

pub const STEP_TIMEOUT: Duration = Duration::from_secs(30);
/// consecutive 1 ms samples in OS state "sleeping" after which a running thread counts as blocked
const BLOCKED_SAMPLES: u32 = 15;

fn lock() -> std::sync::MutexGuard<'static, Inner> {
    CTL.m.lock().unwrap_or_else(std::sync::PoisonError::into_inner)
}

fn hit(name: &'static str, val: u64) {
    let Some(tid) = TID.with(Cell::get) else { return };
    let mut g = lock();
    g.trace.push(Ev { tid, name, val });
    if g.free || !g.park.iter().any(|p| *p == name) {
        return;
    }
    g.status[tid] = Status::Parked;
    CTL.cv.notify_all();
    while !g.go[tid] && !g.free {
        g = CTL.cv.wait(g).unwrap_or_else(std::sync::PoisonError::into_inner);
    }
    g.go[tid] = false;
    g.status[tid] = Status::Running;
}

/// A schedule point in harness code (an app-level gate): parks if `name` is in the park set.
pub fn point(name: &'static str, val: u64) {
    hit(name, val);
}

/// Record an observation made by harness code running on a controlled thread (never parks).
pub fn note(name: &'static str, val: u64) {
    let Some(tid) = TID.with(Cell::get) else { return };
    lock().trace.push(Ev { tid, name, val });
}

/// Run `f` on the calling thread as pseudo-thread `tid`: every point and note is recorded, nothing
/// parks. Used for the sequential set-up calls of a scenario. Returns the recorded trace.
pub fn record_as<R>(tid: usize, f: impl FnOnce() -> R) -> (R, Vec<Ev>) {
    INSTALL.call_once(|| {
        crux_core::verif::set_controller(Some(Arc::new(hit)));
    });
    {
        let mut g = lock();
        g.trace.clear();
        g.free = true;
    }
    TID.with(|t| t.set(Some(tid)));
    let r = f();
    TID.with(|t| t.set(None));
    let tr = std::mem::take(&mut lock().trace);
    (r, tr)
}

/// Start a session with `n` controlled threads and the given set of parking points.
pub fn begin(n: usize, park: &[&'static str]) {
    INSTALL.call_once(|| {
        crux_core::verif::set_controller(Some(Arc::new(hit)));
    });
    let mut g = lock();
    g.status = vec![Status::Running; n];
    g.os_tid = vec![None; n];
    g.go = vec![false; n];
    g.panicked = vec![false; n];
    g.trace.clear();
    g.park = park.to_vec();
    g.park.push("start");
    g.free = false;
}

/// Spawn controlled thread `tid`; it parks at the synthetic point "start" before running `f`.
pub fn spawn<F: FnOnce() + Send + 'static>(tid: usize, f: F) -> std::thread::JoinHandle<()> {
    std::thread::spawn(move || {
        TID.with(|t| t.set(Some(tid)));
        let os = std::fs::read_link("/proc/thread-self").ok().and_then(|p| p.file_name().and_then(|f| f.to_str().and_then(|x| x.parse::<u32>().ok())));
        lock().os_tid[tid] = os;
        hit("start", 0);
        let r = std::panic::catch_unwind(std::panic::AssertUnwindSafe(f));
        let mut g = lock();
        if r.is_err() {
            g.panicked[tid] = true;
            g.trace.push(Ev { tid, name: "panic", val: 0 });
        }
        g.trace.push(Ev { tid, name: "finished", val: 0 });
        g.status[tid] = Status::Finished;
        CTL.cv.notify_all();
    })
}

fn os_sleeping(os: u32) -> bool {
    // state is the first field after the parenthesised command name
    std::fs::read_to_string(format!("/proc/self/task/{os}/stat"))
        .ok()
        .and_then(|t| t.rfind(')').map(|i| t[i + 1..].trim_start().starts_with('S')))
        .unwrap_or(false)
}

/// Wait until every controlled thread is parked, finished, or running-but-blocked (asleep in the
/// OS, i.e. waiting for a lock another controlled thread holds); false on timeout.
pub fn settle() -> bool {
    let deadline = Instant::now() + STEP_TIMEOUT;
    let n = lock().status.len();
    let mut sleepy = vec![0u32; n];
    loop {
        let running: Vec<(usize, Option<u32>)>;
        {
            let g = lock();
            let pending_go = g.go.iter().any(|x| *x);
            running = (0..n).filter(|i| g.status[*i] == Status::Running).map(|i| (i, g.os_tid[i])).collect();
            if !pending_go && running.is_empty() {
                return true;
            }
            let (g, _) = CTL.cv.wait_timeout(g, Duration::from_millis(1)).unwrap_or_else(std::sync::PoisonError::into_inner);
            let still_go = g.go.iter().any(|x| *x);
            drop(g);
            if pending_go || still_go {
                if Instant::now() >= deadline {
                    return false;
                }
                continue;
            }
        }
        let mut all_blocked = true;
        for i in 0..n {
            match running.iter().find(|(t, _)| *t == i) {
                Some((_, Some(os))) if os_sleeping(*os) => sleepy[i] += 1,
                _ => sleepy[i] = 0,
            }
        }
        {
            let g = lock();
            for (t, _) in &running {
                if g.status[*t] == Status::Running && sleepy[*t] < BLOCKED_SAMPLES {
                    all_blocked = false;
                }
            }
            if g.go.iter().any(|x| *x) {
                all_blocked = false;
            }
        }
        if all_blocked {
            return true;
        }
        if Instant::now() >= deadline {
            return false;
        }
    }
}

/// Threads that are running but blocked (only meaningful right after [`settle`] returned true).
pub fn blocked() -> Vec<usize> {
    let g = lock();
    (0..g.status.len()).filter(|i| g.status[*i] == Status::Running).collect()
}

pub fn enabled() -> Vec<usize> {
    let g = lock();
    (0..g.status.len()).filter(|i| g.status[*i] == Status::Parked).collect()
}

/// Points that mark one turn of a spin loop (the executor re-queues a task that another thread
/// holds and tries again).
pub const SPIN: &[&str] = &["qe.run_task.unavailable"];
pub const SPIN_BOUND: usize = 2;

/// Fairness bound: a thread that has gone round a spin loop `SPIN_BOUND` times since any other
/// thread last moved is not offered as a choice while some other thread can move (the spin itself
/// is a liveness matter: it ends as soon as the thread holding the task is scheduled).
pub fn enabled_fair() -> Vec<usize> {
    let en = enabled();
    if en.len() < 2 {
        return en;
    }
    let g = lock();
    let mut keep = Vec::new();
    for t in &en {
        let mut spins = 0;
        for e in g.trace.iter().rev() {
            if e.tid != *t {
                if e.name != "start" {
                    break;
                }
                continue;
            }
            if SPIN.contains(&e.name) {
                spins += 1;
            }
        }
        if spins < SPIN_BOUND {
            keep.push(*t);
        }
    }
    if keep.is_empty() { en } else { keep }
}

pub fn all_finished() -> bool {
    lock().status.iter().all(|s| *s == Status::Finished)
}

/// Release thread `tid` from its parking point and wait until the system is quiet again: `tid`
/// (and any thread that was blocked and could go on) has parked, finished or blocked.
/// `None` = nothing settled within the timeout (a thread is spinning).
pub fn step(tid: usize) -> Option<StepOutcome> {
    {
        let mut g = lock();
        assert!(g.status[tid] == Status::Parked, "step of a thread that is not parked");
        g.go[tid] = true;
        CTL.cv.notify_all();
    }
    if !settle() {
        return None;
    }
    let g = lock();
    Some(match g.status[tid] {
        Status::Parked => StepOutcome::Parked,
        Status::Finished => StepOutcome::Finished,
        Status::Running => StepOutcome::Blocked,
    })
}

/// Let every controlled thread run freely from now on (used to wind down an infeasible schedule).
pub fn free_run() {
    let mut g = lock();
    g.free = true;
    CTL.cv.notify_all();
}

/// End the session: returns the trace and which threads panicked.
pub fn end() -> (Vec<Ev>, Vec<bool>) {
    let mut g = lock();
    g.free = true;
    (std::mem::take(&mut g.trace), g.panicked.clone())
}

/// Join with a deadline; false if some thread is still alive (a real deadlock).
pub fn join_all(hs: Vec<std::thread::JoinHandle<()>>, limit: Duration) -> bool {
    let deadline = Instant::now() + limit;
    for h in hs {
        while !h.is_finished() {
            if Instant::now() >= deadline {
                return false;
            }
            std::thread::sleep(Duration::from_micros(200));
        }
        let _ = h.join();
    }
    true
}

/// How the next thread is chosen once the prescribed prefix of a schedule is used up.
pub enum Policy<'a> {
    /// the thread that moved last if it is still enabled, else the lowest enabled thread id (the
    /// deterministic continuation used by the depth-first enumeration)
    First,
    /// seeded random choice
    Random(&'a mut vh::rng::Rng),
    /// run thread `tid` until it is parked at one of the named points (or finishes), directive
    /// after directive; then continue with the lowest enabled thread
    Directed(&'a [(usize, Vec<&'static str>)]),
    /// no control at all: every thread is released at once (a stress run; the outcome predicates
    /// are still evaluated)
    Free,
}

/// Number of recorded events with this name.
pub fn count_events(name: &str) -> usize {
    lock().trace.iter().filter(|e| e.name == name).count()
}

/// Name of the last recorded event of thread `tid`.
pub fn last_event(tid: usize) -> Option<&'static str> {
    lock().trace.iter().rev().find(|e| e.tid == tid).map(|e| e.name)
}

pub struct RunOutcome {
    pub schedule: Vec<usize>,
    /// enabled set at each step of `schedule`
    pub choices: Vec<Vec<usize>>,
    pub feasible: bool,
    pub hung: bool,
    pub trace: Vec<Ev>,
    pub panicked: Vec<bool>,
}

/// Run `threads` under the schedule `prefix` (continued by `policy`) and return what happened.
pub fn run_schedule(
    threads: Vec<Box<dyn FnOnce() + Send + 'static>>,
    park: &[&'static str],
    prefix: &[usize],
    policy: Policy<'_>,
    max_steps: usize,
) -> RunOutcome {
    run_schedule_obs(threads, park, prefix, policy, max_steps, &mut || {})
}

/// As [`run_schedule`]; `observe` is called at every decision point, i.e. whenever every thread is
/// parked, finished or blocked (used to sample invariants of the intermediate states).
pub fn run_schedule_obs(
    threads: Vec<Box<dyn FnOnce() + Send + 'static>>,
    park: &[&'static str],
    prefix: &[usize],
    mut policy: Policy<'_>,
    max_steps: usize,
    observe: &mut dyn FnMut(),
) -> RunOutcome {
    let n = threads.len();
    begin(n, park);
    let handles: Vec<_> = threads.into_iter().enumerate().map(|(i, f)| spawn(i, f)).collect();
    let mut feasible = settle();
    let mut schedule = Vec::new();
    let mut choices = Vec::new();
    let mut dir_idx = 0usize;
    let mut dir_steps = 0usize;
    let free = matches!(policy, Policy::Free);
    while feasible && !free {
        observe();
        let en = enabled_fair();
        if en.is_empty() {
            break;
        }
        if schedule.len() >= max_steps {
            feasible = false;
            break;
        }
        let pick = if schedule.len() < prefix.len() {
            let p = prefix[schedule.len()];
            if !en.contains(&p) {
                feasible = false;
                break;
            }
            p
        } else {
            match &mut policy {
                // non-preemptive default: stay on the thread that moved last while it can move
                Policy::First => match schedule.last() {
                    Some(l) if en.contains(l) => *l,
                    _ => en[0],
                },
                Policy::Random(r) => en[r.below(en.len() as u64) as usize],
                Policy::Free => en[0],
                Policy::Directed(ds) => {
                    let mut pick = en[0];
                    while dir_idx < ds.len() {
                        let (t, targets) = &ds[dir_idx];
                        let reached = dir_steps > 0 && last_event(*t).map_or(false, |n| targets.iter().any(|x| *x == n));
                        if !en.contains(t) || reached {
                            dir_idx += 1;
                            dir_steps = 0;
                            continue;
                        }
                        pick = *t;
                        dir_steps += 1;
                        break;
                    }
                    pick
                }
            }
        };
        choices.push(en);
        schedule.push(pick);
        if step(pick).is_none() {
            feasible = false;
        }
    }
    if feasible && !free && !all_finished() {
        feasible = false;
    }
    free_run();
    let joined = join_all(handles, Duration::from_secs(30));
    let (trace, panicked) = end();
    RunOutcome { schedule, choices, feasible, hung: !joined, trace, panicked }
}

/// Number of preemptions in a schedule: switches away from a thread that could still move.
pub fn preemptions(schedule: &[usize], choices: &[Vec<usize>]) -> usize {
    (1..schedule.len()).filter(|i| schedule[*i] != schedule[*i - 1] && choices[*i].contains(&schedule[*i - 1])).count()
}

/// Depth-first enumeration of every schedule of a scenario with at most `max_preempt` preemptions
/// (each such interleaving exactly once; `usize::MAX` = all interleavings). `make` builds a fresh
/// instance; `done` receives each run together with that instance.
/// Returns (runs, exhausted within the bound?).
pub fn explore_all<S>(
    mut make: impl FnMut() -> (S, Vec<Box<dyn FnOnce() + Send + 'static>>),
    park: &[&'static str],
    max_runs: usize,
    max_steps: usize,
    max_preempt: usize,
    mut observe: impl FnMut(&S),
    mut done: impl FnMut(S, RunOutcome),
) -> (usize, bool) {
    let mut stack: Vec<Vec<usize>> = vec![Vec::new()];
    let mut runs = 0;
    while let Some(prefix) = stack.pop() {
        if runs >= max_runs {
            return (runs, false);
        }
        let (st, threads) = make();
        let out = run_schedule_obs(threads, park, &prefix, Policy::First, max_steps, &mut || observe(&st));
        runs += 1;
        // alternatives are pushed in reverse so that the enumeration order is lexicographic
        for i in (prefix.len()..out.schedule.len()).rev() {
            let base = preemptions(&out.schedule[..i], &out.choices[..i]);
            for alt in out.choices[i].iter().rev() {
                if *alt != out.schedule[i] {
                    let extra = usize::from(i > 0 && out.choices[i].contains(&out.schedule[i - 1]) && *alt != out.schedule[i - 1]);
                    if base + extra <= max_preempt {
                        let mut p = out.schedule[..i].to_vec();
                        p.push(*alt);
                        stack.push(p);
                    }
                }
            }
        }
        done(st, out);
    }
    (runs, true)
}
