//! Core-level scenarios for P1 (executor slot protocol) and P3 (event application): a real
//! `Core<App3>` shared by several threads calling process_event / resolve / view.
use super::ctl::{self, Ev as TEv, RunOutcome};
use crux_core::bridge::ResolveSerialized;
use crux_core::capability::Operation;
use crux_core::{Command, Core, Request};
use futures::StreamExt;
use serde::{Deserialize, Serialize};
use std::collections::BTreeMap;
use std::sync::{Arc, Mutex};

#[derive(Serialize, Deserialize, Clone, PartialEq, Eq, Debug)]
pub struct Op(pub u64);
impl Operation for Op {
    type Output = u64;
}
pub enum Eff {
    Op(Request<Op>),
}
impl From<Request<Op>> for Eff {
    fn from(r: Request<Op>) -> Self {
        Eff::Op(r)
    }
}
impl crux_core::Effect for Eff {
    type Ffi = ();
    fn serialize(self) -> (Self::Ffi, ResolveSerialized) {
        unimplemented!("the concurrency scenarios use the typed core")
    }
}

/// What one task of a command does: `many = false`: emit effect `task`, await its single response,
/// then send `n` events; `many = true`: emit effect `task`, send one event per stream item.
/// `req = false`: no shell request at all, send `n` events at once.
#[derive(Clone, Debug, PartialEq)]
pub struct TaskSpec {
    pub task: u64,
    pub n: u64,
    pub req: bool,
    pub many: bool,
    /// park at the app-level gate "app.task.gate" between the first and the second event
    pub gate: bool,
}

#[derive(Clone, Debug, PartialEq)]
pub enum Ev {
    /// event given to process_event: code `d`, update returns `Command::all` of these tasks
    /// `gate`: update parks at the app-level gate "app.update.gate" while it holds the model
    Go { d: u64, tasks: Vec<TaskSpec>, gate: bool },
    /// the `i`-th event sent by task `k`
    E(u64, u64),
}

pub fn enc(e: &Ev) -> u64 {
    match e {
        Ev::Go { d, .. } => *d,
        Ev::E(k, i) => 1000 + k * 100 + i,
    }
}

/// every event passed to update, pushed on entry (readable while a thread sits inside update)
static SHADOW: Mutex<Vec<u64>> = Mutex::new(Vec::new());

/// the app-level gates: none of them is a hook in the crux source
pub const PARK_G: &[&str] = &["app.update.gate", "app.view.gate", "app.task.gate"];
/// the resolving thread is held right after it notified the executor (inside TaskWaker::wake_by_ref)
pub const PARK_W: &[&str] = &["qe.wake"];

#[derive(Default)]
pub struct App3;
#[derive(Default)]
pub struct Model3 {
    pub log: Vec<u64>,
}

fn task_command(t: TaskSpec) -> Command<Eff, Ev> {
    Command::new(move |ctx| async move {
        let k = t.task;
        if !t.req {
            for i in 0..t.n {
                ctl::note("emit.event", 1000 + k * 100 + i);
                ctx.send_event(Ev::E(k, i));
            }
        } else if !t.many {
            ctl::note("emit.effect", k);
            let _v = ctx.request_from_shell(Op(k)).await;
            for i in 0..t.n {
                if t.gate && i == 1 {
                    ctl::point("app.task.gate", k);
                }
                ctl::note("emit.event", 1000 + k * 100 + i);
                ctx.send_event(Ev::E(k, i));
            }
        } else {
            ctl::note("emit.effect", k);
            let mut s = ctx.stream_from_shell(Op(k));
            let mut i = 0;
            while let Some(_v) = s.next().await {
                ctl::note("emit.event", 1000 + k * 100 + i);
                ctx.send_event(Ev::E(k, i));
                i += 1;
            }
        }
    })
}

impl crux_core::App for App3 {
    type Event = Ev;
    type Model = Model3;
    type ViewModel = Vec<u64>;
    type Capabilities = ();
    type Effect = Eff;

    fn update(&self, event: Ev, model: &mut Model3, _caps: &()) -> Command<Eff, Ev> {
        model.log.push(enc(&event));
        SHADOW.lock().unwrap().push(enc(&event));
        ctl::note("app.apply", enc(&event));
        match event {
            Ev::Go { tasks, gate, d } => {
                if gate {
                    // an app-level gate: the thread parks here holding the model write lock
                    ctl::point("app.update.gate", d);
                }
                if tasks.is_empty() {
                    Command::done()
                } else {
                    Command::all(tasks.into_iter().map(task_command))
                }
            }
            // an event of a task numbered 50 or above makes update ask the shell for something:
            // an effect that is sent from inside the event loop of Core::process
            Ev::E(k, i) if k >= 50 => task_command(TaskSpec { task: 5000 + k * 10 + i, n: 0, req: true, many: false, gate: false }),
            Ev::E(..) => Command::done(),
        }
    }

    fn view(&self, model: &Model3) -> Vec<u64> {
        ctl::note("app.view", model.log.len() as u64);
        // an app-level gate: the thread parks here holding the model read lock
        ctl::point("app.view.gate", model.log.len() as u64);
        model.log.clone()
    }
}

#[derive(Clone, Debug, PartialEq)]
pub enum Call {
    Event(Ev),
    Resolve { task: u64, v: u64 },
    DropReq { task: u64 },
    View,
}

#[derive(Clone, Debug)]
pub struct Scenario {
    pub name: String,
    /// calls made one after the other before the threads start
    pub setup: Vec<Call>,
    /// one list of calls per thread
    pub threads: Vec<Vec<Call>>,
}

type Reqs = Arc<Mutex<BTreeMap<u64, Request<Op>>>>;

pub struct Inst {
    pub sc: Scenario,
    core: Arc<Core<App3>>,
    reqs: Reqs,
    /// effect ids returned, by (thread or usize::MAX for set-up/probe)
    returned: Arc<Mutex<Vec<(usize, u64)>>>,
    /// resolves that returned Ok, per task
    resolved_ok: Arc<Mutex<BTreeMap<u64, u64>>>,
    views: Arc<Mutex<Vec<Vec<u64>>>>,
    pub setup_trace: Vec<TEv>,
    /// (events sent, events applied, events queued) at the decision points of a gated run
    pub samples: Mutex<Vec<(u64, u64, u64)>>,
}

/// Sample the conservation invariant of the event channel (C08_event_order, lengths): called when
/// every thread is parked, finished or blocked. Skipped while a thread is parked inside a task poll
/// (an event it has sent is then still on its way through the command to the core's channel).
pub fn observe(inst: &Inst) {
    let n = inst.sc.threads.len();
    if (0..n).any(|t| ctl::last_event(t) == Some("app.task.gate")) {
        return;
    }
    let sent = inst.setup_trace.iter().filter(|e| e.name == "emit.event").count() + ctl::count_events("emit.event");
    let applied = SHADOW.lock().unwrap().iter().filter(|v| **v >= 1000).count();
    let queued = inst.core.verif_queue_lens().2;
    inst.samples.lock().unwrap().push((sent as u64, applied as u64, queued as u64));
}

fn do_call(core: &Core<App3>, reqs: &Reqs, returned: &Mutex<Vec<(usize, u64)>>, resolved_ok: &Mutex<BTreeMap<u64, u64>>, views: &Mutex<Vec<Vec<u64>>>, who: usize, c: &Call) {
    let mut got: Option<Vec<Eff>> = None;
    match c {
        Call::Event(e) => {
            ctl::note("op.event", enc(e));
            got = Some(core.process_event(e.clone()));
        }
        Call::Resolve { task, v } => {
            let r = reqs.lock().unwrap().remove(task);
            if let Some(mut r) = r {
                ctl::note("op.resolve", *task);
                let res = core.resolve(&mut r, *v);
                match res {
                    Ok(effs) => {
                        *resolved_ok.lock().unwrap().entry(*task).or_insert(0) += 1;
                        got = Some(effs);
                    }
                    Err(_) => ctl::note("op.resolve.err", *task),
                }
                reqs.lock().unwrap().insert(*task, r);
            } else {
                ctl::note("op.skip", *task);
            }
        }
        Call::DropReq { task } => {
            let r = reqs.lock().unwrap().remove(task);
            ctl::note("op.drop", *task);
            drop(r);
        }
        Call::View => {
            ctl::note("op.view", 0);
            let v = core.view();
            views.lock().unwrap().push(v);
        }
    }
    if let Some(effs) = got {
        for e in effs {
            let Eff::Op(r) = e;
            let id = r.operation.0;
            ctl::note("ret.effect", id);
            returned.lock().unwrap().push((who, id));
            reqs.lock().unwrap().insert(id, r);
        }
        ctl::note("op.ret", 0);
    }
}

pub fn make(sc: &Scenario) -> (Inst, Vec<Box<dyn FnOnce() + Send + 'static>>) {
    let mut inst = Inst {
        sc: sc.clone(),
        core: Arc::new(Core::new()),
        reqs: Arc::new(Mutex::new(BTreeMap::new())),
        returned: Arc::new(Mutex::new(Vec::new())),
        resolved_ok: Arc::new(Mutex::new(BTreeMap::new())),
        views: Arc::new(Mutex::new(Vec::new())),
        setup_trace: Vec::new(),
        samples: Mutex::new(Vec::new()),
    };
    SHADOW.lock().unwrap().clear();
    let ((), tr) = ctl::record_as(99, || {
        for c in &sc.setup {
            do_call(&inst.core, &inst.reqs, &inst.returned, &inst.resolved_ok, &inst.views, usize::MAX, c);
        }
    });
    inst.setup_trace = tr;
    let mut threads: Vec<Box<dyn FnOnce() + Send + 'static>> = Vec::new();
    for (t, calls) in sc.threads.iter().enumerate() {
        let calls = calls.clone();
        let (core, reqs, returned, resolved_ok, views) = (inst.core.clone(), inst.reqs.clone(), inst.returned.clone(), inst.resolved_ok.clone(), inst.views.clone());
        threads.push(Box::new(move || {
            for c in &calls {
                do_call(&core, &reqs, &returned, &resolved_ok, &views, t, c);
            }
        }));
    }
    (inst, threads)
}

pub struct Obs {
    pub log: Vec<u64>,
    pub views: Vec<Vec<u64>>,
    pub lens: (usize, usize, usize, usize),
    pub returned: Vec<(usize, u64)>,
    pub expected_effects: Vec<u64>,
    /// (task, number of events it must have sent)
    pub sent: Vec<(u64, u64)>,
    pub directs: Vec<u64>,
    pub probe_effects: usize,
    pub probes_ok: bool,
    pub samples: Vec<(u64, u64, u64)>,
}

fn all_calls(sc: &Scenario) -> Vec<Call> {
    sc.setup.iter().cloned().chain(sc.threads.iter().flatten().cloned()).collect()
}

/// After the join: queue lengths first, then the final log, then probes.
pub fn finish(inst: &Inst) -> Obs {
    let lens = inst.core.verif_queue_lens();
    let log = inst.core.view();
    let views = inst.views.lock().unwrap().clone();
    let returned = inst.returned.lock().unwrap().clone();
    let calls = all_calls(&inst.sc);
    let mut specs: Vec<TaskSpec> = Vec::new();
    let mut directs = Vec::new();
    for c in &calls {
        if let Call::Event(Ev::Go { d, tasks, .. }) = c {
            directs.push(*d);
            specs.extend(tasks.iter().cloned());
        }
    }
    let resolved = inst.resolved_ok.lock().unwrap().clone();
    let mut sent = Vec::new();
    let mut expected_effects = Vec::new();
    for s in &specs {
        let r = resolved.get(&s.task).copied().unwrap_or(0);
        if s.req {
            expected_effects.push(s.task);
        }
        let n = if !s.req { s.n } else if !s.many { if r > 0 { s.n } else { 0 } } else { r };
        sent.push((s.task, n));
        if s.task >= 50 {
            for i in 0..n {
                expected_effects.push(5000 + s.task * 10 + i);
            }
        }
    }
    // probe: a no-op event must return nothing and must find nothing left to do; every live stream
    // must still accept a resolution and deliver it
    let before = inst.core.view().len();
    let probe = inst.core.process_event(Ev::Go { d: 999, tasks: vec![], gate: false });
    let mut probes_ok = inst.core.view().len() == before + 1;
    let dropped: Vec<u64> = calls.iter().filter_map(|c| if let Call::DropReq { task } = c { Some(*task) } else { None }).collect();
    for s in specs.iter().filter(|s| s.req && s.many && !dropped.contains(&s.task)) {
        let r = inst.reqs.lock().unwrap().remove(&s.task);
        match r {
            Some(mut r) => {
                let n0 = inst.core.view().len();
                let ok = inst.core.resolve(&mut r, 77).is_ok();
                let n1 = inst.core.view().len();
                if !(ok && n1 == n0 + 1) {
                    probes_ok = false;
                }
            }
            None => probes_ok = false,
        }
    }
    Obs { log, views, lens, returned, expected_effects, sent, directs, probe_effects: probe.len(), probes_ok, samples: inst.samples.lock().unwrap().clone() }
}

fn dec_ev(v: u64) -> String {
    if v >= 1000 {
        format!("Emitted {} {}", (v - 1000) / 100, (v - 1000) % 100)
    } else {
        format!("Direct {}", v)
    }
}

/// Labels of coq/Conc/Events.v for the controlled part of the run. The set-up calls are replayed
/// first as sequential calls of thread 99 (they are in `setup_trace`, recorded the same way).
pub fn p3_labels(trace: &[TEv]) -> Vec<String> {
    let mut out = Vec::new();
    let mut popped: BTreeMap<usize, bool> = BTreeMap::new();
    let mut expect_direct: BTreeMap<usize, bool> = BTreeMap::new();
    for e in trace {
        let t = e.tid;
        match e.name {
            "op.event" => {
                expect_direct.insert(t, true);
            }
            "op.resolve" => out.push(format!("Call {} None", t)),
            "app.apply" => {
                if expect_direct.get(&t).copied().unwrap_or(false) {
                    expect_direct.insert(t, false);
                    out.push(format!("Call {} (Some {})", t, e.val));
                } else if popped.get(&t).copied().unwrap_or(false) {
                    popped.insert(t, false);
                    out.push(format!("Apply {} ({})", t, dec_ev(e.val)));
                } else {
                    out.push(format!("PopApply {} ({})", t, dec_ev(e.val)));
                }
            }
            "emit.event" => out.push(format!("Emit {} {} {}", t, (e.val - 1000) / 100, (e.val - 1000) % 100)),
            "core.process.loop" => out.push(format!("RunEnd {}", t)),
            "core.process.received" => {
                popped.insert(t, true);
                out.push(format!("Pop {}", t));
            }
            "core.process.drain" => out.push(format!("Ret {}", t)),
            "app.view" => out.push(format!("View {}", t)),
            _ => {}
        }
    }
    out
}

pub const PARK_P3: &[&str] = &["core.process_event.applied", "core.process.loop", "core.process.received", "core.process.applied"];

/// quick tier: the points between which the slot protocol races (pop vs take, poll vs put back,
/// Unavailable vs re-queue, the decision to go round again or return)
pub const PARK_P1: &[&str] = &[
    "qe.ready.popped",
    "qe.run_task.taken",
    "qe.run_task.unavailable",
    "qe.run_task.pending",
    "qe.run_task.ready",
    "qe.ready.empty",
];

/// thorough tier: every point of run_all / run_task
pub const PARK_P1_FULL: &[&str] = &[
    "qe.run_all.enter",
    "qe.spawn.popped",
    "qe.spawn.inserted",
    "qe.spawn.empty",
    "qe.ready.popped",
    "qe.run_task.taken",
    "qe.run_task.unavailable",
    "qe.run_task.missing",
    "qe.run_task.pending",
    "qe.run_task.ready",
    "qe.run_task.putback",
    "qe.run_task.removed",
    "qe.requeued",
    "qe.ready.empty",
];

/// Labels of coq/Conc/Slots.v.
pub fn p1_labels(trace: &[TEv]) -> Vec<String> {
    let mut out = Vec::new();
    // is the thread inside a poll (between taken and pending/ready)?
    let mut polling: BTreeMap<usize, bool> = BTreeMap::new();
    let mut pending_spawn: BTreeMap<usize, bool> = BTreeMap::new();
    for e in trace {
        let t = e.tid;
        match e.name {
            // the command is spawned after this point, in the block that ends at qe.run_all.enter
            "core.process_event.applied" | "core.process.applied" => {
                pending_spawn.insert(t, true);
            }
            "qe.wake" => out.push(format!("Wake {} {}", t, e.val)),
            "emit.effect" => out.push(format!("PEmit {} {}", t, e.val)),
            "qe.run_all.enter" => {
                if pending_spawn.remove(&t).is_some() {
                    out.push(format!("XSpawn {}", t));
                }
                out.push(format!("QEnter {}", t));
            }
            "qe.spawn.popped" => out.push(format!("QSpawnPop {}", t)),
            "qe.spawn.inserted" => out.push(format!("QInsert {} {}", t, e.val)),
            "qe.spawn.empty" => out.push(format!("QSpawnEmpty {}", t)),
            "qe.ready.popped" => out.push(format!("QReadyPop {} {}", t, e.val)),
            "qe.run_task.taken" => {
                polling.insert(t, true);
                out.push(format!("QTaken {} {}", t, e.val));
            }
            "qe.run_task.missing" => out.push(format!("QMissing {} {}", t, e.val)),
            "qe.run_task.unavailable" => out.push(format!("QUnavail {} {}", t, e.val)),
            "qe.run_task.pending" | "qe.run_task.ready" => {
                polling.insert(t, false);
            }
            "qe.run_task.putback" => out.push(format!("QPutBack {} {}", t, e.val)),
            "qe.run_task.removed" => out.push(format!("QRemove {} {}", t, e.val)),
            "qe.requeued" => out.push(format!("QRequeue {} {}", t, e.val)),
            "qe.ready.empty" => out.push(format!("QReadyEmpty {} {}", t, e.val == 1)),
            "ret.effect" => out.push(format!("QDrainOne {} {}", t, e.val)),
            "core.process.drain" => {}
            "op.ret" => out.push(format!("QDrainEnd {}", t)),
            _ => {}
        }
    }
    out
}

pub fn case_json(proto: &str, sc: &Scenario, setup_trace: &[TEv], out: &RunOutcome, obs: &Obs, tag: &str) -> String {
    // the views taken during set-up come first in obs.views already (same vector)
    let mut full: Vec<TEv> = setup_trace.to_vec();
    full.extend(out.trace.iter().cloned());
    let p3 = p3_labels(&full);
    let p1 = p1_labels(&full);
    let views: Vec<String> = obs.views.iter().map(|v| format!("{:?}", v)).collect();
    let returned: Vec<String> = obs.returned.iter().map(|(t, e)| format!("[{},{}]", if *t == usize::MAX { 99 } else { *t }, e)).collect();
    let sent: Vec<String> = obs.sent.iter().map(|(k, n)| format!("[{},{}]", k, n)).collect();
    format!(
        "{{\"proto\":\"{}\",\"scen\":\"{}\",\"tag\":\"{}\",\"sched\":{:?},\"feasible\":{},\"hung\":{},\"panic\":{},\"p3labels\":\"[{}]\",\"p1labels\":\"[{}]\",\"log\":{:?},\"views\":[{}],\"lens\":[{},{},{},{}],\"returned\":[{}],\"expected_effects\":{:?},\"sent\":[{}],\"directs\":{:?},\"probe_effects\":{},\"probes_ok\":{},\"samples\":{:?},\"trace\":{}}}",
        proto,
        sc.name,
        tag,
        out.schedule,
        out.feasible,
        out.hung,
        out.panicked.iter().any(|p| *p),
        p3.join("; "),
        p1.join("; "),
        obs.log,
        views.join(","),
        obs.lens.0,
        obs.lens.1,
        obs.lens.2,
        obs.lens.3,
        returned.join(","),
        obs.expected_effects,
        sent.join(","),
        obs.directs,
        obs.probe_effects,
        obs.probes_ok,
        obs.samples.iter().map(|(a, b, c)| vec![*a, *b, *c]).collect::<Vec<_>>(),
        super::p2::fmt_trace(&out.trace)
    )
}
