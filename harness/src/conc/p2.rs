//! P2 scenarios: one real `Command` with one task that consumes several shell streams / requests
//! (binary `select`, so that every pending poll leaves one waker clone per open stream); the runner
//! thread settles the command while shell threads resolve or drop the requests.
use super::ctl::{self, Ev, RunOutcome};
use crux_core::capability::Operation;
use crux_core::{Command, Request};
use futures::stream::{self, BoxStream, StreamExt};
use futures::FutureExt;
use serde::{Deserialize, Serialize};
use std::sync::atomic::{AtomicBool, Ordering};
use std::sync::{Arc, Mutex};
use std::task::{Context, Poll, Wake, Waker};

#[derive(Serialize, Deserialize, Clone, PartialEq, Eq, Debug)]
pub struct Sub(pub u64);
impl Operation for Sub {
    type Output = u64;
}
pub enum Eff {
    Sub(Request<Sub>),
}
impl From<Request<Sub>> for Eff {
    fn from(r: Request<Sub>) -> Self {
        Eff::Sub(r)
    }
}
#[derive(Debug, Clone, PartialEq)]
pub enum Evt {
    Got(u64, u64),
    End,
}

#[derive(Clone, Copy, Debug, PartialEq)]
pub enum Kind {
    Many,
    Once,
}
#[derive(Clone, Copy, Debug, PartialEq)]
pub enum Act {
    Resolve(u64),
    Drop,
}

#[derive(Clone, Debug)]
pub struct Scenario {
    pub name: String,
    pub kinds: Vec<Kind>,
    /// resolutions done sequentially before the threads start: (stream, value)
    pub pre: Vec<(usize, u64)>,
    /// number of `cmd.events()` calls the runner thread makes
    pub settles: usize,
    /// one entry per shell thread: the actions it performs, in order: (stream, action)
    pub shells: Vec<Vec<(usize, Act)>>,
    /// the command is polled as a `Stream` by a host that only polls when its waker was notified;
    /// the host's waker is harness code and parks at the app-level gate "host.wake.gate" inside
    /// `wake()` (i.e. it holds the waking thread at the moment it notifies the host)
    pub hosted: bool,
}

/// parking points of a hosted scenario: the gate in the harness's own waker only
pub const PARK_HOSTED: &[&str] = &["host.wake.gate"];

#[derive(Default)]
pub struct HostWaker {
    notified: AtomicBool,
}
impl Wake for HostWaker {
    fn wake(self: Arc<Self>) {
        self.wake_by_ref();
    }
    fn wake_by_ref(self: &Arc<Self>) {
        self.notified.store(true, Ordering::SeqCst);
        ctl::point("host.wake.gate", 0);
    }
}

/// Poll the command as a stream until it is pending; true if the stream ended.
fn poll_hosted(cmd: &mut Command<Eff, Evt>, hw: &Arc<HostWaker>, events: &mut Vec<Evt>, effects: &mut Vec<Eff>) -> bool {
    let waker = Waker::from(hw.clone());
    let mut cx = Context::from_waker(&waker);
    loop {
        match cmd.poll_next_unpin(&mut cx) {
            Poll::Ready(Some(crux_core::command::CommandOutput::Event(e))) => events.push(e),
            Poll::Ready(Some(crux_core::command::CommandOutput::Effect(e))) => effects.push(e),
            Poll::Ready(None) => return true,
            Poll::Pending => return false,
        }
    }
}

/// One "settle" of the runner: direct API, or (hosted) a poll in reaction to a notification.
fn settle_cmd(cmd: &mut Command<Eff, Evt>, hosted: bool, hw: &Arc<HostWaker>, ended: &AtomicBool) -> Vec<Evt> {
    if !hosted {
        return cmd.events().collect();
    }
    let mut events = Vec::new();
    if !ended.load(Ordering::SeqCst) && hw.notified.swap(false, Ordering::SeqCst) {
        let mut effects = Vec::new();
        if poll_hosted(cmd, hw, &mut events, &mut effects) {
            ended.store(true, Ordering::SeqCst);
        }
    }
    events
}

pub const PARK: &[&str] = &[
    "cmd.run_task.polled",
    "cmd.run_task.dropped",
    "cmd.run_task.woken",
    "cmd.run_task.count",
    "cmd.wake.enter",
    "cmd.wake.sent",
    "cmd.wake.stored",
    "cmd.wake.parent_woken",
];

pub struct Inst {
    pub sc: Scenario,
    cmd: Arc<Mutex<Command<Eff, Evt>>>,
    reqs: Vec<Arc<Mutex<Option<Request<Sub>>>>>,
    /// values whose resolve returned Ok, per stream
    ok: Arc<Mutex<Vec<Vec<u64>>>>,
    dropped: Arc<Mutex<Vec<bool>>>,
    events: Arc<Mutex<Vec<Evt>>>,
    host: Arc<HostWaker>,
    ended: Arc<AtomicBool>,
}

fn build_command(kinds: &[Kind]) -> Command<Eff, Evt> {
    let kinds = kinds.to_vec();
    Command::new(move |ctx| async move {
        let mut all: BoxStream<'static, (u64, u64)> = stream::empty().boxed();
        for (i, k) in kinds.iter().enumerate() {
            let i = i as u64;
            let s: BoxStream<'static, (u64, u64)> = match k {
                Kind::Many => ctx.stream_from_shell(Sub(i)).map(move |v| (i, v)).boxed(),
                Kind::Once => ctx.request_from_shell(Sub(i)).into_stream().map(move |v| (i, v)).boxed(),
            };
            all = stream::select(all, s).boxed();
        }
        while let Some((i, v)) = all.next().await {
            ctx.send_event(Evt::Got(i, v));
        }
        ctx.send_event(Evt::End);
    })
}

pub fn make(sc: &Scenario) -> (Inst, Vec<Box<dyn FnOnce() + Send + 'static>>) {
    let mut cmd = build_command(&sc.kinds);
    let mut slots: Vec<Option<Request<Sub>>> = sc.kinds.iter().map(|_| None).collect();
    let host = Arc::new(HostWaker::default());
    let ended = Arc::new(AtomicBool::new(false));
    let first: Vec<Eff> = if sc.hosted {
        let (mut evs, mut effs) = (Vec::new(), Vec::new());
        poll_hosted(&mut cmd, &host, &mut evs, &mut effs);
        effs
    } else {
        cmd.effects().collect()
    };
    for e in first {
        let Eff::Sub(r) = e;
        let i = r.operation.0 as usize;
        slots[i] = Some(r);
    }
    let ok = Arc::new(Mutex::new(vec![Vec::new(); sc.kinds.len()]));
    for (i, v) in &sc.pre {
        if slots[*i].as_mut().unwrap().resolve(*v).is_ok() {
            ok.lock().unwrap()[*i].push(*v);
        }
    }
    let reqs: Vec<_> = slots.into_iter().map(|r| Arc::new(Mutex::new(r))).collect();
    let inst = Inst {
        sc: sc.clone(),
        cmd: Arc::new(Mutex::new(cmd)),
        reqs,
        ok,
        dropped: Arc::new(Mutex::new(vec![false; sc.kinds.len()])),
        events: Arc::new(Mutex::new(Vec::new())),
        host,
        ended,
    };
    let mut threads: Vec<Box<dyn FnOnce() + Send + 'static>> = Vec::new();
    {
        let cmd = inst.cmd.clone();
        let events = inst.events.clone();
        let n = sc.settles;
        let (hosted, host, ended) = (sc.hosted, inst.host.clone(), inst.ended.clone());
        threads.push(Box::new(move || {
            for _ in 0..n {
                let mut c = cmd.lock().unwrap();
                let evs: Vec<Evt> = settle_cmd(&mut c, hosted, &host, &ended);
                drop(c);
                ctl::note("p2.settled", evs.len() as u64);
                events.lock().unwrap().extend(evs);
            }
        }));
    }
    for acts in &sc.shells {
        let acts = acts.clone();
        let reqs = inst.reqs.clone();
        let ok = inst.ok.clone();
        let dropped = inst.dropped.clone();
        threads.push(Box::new(move || {
            for (i, a) in acts {
                match a {
                    Act::Resolve(v) => {
                        let mut g = reqs[i].lock().unwrap();
                        if let Some(r) = g.as_mut() {
                            let res = r.resolve(v);
                            ctl::note("p2.resolved", u64::from(res.is_ok()));
                            if res.is_ok() {
                                ok.lock().unwrap()[i].push(v);
                            }
                        }
                    }
                    Act::Drop => {
                        let r = reqs[i].lock().unwrap().take();
                        drop(r);
                        dropped.lock().unwrap()[i] = true;
                        ctl::note("p2.dropped", i as u64);
                    }
                }
            }
        }));
    }
    (inst, threads)
}

/// One generation of the task's waker, cut out of the trace and translated to model labels.
pub struct Slice {
    pub order: &'static str,
    pub labels: Vec<String>,
    pub dec: u64,   // 0 Suspended 1 Completed 2 Cancelled 3 none
    pub w: u64,     // loaded woken: 0/1, 2 = not observed
    pub c: u64,     // loaded count, 99 = not observed
    pub sent: u64,  // ids sent through this generation
}

/// Translate the trace into per-generation label sequences of coq/Conc/Waker.v.
/// `clones_at_poll[g]` = number of waker clones the g-th poll leaves behind (open streams).
pub fn slices(trace: &[Ev], clones_at_poll: &[usize]) -> Vec<Slice> {
    struct G {
        ptr: u64,
        sl: Slice,
        next_holder: usize,
        loads: usize,
        pending: bool,
        open: bool,
    }
    let mut gens: Vec<G> = Vec::new();
    // holder index of the wake call in progress on each thread, with its generation
    let mut cur: std::collections::HashMap<usize, (usize, usize, bool)> = std::collections::HashMap::new();
    // thread -> (gen, holder) whose by-value drop happens before that thread's next event
    let mut pending_drop: std::collections::HashMap<usize, (usize, usize)> = std::collections::HashMap::new();
    let find = |gens: &Vec<G>, ptr: u64| -> Option<usize> { gens.iter().rposition(|g| g.ptr == ptr) };
    for (idx, e) in trace.iter().enumerate() {
        if let Some((g, h)) = pending_drop.remove(&e.tid) {
            if e.name != "cmd.wake.before_drop" {
                gens[g].sl.labels.push(format!("HFinish {}", h));
            } else {
                pending_drop.insert(e.tid, (g, h));
            }
        }
        match e.name {
            "cmd.run_task.gen" => {
                let k = clones_at_poll.get(gens.len()).copied().unwrap_or(0);
                let mut sl = Slice { order: "WokenFirst", labels: Vec::new(), dec: 3, w: 2, c: 99, sent: 0 };
                for _ in 0..k {
                    sl.labels.push("RClone".into());
                }
                gens.push(G { ptr: e.val, sl, next_holder: 0, loads: 0, pending: false, open: true });
            }
            "cmd.run_task.polled" => {
                if let Some(g) = gens.last_mut().filter(|g| g.open) {
                    g.pending = e.val == 1;
                    g.sl.labels.push(format!("RPollEnd {}", e.val == 1));
                }
            }
            "cmd.run_task.dropped" => {
                if let Some(g) = gens.last_mut().filter(|g| g.open) {
                    g.sl.labels.push("RDropOwn".into());
                }
            }
            "cmd.run_task.woken" | "cmd.run_task.count" => {
                if let Some(g) = gens.last_mut().filter(|g| g.open) {
                    if e.name == "cmd.run_task.woken" {
                        g.sl.w = e.val;
                    } else {
                        g.sl.c = e.val;
                    }
                    if g.loads == 0 {
                        g.sl.order = if e.name == "cmd.run_task.count" { "CountFirst" } else { "WokenFirst" };
                        g.sl.labels.push("RLoad1".into());
                    } else {
                        g.sl.labels.push("RLoad2".into());
                    }
                    g.loads += 1;
                }
            }
            "cmd.run_task.cancelled" | "cmd.run_task.kept" => {
                if let Some(g) = gens.last_mut().filter(|g| g.open) {
                    if g.loads == 1 {
                        // the code as it was reads the count inside the `if`: unobserved second load
                        g.sl.labels.push("RLoad2".into());
                    }
                    g.sl.dec = if e.name == "cmd.run_task.cancelled" { 2 } else if g.pending { 0 } else { 1 };
                    g.open = false;
                }
            }
            "cmd.wake.enter" => {
                if let Some(g) = find(&gens, e.val) {
                    // by value iff this thread's wake call ends with "before_drop"
                    let byval = trace[idx + 1..]
                        .iter()
                        .filter(|x| x.tid == e.tid)
                        .find(|x| !matches!(x.name, "cmd.wake.sent" | "cmd.wake.stored" | "cmd.wake.parent_woken"))
                        .map(|x| x.name == "cmd.wake.before_drop")
                        .unwrap_or(false);
                    let h = gens[g].next_holder;
                    gens[g].next_holder += 1;
                    cur.insert(e.tid, (g, h, byval));
                }
            }
            "cmd.wake.sent" => {
                if let Some((g, h, byval)) = cur.get(&e.tid).copied() {
                    gens[g].sl.sent += 1;
                    gens[g].sl.labels.push(format!("HStart {} {}", h, byval));
                }
            }
            "cmd.wake.stored" => {
                if let Some((g, h, _)) = cur.get(&e.tid).copied() {
                    gens[g].sl.labels.push(format!("HStore {}", h));
                }
            }
            "cmd.wake.parent_woken" => {
                if let Some((g, h, byval)) = cur.get(&e.tid).copied() {
                    gens[g].sl.labels.push(format!("HParent {}", h));
                    if byval {
                        pending_drop.insert(e.tid, (g, h));
                    } else {
                        gens[g].sl.labels.push(format!("HFinish {}", h));
                    }
                    cur.remove(&e.tid);
                }
            }
            _ => {}
        }
    }
    gens.into_iter().map(|g| g.sl).collect()
}

pub struct StreamObs {
    pub ok: Vec<u64>,
    pub got: Vec<u64>,
    pub spent: bool, // dropped, or a one-shot that has been resolved
    pub probe: u64,  // 0 = probe rejected, 1 = probe accepted, 2 = not probed
}

pub struct Obs {
    pub streams: Vec<StreamObs>,
    pub ends: u64,
    /// 1 unless a one-shot request was dropped unresolved: its future then stays pending for ever
    /// with no waker, the task is (rightly) evicted and never reaches its end
    pub expect_ends: u64,
    pub done: bool,
}

/// After all threads have been joined: settle, probe every live subscription, settle again.
pub fn finish(inst: Inst) -> Obs {
    let mut cmd = inst.cmd.lock().unwrap();
    let mut events = inst.events.lock().unwrap().clone();
    let (hosted, host, ended) = (inst.sc.hosted, inst.host.clone(), inst.ended.clone());
    events.extend(settle_cmd(&mut cmd, hosted, &host, &ended));
    let n = inst.sc.kinds.len();
    let dropped = inst.dropped.lock().unwrap().clone();
    let mut probes = vec![2u64; n];
    for i in 0..n {
        let spent = dropped[i] || (inst.sc.kinds[i] == Kind::Once && !inst.ok.lock().unwrap()[i].is_empty());
        if spent {
            continue;
        }
        let v = 100 + i as u64;
        let mut g = inst.reqs[i].lock().unwrap();
        if let Some(r) = g.as_mut() {
            if r.resolve(v).is_ok() {
                probes[i] = 1;
                inst.ok.lock().unwrap()[i].push(v);
            } else {
                probes[i] = 0;
            }
        }
        events.extend(settle_cmd(&mut cmd, hosted, &host, &ended));
    }
    // drop everything that is left so that the task can end, and look at is_done
    for i in 0..n {
        let r = inst.reqs[i].lock().unwrap().take();
        drop(r);
    }
    events.extend(settle_cmd(&mut cmd, hosted, &host, &ended));
    // hosted: done = the stream has ended, or the host was told of nothing more and the command has
    // indeed nothing left (is_done settles the command: only looked at after the events were taken)
    let done = if hosted { ended.load(Ordering::SeqCst) || cmd.is_done() } else { cmd.is_done() };
    let ok = inst.ok.lock().unwrap().clone();
    let mut streams = Vec::new();
    for i in 0..n {
        let got: Vec<u64> = events.iter().filter_map(|e| match e { Evt::Got(s, v) if *s == i as u64 => Some(*v), _ => None }).collect();
        let spent = dropped[i] || (inst.sc.kinds[i] == Kind::Once && probes[i] == 2);
        streams.push(StreamObs { ok: ok[i].clone(), got, spent, probe: probes[i] });
    }
    let ends = events.iter().filter(|e| **e == Evt::End).count() as u64;
    let once_dropped = (0..n).any(|i| inst.sc.kinds[i] == Kind::Once && dropped[i] && ok[i].is_empty());
    Obs { streams, ends, expect_ends: u64::from(!once_dropped), done }
}

/// Number of waker clones each successive poll of the task leaves behind (= streams that are not
/// terminated when the poll ends), derived from the trace. An action takes effect on its channel in
/// the block that ends at the shell thread's first event of that action (the message is queued /
/// the channel closed before `CommandWaker::wake` is entered).
pub fn clones_per_poll(sc: &Scenario, trace: &[Ev]) -> Vec<usize> {
    let n = sc.kinds.len();
    let mut closed = vec![false; n];
    for (i, _) in &sc.pre {
        if sc.kinds[*i] == Kind::Once {
            closed[*i] = true;
        }
    }
    let mut out = Vec::new();
    let mut pos: Vec<usize> = vec![0; sc.shells.len()];
    let mut started: Vec<bool> = vec![false; sc.shells.len()];
    for e in trace {
        if e.tid == 0 {
            if e.name == "cmd.run_task.polled" {
                out.push(closed.iter().filter(|c| !**c).count());
            }
            continue;
        }
        let t = e.tid - 1;
        let is_note = matches!(e.name, "p2.resolved" | "p2.dropped");
        if (e.name == "cmd.wake.enter" || is_note) && pos[t] < sc.shells[t].len() && !started[t] {
            started[t] = true;
            let (i, a) = sc.shells[t][pos[t]];
            match a {
                Act::Drop => closed[i] = true,
                Act::Resolve(_) => {
                    if sc.kinds[i] == Kind::Once {
                        closed[i] = true;
                    }
                }
            }
        }
        if is_note {
            pos[t] += 1;
            started[t] = false;
        }
    }
    out
}

pub fn fmt_trace(trace: &[Ev]) -> String {
    let items: Vec<String> = trace.iter().map(|e| format!("[{},\"{}\",{}]", e.tid, e.name, e.val)).collect();
    format!("[{}]", items.join(","))
}

pub fn case_json(sc: &Scenario, out: &RunOutcome, obs: &Obs, tag: &str) -> String {
    let cl = clones_per_poll(sc, &out.trace);
    let sl = slices(&out.trace, &cl);
    let slices_json: Vec<String> = sl
        .iter()
        .map(|s| {
            format!(
                "{{\"order\":\"{}\",\"labels\":\"[{}]\",\"dec\":{},\"w\":{},\"c\":{},\"sent\":{}}}",
                s.order,
                s.labels.join("; "),
                s.dec,
                s.w,
                s.c,
                s.sent
            )
        })
        .collect();
    let streams_json: Vec<String> = obs
        .streams
        .iter()
        .map(|s| format!("{{\"ok\":{:?},\"got\":{:?},\"spent\":{},\"probe\":{}}}", s.ok, s.got, s.spent, s.probe))
        .collect();
    format!(
        "{{\"proto\":\"{}\",\"scen\":\"{}\",\"tag\":\"{}\",\"sched\":{:?},\"feasible\":{},\"hung\":{},\"panic\":{},\"slices\":[{}],\"streams\":[{}],\"ends\":{},\"expect_ends\":{},\"done\":{},\"trace\":{}}}",
        if sc.hosted { "P2H" } else { "P2" },
        sc.name,
        tag,
        out.schedule,
        out.feasible,
        out.hung,
        out.panicked.iter().any(|p| *p),
        slices_json.join(","),
        streams_json.join(","),
        obs.ends,
        obs.expect_ends,
        obs.done,
        fmt_trace(&out.trace)
    )
}
