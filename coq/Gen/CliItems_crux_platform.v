(* GENERATED on every run by engines/cli_eng.py from crux_cli::codegen::verif::verif_run(crux_platform): do not edit. *)
From Coq Require Import List String NArith.
From Crux Require Import Cli.Format Cli.Pipeline.
Import ListNotations.
Open Scope string_scope.

Definition i0 : item := mkItem ("crux_platform", 0%N) (Some "effect") (Some "effect") KField false None (Some (FTypeName "PhantomData")) None.
Definition i1 : item := mkItem ("crux_platform", 3%N) (Some "event") (Some "event") KField false None (Some (FTypeName "PhantomData")) None.
Definition i2 : item := mkItem ("crux_platform", 4%N) (Some "Platform") (Some "Platform") (KStructPlain [0%N; 3%N]) false None None None.
Definition i3 : item := mkItem ("crux_platform", 8%N) (Some "PlatformResponse") (Some "PlatformResponse") (KStructTuple [110%N]) false None None None.
Definition i4 : item := mkItem ("crux_platform", 12%N) (Some "PlatformRequest") (Some "PlatformRequest") KStructUnit false None None None.
Definition i5 : item := mkItem ("crux_platform", 107%N) (Some "Output") (Some "Output") KOther false None None None.
Definition i6 : item := mkItem ("crux_platform", 110%N) (Some "0") (Some "0") KField false (Some "0") (Some (FPrim PStr)) None.
Definition i7 : item := mkItem ("crux_platform", 137%N) (Some "context") (Some "context") KField false None (Some (FTypeName "CapabilityContext")) None.
Definition i8 : item := mkItem ("crux_platform", 139%N) (Some "Platform") (Some "Platform") (KStructPlain [137%N]) false None None None.
Definition i9 : item := mkItem ("crux_platform", 157%N) (Some "Operation") (Some "Operation") KOther false None None None.
Definition i10 : item := mkItem ("crux_platform", 158%N) (Some "MappedSelf") (Some "MappedSelf") KOther false None None None.
Definition items : list item := [i0; i1; i2; i3; i4; i5; i6; i7; i8; i9; i10].
Definition edge_list : edges := [(i3, i6); (i4, i4)].
Definition edge_flags : list (bool * bool) := [(true, false); (false, false)].
Definition f_root : list item := [i3; i4].
Definition f_field : edges := [(i2, i0); (i2, i1); (i3, i6); (i8, i7)].
Definition f_variant : edges := [].
Definition f_type : edges := [(i5, i3); (i7, i4); (i9, i4); (i10, i8)].
Definition the_dump : dump := mkDump items f_root f_field f_variant f_type.
Definition crates : list string := ["crux_platform"].
Definition real_containers : list (string * container) := [("PlatformRequest", CUnitStruct); ("PlatformResponse", (CNewTypeStruct (FPrim PStr))); ("Request", (CStruct [("id", (FPrim PU32)); ("effect", (FTypeName "Effect"))]))].
Definition real_registry : registry := [("PlatformRequest", CUnitStruct); ("PlatformResponse", (CNewTypeStruct (FPrim PStr))); ("Request", (CStruct [("id", (FPrim PU32)); ("effect", (FTypeName "Effect"))]))].
