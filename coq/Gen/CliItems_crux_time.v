(* GENERATED on every run by engines/cli_eng.py from crux_cli::codegen::verif::verif_run(crux_time): do not edit. *)
From Coq Require Import List String NArith.
From Crux Require Import Cli.Format Cli.Pipeline.
Import ListNotations.
Open Scope string_scope.

Definition i0 : item := mkItem ("crux_time", 0%N) (Some "0") (Some "0") KField false None (Some (FTypeName "CompletedTimerHandle")) None.
Definition i1 : item := mkItem ("crux_time", 1%N) (Some "CompletedTimerHandle") (Some "CompletedTimerHandle") (KStructPlain [126%N]) false None None None.
Definition i2 : item := mkItem ("crux_time", 2%N) (Some "Completed") (Some "Completed") (KVariantTuple [0%N]) false None None None.
Definition i3 : item := mkItem ("crux_time", 3%N) (Some "Cleared") (Some "Cleared") KVariantPlain false None None None.
Definition i4 : item := mkItem ("crux_time", 4%N) (Some "TimerOutcome") (Some "TimerOutcome") (KEnum [2%N; 3%N]) false None None None.
Definition i5 : item := mkItem ("crux_time", 67%N) (Some "effect") (Some "effect") KField false None (Some (FTypeName "PhantomData")) None.
Definition i6 : item := mkItem ("crux_time", 70%N) (Some "event") (Some "event") KField false None (Some (FTypeName "PhantomData")) None.
Definition i7 : item := mkItem ("crux_time", 71%N) (Some "Time") (Some "Time") (KStructPlain [67%N; 70%N]) false None None None.
Definition i8 : item := mkItem ("crux_time", 77%N) (Some "TimerHandle") (Some "TimerHandle") (KStructPlain [96%N; 98%N]) false None None None.
Definition i9 : item := mkItem ("crux_time", 82%N) (Some "TimeRequest") (Some "TimeRequest") (KEnum [246%N; 249%N; 252%N; 254%N]) false None None None.
Definition i10 : item := mkItem ("crux_time", 96%N) (Some "timer_id") (Some "timer_id") KField false None (Some (FTypeName "TimerId")) None.
Definition i11 : item := mkItem ("crux_time", 97%N) (Some "TimerId") (Some "TimerId") (KStructTuple [288%N]) false None None None.
Definition i12 : item := mkItem ("crux_time", 98%N) (Some "abort") (Some "abort") KField false None (Some (FTypeName "Sender")) None.
Definition i13 : item := mkItem ("crux_time", 126%N) (Some "timer_id") (Some "timer_id") KField false None (Some (FTypeName "TimerId")) None.
Definition i14 : item := mkItem ("crux_time", 153%N) (Some "nanos") (Some "nanos") KField false (Some "nanos") (Some (FPrim PU64)) None.
Definition i15 : item := mkItem ("crux_time", 154%N) (Some "Duration") (Some "Duration") (KStructPlain [153%N]) false None None None.
Definition i16 : item := mkItem ("crux_time", 207%N) (Some "seconds") (Some "seconds") KField false (Some "seconds") (Some (FPrim PU64)) None.
Definition i17 : item := mkItem ("crux_time", 208%N) (Some "nanos") (Some "nanos") KField false (Some "nanos") (Some (FPrim PU32)) None.
Definition i18 : item := mkItem ("crux_time", 209%N) (Some "Instant") (Some "Instant") (KStructPlain [207%N; 208%N]) false None None None.
Definition i19 : item := mkItem ("crux_time", 246%N) (Some "Now") (Some "Now") KVariantPlain false (Some "now") None None.
Definition i20 : item := mkItem ("crux_time", 247%N) (Some "id") (Some "id") KField false (Some "id") (Some (FTypeName "TimerId")) None.
Definition i21 : item := mkItem ("crux_time", 248%N) (Some "instant") (Some "instant") KField false (Some "instant") (Some (FTypeName "Instant")) None.
Definition i22 : item := mkItem ("crux_time", 249%N) (Some "NotifyAt") (Some "NotifyAt") (KVariantStruct [247%N; 248%N]) false (Some "notifyAt") None None.
Definition i23 : item := mkItem ("crux_time", 250%N) (Some "id") (Some "id") KField false (Some "id") (Some (FTypeName "TimerId")) None.
Definition i24 : item := mkItem ("crux_time", 251%N) (Some "duration") (Some "duration") KField false (Some "duration") (Some (FTypeName "Duration")) None.
Definition i25 : item := mkItem ("crux_time", 252%N) (Some "NotifyAfter") (Some "NotifyAfter") (KVariantStruct [250%N; 251%N]) false (Some "notifyAfter") None None.
Definition i26 : item := mkItem ("crux_time", 253%N) (Some "id") (Some "id") KField false (Some "id") (Some (FTypeName "TimerId")) None.
Definition i27 : item := mkItem ("crux_time", 254%N) (Some "Clear") (Some "Clear") (KVariantStruct [253%N]) false (Some "clear") None None.
Definition i28 : item := mkItem ("crux_time", 284%N) (Some "Output") (Some "Output") KOther false None None None.
Definition i29 : item := mkItem ("crux_time", 285%N) (Some "TimeResponse") (Some "TimeResponse") (KEnum [324%N; 326%N; 328%N; 330%N]) false None None None.
Definition i30 : item := mkItem ("crux_time", 288%N) (Some "0") (Some "0") KField false (Some "0") (Some (FPrim PU64)) None.
Definition i31 : item := mkItem ("crux_time", 323%N) (Some "instant") (Some "instant") KField false (Some "instant") (Some (FTypeName "Instant")) None.
Definition i32 : item := mkItem ("crux_time", 324%N) (Some "Now") (Some "Now") (KVariantStruct [323%N]) false (Some "now") None None.
Definition i33 : item := mkItem ("crux_time", 325%N) (Some "id") (Some "id") KField false (Some "id") (Some (FTypeName "TimerId")) None.
Definition i34 : item := mkItem ("crux_time", 326%N) (Some "InstantArrived") (Some "InstantArrived") (KVariantStruct [325%N]) false (Some "instantArrived") None None.
Definition i35 : item := mkItem ("crux_time", 327%N) (Some "id") (Some "id") KField false (Some "id") (Some (FTypeName "TimerId")) None.
Definition i36 : item := mkItem ("crux_time", 328%N) (Some "DurationElapsed") (Some "DurationElapsed") (KVariantStruct [327%N]) false (Some "durationElapsed") None None.
Definition i37 : item := mkItem ("crux_time", 329%N) (Some "id") (Some "id") KField false (Some "id") (Some (FTypeName "TimerId")) None.
Definition i38 : item := mkItem ("crux_time", 330%N) (Some "Cleared") (Some "Cleared") (KVariantStruct [329%N]) false (Some "cleared") None None.
Definition i39 : item := mkItem ("crux_time", 368%N) (Some "context") (Some "context") KField false None (Some (FTypeName "CapabilityContext")) None.
Definition i40 : item := mkItem ("crux_time", 370%N) (Some "Time") (Some "Time") (KStructPlain [368%N]) false None None None.
Definition i41 : item := mkItem ("crux_time", 378%N) (Some "TimerFuture") (Some "TimerFuture") (KStructPlain [406%N; 407%N; 408%N]) false None None None.
Definition i42 : item := mkItem ("crux_time", 398%N) (Some "Operation") (Some "Operation") KOther false None None None.
Definition i43 : item := mkItem ("crux_time", 399%N) (Some "MappedSelf") (Some "MappedSelf") KOther false None None None.
Definition i44 : item := mkItem ("crux_time", 406%N) (Some "timer_id") (Some "timer_id") KField false None (Some (FTypeName "TimerId")) None.
Definition i45 : item := mkItem ("crux_time", 407%N) (Some "is_cleared") (Some "is_cleared") KField false None (Some (FPrim PBool)) None.
Definition i46 : item := mkItem ("crux_time", 408%N) (Some "future") (Some "future") KField false None (Some FTodo) None.
Definition i47 : item := mkItem ("crux_time", 431%N) (Some "Output") (Some "Output") KOther false None None None.
Definition items : list item := [i0; i1; i2; i3; i4; i5; i6; i7; i8; i9; i10; i11; i12; i13; i14; i15; i16; i17; i18; i19; i20; i21; i22; i23; i24; i25; i26; i27; i28; i29; i30; i31; i32; i33; i34; i35; i36; i37; i38; i39; i40; i41; i42; i43; i44; i45; i46; i47].
Definition edge_list : edges := [(i9, i19); (i9, i22); (i9, i25); (i9, i27); (i11, i30); (i15, i14); (i18, i16); (i18, i17); (i20, i11); (i21, i18); (i22, i20); (i22, i21); (i23, i11); (i24, i15); (i25, i23); (i25, i24); (i26, i11); (i27, i26); (i29, i32); (i29, i34); (i29, i36); (i29, i38); (i31, i18); (i32, i31); (i33, i11); (i34, i33); (i35, i11); (i36, i35); (i37, i11); (i38, i37)].
Definition edge_flags : list (bool * bool) := [(false, true); (false, true); (false, true); (false, true); (true, false); (true, false); (true, false); (true, false); (false, false); (false, false); (true, false); (true, false); (false, false); (false, false); (true, false); (true, false); (false, false); (true, false); (false, true); (false, true); (false, true); (false, true); (false, false); (true, false); (false, false); (true, false); (false, false); (true, false); (false, false); (true, false)].
Definition f_root : list item := [i9; i29].
Definition f_field : edges := [(i1, i13); (i2, i0); (i7, i5); (i7, i6); (i8, i10); (i8, i12); (i11, i30); (i15, i14); (i18, i16); (i18, i17); (i22, i20); (i22, i21); (i25, i23); (i25, i24); (i27, i26); (i32, i31); (i34, i33); (i36, i35); (i38, i37); (i40, i39); (i41, i44); (i41, i45); (i41, i46)].
Definition f_variant : edges := [(i4, i2); (i4, i3); (i9, i19); (i9, i22); (i9, i25); (i9, i27); (i29, i32); (i29, i34); (i29, i36); (i29, i38)].
Definition f_type : edges := [(i0, i1); (i10, i11); (i12, i11); (i13, i11); (i20, i11); (i21, i18); (i23, i11); (i24, i15); (i26, i11); (i28, i29); (i31, i18); (i33, i11); (i35, i11); (i37, i11); (i39, i9); (i42, i9); (i43, i40); (i44, i11); (i47, i29)].
Definition the_dump : dump := mkDump items f_root f_field f_variant f_type.
Definition crates : list string := ["crux_time"].
Definition real_containers : list (string * container) := [("Duration", (CStruct [("nanos", (FPrim PU64))])); ("Instant", (CStruct [("seconds", (FPrim PU64)); ("nanos", (FPrim PU32))])); ("Request", (CStruct [("id", (FPrim PU32)); ("effect", (FTypeName "Effect"))])); ("TimeRequest", (CEnum [(0%N, ("now", VUnit)); (1%N, ("notifyAt", (VStruct [("id", (FTypeName "TimerId")); ("instant", (FTypeName "Instant"))]))); (2%N, ("notifyAfter", (VStruct [("id", (FTypeName "TimerId")); ("duration", (FTypeName "Duration"))]))); (3%N, ("clear", (VStruct [("id", (FTypeName "TimerId"))])))])); ("TimeResponse", (CEnum [(0%N, ("now", (VStruct [("instant", (FTypeName "Instant"))]))); (1%N, ("instantArrived", (VStruct [("id", (FTypeName "TimerId"))]))); (2%N, ("durationElapsed", (VStruct [("id", (FTypeName "TimerId"))]))); (3%N, ("cleared", (VStruct [("id", (FTypeName "TimerId"))])))])); ("TimerId", (CNewTypeStruct (FPrim PU64)))].
Definition real_registry : registry := [("Duration", (CStruct [("nanos", (FPrim PU64))])); ("Instant", (CStruct [("seconds", (FPrim PU64)); ("nanos", (FPrim PU32))])); ("Request", (CStruct [("id", (FPrim PU32)); ("effect", (FTypeName "Effect"))])); ("TimeRequest", (CEnum [(0%N, ("now", VUnit)); (1%N, ("notifyAt", (VStruct [("id", (FTypeName "TimerId")); ("instant", (FTypeName "Instant"))]))); (2%N, ("notifyAfter", (VStruct [("id", (FTypeName "TimerId")); ("duration", (FTypeName "Duration"))]))); (3%N, ("clear", (VStruct [("id", (FTypeName "TimerId"))])))])); ("TimeResponse", (CEnum [(0%N, ("now", (VStruct [("instant", (FTypeName "Instant"))]))); (1%N, ("instantArrived", (VStruct [("id", (FTypeName "TimerId"))]))); (2%N, ("durationElapsed", (VStruct [("id", (FTypeName "TimerId"))]))); (3%N, ("cleared", (VStruct [("id", (FTypeName "TimerId"))])))])); ("TimerId", (CNewTypeStruct (FPrim PU64)))].
