(* GENERATED on every run by engines/cli_eng.py from crux_cli::codegen::verif::verif_run(crux_kv): do not edit. *)
From Coq Require Import List String NArith.
From Crux Require Import Cli.Format Cli.Pipeline.
Import ListNotations.
Open Scope string_scope.

Definition i0 : item := mkItem ("crux_kv", 0%N) (Some "effect") (Some "effect") KField false None (Some (FTypeName "PhantomData")) None.
Definition i1 : item := mkItem ("crux_kv", 3%N) (Some "event") (Some "event") KField false None (Some (FTypeName "PhantomData")) None.
Definition i2 : item := mkItem ("crux_kv", 4%N) (Some "KeyValue") (Some "KeyValue") (KStructPlain [0%N; 3%N]) false None None None.
Definition i3 : item := mkItem ("crux_kv", 13%N) (Some "KeyValueError") (Some "KeyValueError") (KEnum [62%N; 63%N; 64%N; 66%N]) false None None None.
Definition i4 : item := mkItem ("crux_kv", 22%N) (Some "KeyValueOperation") (Some "KeyValueOperation") (KEnum [170%N; 173%N; 175%N; 177%N; 180%N]) false None None None.
Definition i5 : item := mkItem ("crux_kv", 61%N) (Some "message") (Some "message") KField false (Some "message") (Some (FPrim PStr)) None.
Definition i6 : item := mkItem ("crux_kv", 62%N) (Some "Io") (Some "Io") (KVariantStruct [61%N]) false (Some "io") None None.
Definition i7 : item := mkItem ("crux_kv", 63%N) (Some "Timeout") (Some "Timeout") KVariantPlain false (Some "timeout") None None.
Definition i8 : item := mkItem ("crux_kv", 64%N) (Some "CursorNotFound") (Some "CursorNotFound") KVariantPlain false (Some "cursorNotFound") None None.
Definition i9 : item := mkItem ("crux_kv", 65%N) (Some "message") (Some "message") KField false (Some "message") (Some (FPrim PStr)) None.
Definition i10 : item := mkItem ("crux_kv", 66%N) (Some "Other") (Some "Other") (KVariantStruct [65%N]) false (Some "other") None None.
Definition i11 : item := mkItem ("crux_kv", 129%N) (Some "None") (Some "None") KVariantPlain false (Some "None") None None.
Definition i12 : item := mkItem ("crux_kv", 130%N) (Some "0") (Some "0") KField false (Some "0") (Some (FPrim PBytes)) None.
Definition i13 : item := mkItem ("crux_kv", 131%N) (Some "Bytes") (Some "Bytes") (KVariantTuple [130%N]) false (Some "Bytes") None None.
Definition i14 : item := mkItem ("crux_kv", 132%N) (Some "Value") (Some "Value") (KEnum [129%N; 131%N]) false None None None.
Definition i15 : item := mkItem ("crux_kv", 169%N) (Some "key") (Some "key") KField false (Some "key") (Some (FPrim PStr)) None.
Definition i16 : item := mkItem ("crux_kv", 170%N) (Some "Get") (Some "Get") (KVariantStruct [169%N]) false (Some "Get") None None.
Definition i17 : item := mkItem ("crux_kv", 171%N) (Some "key") (Some "key") KField false (Some "key") (Some (FPrim PStr)) None.
Definition i18 : item := mkItem ("crux_kv", 172%N) (Some "value") (Some "value") KField false (Some "value") (Some (FPrim PBytes)) None.
Definition i19 : item := mkItem ("crux_kv", 173%N) (Some "Set") (Some "Set") (KVariantStruct [171%N; 172%N]) false (Some "Set") None None.
Definition i20 : item := mkItem ("crux_kv", 174%N) (Some "key") (Some "key") KField false (Some "key") (Some (FPrim PStr)) None.
Definition i21 : item := mkItem ("crux_kv", 175%N) (Some "Delete") (Some "Delete") (KVariantStruct [174%N]) false (Some "Delete") None None.
Definition i22 : item := mkItem ("crux_kv", 176%N) (Some "key") (Some "key") KField false (Some "key") (Some (FPrim PStr)) None.
Definition i23 : item := mkItem ("crux_kv", 177%N) (Some "Exists") (Some "Exists") (KVariantStruct [176%N]) false (Some "Exists") None None.
Definition i24 : item := mkItem ("crux_kv", 178%N) (Some "prefix") (Some "prefix") KField false (Some "prefix") (Some (FPrim PStr)) None.
Definition i25 : item := mkItem ("crux_kv", 179%N) (Some "cursor") (Some "cursor") KField false (Some "cursor") (Some (FPrim PU64)) None.
Definition i26 : item := mkItem ("crux_kv", 180%N) (Some "ListKeys") (Some "ListKeys") (KVariantStruct [178%N; 179%N]) false (Some "ListKeys") None None.
Definition i27 : item := mkItem ("crux_kv", 210%N) (Some "Output") (Some "Output") KOther false None None None.
Definition i28 : item := mkItem ("crux_kv", 211%N) (Some "KeyValueResult") (Some "KeyValueResult") (KEnum [216%N; 218%N]) false None None None.
Definition i29 : item := mkItem ("crux_kv", 214%N) (Some "response") (Some "response") KField false (Some "response") (Some (FTypeName "KeyValueResponse")) None.
Definition i30 : item := mkItem ("crux_kv", 215%N) (Some "KeyValueResponse") (Some "KeyValueResponse") (KEnum [255%N; 257%N; 259%N; 261%N; 264%N]) false None None None.
Definition i31 : item := mkItem ("crux_kv", 216%N) (Some "Ok") (Some "Ok") (KVariantStruct [214%N]) false (Some "Ok") None None.
Definition i32 : item := mkItem ("crux_kv", 217%N) (Some "error") (Some "error") KField false (Some "error") (Some (FTypeName "KeyValueError")) None.
Definition i33 : item := mkItem ("crux_kv", 218%N) (Some "Err") (Some "Err") (KVariantStruct [217%N]) false (Some "Err") None None.
Definition i34 : item := mkItem ("crux_kv", 254%N) (Some "value") (Some "value") KField false (Some "value") (Some (FTypeName "Value")) None.
Definition i35 : item := mkItem ("crux_kv", 255%N) (Some "Get") (Some "Get") (KVariantStruct [254%N]) false (Some "Get") None None.
Definition i36 : item := mkItem ("crux_kv", 256%N) (Some "previous") (Some "previous") KField false (Some "previous") (Some (FTypeName "Value")) None.
Definition i37 : item := mkItem ("crux_kv", 257%N) (Some "Set") (Some "Set") (KVariantStruct [256%N]) false (Some "Set") None None.
Definition i38 : item := mkItem ("crux_kv", 258%N) (Some "previous") (Some "previous") KField false (Some "previous") (Some (FTypeName "Value")) None.
Definition i39 : item := mkItem ("crux_kv", 259%N) (Some "Delete") (Some "Delete") (KVariantStruct [258%N]) false (Some "Delete") None None.
Definition i40 : item := mkItem ("crux_kv", 260%N) (Some "is_present") (Some "is_present") KField false (Some "is_present") (Some (FPrim PBool)) None.
Definition i41 : item := mkItem ("crux_kv", 261%N) (Some "Exists") (Some "Exists") (KVariantStruct [260%N]) false (Some "Exists") None None.
Definition i42 : item := mkItem ("crux_kv", 262%N) (Some "keys") (Some "keys") KField false (Some "keys") (Some (FSeq (FPrim PStr))) None.
Definition i43 : item := mkItem ("crux_kv", 263%N) (Some "next_cursor") (Some "next_cursor") KField false (Some "next_cursor") (Some (FPrim PU64)) None.
Definition i44 : item := mkItem ("crux_kv", 264%N) (Some "ListKeys") (Some "ListKeys") (KVariantStruct [262%N; 263%N]) false (Some "ListKeys") None None.
Definition i45 : item := mkItem ("crux_kv", 294%N) (Some "context") (Some "context") KField false None (Some (FTypeName "CapabilityContext")) None.
Definition i46 : item := mkItem ("crux_kv", 296%N) (Some "KeyValue") (Some "KeyValue") (KStructPlain [294%N]) false None None None.
Definition i47 : item := mkItem ("crux_kv", 326%N) (Some "Operation") (Some "Operation") KOther false None None None.
Definition i48 : item := mkItem ("crux_kv", 327%N) (Some "MappedSelf") (Some "MappedSelf") KOther false None None None.
Definition items : list item := [i0; i1; i2; i3; i4; i5; i6; i7; i8; i9; i10; i11; i12; i13; i14; i15; i16; i17; i18; i19; i20; i21; i22; i23; i24; i25; i26; i27; i28; i29; i30; i31; i32; i33; i34; i35; i36; i37; i38; i39; i40; i41; i42; i43; i44; i45; i46; i47; i48].
Definition edge_list : edges := [(i3, i6); (i3, i7); (i3, i8); (i3, i10); (i4, i16); (i4, i19); (i4, i21); (i4, i23); (i4, i26); (i6, i5); (i10, i9); (i13, i12); (i14, i11); (i14, i13); (i16, i15); (i19, i17); (i19, i18); (i21, i20); (i23, i22); (i26, i24); (i26, i25); (i28, i31); (i28, i33); (i29, i30); (i30, i35); (i30, i37); (i30, i39); (i30, i41); (i30, i44); (i31, i29); (i32, i3); (i33, i32); (i34, i14); (i35, i34); (i36, i14); (i37, i36); (i38, i14); (i39, i38); (i41, i40); (i44, i42); (i44, i43)].
Definition edge_flags : list (bool * bool) := [(false, true); (false, true); (false, true); (false, true); (false, true); (false, true); (false, true); (false, true); (false, true); (true, false); (true, false); (true, false); (false, true); (false, true); (true, false); (true, false); (true, false); (true, false); (true, false); (true, false); (true, false); (false, true); (false, true); (false, false); (false, true); (false, true); (false, true); (false, true); (false, true); (true, false); (false, false); (true, false); (false, false); (true, false); (false, false); (true, false); (false, false); (true, false); (true, false); (true, false); (true, false)].
Definition f_root : list item := [i4; i28].
Definition f_field : edges := [(i2, i0); (i2, i1); (i6, i5); (i10, i9); (i13, i12); (i16, i15); (i19, i17); (i19, i18); (i21, i20); (i23, i22); (i26, i24); (i26, i25); (i31, i29); (i33, i32); (i35, i34); (i37, i36); (i39, i38); (i41, i40); (i44, i42); (i44, i43); (i46, i45)].
Definition f_variant : edges := [(i3, i6); (i3, i7); (i3, i8); (i3, i10); (i4, i16); (i4, i19); (i4, i21); (i4, i23); (i4, i26); (i14, i11); (i14, i13); (i28, i31); (i28, i33); (i30, i35); (i30, i37); (i30, i39); (i30, i41); (i30, i44)].
Definition f_type : edges := [(i27, i28); (i29, i30); (i32, i3); (i34, i14); (i36, i14); (i38, i14); (i45, i4); (i47, i4); (i48, i46)].
Definition the_dump : dump := mkDump items f_root f_field f_variant f_type.
Definition crates : list string := ["crux_kv"].
Definition real_containers : list (string * container) := [("KeyValueError", (CEnum [(0%N, ("io", (VStruct [("message", (FPrim PStr))]))); (1%N, ("timeout", VUnit)); (2%N, ("cursorNotFound", VUnit)); (3%N, ("other", (VStruct [("message", (FPrim PStr))])))])); ("KeyValueOperation", (CEnum [(0%N, ("Get", (VStruct [("key", (FPrim PStr))]))); (1%N, ("Set", (VStruct [("key", (FPrim PStr)); ("value", (FPrim PBytes))]))); (2%N, ("Delete", (VStruct [("key", (FPrim PStr))]))); (3%N, ("Exists", (VStruct [("key", (FPrim PStr))]))); (4%N, ("ListKeys", (VStruct [("prefix", (FPrim PStr)); ("cursor", (FPrim PU64))])))])); ("KeyValueResponse", (CEnum [(0%N, ("Get", (VStruct [("value", (FTypeName "Value"))]))); (1%N, ("Set", (VStruct [("previous", (FTypeName "Value"))]))); (2%N, ("Delete", (VStruct [("previous", (FTypeName "Value"))]))); (3%N, ("Exists", (VStruct [("is_present", (FPrim PBool))]))); (4%N, ("ListKeys", (VStruct [("keys", (FSeq (FPrim PStr))); ("next_cursor", (FPrim PU64))])))])); ("KeyValueResult", (CEnum [(0%N, ("Ok", (VStruct [("response", (FTypeName "KeyValueResponse"))]))); (1%N, ("Err", (VStruct [("error", (FTypeName "KeyValueError"))])))])); ("Request", (CStruct [("id", (FPrim PU32)); ("effect", (FTypeName "Effect"))])); ("Value", (CEnum [(0%N, ("None", VUnit)); (1%N, ("Bytes", (VNewType (FPrim PBytes))))]))].
Definition real_registry : registry := [("KeyValueError", (CEnum [(0%N, ("io", (VStruct [("message", (FPrim PStr))]))); (1%N, ("timeout", VUnit)); (2%N, ("cursorNotFound", VUnit)); (3%N, ("other", (VStruct [("message", (FPrim PStr))])))])); ("KeyValueOperation", (CEnum [(0%N, ("Get", (VStruct [("key", (FPrim PStr))]))); (1%N, ("Set", (VStruct [("key", (FPrim PStr)); ("value", (FPrim PBytes))]))); (2%N, ("Delete", (VStruct [("key", (FPrim PStr))]))); (3%N, ("Exists", (VStruct [("key", (FPrim PStr))]))); (4%N, ("ListKeys", (VStruct [("prefix", (FPrim PStr)); ("cursor", (FPrim PU64))])))])); ("KeyValueResponse", (CEnum [(0%N, ("Get", (VStruct [("value", (FTypeName "Value"))]))); (1%N, ("Set", (VStruct [("previous", (FTypeName "Value"))]))); (2%N, ("Delete", (VStruct [("previous", (FTypeName "Value"))]))); (3%N, ("Exists", (VStruct [("is_present", (FPrim PBool))]))); (4%N, ("ListKeys", (VStruct [("keys", (FSeq (FPrim PStr))); ("next_cursor", (FPrim PU64))])))])); ("KeyValueResult", (CEnum [(0%N, ("Ok", (VStruct [("response", (FTypeName "KeyValueResponse"))]))); (1%N, ("Err", (VStruct [("error", (FTypeName "KeyValueError"))])))])); ("Request", (CStruct [("id", (FPrim PU32)); ("effect", (FTypeName "Effect"))])); ("Value", (CEnum [(0%N, ("None", VUnit)); (1%N, ("Bytes", (VNewType (FPrim PBytes))))]))].
