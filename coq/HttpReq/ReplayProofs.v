(* Lemmas about HttpReq/Replay.v: the trace of a replay depends neither on the hash map's iteration
   order nor - up to the renumbering of timer ids by first occurrence - on the timer counter. *)
From Coq Require Import List NArith Bool Lia Permutation.
From Crux Require Import Base.Res HttpReq.Model HttpReq.ModelProofs HttpReq.Replay.
Import ListNotations.
Open Scope N_scope.

(* ------------------------------------------------------------------ the iteration oracle *)
Lemma http_effects_order_free o1 o2 a m uok ustr ops1 ops2 :
  (forall x, Permutation (o1 x) x) -> (forall x, Permutation (o2 x) x) ->
  http_effects o1 a m uok ustr ops1 ops2 = http_effects o2 a m uok ustr ops1 ops2.
Proof.
  intros P1 P2. unfold http_effects. destruct a.
  - rewrite (send_cmd_order_free uok ustr o1 o2 m (ops1 ++ ops2) P1 P2). reflexivity.
  - rewrite !send_cap_cmd. rewrite (send_cmd_order_free uok ustr o1 o2 m (ops1 ++ ops2) P1 P2). reflexivity.
Qed.
Lemma issue_one_order_free o1 o2 o st :
  (forall x, Permutation (o1 x) x) -> (forall x, Permutation (o2 x) x) -> issue_one o1 o st = issue_one o2 o st.
Proof.
  intros P1 P2. destruct o; simpl; try reflexivity. rewrite (http_effects_order_free o1 o2); auto.
Qed.
Lemma issue_order_free o1 o2 ops : forall st,
  (forall x, Permutation (o1 x) x) -> (forall x, Permutation (o2 x) x) -> issue o1 ops st = issue o2 ops st.
Proof.
  induction ops as [|o t IH]; intros st P1 P2; simpl; [reflexivity|].
  rewrite (issue_one_order_free o1 o2 o st P1 P2). destruct (issue_one o2 o st) as [st1 e1].
  rewrite (IH st1 P1 P2). reflexivity.
Qed.
Lemma replay_from_order_free o1 o2 h : forall st,
  (forall x, Permutation (o1 x) x) -> (forall x, Permutation (o2 x) x) -> replay_from o1 h st = replay_from o2 h st.
Proof.
  induction h as [|s t IH]; intros st P1 P2; simpl; [reflexivity|].
  destruct s as [ops|k|].
  - rewrite (issue_order_free o1 o2 ops st P1 P2). destruct (issue o2 ops st) as [st' l]. rewrite (IH st' P1 P2). reflexivity.
  - rewrite (IH st P1 P2). reflexivity.
  - rewrite (IH st P1 P2). reflexivity.
Qed.

(* ------------------------------------------------------------------ shifting every timer id by a constant *)
Definition shift_treq (c : N) (t : treq) : treq :=
  match t with
  | TNow => TNow | TAt id s ns => TAt (c + id) s ns | TAfter id ns => TAfter (c + id) ns | TClear id => TClear (c + id)
  end.
Definition shift_effect (c : N) (e : effect) : effect := match e with ETime t => ETime (shift_treq c t) | _ => e end.
Definition shift_tagged (c : N) (x : api * effect) : api * effect := (fst x, shift_effect c (snd x)).
Definition shift_state (c : N) (st : rstate) : rstate :=
  {| next_id := c + next_id st; timers := map (N.add c) (timers st) |}.

Section Shift.
  Variable o : hmap -> hmap.
  Variable c : N.

  Lemma clear_pick_shift j l t0 :
    nth (N.to_nat (j mod N.of_nat (length (map (N.add c) l)))) (map (N.add c) l) (c + t0)
    = c + nth (N.to_nat (j mod N.of_nat (length l))) l t0.
  Proof. rewrite map_length. apply (map_nth (N.add c)). Qed.

  Lemma issue_one_shift op st :
    issue_one o op (shift_state c st) =
    (shift_state c (fst (issue_one o op st)), map (shift_tagged c) (snd (issue_one o op st))).
  Proof.
    destruct op as [a m uok ustr ops1 ops2|a k|a|a ns|a s ns|j|a]; try reflexivity.
    - simpl. f_equal. rewrite map_map. apply map_ext_in. intros e He. unfold shift_tagged. simpl.
      unfold http_effects in He. destruct (match a with Cmd => _ | Cap => _ end); simpl in He; try contradiction.
      apply in_map_iff in He. destruct He as [r [<- _]]. reflexivity.
    - simpl. unfold shift_state, shift_tagged. simpl. f_equal.
      f_equal; [lia|]. destruct a; simpl; [reflexivity|]. rewrite map_app. reflexivity.
    - simpl. unfold shift_state, shift_tagged. simpl. f_equal.
      f_equal; [lia|]. destruct a; simpl; [reflexivity|]. rewrite map_app. reflexivity.
    - unfold issue_one. cbn [shift_state timers next_id].
      destruct (timers st) as [|t0 tl]; [reflexivity|].
      pose proof (clear_pick_shift j (t0 :: tl) t0) as Hp.
      cbn [map] in Hp |- *. cbn [fst snd map shift_tagged shift_effect shift_treq]. rewrite Hp. reflexivity.
  Qed.

  Lemma issue_shift ops : forall st,
    issue o ops (shift_state c st) =
    (shift_state c (fst (issue o ops st)), map (shift_tagged c) (snd (issue o ops st))).
  Proof.
    induction ops as [|op t IH]; intros st; simpl; [reflexivity|].
    rewrite issue_one_shift. destruct (issue_one o op st) as [st1 e1]. simpl.
    rewrite IH. destruct (issue o t st1) as [st2 e2]. simpl. rewrite map_app. reflexivity.
  Qed.

  Lemma existsb_shift id cl : existsb (N.eqb (c + id)) (map (N.add c) cl) = existsb (N.eqb id) cl.
  Proof.
    induction cl as [|x t IH]; simpl; [reflexivity|]. rewrite IH. f_equal.
    destruct (N.eqb id x) eqn:E.
    - apply N.eqb_eq in E. subst. apply N.eqb_refl.
    - apply N.eqb_neq in E. apply N.eqb_neq. lia.
  Qed.
  Lemma cleared_ids_shift l : cleared_ids (map (shift_tagged c) l) = map (N.add c) (cleared_ids l).
  Proof.
    unfold cleared_ids. induction l as [|[a e] t IH]; simpl; [reflexivity|].
    rewrite IH. destruct e as [r|k|[|id s ns|id ns|id]|]; reflexivity.
  Qed.
  Lemma suppressed_shift cl x : suppressed (map (N.add c) cl) (shift_tagged c x) = suppressed cl x.
  Proof.
    destruct x as [a e]. destruct a; [reflexivity|].
    destruct e as [r|k|[|id s ns|id ns|id]|]; simpl; try reflexivity; apply existsb_shift.
  Qed.
  Lemma suppress_shift l : suppress (map (shift_tagged c) l) = map (shift_tagged c) (suppress l).
  Proof.
    unfold suppress. rewrite cleared_ids_shift. generalize (cleared_ids l) as cl. intros cl.
    induction l as [|x t IH]; [reflexivity|]. cbn [map filter].
    rewrite suppressed_shift. destruct (suppressed cl x); cbn [negb map]; rewrite IH; reflexivity.
  Qed.
  Lemma batch_of_shift l : batch_of (map (shift_tagged c) l) = map (shift_effect c) (batch_of l).
  Proof.
    unfold batch_of. rewrite map_app. f_equal.
    - induction l as [|[a e] t IH]; simpl; [reflexivity|]. unfold is_cap in *. simpl.
      destruct a; simpl; rewrite IH; reflexivity.
    - induction l as [|[a e] t IH]; simpl; [reflexivity|]. unfold is_cap in *. simpl.
      destruct a; simpl; rewrite IH; reflexivity.
  Qed.

  Lemma replay_from_shift h : forall st,
    replay_from o h (shift_state c st) = map (map (shift_effect c)) (replay_from o h st).
  Proof.
    induction h as [|s t IH]; intros st; simpl; [reflexivity|].
    destruct s as [ops|k|]; simpl.
    - rewrite issue_shift. destruct (issue o ops st) as [st' l]. simpl.
      rewrite suppress_shift, batch_of_shift, IH. reflexivity.
    - rewrite IH. reflexivity.
    - rewrite IH. reflexivity.
  Qed.
End Shift.

Lemma replay_shift o c h : replay o c h = map (map (shift_effect c)) (replay o 0 h).
Proof.
  unfold replay. rewrite <- replay_from_shift. f_equal. unfold shift_state. simpl. f_equal. lia.
Qed.

(* ------------------------------------------------------------------ renumbering forgets the shift *)
Lemma index_of_shift c x l : index_of (c + x) (map (N.add c) l) = index_of x l.
Proof.
  induction l as [|y t IH]; simpl; [reflexivity|]. rewrite IH.
  destruct (N.eqb y x) eqn:E.
  - apply N.eqb_eq in E. subst. rewrite N.eqb_refl. reflexivity.
  - apply N.eqb_neq in E. assert (E' : N.eqb (c + y) (c + x) = false) by (apply N.eqb_neq; lia). rewrite E'. reflexivity.
Qed.
Lemma ren_id_shift c seen id :
  ren_id (map (N.add c) seen) (c + id) = (map (N.add c) (fst (ren_id seen id)), snd (ren_id seen id)).
Proof.
  unfold ren_id. rewrite index_of_shift. destruct (index_of id seen); simpl; [reflexivity|].
  rewrite map_app, map_length. reflexivity.
Qed.
Lemma ren_effect_shift c seen e :
  ren_effect (map (N.add c) seen) (shift_effect c e) = (map (N.add c) (fst (ren_effect seen e)), snd (ren_effect seen e)).
Proof.
  destruct e as [r|k|[|id s ns|id ns|id]|]; simpl; try reflexivity;
    rewrite ren_id_shift; destruct (ren_id seen id); reflexivity.
Qed.
Lemma ren_batch_shift c b : forall seen,
  ren_batch (map (N.add c) seen) (map (shift_effect c) b) = (map (N.add c) (fst (ren_batch seen b)), snd (ren_batch seen b)).
Proof.
  induction b as [|e t IH]; intros seen; simpl; [reflexivity|].
  rewrite ren_effect_shift. destruct (ren_effect seen e) as [s1 e']. simpl.
  rewrite IH. destruct (ren_batch s1 t) as [s2 t']. reflexivity.
Qed.
Lemma ren_batches_shift c bs : forall seen,
  ren_batches (map (N.add c) seen) (map (map (shift_effect c)) bs) = ren_batches seen bs.
Proof.
  induction bs as [|b t IH]; intros seen; simpl; [reflexivity|].
  rewrite ren_batch_shift. destruct (ren_batch seen b) as [s1 b']. simpl. rewrite IH. reflexivity.
Qed.
Lemma renumber_shift c bs : renumber (map (map (shift_effect c)) bs) = renumber bs.
Proof. unfold renumber. apply (ren_batches_shift c bs []). Qed.

(* ------------------------------------------------------------------ determinism of the replay *)
Theorem replay_deterministic o1 o2 c1 c2 h :
  (forall x, Permutation (o1 x) x) -> (forall x, Permutation (o2 x) x) ->
  renumber (replay o1 c1 h) = renumber (replay o2 c2 h).
Proof.
  intros P1 P2. rewrite (replay_shift o1 c1), (replay_shift o2 c2), !renumber_shift.
  unfold replay. rewrite (replay_from_order_free o1 o2 h _ P1 P2). reflexivity.
Qed.

(* with the same counter the traces are equal as they are *)
Theorem replay_order_free o1 o2 c h :
  (forall x, Permutation (o1 x) x) -> (forall x, Permutation (o2 x) x) -> replay o1 c h = replay o2 c h.
Proof. intros P1 P2. unfold replay. apply replay_from_order_free; assumption. Qed.

(* renumbering is needed: the raw traces of two replays with different counters differ *)
Lemma raw_ids_differ :
  replay (fun m => m) 1 [SEvent [AAfter Cap 5]] <> replay (fun m => m) 2 [SEvent [AAfter Cap 5]].
Proof. vm_compute. discriminate. Qed.
