(* Replaying a history against a fresh core: which effect requests come out (C11, first half).

   The app of the correspondence harness (harness/src/bin/httpreq_replay.rs) performs, for each
   event, a list of operations: HTTP requests (full descriptions, both APIs), key-value operations,
   time operations (now / notify_after / notify_at / clear) and render.  What the real core returns
   for the event is modelled here as a function of the history and of the only two things the code
   consults that are not a function of the history:
     - [iter_order], the header hash map's iteration order (any rearrangement), and
     - [c0], the value of crux_time's process-wide timer counter when the replay starts.
   Capability-API calls spawn their task when called, command-API operations are gathered into one
   Command::all that is spawned after `update` returns; the executor runs tasks in spawn order, so a
   batch lists the capability operations in call order and then the command operations in order.
   Timer ids are taken from the counter when the operation is CONSTRUCTED, i.e. in call order.
   Resolving a request or asking for the view produces no effect request in this app.

   Definitions only; lemmas are in ReplayProofs.v. *)
From Coq Require Import List NArith Bool.
From Crux Require Import Base.Res HttpReq.Model.
Import ListNotations.
Open Scope N_scope.

Inductive kvop :=
| KGet (k : bytes) | KSet (k v : bytes) | KDelete (k : bytes) | KExists (k : bytes) | KList (p : bytes) (c : N).
Inductive treq := TNow | TAt (id s ns : N) | TAfter (id ns : N) | TClear (id : N).
Inductive effect := EHttp (r : http_request) | EKv (o : kvop) | ETime (t : treq) | ERender.

(* one operation of the app *)
Inductive aop :=
| AHttp (a : api) (method : bytes) (url_ok : bool) (url_str : option bytes -> bytes) (ops1 ops2 : list op)
| AKv (a : api) (o : kvop)
| ANow (a : api)
| AAfter (a : api) (ns : N)
| AAt (a : api) (s ns : N)
| AClear (j : N)               (* capability API: clear the (j mod n)-th of the n timers the app holds ids of *)
| ARender (a : api).
Inductive step := SEvent (ops : list aop) | SResolve (k : N) | SView.

Record rstate := { next_id : N; timers : list N }.

Section Replay.
  Variable iter_order : hmap -> hmap.

  Definition http_effects (a : api) (method : bytes) (url_ok : bool) (url_str : option bytes -> bytes)
             (ops1 ops2 : list op) : list effect :=
    match match a with
          | Cmd => send_cmd url_ok url_str iter_order method (ops1 ++ ops2)
          | Cap => send_cap url_ok url_str iter_order method ops1 ops2
          end with
    | Ok l => map EHttp l
    | _ => []
    end.

  (* the app keeps the TimerId the capability API returns; the command API's TimerHandle hides its id *)
  Definition remember (a : api) (id : N) (l : list N) : list N := match a with Cap => l ++ [id] | Cmd => l end.

  (* what one operation emits, tagged with the API that decides its place in the batch *)
  Definition issue_one (o : aop) (st : rstate) : rstate * list (api * effect) :=
    match o with
    | AHttp a m uok ustr ops1 ops2 => (st, map (fun e => (a, e)) (http_effects a m uok ustr ops1 ops2))
    | AKv a k => (st, [(a, EKv k)])
    | ANow a => (st, [(a, ETime TNow)])
    | AAfter a ns =>
        ({| next_id := next_id st + 1; timers := remember a (next_id st) (timers st) |}, [(a, ETime (TAfter (next_id st) ns))])
    | AAt a s ns =>
        ({| next_id := next_id st + 1; timers := remember a (next_id st) (timers st) |}, [(a, ETime (TAt (next_id st) s ns))])
    | AClear j =>
        match timers st with
        | [] => (st, [])
        | t0 :: _ => (st, [(Cap, ETime (TClear (nth (N.to_nat (j mod N.of_nat (length (timers st)))) (timers st) t0)))])
        end
    | ARender a => (st, [(a, ERender)])
    end.
  Fixpoint issue (ops : list aop) (st : rstate) : rstate * list (api * effect) :=
    match ops with
    | [] => (st, [])
    | o :: t => let (st1, e1) := issue_one o st in let (st2, e2) := issue t st1 in (st2, e1 ++ e2)
    end.

  (* crux_time's capability API: `clear(id)` puts the id into the process-wide CLEARED set at once; a
     timer future that finds its id there when it is polled completes as Cleared WITHOUT sending its
     request.  Tasks are first polled after `update` returns, so a timer created and cleared within
     one event never reaches the shell (its Clear notification does). *)
  Definition cleared_ids (l : list (api * effect)) : list N :=
    flat_map (fun x => match snd x with ETime (TClear id) => [id] | _ => [] end) l.
  Definition suppressed (cl : list N) (x : api * effect) : bool :=
    match x with
    | (Cap, ETime (TAfter id _)) | (Cap, ETime (TAt id _ _)) => existsb (N.eqb id) cl
    | _ => false
    end.
  Definition suppress (l : list (api * effect)) : list (api * effect) :=
    filter (fun x => negb (suppressed (cleared_ids l) x)) l.

  Definition is_cap (x : api * effect) : bool := match fst x with Cap => true | Cmd => false end.
  Definition batch_of (l : list (api * effect)) : list effect :=
    map snd (filter is_cap l) ++ map snd (filter (fun x => negb (is_cap x)) l).

  Fixpoint replay_from (h : list step) (st : rstate) : list (list effect) :=
    match h with
    | [] => []
    | SEvent ops :: t => let (st', l) := issue ops st in batch_of (suppress l) :: replay_from t st'
    | SResolve _ :: t => [] :: replay_from t st
    | SView :: t => [] :: replay_from t st
    end.
  Definition replay (c0 : N) (h : list step) : list (list effect) :=
    replay_from h {| next_id := c0; timers := [] |}.
End Replay.

(* ------------------------------------------------------------------ renumbering of timer ids
   The canonical form of a trace: every timer id is replaced by the rank of its first occurrence. *)
Fixpoint index_of (x : N) (l : list N) : option nat :=
  match l with
  | [] => None
  | y :: t => if N.eqb y x then Some O else match index_of x t with Some i => Some (S i) | None => None end
  end.
Definition ren_id (seen : list N) (id : N) : list N * N :=
  match index_of id seen with
  | Some i => (seen, N.of_nat i)
  | None => (seen ++ [id], N.of_nat (length seen))
  end.
Definition ren_effect (seen : list N) (e : effect) : list N * effect :=
  match e with
  | ETime (TAt id s ns) => let (s', i) := ren_id seen id in (s', ETime (TAt i s ns))
  | ETime (TAfter id ns) => let (s', i) := ren_id seen id in (s', ETime (TAfter i ns))
  | ETime (TClear id) => let (s', i) := ren_id seen id in (s', ETime (TClear i))
  | _ => (seen, e)
  end.
Fixpoint ren_batch (seen : list N) (b : list effect) : list N * list effect :=
  match b with
  | [] => (seen, [])
  | e :: t => let (s1, e') := ren_effect seen e in let (s2, t') := ren_batch s1 t in (s2, e' :: t')
  end.
Fixpoint ren_batches (seen : list N) (bs : list (list effect)) : list (list effect) :=
  match bs with
  | [] => []
  | b :: t => let (s1, b') := ren_batch seen b in b' :: ren_batches s1 t
  end.
Definition renumber (bs : list (list effect)) : list (list effect) := ren_batches [] bs.

(* ------------------------------------------------------------------ case evaluation *)
Definition kvop_eqb (a b : kvop) : bool :=
  match a, b with
  | KGet x, KGet y | KDelete x, KDelete y | KExists x, KExists y => beqb x y
  | KSet k v, KSet k' v' => beqb k k' && beqb v v'
  | KList p c, KList p' c' => beqb p p' && N.eqb c c'
  | _, _ => false
  end.
Definition treq_eqb (a b : treq) : bool :=
  match a, b with
  | TNow, TNow => true
  | TAt i s n, TAt i' s' n' => N.eqb i i' && N.eqb s s' && N.eqb n n'
  | TAfter i n, TAfter i' n' => N.eqb i i' && N.eqb n n'
  | TClear i, TClear i' => N.eqb i i'
  | _, _ => false
  end.
Definition effect_eqb (a b : effect) : bool :=
  match a, b with
  | EHttp x, EHttp y => hreq_eqb x y
  | EKv x, EKv y => kvop_eqb x y
  | ETime x, ETime y => treq_eqb x y
  | ERender, ERender => true
  | _, _ => false
  end.
Fixpoint list_eqb {A} (f : A -> A -> bool) (a b : list A) : bool :=
  match a, b with [] , [] => true | x :: a', y :: b' => f x y && list_eqb f a' b' | _, _ => false end.
Definition batches_eqb (a b : list (list effect)) : bool := list_eqb (list_eqb effect_eqb) a b.

Record replay_case := {
  rc_hist : list step;
  rc_obs : list (list effect);   (* batches of the first replay, timer ids as issued *)
  rc_agree : bool                (* harness: all in-process and cross-process replays are byte-identical
                                    (serialized batches after renumbering, and view bytes) *)
}.

(* every HTTP operation of a replay history must be an accepted description *)
Definition aop_wf (o : aop) : bool :=
  match o with
  | AHttp _ _ uok _ ops1 ops2 =>
      match desc_outcome uok (ops1 ++ ops2) with Sent => true | _ => false end
  | _ => true
  end.
Definition step_wf (s : step) : bool := match s with SEvent ops => forallb aop_wf ops | _ => true end.

(* 0 replays agree and are the model's trace;  1 replays agree, model differs;  2 replays differ *)
Definition replay_verdict (c : replay_case) : N :=
  if negb (forallb step_wf (rc_hist c)) then 9
  else if rc_agree c
       then (if batches_eqb (renumber (rc_obs c)) (renumber (replay (fun m => m) 0 (rc_hist c))) then 0 else 1)
       else 2.
Definition replay_verdicts (cs : list replay_case) : list N := map replay_verdict cs.
