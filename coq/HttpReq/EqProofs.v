(* Lemmas about HttpReq/Eq.v: the repaired Response equality is content equality for every pair of
   iteration oracles; the zip-based one was not; derived equality is structural equality. *)
From Coq Require Import List NArith Bool Lia Permutation PeanoNat.
From Crux Require Import Base.Res HttpReq.Model HttpReq.ModelProofs HttpReq.Eq.
Import ListNotations.
Open Scope N_scope.

Lemma opt_N_eqb_eq a b : opt_N_eqb a b = true <-> a = b.
Proof.
  destruct a, b; simpl; split; intros H; try congruence; try reflexivity.
  - apply N.eqb_eq in H. congruence.
  - inversion H. apply N.eqb_refl.
Qed.
Lemma opt_bytes_eqb_eq a b : opt_bytes_eqb a b = true <-> a = b.
Proof.
  destruct a, b; simpl; split; intros H; try congruence; try reflexivity.
  - apply beqb_eq in H. congruence.
  - inversion H. apply beqb_refl.
Qed.
Lemma opt_lbeqb_eq a b : opt_lbeqb a b = true <-> a = b.
Proof.
  destruct a, b; simpl; split; intros H; try congruence; try reflexivity.
  - apply lbeqb_eq in H. congruence.
  - inversion H. apply lbeqb_eq. reflexivity.
Qed.

Lemma in_keys_hget n m : In n (keys m) <-> hget n m <> None.
Proof.
  split; intros H.
  - intros E. apply hget_none_iff in E. contradiction.
  - destruct (in_dec (list_eq_dec N.eq_dec) n (keys m)) as [Hin|Hnin]; [exact Hin|].
    apply hget_none_iff in Hnin. contradiction.
Qed.

Definition resp0 (h : hmap) : response := {| p_version := None; p_status := 200; p_headers := h; p_body := None |}.

(* ------------------------------------------------------------------ headers_eq *)
Lemma headers_eq_sound o1 o2 a b :
  (forall m, Permutation (o1 m) m) -> (forall m, Permutation (o2 m) m) -> wf a -> wf b ->
  headers_eq o1 o2 a b = true -> forall n, hget n a = hget n b.
Proof.
  intros P1 P2 Wa Wb H. unfold headers_eq in H. apply andb_prop in H as [Hlen Hall].
  apply Nat.eqb_eq in Hlen. rewrite forallb_forall in Hall.
  assert (Hfwd : forall n vs, hget n a = Some vs -> hget n b = Some vs).
  { intros n vs Hg. apply hget_in in Hg.
    assert (Hin : In (n, vs) (o1 a)) by (eapply Permutation_in; [apply Permutation_sym; apply P1|exact Hg]).
    specialize (Hall _ Hin). simpl in Hall. destruct (hget n b) as [ws|]; [|discriminate].
    apply lbeqb_eq in Hall. congruence. }
  assert (Hincl : incl (keys a) (keys b)).
  { intros n Hn. apply in_keys_hget in Hn. destruct (hget n a) as [vs|] eqn:E; [|congruence].
    apply in_keys_hget. rewrite (Hfwd _ _ E). discriminate. }
  assert (Hlen' : (length (keys b) <= length (keys a))%nat).
  { unfold keys. rewrite !map_length. rewrite <- (Permutation_length (P1 a)), <- (Permutation_length (P2 b)). lia. }
  pose proof (NoDup_length_incl Wa Hlen' Hincl) as Hincl'.
  intros n. destruct (hget n a) as [vs|] eqn:Ea.
  - symmetry. apply Hfwd. exact Ea.
  - destruct (hget n b) as [ws|] eqn:Eb; [|reflexivity].
    exfalso. assert (Hin : In n (keys b)) by (apply in_keys_hget; congruence).
    apply Hincl' in Hin. apply in_keys_hget in Hin. congruence.
Qed.

Lemma headers_eq_complete o1 o2 a b :
  (forall m, Permutation (o1 m) m) -> (forall m, Permutation (o2 m) m) -> wf a -> wf b ->
  (forall n, hget n a = hget n b) -> headers_eq o1 o2 a b = true.
Proof.
  intros P1 P2 Wa Wb H. unfold headers_eq. apply andb_true_intro. split.
  - apply Nat.eqb_eq. rewrite (Permutation_length (P1 a)), (Permutation_length (P2 b)).
    assert (Hp : Permutation (keys a) (keys b)).
    { apply NoDup_Permutation; [exact Wa|exact Wb|]. intros n. rewrite !in_keys_hget, H. tauto. }
    apply Permutation_length in Hp. unfold keys in Hp. rewrite !map_length in Hp. exact Hp.
  - apply forallb_forall. intros [n vs] Hin. simpl.
    assert (Hg : hget n a = Some vs).
    { apply in_hget; [exact Wa|]. eapply Permutation_in; [apply P1|exact Hin]. }
    rewrite <- H, Hg. apply lbeqb_eq. reflexivity.
Qed.

Lemma resp_eq_iff o1 o2 a b :
  (forall m, Permutation (o1 m) m) -> (forall m, Permutation (o2 m) m) -> wf (p_headers a) -> wf (p_headers b) ->
  (resp_eq o1 o2 a b = true <-> same_contents a b).
Proof.
  intros P1 P2 Wa Wb. unfold resp_eq, same_contents. split.
  - intros H. apply andb_prop in H as [H Hb]. apply andb_prop in H as [H Hh]. apply andb_prop in H as [Hv Hs].
    apply opt_N_eqb_eq in Hv. apply N.eqb_eq in Hs. apply opt_bytes_eqb_eq in Hb.
    repeat split; try assumption. apply (headers_eq_sound o1 o2); assumption.
  - intros [Hv [Hs [Hb Hh]]].
    rewrite (proj2 (opt_N_eqb_eq _ _) Hv), (proj2 (N.eqb_eq _ _) Hs), (proj2 (opt_bytes_eqb_eq _ _) Hb).
    rewrite (headers_eq_complete o1 o2 _ _ P1 P2 Wa Wb Hh). reflexivity.
Qed.

(* the result does not depend on the oracles at all *)
Lemma resp_eq_oracle_free o1 o2 o1' o2' a b :
  (forall m, Permutation (o1 m) m) -> (forall m, Permutation (o2 m) m) ->
  (forall m, Permutation (o1' m) m) -> (forall m, Permutation (o2' m) m) ->
  wf (p_headers a) -> wf (p_headers b) -> resp_eq o1 o2 a b = resp_eq o1' o2' a b.
Proof.
  intros P1 P2 P1' P2' Wa Wb.
  destruct (resp_eq o1 o2 a b) eqn:E1, (resp_eq o1' o2' a b) eqn:E2; try reflexivity.
  - apply (proj1 (resp_eq_iff o1 o2 a b P1 P2 Wa Wb)) in E1. apply (proj2 (resp_eq_iff o1' o2' a b P1' P2' Wa Wb)) in E1. congruence.
  - apply (proj1 (resp_eq_iff o1' o2' a b P1' P2' Wa Wb)) in E2. apply (proj2 (resp_eq_iff o1 o2 a b P1 P2 Wa Wb)) in E2. congruence.
Qed.

Lemma same_contents_refl a : same_contents a a.
Proof. repeat split. Qed.
Lemma same_contents_sym a b : same_contents a b -> same_contents b a.
Proof. intros [H1 [H2 [H3 H4]]]. repeat split; try congruence; intros n; symmetry; apply H4. Qed.
Lemma same_contents_trans a b c : same_contents a b -> same_contents b c -> same_contents a c.
Proof.
  intros [H1 [H2 [H3 H4]]] [G1 [G2 [G3 G4]]]. repeat split; try congruence; intros n; rewrite H4; apply G4.
Qed.

Lemma same_contentsb_iff a b : same_contentsb a b = true <-> same_contents a b.
Proof.
  unfold same_contentsb, same_contents. split.
  - intros H. apply andb_prop in H as [H Hh]. apply andb_prop in H as [H Hb]. apply andb_prop in H as [Hv Hs].
    apply opt_N_eqb_eq in Hv. apply N.eqb_eq in Hs. apply opt_bytes_eqb_eq in Hb. repeat split; try assumption.
    intros n. rewrite forallb_forall in Hh.
    destruct (in_dec (list_eq_dec N.eq_dec) n (map fst (p_headers a) ++ map fst (p_headers b))) as [Hin|Hnin].
    + apply opt_lbeqb_eq. apply Hh. exact Hin.
    + assert (Ha : hget n (p_headers a) = None) by (apply hget_none_iff; intros Hx; apply Hnin; apply in_or_app; left; exact Hx).
      assert (Hb' : hget n (p_headers b) = None) by (apply hget_none_iff; intros Hx; apply Hnin; apply in_or_app; right; exact Hx).
      congruence.
  - intros [Hv [Hs [Hb Hh]]].
    rewrite (proj2 (opt_N_eqb_eq _ _) Hv), (proj2 (N.eqb_eq _ _) Hs), (proj2 (opt_bytes_eqb_eq _ _) Hb). simpl.
    apply forallb_forall. intros n _. apply opt_lbeqb_eq. apply Hh.
Qed.

(* responses built by header calls are well-formed maps *)
Lemma build_response_wf d r : build_response d = Some r -> wf (p_headers r).
Proof.
  unfold build_response, headers_of_calls. destruct (forallb header_call_only (rd_calls d)); [|discriminate].
  destruct (apply_ops (rd_calls d) request0) as [q| | |] eqn:E; try discriminate.
  intros H. inversion H; subst. simpl.
  destruct (apply_ops_spec _ _ _ E inv0) as [[Hw _] _]. exact Hw.
Qed.

(* ------------------------------------------------------------------ the code before the fix *)
Lemma before_fix_empty_equals_anything :
  resp_eq_before_fix (fun m => m) (fun m => m) (resp0 []) (resp0 [([97], [[98]])]) = true /\
  ~ same_contents (resp0 []) (resp0 [([97], [[98]])]).
Proof.
  split; [reflexivity|]. intros [_ [_ [_ H]]]. specialize (H [97]). discriminate.
Qed.
Lemma before_fix_equal_compare_unequal :
  let h := [([97], [[49]]); ([98], [[50]])] in
  (forall m, Permutation (@rev (bytes * list bytes) m) m) /\
  resp_eq_before_fix (fun m => m) (@rev _) (resp0 h) (resp0 h) = false /\ same_contents (resp0 h) (resp0 h).
Proof.
  split; [intros m; apply Permutation_sym; apply Permutation_rev|]. split; [reflexivity|apply same_contents_refl].
Qed.

(* ------------------------------------------------------------------ serialization *)
Lemma resp_wire_order_free o1 o2 r :
  (forall m, Permutation (o1 m) m) -> (forall m, Permutation (o2 m) m) -> wf (p_headers r) ->
  resp_wire_headers o1 r = resp_wire_headers o2 r.
Proof.
  intros P1 P2 Hw. unfold resp_wire_headers. apply sort_entries_perm_eq.
  - eapply wf_perm; [apply Permutation_sym; apply P1|exact Hw].
  - eapply Permutation_trans; [apply P1|apply Permutation_sym; apply P2].
Qed.
(* equal contents serialize alike, whatever the oracles *)
Lemma resp_wire_same_contents o1 o2 a b :
  (forall m, Permutation (o1 m) m) -> (forall m, Permutation (o2 m) m) -> wf (p_headers a) -> wf (p_headers b) ->
  same_contents a b -> resp_wire_headers o1 a = resp_wire_headers o2 b.
Proof.
  intros P1 P2 Wa Wb [_ [_ [_ Hh]]]. unfold resp_wire_headers. apply sort_entries_perm_eq.
  - eapply wf_perm; [apply Permutation_sym; apply P1|exact Wa].
  - eapply Permutation_trans; [apply P1|]. eapply Permutation_trans; [|apply Permutation_sym; apply P2].
    apply NoDup_Permutation.
    + apply (NoDup_map_inv fst). exact Wa.
    + apply (NoDup_map_inv fst). exact Wb.
    + intros [n vs]. split; intros Hin.
      * apply hget_in. rewrite <- Hh. apply in_hget; assumption.
      * apply hget_in. rewrite Hh. apply in_hget; assumption.
Qed.
Lemma resp_wire_before_fix_differs :
  let r := resp0 [([97], [[49]]); ([98], [[50]])] in
  resp_wire_headers_before_fix (fun m => m) r <> resp_wire_headers_before_fix (@rev _) r.
Proof. vm_compute. discriminate. Qed.

(* ------------------------------------------------------------------ derived equality *)
Fixpoint val_size (v : val) : nat :=
  match v with
  | VC _ args => S ((fix go (l : list val) : nat := match l with [] => O | x :: t => (val_size x + go t)%nat end) args)
  | _ => 1%nat
  end.

Lemma val_eqb_eq_sized n : forall a b, (val_size a <= n)%nat -> (val_eqb a b = true <-> a = b).
Proof.
  induction n as [|n IH]; intros a b Hs.
  - destruct a; simpl in Hs; lia.
  - destruct a as [x|x|t xs], b as [y|y|u ys]; simpl; try (split; intros H; congruence).
    + rewrite N.eqb_eq. split; congruence.
    + rewrite beqb_eq. split; congruence.
    + simpl in Hs. apply le_S_n in Hs.
      assert (Hl : forall ys0,
        (fix go (l1 l2 : list val) : bool := match l1, l2 with [] , [] => true | x :: l1', y :: l2' => val_eqb x y && go l1' l2' | _, _ => false end) xs ys0 = true <-> xs = ys0).
      { revert Hs. induction xs as [|x xs IHxs]; intros Hs [|y ys0]; simpl; try (split; intros H; congruence); try tauto.
        simpl in Hs. split.
        - intros H. apply andb_prop in H as [H1 H2]. apply IH in H1; [|lia]. apply IHxs in H2; [|lia]. congruence.
        - intros H. inversion H; subst. apply andb_true_intro. split; [apply IH; [lia|reflexivity]|apply IHxs; [lia|reflexivity]]. }
      split.
      * intros H. apply andb_prop in H as [H1 H2]. apply N.eqb_eq in H1. apply Hl in H2. congruence.
      * intros H. inversion H; subst. rewrite N.eqb_refl. simpl. apply Hl. reflexivity.
Qed.
Lemma val_eqb_eq a b : val_eqb a b = true <-> a = b.
Proof. apply (val_eqb_eq_sized (val_size a)). apply le_n. Qed.
