(* Executable model of HTTP request building in crux_http, for both APIs:
     crux_http/src/command.rs          (command API: Http::{get,..,request}, RequestBuilder, build)
     crux_http/src/request_builder.rs  (capability API: RequestBuilder, send)
     crux_http/src/request.rs          (Request: insert/append/remove header, set_body, set_query ...)
     crux_http/src/client.rs           (Client::send: middleware stack, endpoint)
     crux_http/src/protocol.rs         (into_protocol_request)
   and of the http-types 2.12 behaviour underneath (Headers = HashMap<HeaderName, HeaderValues>,
   HeaderName lower-cases and demands ASCII, HeaderValue demands ASCII, Request::set_body copies
   the body's MIME type into `content-type` only when that header is absent).

   A request DESCRIPTION is the list of calls the app makes ([op]); the model threads an abstract
   request through them and converts it the way [into_protocol_request] does.  Everything that is
   third-party computation is an oracle (Section variable): the URL serialisation of the `url`
   crate, the hash map's iteration order.  Body / query / MIME encoders (serde_json,
   serde_urlencoded, serde_qs, Mime's Display) are applied by the describing side: an op carries
   [Some encoded] or [None] when the encoder refuses the value.

   Definitions only; lemmas are in ModelProofs.v. *)
From Coq Require Import List NArith ZArith Bool.
From Crux Require Import Base.Res.
Import ListNotations.
Open Scope N_scope.

(* the value of a call the API refuses with an error (the app holds an Err, nothing is sent) *)
Definition refused {A : Type} : res A := Err Z0.

(* ------------------------------------------------------------------ byte strings *)
Definition bytes := list N.

Fixpoint beqb (a b : bytes) : bool :=
  match a, b with
  | [], [] => true
  | x :: a', y :: b' => N.eqb x y && beqb a' b'
  | _, _ => false
  end.

(* Rust's [str] ordering: lexicographic on bytes *)
Fixpoint bleb (a b : bytes) : bool :=
  match a, b with
  | [], _ => true
  | _ :: _, [] => false
  | x :: a', y :: b' => if N.ltb x y then true else if N.eqb x y then bleb a' b' else false
  end.

Fixpoint lbeqb (a b : list bytes) : bool :=
  match a, b with
  | [], [] => true
  | x :: a', y :: b' => beqb x y && lbeqb a' b'
  | _, _ => false
  end.

Definition lower_byte (c : N) : N := if (65 <=? c) && (c <=? 90) then c + 32 else c.
Definition lower (s : bytes) : bytes := map lower_byte s.
Definition is_ascii (s : bytes) : bool := forallb (fun c => c <? 128) s.

(* "content-type" *)
Definition CT : bytes := [99; 111; 110; 116; 101; 110; 116; 45; 116; 121; 112; 101].

(* the MIME types http-types attaches to the four kinds of body (mime::PLAIN, BYTE_STREAM, JSON, FORM,
   rendered by Mime's Display) *)
Inductive mime_kind := MPlain | MOctet | MJson | MForm.
Definition mime_kind_eqb (a b : mime_kind) : bool :=
  match a, b with MPlain, MPlain | MOctet, MOctet | MJson, MJson | MForm, MForm => true | _, _ => false end.
Definition mime_of (k : mime_kind) : bytes :=
  match k with
  | MPlain => (* text/plain;charset=utf-8 *)
      [116;101;120;116;47;112;108;97;105;110;59;99;104;97;114;115;101;116;61;117;116;102;45;56]
  | MOctet => (* application/octet-stream *)
      [97;112;112;108;105;99;97;116;105;111;110;47;111;99;116;101;116;45;115;116;114;101;97;109]
  | MJson => (* application/json *)
      [97;112;112;108;105;99;97;116;105;111;110;47;106;115;111;110]
  | MForm => (* application/x-www-form-urlencoded *)
      [97;112;112;108;105;99;97;116;105;111;110;47;120;45;119;119;119;45;102;111;114;109;45;117;114;108;101;110;99;111;100;101;100]
  end.

(* ------------------------------------------------------------------ the header map
   http_types::Headers is a HashMap<HeaderName, HeaderValues>: at most one entry per (lower-cased)
   name, a list of values per entry (possibly empty: `insert(name, &[][..])`).  Its content is an
   association list with distinct keys; the ORDER in which the real map yields its entries is not
   a function of that content and is the oracle [iter_order] below. *)
Definition hmap := list (bytes * list bytes).

Fixpoint hget (n : bytes) (m : hmap) : option (list bytes) :=
  match m with
  | [] => None
  | (k, vs) :: t => if beqb k n then Some vs else hget n t
  end.
(* HashMap::insert: replace the entry or add one *)
Fixpoint hset (n : bytes) (vs : list bytes) (m : hmap) : hmap :=
  match m with
  | [] => [(n, vs)]
  | (k, ws) :: t => if beqb k n then (k, vs) :: t else (k, ws) :: hset n vs t
  end.
Fixpoint hremove (n : bytes) (m : hmap) : hmap :=
  match m with
  | [] => []
  | (k, ws) :: t => if beqb k n then hremove n t else (k, ws) :: hremove n t
  end.
(* Headers::append: extend the entry's values, or insert *)
Definition happend (n : bytes) (vs : list bytes) (m : hmap) : hmap :=
  match hget n m with Some old => hset n (old ++ vs) m | None => hset n vs m end.

(* ------------------------------------------------------------------ descriptions *)
Inductive op :=
| OHeader (n : bytes) (vs : list bytes)        (* RequestBuilder::header / Request::insert_header / set_header *)
| OAppend (n : bytes) (vs : list bytes)        (* Request::append_header *)
| ORemove (n : bytes)                          (* Request::remove_header *)
| OContentType (m : option bytes)              (* content_type(impl Into<Mime>): None = the string is no MIME type *)
| OBody (k : mime_kind) (b : option bytes)     (* body / body_string / body_bytes / body_json / body_form: None = encoder refuses *)
| OQuery (q : option bytes).                   (* query(&impl Serialize): None = serde_qs refuses *)

Record request := { r_query : option bytes; r_headers : hmap; r_body : bytes }.
Definition request0 : request := {| r_query := None; r_headers := []; r_body := [] |}.

(* One call.  Panics: `impl From<&str> for HeaderName` (expect) and `to_header_values().unwrap()`
   on non-ASCII text, `impl From<&str> for Mime` (unwrap).  Err: `Body::from_json(..)?`,
   `Body::from_form(..)?`, `set_query(..)?`: the builder is consumed, the app holds an error. *)
Definition apply_op (o : op) (r : request) : res request :=
  match o with
  | OHeader n vs =>
      if is_ascii n && forallb is_ascii vs
      then Ok {| r_query := r_query r; r_headers := hset (lower n) vs (r_headers r); r_body := r_body r |}
      else Panic
  | OAppend n vs =>
      if is_ascii n && forallb is_ascii vs
      then Ok {| r_query := r_query r; r_headers := happend (lower n) vs (r_headers r); r_body := r_body r |}
      else Panic
  | ORemove n =>
      if is_ascii n
      then Ok {| r_query := r_query r; r_headers := hremove (lower n) (r_headers r); r_body := r_body r |}
      else Panic
  | OContentType (Some m) =>
      Ok {| r_query := r_query r; r_headers := hset CT [m] (r_headers r); r_body := r_body r |}
  | OContentType None => Panic
  | OBody k (Some b) =>
      (* http_types::Request::replace_body; copy_content_type_from_body: only if the header is absent *)
      Ok {| r_query := r_query r;
            r_headers := match hget CT (r_headers r) with
                         | None => hset CT [mime_of k] (r_headers r)
                         | Some _ => r_headers r
                         end;
            r_body := b |}
  | OBody _ None => refused
  | OQuery (Some q) => Ok {| r_query := Some q; r_headers := r_headers r; r_body := r_body r |}
  | OQuery None => refused
  end.

Fixpoint apply_ops (ops : list op) (r : request) : res request :=
  match ops with
  | [] => Ok r
  | o :: t => bind (apply_op o r) (apply_ops t)
  end.

(* ------------------------------------------------------------------ the protocol request *)
Record http_request := { q_method : bytes; q_url : bytes; q_headers : list (bytes * bytes); q_body : bytes }.

(* insertion sort of map entries by name (sort_by(|a, b| a.as_str().cmp(b.as_str())), stable) *)
Fixpoint insert_entry (e : bytes * list bytes) (l : hmap) : hmap :=
  match l with
  | [] => [e]
  | h :: t => if bleb (fst e) (fst h) then e :: l else h :: insert_entry e t
  end.
Fixpoint sort_entries (l : hmap) : hmap :=
  match l with [] => [] | e :: t => insert_entry e (sort_entries t) end.

Definition flatten_entries (l : hmap) : list (bytes * bytes) :=
  flat_map (fun e => map (fun v => (fst e, v)) (snd e)) l.

Section Oracles.
  (* `url` crate: does the URL string the app gave parse, and its serialisation once the query has
     been replaced by the given one (None: query as parsed).  Fixed URL per description. *)
  Variable url_ok : bool.
  Variable url_str : option bytes -> bytes.
  (* HashMap iteration: some rearrangement of the entries *)
  Variable iter_order : hmap -> hmap.

  (* protocol.rs into_protocol_request, after the fix: commits (headers ordered by name; read before
     the body is taken; the body is read unless it is known to be empty):
       headers = iter().collect(); sort by name; flat_map to one HttpHeader per value *)
  Definition into_protocol (method : bytes) (r : request) : http_request :=
    {| q_method := method;
       q_url := url_str (r_query r);
       q_headers := flatten_entries (sort_entries (iter_order (r_headers r)));
       q_body := r_body r |}.

  (* the conversion as it was before the fix: commit f481600: entries in iteration order *)
  Definition into_protocol_before_fix (method : bytes) (r : request) : http_request :=
    {| q_method := method;
       q_url := url_str (r_query r);
       q_headers := flatten_entries (iter_order (r_headers r));
       q_body := r_body r |}.

  (* entry point: Http::get(url) etc. `url.parse().unwrap()` *)
  Definition start : res request := if url_ok then Ok request0 else Panic.

  (* Both APIs end in Client::send: caps.http.<verb>(url) ... .send(..) and, since the fix: commit
     d7f6296, Http::<verb>(url) ... .build() (a Client over the command's context).  The client's
     own middleware stack is empty (Client::new; `with` is dead code), then the request's stack
     runs, then the endpoint converts the request and hands it to the effect sender exactly once.
     [send_cmd] is a request described by builder calls only; [send_cap] has, after the builder
     calls [ops1], calls [ops2] made on the Request itself by a per-request middleware before it
     runs `next` (the correspondence harness installs exactly that middleware, for either API). *)
  Definition send_cmd (method : bytes) (ops : list op) : res (list http_request) :=
    bind start (fun r0 => bind (apply_ops ops r0) (fun r => Ok [into_protocol method r])).

  Definition send_cap (method : bytes) (ops1 ops2 : list op) : res (list http_request) :=
    bind start (fun r0 => bind (apply_ops ops1 r0) (fun r1 =>
      bind (apply_ops ops2 r1) (fun r => Ok [into_protocol method r]))).
End Oracles.

(* ------------------------------------------------------------------ what the property demands
   Stated per header name, without a map: [spec_state full n ops st] is what the description says
   about name [n] (lower-case), scanning the calls in order.
     None          no header of that name
     Some (vs, i)  values vs; i = true when they were implied by a body (its documented MIME type)
   [full = true] is the property as stated: an explicit content type wins, otherwise the request
   carries the documented type of the body it carries (the LAST body).  [full = false] is what
   http-types does: the type implied by an earlier body sticks. *)
Definition hstate := option (list bytes * bool).
Definition spec_step (full : bool) (n : bytes) (o : op) (st : hstate) : hstate :=
  match o with
  | OHeader n' vs => if beqb (lower n') n then Some (vs, false) else st
  | OAppend n' vs =>
      if beqb (lower n') n
      then match st with Some (old, _) => Some (old ++ vs, false) | None => Some (vs, false) end
      else st
  | ORemove n' => if beqb (lower n') n then None else st
  | OContentType (Some m) => if beqb CT n then Some ([m], false) else st
  | OContentType None => st
  | OBody k (Some _) =>
      if beqb CT n
      then match st with
           | None => Some ([mime_of k], true)
           | Some (_, true) => if full then Some ([mime_of k], true) else st
           | Some (_, false) => st
           end
      else st
  | OBody _ None => st
  | OQuery _ => st
  end.
Fixpoint spec_state (full : bool) (n : bytes) (ops : list op) (st : hstate) : hstate :=
  match ops with [] => st | o :: t => spec_state full n t (spec_step full n o st) end.
Definition spec_vals (full : bool) (n : bytes) (ops : list op) : list bytes :=
  match spec_state full n ops None with Some (vs, _) => vs | None => [] end.

Fixpoint spec_body (ops : list op) (acc : bytes) : bytes :=
  match ops with [] => acc | OBody _ (Some b) :: t => spec_body t b | _ :: t => spec_body t acc end.
Fixpoint spec_query (ops : list op) (acc : option bytes) : option bytes :=
  match ops with [] => acc | OQuery (Some q) :: t => spec_query t (Some q) | _ :: t => spec_query t acc end.

(* Is the description one the API accepts?  The first offending call decides. *)
Inductive outcome := Sent | Refused | Panicked.
Definition op_outcome (o : op) : outcome :=
  match o with
  | OHeader n vs | OAppend n vs => if is_ascii n && forallb is_ascii vs then Sent else Panicked
  | ORemove n => if is_ascii n then Sent else Panicked
  | OContentType None => Panicked
  | OBody _ None | OQuery None => Refused
  | _ => Sent
  end.
Fixpoint ops_outcome (ops : list op) : outcome :=
  match ops with
  | [] => Sent
  | o :: t => match op_outcome o with Sent => ops_outcome t | x => x end
  end.
Definition desc_outcome (url_ok : bool) (ops : list op) : outcome :=
  if url_ok then ops_outcome ops else Panicked.

(* names a description mentions (lower-case), content-type included when it can be implied or set *)
Fixpoint mentioned (ops : list op) : list bytes :=
  match ops with
  | [] => []
  | OHeader n _ :: t | OAppend n _ :: t | ORemove n :: t => lower n :: mentioned t
  | OContentType _ :: t | OBody _ _ :: t => CT :: mentioned t
  | OQuery _ :: t => mentioned t
  end.

(* the values a wire request carries under a name, in order *)
Definition hvalues (n : bytes) (hs : list (bytes * bytes)) : list bytes :=
  map snd (filter (fun h => beqb (fst h) n) hs).

(* The property for one request on the wire, as a proposition: the method, URL and body are the
   described ones and, for EVERY header name, the values on the wire under that name are exactly
   the described values in the described order (so nothing is added and nothing is lost). *)
Definition described (full : bool) (method : bytes) (url_str : option bytes -> bytes) (ops : list op)
           (r : http_request) : Prop :=
  q_method r = method /\ q_url r = url_str (spec_query ops None) /\ q_body r = spec_body ops [] /\
  forall n, hvalues n (q_headers r) = spec_vals full n ops.

(* what was observed at the shell boundary *)
Inductive obs := ObsSent (l : list http_request) | ObsRefused | ObsPanic.

(* The decidable trace predicate.  For an accepted description: exactly one request effect, whose
   method, URL and body are the described ones and whose headers are, name by name, the described
   values in the described order - for every name on the wire and every name mentioned. *)
Definition request_ok (full : bool) (method : bytes) (url_str : option bytes -> bytes) (ops : list op)
           (r : http_request) : bool :=
  beqb (q_method r) method
  && beqb (q_url r) (url_str (spec_query ops None))
  && beqb (q_body r) (spec_body ops [])
  && forallb (fun n => lbeqb (hvalues n (q_headers r)) (spec_vals full n ops))
             (map fst (q_headers r) ++ mentioned ops).

Definition C14_ok (full : bool) (method : bytes) (url_ok : bool) (url_str : option bytes -> bytes)
           (ops : list op) (o : obs) : bool :=
  match desc_outcome url_ok ops, o with
  | Sent, ObsSent [r] => request_ok full method url_str ops r
  | Refused, ObsRefused => true
  | Panicked, ObsPanic => true
  | _, _ => false
  end.

(* Known finding class (KNOWN_FINDINGS.txt, class=body_replaced_keeps_first_mime): the description
   sets bodies of two different kinds.  Only there can the two readings of the content type differ. *)
Fixpoint body_kinds (ops : list op) : list mime_kind :=
  match ops with [] => [] | OBody k (Some _) :: t => k :: body_kinds t | _ :: t => body_kinds t end.
Definition all_same_kind (l : list mime_kind) : bool :=
  match l with [] => true | k :: t => forallb (mime_kind_eqb k) t end.
Definition known_rebody (ops : list op) : bool := negb (all_same_kind (body_kinds ops)).

(* ------------------------------------------------------------------ case evaluation *)
Definition hreq_eqb (a b : http_request) : bool :=
  beqb (q_method a) (q_method b) && beqb (q_url a) (q_url b) && beqb (q_body a) (q_body b)
  && (fix go (x y : list (bytes * bytes)) : bool :=
        match x, y with
        | [], [] => true
        | (n, v) :: x', (n', v') :: y' => beqb n n' && beqb v v' && go x' y'
        | _, _ => false
        end) (q_headers a) (q_headers b).
Definition obs_eqb (a b : obs) : bool :=
  match a, b with
  | ObsSent [x], ObsSent [y] => hreq_eqb x y
  | ObsSent [], ObsSent [] => true
  | ObsRefused, ObsRefused => true
  | ObsPanic, ObsPanic => true
  | _, _ => false
  end.
Definition obs_of_res (r : res (list http_request)) : obs :=
  match r with Ok l => ObsSent l | Err _ => ObsRefused | _ => ObsPanic end.

Inductive api := Cmd | Cap.
Record case := {
  c_api : api;
  c_method : bytes;
  (* the URL oracle's answers for this description: query (None = as parsed) -> serialisation, None = no parse *)
  c_urls : list (option bytes * option bytes);
  c_ops1 : list op;      (* builder stage *)
  c_ops2 : list op;      (* request stage: calls on the Request, made by a per-request middleware *)
  c_obs : obs            (* the implementation's observation *)
}.

Definition oq_eqb (a b : option bytes) : bool :=
  match a, b with None, None => true | Some x, Some y => beqb x y | _, _ => false end.
Fixpoint url_lookup (t : list (option bytes * option bytes)) (q : option bytes) : option (option bytes) :=
  match t with [] => None | (k, v) :: t' => if oq_eqb k q then Some v else url_lookup t' q end.
(* the two URL oracles read off a table of answers *)
Definition tbl_url_ok (t : list (option bytes * option bytes)) : bool :=
  match url_lookup t None with Some (Some _) => true | _ => false end.
Definition tbl_url_str (t : list (option bytes * option bytes)) (q : option bytes) : bytes :=
  match url_lookup t q with Some (Some s) => s | _ => [] end.
Definition case_url_ok (c : case) : bool := tbl_url_ok (c_urls c).
Definition case_url_str (c : case) (q : option bytes) : bytes := tbl_url_str (c_urls c) q.
Definition case_ops (c : case) : list op := c_ops1 c ++ c_ops2 c.

(* a case is well-formed when the URL table answers every query the description can produce *)
Definition case_wf (c : case) : bool :=
  match url_lookup (c_urls c) None with
     | None => false
     | Some None => true
     | Some (Some _) =>
         forallb (fun o => match o with
                           | OQuery (Some q) => match url_lookup (c_urls c) (Some q) with Some (Some _) => true | _ => false end
                           | _ => true end) (case_ops c)
     end.

Definition model_obs (c : case) : obs :=
  obs_of_res match c_api c, c_ops2 c with
             | Cmd, [] => send_cmd (case_url_ok c) (case_url_str c) (fun m => m) (c_method c) (c_ops1 c)
             | _, _ => send_cap (case_url_ok c) (case_url_str c) (fun m => m) (c_method c) (c_ops1 c) (c_ops2 c)
             end.

(* 0 agree, property holds;  1 model <> implementation, property holds;  2 property fails outside the
   known class;  100 property (as stated) fails inside class body_replaced_keeps_first_mime, and the
   observation is exactly the sticky behaviour;  9 malformed case *)
Definition verdict (c : case) : N :=
  if negb (case_wf c) then 9
  else if C14_ok true (c_method c) (case_url_ok c) (case_url_str c) (case_ops c) (c_obs c)
       then (if obs_eqb (c_obs c) (model_obs c) then 0 else 1)
  else if known_rebody (case_ops c)
          && C14_ok false (c_method c) (case_url_ok c) (case_url_str c) (case_ops c) (c_obs c)
       then 100
  else 2.
Definition verdicts (cs : list case) : list N := map verdict cs.
