(* Lemmas about HttpReq/Model.v: the header map, order independence of the emitted request, and the
   agreement of the model with the per-name specification. *)
From Coq Require Import List NArith ZArith Bool Lia Permutation Sorted.
From Crux Require Import Base.Res HttpReq.Model.
Import ListNotations.
Open Scope N_scope.

(* ------------------------------------------------------------------ byte strings *)
Lemma beqb_eq a b : beqb a b = true <-> a = b.
Proof.
  revert b; induction a as [|x a IH]; intros [|y b]; simpl; split; intros H; try congruence; try reflexivity.
  - apply andb_prop in H as [H1 H2]. apply N.eqb_eq in H1. apply IH in H2. congruence.
  - inversion H; subst. rewrite N.eqb_refl. simpl. apply IH. reflexivity.
Qed.
Lemma beqb_refl a : beqb a a = true.
Proof. apply beqb_eq. reflexivity. Qed.
Lemma beqb_neq a b : beqb a b = false <-> a <> b.
Proof.
  split; intros H.
  - intros E. apply beqb_eq in E. congruence.
  - destruct (beqb a b) eqn:E; [apply beqb_eq in E; contradiction|reflexivity].
Qed.
Lemma beqb_sym a b : beqb a b = beqb b a.
Proof.
  destruct (beqb a b) eqn:E.
  - apply beqb_eq in E. subst. symmetry. apply beqb_refl.
  - symmetry. apply beqb_neq. apply beqb_neq in E. congruence.
Qed.
Lemma lbeqb_eq a b : lbeqb a b = true <-> a = b.
Proof.
  revert b; induction a as [|x a IH]; intros [|y b]; simpl; split; intros H; try congruence; try reflexivity.
  - apply andb_prop in H as [H1 H2]. apply beqb_eq in H1. apply IH in H2. congruence.
  - inversion H; subst. rewrite beqb_refl. simpl. apply IH. reflexivity.
Qed.

Lemma bleb_refl a : bleb a a = true.
Proof. induction a as [|x a IH]; simpl; [reflexivity|]. rewrite N.ltb_irrefl, N.eqb_refl. exact IH. Qed.
Lemma bleb_total a b : bleb a b = true \/ bleb b a = true.
Proof.
  revert b; induction a as [|x a IH]; intros [|y b]; simpl; auto.
  destruct (N.ltb x y) eqn:L1; [auto|]. destruct (N.ltb y x) eqn:L2; [auto|].
  apply N.ltb_ge in L1. apply N.ltb_ge in L2. assert (x = y) by lia. subst.
  rewrite N.eqb_refl. apply IH.
Qed.
Lemma bleb_antisym a b : bleb a b = true -> bleb b a = true -> a = b.
Proof.
  revert b; induction a as [|x a IH]; intros [|y b]; simpl; intros H1 H2; try congruence.
  destruct (N.ltb x y) eqn:L1.
  - apply N.ltb_lt in L1. destruct (N.ltb y x) eqn:L2; [apply N.ltb_lt in L2; lia|].
    destruct (N.eqb y x) eqn:E; [apply N.eqb_eq in E; lia|discriminate].
  - destruct (N.eqb x y) eqn:E; [|discriminate]. apply N.eqb_eq in E. subst.
    rewrite N.ltb_irrefl, N.eqb_refl in H2. f_equal. apply IH; assumption.
Qed.
Lemma bleb_trans a b c : bleb a b = true -> bleb b c = true -> bleb a c = true.
Proof.
  revert b c; induction a as [|x a IH]; intros [|y b] [|z c]; simpl; intros H1 H2; try congruence; try reflexivity.
  destruct (N.ltb x y) eqn:L1.
  - apply N.ltb_lt in L1. destruct (N.ltb y z) eqn:L2.
    + apply N.ltb_lt in L2. assert (L : x < z) by lia. apply N.ltb_lt in L. rewrite L. reflexivity.
    + destruct (N.eqb y z) eqn:E; [|discriminate]. apply N.eqb_eq in E. subst.
      apply N.ltb_lt in L1. rewrite L1. reflexivity.
  - destruct (N.eqb x y) eqn:E; [|discriminate]. apply N.eqb_eq in E. subst.
    destruct (N.ltb y z); [reflexivity|]. destruct (N.eqb y z); [|discriminate]. eapply IH; eassumption.
Qed.

Lemma lower_byte_idem c : lower_byte (lower_byte c) = lower_byte c.
Proof.
  unfold lower_byte. destruct ((65 <=? c) && (c <=? 90)) eqn:E; [|rewrite E; reflexivity].
  apply andb_prop in E as [E1 E2]. apply N.leb_le in E1. apply N.leb_le in E2.
  assert (H : (c + 32 <=? 90) = false) by (apply N.leb_gt; lia). rewrite H, andb_false_r. reflexivity.
Qed.
Lemma lower_idem s : lower (lower s) = lower s.
Proof. unfold lower. rewrite map_map. apply map_ext. apply lower_byte_idem. Qed.
Lemma CT_lower : lower CT = CT.
Proof. reflexivity. Qed.
(* keep [simpl] from unfolding comparisons against the constant *)
#[local] Opaque CT.

(* ------------------------------------------------------------------ the header map *)
Definition keys (m : hmap) : list bytes := map fst m.
Definition wf (m : hmap) : Prop := NoDup (keys m).

Lemma hget_none_iff n m : hget n m = None <-> ~ In n (keys m).
Proof.
  induction m as [|[k vs] t IH]; simpl; [tauto|].
  destruct (beqb k n) eqn:E.
  - apply beqb_eq in E. subst. split; [discriminate|]. intros H. exfalso. apply H. auto.
  - apply beqb_neq in E. rewrite IH. split; intros H; [intros [H1|H1]; [congruence|contradiction]|tauto].
Qed.
Lemma hget_in n vs m : hget n m = Some vs -> In (n, vs) m.
Proof.
  induction m as [|[k ws] t IH]; simpl; [discriminate|].
  destruct (beqb k n) eqn:E; intros H.
  - apply beqb_eq in E. inversion H. subst. auto.
  - auto.
Qed.
Lemma in_hget n vs m : wf m -> In (n, vs) m -> hget n m = Some vs.
Proof.
  unfold wf. induction m as [|[k ws] t IH]; simpl; intros Hw Hin; [contradiction|].
  inversion Hw as [|? ? Hk Ht]; subst.
  destruct Hin as [Hin|Hin].
  - inversion Hin; subst. rewrite beqb_refl. reflexivity.
  - destruct (beqb k n) eqn:E.
    + apply beqb_eq in E. subst. exfalso. apply Hk. change n with (fst (n, vs)). apply in_map. exact Hin.
    + apply IH; assumption.
Qed.

Lemma keys_hset n vs m : keys (hset n vs m) = if existsb (beqb n) (keys m) then keys m else keys m ++ [n].
Proof.
  unfold keys. induction m as [|[k ws] t IH]; simpl; [reflexivity|].
  rewrite (beqb_sym n k). destruct (beqb k n) eqn:E; simpl; [reflexivity|].
  rewrite IH. destruct (existsb (beqb n) (map fst t)); reflexivity.
Qed.
Lemma existsb_beqb_in n l : existsb (beqb n) l = true <-> In n l.
Proof.
  rewrite existsb_exists. split.
  - intros [x [H1 H2]]. apply beqb_eq in H2. subst. exact H1.
  - intros H. exists n. split; [exact H|apply beqb_refl].
Qed.
Lemma wf_hset n vs m : wf m -> wf (hset n vs m).
Proof.
  unfold wf. intros H. rewrite keys_hset. destruct (existsb (beqb n) (keys m)) eqn:E; [exact H|].
  assert (Hn : ~ In n (keys m)). { intros Hin. apply existsb_beqb_in in Hin. congruence. }
  apply NoDup_rev in H. rewrite <- (rev_involutive (keys m ++ [n])). apply NoDup_rev.
  rewrite rev_app_distr. simpl. constructor; [rewrite <- in_rev; exact Hn|exact H].
Qed.
Lemma hget_hset_same n vs m : hget n (hset n vs m) = Some vs.
Proof.
  induction m as [|[k ws] t IH]; simpl; [rewrite beqb_refl; reflexivity|].
  destruct (beqb k n) eqn:E; simpl; rewrite E; [reflexivity|exact IH].
Qed.
Lemma hget_hset_other n n' vs m : n <> n' -> hget n' (hset n vs m) = hget n' m.
Proof.
  intros Hne. induction m as [|[k ws] t IH]; simpl.
  - apply beqb_neq in Hne. rewrite Hne. reflexivity.
  - destruct (beqb k n) eqn:E; simpl.
    + apply beqb_eq in E. subst. apply beqb_neq in Hne. rewrite Hne. reflexivity.
    + destruct (beqb k n'); [reflexivity|exact IH].
Qed.
Lemma keys_hremove_incl n m : incl (keys (hremove n m)) (keys m).
Proof.
  induction m as [|[k ws] t IH]; simpl; [apply incl_refl|].
  destruct (beqb k n); simpl; [apply incl_tl; exact IH|].
  intros x [Hx|Hx]; [left; exact Hx|right; apply IH; exact Hx].
Qed.
Lemma wf_hremove n m : wf m -> wf (hremove n m).
Proof.
  unfold wf. induction m as [|[k ws] t IH]; simpl; intros H; [constructor|].
  inversion H as [|? ? Hk Ht]; subst. destruct (beqb k n); [apply IH; exact Ht|].
  simpl. constructor; [|apply IH; exact Ht]. intros Hin. apply Hk. apply (keys_hremove_incl n t). exact Hin.
Qed.
Lemma hget_hremove_same n m : hget n (hremove n m) = None.
Proof.
  induction m as [|[k ws] t IH]; simpl; [reflexivity|].
  destruct (beqb k n) eqn:E; simpl; [exact IH|rewrite E; exact IH].
Qed.
Lemma hget_hremove_other n n' m : n <> n' -> hget n' (hremove n m) = hget n' m.
Proof.
  intros Hne. induction m as [|[k ws] t IH]; simpl; [reflexivity|].
  destruct (beqb k n) eqn:E; simpl.
  - apply beqb_eq in E. subst. apply beqb_neq in Hne. rewrite Hne. exact IH.
  - destruct (beqb k n'); [reflexivity|exact IH].
Qed.
Lemma wf_happend n vs m : wf m -> wf (happend n vs m).
Proof. unfold happend. intros H. destruct (hget n m); apply wf_hset; exact H. Qed.

(* all names in the map are in canonical (lower-case) form *)
Definition keys_lower (m : hmap) : Prop := Forall (fun k => lower k = k) (keys m).
Lemma keys_lower_hset n vs m : lower n = n -> keys_lower m -> keys_lower (hset n vs m).
Proof.
  unfold keys_lower. intros Hn H. rewrite keys_hset. destruct (existsb (beqb n) (keys m)); [exact H|].
  apply Forall_app. split; [exact H|constructor; [exact Hn|constructor]].
Qed.
Lemma keys_lower_hremove n m : keys_lower m -> keys_lower (hremove n m).
Proof.
  unfold keys_lower. intros H. rewrite Forall_forall in *. intros x Hx. apply H. apply (keys_hremove_incl n m). exact Hx.
Qed.

(* ------------------------------------------------------------------ permutations and sorting *)
Lemma wf_perm m m' : Permutation m m' -> wf m -> wf m'.
Proof. unfold wf, keys. intros P H. eapply Permutation_NoDup; [apply Permutation_map; exact P|exact H]. Qed.

Lemma hget_perm n m m' : wf m -> Permutation m m' -> hget n m = hget n m'.
Proof.
  intros Hw P. destruct (hget n m) as [vs|] eqn:E.
  - symmetry. apply in_hget; [eapply wf_perm; eassumption|]. eapply Permutation_in; [exact P|]. apply hget_in. exact E.
  - symmetry. apply hget_none_iff. apply hget_none_iff in E. intros Hin. apply E.
    unfold keys in *. eapply Permutation_in; [apply Permutation_map; apply Permutation_sym; exact P|exact Hin].
Qed.

Definition ele (a b : bytes * list bytes) : Prop := bleb (fst a) (fst b) = true.

Lemma insert_entry_perm e l : Permutation (insert_entry e l) (e :: l).
Proof.
  induction l as [|h t IH]; simpl; [apply Permutation_refl|].
  destruct (bleb (fst e) (fst h)); [apply Permutation_refl|].
  eapply Permutation_trans; [apply perm_skip; exact IH|apply perm_swap].
Qed.
Lemma sort_entries_perm l : Permutation (sort_entries l) l.
Proof.
  induction l as [|e t IH]; simpl; [constructor|].
  eapply Permutation_trans; [apply insert_entry_perm|apply perm_skip; exact IH].
Qed.
Lemma insert_entry_sorted e l : StronglySorted ele l -> StronglySorted ele (insert_entry e l).
Proof.
  induction l as [|h t IH]; simpl; intros H.
  - constructor; constructor.
  - inversion H as [|? ? Ht Hh]; subst. destruct (bleb (fst e) (fst h)) eqn:E.
    + constructor; [exact H|]. constructor; [exact E|].
      rewrite Forall_forall in *. intros x Hx. unfold ele in *. eapply bleb_trans; [exact E|apply Hh; exact Hx].
    + constructor; [apply IH; exact Ht|].
      assert (Hhe : ele h e). { unfold ele. destruct (bleb_total (fst e) (fst h)) as [H1|H1]; [congruence|exact H1]. }
      rewrite Forall_forall in *. intros x Hx.
      apply (Permutation_in _ (insert_entry_perm e t)) in Hx. destruct Hx as [Hx|Hx]; [subst; exact Hhe|apply Hh; exact Hx].
Qed.
Lemma sort_entries_sorted l : StronglySorted ele (sort_entries l).
Proof. induction l as [|e t IH]; simpl; [constructor|apply insert_entry_sorted; exact IH]. Qed.

Lemma wf_same_key a b l : wf l -> In a l -> In b l -> fst a = fst b -> a = b.
Proof.
  intros Hw Ha Hb Hk. destruct a as [ka va], b as [kb vb]. simpl in Hk. subst kb.
  pose proof (in_hget _ _ _ Hw Ha) as H1. pose proof (in_hget _ _ _ Hw Hb) as H2. congruence.
Qed.

Lemma sorted_unique l l' : StronglySorted ele l -> StronglySorted ele l' -> wf l -> Permutation l l' -> l = l'.
Proof.
  revert l'. induction l as [|a t IH]; intros l' Hs Hs' Hw P.
  - apply Permutation_nil in P. congruence.
  - destruct l' as [|a' t']; [apply Permutation_sym, Permutation_nil in P; discriminate|].
    assert (Ha : a = a').
    { assert (Hin1 : In a (a' :: t')) by (eapply Permutation_in; [exact P|left; reflexivity]).
      assert (Hin2 : In a' (a :: t)) by (eapply Permutation_in; [apply Permutation_sym; exact P|left; reflexivity]).
      destruct Hin1 as [Hin1|Hin1]; [congruence|]. destruct Hin2 as [Hin2|Hin2]; [congruence|].
      inversion Hs as [|? ? _ Hfa]; subst. inversion Hs' as [|? ? _ Hfa']; subst.
      rewrite Forall_forall in Hfa, Hfa'.
      pose proof (Hfa _ Hin2) as L1. pose proof (Hfa' _ Hin1) as L2. unfold ele in L1, L2.
      apply (wf_same_key a a' (a :: t)); [exact Hw|left; reflexivity|right; exact Hin2|].
      apply bleb_antisym; assumption. }
    subst a'. f_equal. apply IH.
    + inversion Hs; assumption.
    + inversion Hs'; assumption.
    + unfold wf in *. simpl in Hw. inversion Hw; assumption.
    + eapply Permutation_cons_inv. exact P.
Qed.

Lemma sort_entries_perm_eq l l' : wf l -> Permutation l l' -> sort_entries l = sort_entries l'.
Proof.
  intros Hw P. apply sorted_unique.
  - apply sort_entries_sorted.
  - apply sort_entries_sorted.
  - eapply wf_perm; [apply Permutation_sym; apply sort_entries_perm|exact Hw].
  - eapply Permutation_trans; [apply sort_entries_perm|].
    eapply Permutation_trans; [exact P|apply Permutation_sym; apply sort_entries_perm].
Qed.

(* ------------------------------------------------------------------ the values carried under a name *)
Lemma hvalues_app n a b : hvalues n (a ++ b) = hvalues n a ++ hvalues n b.
Proof. unfold hvalues. rewrite filter_app, map_app. reflexivity. Qed.
Lemma hvalues_entry n k vs : hvalues n (map (fun v => (k, v)) vs) = if beqb k n then vs else [].
Proof.
  unfold hvalues. induction vs as [|v t IH]; simpl; [destruct (beqb k n); reflexivity|].
  destruct (beqb k n) eqn:E; simpl; [f_equal; exact IH|exact IH].
Qed.
Lemma hvalues_absent n hs : ~ In n (map fst hs) -> hvalues n hs = [].
Proof.
  unfold hvalues. induction hs as [|[k v] t IH]; simpl; intros H; [reflexivity|].
  destruct (beqb k n) eqn:E.
  - apply beqb_eq in E. subst. exfalso. apply H. auto.
  - apply IH. intros Hin. apply H. auto.
Qed.
Lemma flatten_names l : incl (map fst (flatten_entries l)) (keys l).
Proof.
  induction l as [|[k vs] t IH]; simpl; [apply incl_refl|].
  unfold flatten_entries in *. simpl. rewrite map_app, map_map. simpl.
  intros x Hx. apply in_app_or in Hx. destruct Hx as [Hx|Hx].
  - apply in_map_iff in Hx. destruct Hx as [v [Hv _]]. left. exact Hv.
  - right. apply IH. exact Hx.
Qed.
Lemma hvalues_flatten n l : wf l ->
  hvalues n (flatten_entries l) = match hget n l with Some vs => vs | None => [] end.
Proof.
  unfold wf. induction l as [|[k vs] t IH]; simpl; intros Hw; [reflexivity|].
  inversion Hw as [|? ? Hk Ht]; subst.
  unfold flatten_entries in *. simpl. rewrite hvalues_app, hvalues_entry. simpl.
  destruct (beqb k n) eqn:E.
  - apply beqb_eq in E. subst. rewrite hvalues_absent; [apply app_nil_r|].
    intros Hin. apply Hk. apply (flatten_names t). exact Hin.
  - simpl. apply IH. exact Ht.
Qed.

(* ------------------------------------------------------------------ calls and the per-name specification *)
Definition erase (st : hstate) : option (list bytes) := match st with Some (vs, _) => Some vs | None => None end.

Record inv (r : request) : Prop := { inv_wf : wf (r_headers r); inv_lower : keys_lower (r_headers r) }.

Lemma inv0 : inv request0.
Proof. split; simpl; [constructor|constructor]. Qed.

Lemma apply_op_inv o r r' : apply_op o r = Ok r' -> inv r -> inv r'.
Proof.
  intros H [Hw Hl]. destruct o as [n vs|n vs|n|[m|]|k [b|]|[q|]]; simpl in H.
  - destruct (is_ascii n && forallb is_ascii vs); inversion H; subst; simpl.
    split; simpl; [apply wf_hset; exact Hw|apply keys_lower_hset; [apply lower_idem|exact Hl]].
  - destruct (is_ascii n && forallb is_ascii vs); inversion H; subst; simpl.
    split; simpl; [apply wf_happend; exact Hw|].
    unfold happend. destruct (hget (lower n) (r_headers r)); apply keys_lower_hset; try apply lower_idem; exact Hl.
  - destruct (is_ascii n); inversion H; subst; simpl.
    split; simpl; [apply wf_hremove; exact Hw|apply keys_lower_hremove; exact Hl].
  - inversion H; subst; simpl. split; simpl; [apply wf_hset; exact Hw|apply keys_lower_hset; [apply CT_lower|exact Hl]].
  - discriminate.
  - inversion H; subst; simpl. destruct (hget CT (r_headers r)); split; simpl; try assumption.
    + apply wf_hset; exact Hw.
    + apply keys_lower_hset; [apply CT_lower|exact Hl].
  - discriminate.
  - inversion H; subst; simpl. split; assumption.
  - discriminate.
Qed.

Lemma apply_op_get o r r' n st : apply_op o r = Ok r' ->
  erase st = hget n (r_headers r) -> erase (spec_step false n o st) = hget n (r_headers r').
Proof.
  intros H He. destruct o as [n' vs|n' vs|n'|[m|]|k [b|]|[q|]]; simpl in H.
  - destruct (is_ascii n' && forallb is_ascii vs); inversion H; subst; simpl.
    destruct (beqb (lower n') n) eqn:E.
    + apply beqb_eq in E. subst. rewrite hget_hset_same. reflexivity.
    + apply beqb_neq in E. rewrite hget_hset_other by exact E. exact He.
  - destruct (is_ascii n' && forallb is_ascii vs); inversion H; subst; simpl. unfold happend.
    destruct (beqb (lower n') n) eqn:E.
    + apply beqb_eq in E. subst. rewrite <- He. destruct st as [[old fl]|]; simpl; rewrite hget_hset_same; reflexivity.
    + apply beqb_neq in E. destruct (hget (lower n') (r_headers r)); rewrite hget_hset_other by exact E; exact He.
  - destruct (is_ascii n'); inversion H; subst; simpl.
    destruct (beqb (lower n') n) eqn:E.
    + apply beqb_eq in E. subst. rewrite hget_hremove_same. reflexivity.
    + apply beqb_neq in E. rewrite hget_hremove_other by exact E. exact He.
  - inversion H; subst; simpl. destruct (beqb CT n) eqn:E.
    + apply beqb_eq in E. subst. rewrite hget_hset_same. reflexivity.
    + apply beqb_neq in E. rewrite hget_hset_other by exact E. exact He.
  - discriminate.
  - inversion H; subst; simpl. destruct (beqb CT n) eqn:E.
    + apply beqb_eq in E. subst. destruct st as [[old fl]|]; simpl in He |- *; rewrite <- He.
      * destruct fl; exact He.
      * rewrite hget_hset_same. reflexivity.
    + apply beqb_neq in E. destruct (hget CT (r_headers r)); [exact He|].
      rewrite hget_hset_other by exact E. exact He.
  - discriminate.
  - inversion H; subst; simpl. exact He.
  - discriminate.
Qed.

Lemma apply_op_body o r r' : apply_op o r = Ok r' -> r_body r' = spec_body [o] (r_body r).
Proof.
  intros H. destruct o as [n vs|n vs|n|[m|]|k [b|]|[q|]]; simpl in H; try discriminate;
    try (destruct (is_ascii n && forallb is_ascii vs); inversion H; subst; reflexivity);
    try (destruct (is_ascii n); inversion H; subst; reflexivity);
    inversion H; subst; reflexivity.
Qed.
Lemma apply_op_query o r r' : apply_op o r = Ok r' -> r_query r' = spec_query [o] (r_query r).
Proof.
  intros H. destruct o as [n vs|n vs|n|[m|]|k [b|]|[q|]]; simpl in H; try discriminate;
    try (destruct (is_ascii n && forallb is_ascii vs); inversion H; subst; reflexivity);
    try (destruct (is_ascii n); inversion H; subst; reflexivity);
    inversion H; subst; reflexivity.
Qed.
Lemma spec_body_cons o t acc : spec_body (o :: t) acc = spec_body t (spec_body [o] acc).
Proof. destruct o as [| | | |k [b|]|]; reflexivity. Qed.
Lemma spec_query_cons o t acc : spec_query (o :: t) acc = spec_query t (spec_query [o] acc).
Proof. destruct o as [| | | | |[q|]]; reflexivity. Qed.

Lemma apply_ops_spec ops : forall r r', apply_ops ops r = Ok r' -> inv r ->
  inv r' /\ r_body r' = spec_body ops (r_body r) /\ r_query r' = spec_query ops (r_query r) /\
  forall n st, erase st = hget n (r_headers r) -> erase (spec_state false n ops st) = hget n (r_headers r').
Proof.
  induction ops as [|o t IH]; intros r r' H Hi; simpl in H.
  - inversion H; subst. repeat split; try apply Hi. intros n st He. exact He.
  - destruct (apply_op o r) as [r1| | |] eqn:E; simpl in H; try discriminate.
    change (spec_state false ?n (o :: t) ?st) with (spec_state false n t (spec_step false n o st)).
    destruct (IH r1 r' H (apply_op_inv _ _ _ E Hi)) as [Hi' [Hb [Hq Hh]]].
    split; [exact Hi'|]. split; [|split].
    + rewrite spec_body_cons, Hb, (apply_op_body _ _ _ E). reflexivity.
    + rewrite spec_query_cons, Hq, (apply_op_query _ _ _ E). reflexivity.
    + intros n st He. apply Hh. eapply apply_op_get; eassumption.
Qed.

Lemma apply_ops_app a b r : apply_ops (a ++ b) r = bind (apply_ops a r) (apply_ops b).
Proof.
  revert r. induction a as [|o t IH]; intros r; simpl; [reflexivity|].
  destruct (apply_op o r); simpl; try reflexivity. apply IH.
Qed.

(* which descriptions are accepted *)
Lemma apply_op_outcome o r :
  match apply_op o r with
  | Ok _ => op_outcome o = Sent | Err _ => op_outcome o = Refused | Panic => op_outcome o = Panicked | OutOfFuel => False
  end.
Proof.
  destruct o as [n vs|n vs|n|[m|]|k [b|]|[q|]]; simpl; try reflexivity.
  - destruct (is_ascii n && forallb is_ascii vs); reflexivity.
  - destruct (is_ascii n && forallb is_ascii vs); reflexivity.
  - destruct (is_ascii n); reflexivity.
Qed.
Lemma apply_ops_outcome ops : forall r,
  match apply_ops ops r with
  | Ok _ => ops_outcome ops = Sent | Err _ => ops_outcome ops = Refused | Panic => ops_outcome ops = Panicked | OutOfFuel => False
  end.
Proof.
  induction ops as [|o t IH]; intros r; simpl; [reflexivity|].
  pose proof (apply_op_outcome o r) as Ho. destruct (apply_op o r) as [r1| | |]; simpl; rewrite ?Ho; try exact Ho; try reflexivity.
  apply IH.
Qed.

(* names that are not mentioned are not described *)
Lemma spec_state_unmentioned full n ops : forall st, ~ In n (mentioned ops) -> spec_state full n ops st = st.
Proof.
  induction ops as [|o t IH]; intros st H; [reflexivity|].
  assert (Ht : ~ In n (mentioned t)).
  { intros Hin. apply H. destruct o; simpl; auto. }
  change (spec_state full n (o :: t) st) with (spec_state full n t (spec_step full n o st)).
  rewrite IH by exact Ht.
  destruct o as [n' vs|n' vs|n'|[m|]|k [b|]|q]; cbn [mentioned In] in H; cbn [spec_step]; try reflexivity.
  - assert (E : beqb (lower n') n = false) by (apply beqb_neq; intros Hx; apply H; left; exact Hx). rewrite E. reflexivity.
  - assert (E : beqb (lower n') n = false) by (apply beqb_neq; intros Hx; apply H; left; exact Hx). rewrite E. reflexivity.
  - assert (E : beqb (lower n') n = false) by (apply beqb_neq; intros Hx; apply H; left; exact Hx). rewrite E. reflexivity.
  - assert (E : beqb CT n = false) by (apply beqb_neq; intros Hx; apply H; left; exact Hx). rewrite E. reflexivity.
  - assert (E : beqb CT n = false) by (apply beqb_neq; intros Hx; apply H; left; exact Hx). rewrite E. reflexivity.
Qed.
Lemma spec_vals_unmentioned full n ops : ~ In n (mentioned ops) -> spec_vals full n ops = [].
Proof. intros H. unfold spec_vals. rewrite spec_state_unmentioned by exact H. reflexivity. Qed.

(* the two readings of the content type agree unless bodies of two kinds are set *)
Lemma forallb_kind_all k l : forallb (mime_kind_eqb k) l = true -> forall k', In k' l -> k' = k.
Proof.
  intros H k' Hin. rewrite forallb_forall in H. specialize (H _ Hin). destruct k, k'; simpl in H; congruence.
Qed.
Lemma spec_state_full_sticky n ops : forall st,
  (forall vs k', st = Some (vs, true) -> In k' (body_kinds ops) -> vs = [mime_of k']) ->
  (forall k1 k2, In k1 (body_kinds ops) -> In k2 (body_kinds ops) -> k1 = k2) ->
  spec_state true n ops st = spec_state false n ops st.
Proof.
  induction ops as [|o t IH]; intros st H1 H2; simpl; [reflexivity|].
  destruct o as [n' vs|n' vs|n'|[m|]|k [b|]|[q|]]; simpl in *;
    try (apply IH; [|exact H2]; intros vs0 k' Hs Hin;
         repeat match goal with
                | H : context [if ?c then _ else _] |- _ => destruct c
                | H : context [match ?s with Some _ => _ | None => _ end] |- _ => destruct s as [[? ?]|]
                end; try discriminate; eapply H1; eassumption).
  destruct (beqb CT n) eqn:E.
  - destruct st as [[vs [|]]|].
    + assert (Hv : vs = [mime_of k]) by (eapply H1; [reflexivity|left; reflexivity]). subst vs.
      apply IH; [|intros; apply H2; right; assumption].
      intros vs0 k' Hs Hin. inversion Hs; subst. f_equal. f_equal. apply H2; [left; reflexivity|right; exact Hin].
    + apply IH; [|intros; apply H2; right; assumption]. intros vs0 k' Hs Hin. discriminate.
    + apply IH; [|intros; apply H2; right; assumption].
      intros vs0 k' Hs Hin. inversion Hs; subst. f_equal. f_equal. apply H2; [left; reflexivity|right; exact Hin].
  - apply IH; [|intros; apply H2; right; assumption]. intros vs0 k' Hs Hin. eapply H1; [exact Hs|right; exact Hin].
Qed.
Lemma all_same_kind_spec l : all_same_kind l = true -> forall k1 k2, In k1 l -> In k2 l -> k1 = k2.
Proof.
  destruct l as [|k t]; simpl; intros H k1 k2 H1 H2; [contradiction|].
  pose proof (forallb_kind_all _ _ H) as Ha.
  destruct H1 as [<-|H1], H2 as [<-|H2]; auto. - symmetry. auto. - rewrite (Ha _ H1), (Ha _ H2). reflexivity.
Qed.
Lemma spec_vals_full_sticky n ops : known_rebody ops = false -> spec_vals true n ops = spec_vals false n ops.
Proof.
  unfold known_rebody, spec_vals. intros H. apply negb_false_iff in H.
  rewrite spec_state_full_sticky; [reflexivity|discriminate|apply all_same_kind_spec; exact H].
Qed.

(* ------------------------------------------------------------------ the emitted request *)
Section Main.
  Variable url_ok : bool.
  Variable url_str : option bytes -> bytes.
  Variable iter_order : hmap -> hmap.
  Hypothesis iter_perm : forall m, Permutation (iter_order m) m.

  Lemma emitted_perm m : Permutation (sort_entries (iter_order m)) m.
  Proof. eapply Permutation_trans; [apply sort_entries_perm|apply iter_perm]. Qed.

  Lemma into_protocol_values method r n : inv r ->
    hvalues n (q_headers (into_protocol url_str iter_order method r))
    = match hget n (r_headers r) with Some vs => vs | None => [] end.
  Proof.
    intros [Hw _]. simpl. rewrite hvalues_flatten.
    - rewrite (hget_perm n (sort_entries (iter_order (r_headers r))) (r_headers r)); [reflexivity| |apply emitted_perm].
      eapply wf_perm; [apply Permutation_sym; apply emitted_perm|exact Hw].
    - eapply wf_perm; [apply Permutation_sym; apply emitted_perm|exact Hw].
  Qed.

  Lemma into_protocol_names_lower method r : inv r ->
    Forall (fun h => lower (fst h) = fst h) (q_headers (into_protocol url_str iter_order method r)).
  Proof.
    intros [_ Hl]. simpl. rewrite Forall_forall. intros [k v] Hin. simpl.
    assert (Hk : In k (keys (sort_entries (iter_order (r_headers r))))).
    { apply flatten_names. change k with (fst (k, v)). apply in_map. exact Hin. }
    unfold keys_lower in Hl. rewrite Forall_forall in Hl. apply Hl.
    unfold keys in *. eapply Permutation_in; [apply Permutation_map; apply emitted_perm|exact Hk].
  Qed.

  Lemma built_described method ops r : apply_ops ops request0 = Ok r ->
    described false method url_str ops (into_protocol url_str iter_order method r) /\
    Forall (fun h => lower (fst h) = fst h) (q_headers (into_protocol url_str iter_order method r)).
  Proof.
    intros H. destruct (apply_ops_spec ops _ _ H inv0) as [Hi [Hb [Hq Hh]]]. split.
    - unfold described. repeat split; simpl.
      + rewrite Hq. reflexivity.
      + rewrite Hb. reflexivity.
      + intros n. change (flatten_entries (sort_entries (iter_order (r_headers r))))
          with (q_headers (into_protocol url_str iter_order method r)).
        rewrite into_protocol_values by exact Hi.
        unfold spec_vals. rewrite <- (Hh n None) by reflexivity.
        destruct (spec_state false n ops None) as [[vs fl]|]; reflexivity.
    - apply into_protocol_names_lower. exact Hi.
  Qed.

  (* the model's result, by outcome of the description *)
  Lemma send_cmd_cases method ops :
    match desc_outcome url_ok ops with
    | Sent => exists r, apply_ops ops request0 = Ok r /\
                        send_cmd url_ok url_str iter_order method ops = Ok [into_protocol url_str iter_order method r]
    | Refused => exists e, send_cmd url_ok url_str iter_order method ops = Err e
    | Panicked => send_cmd url_ok url_str iter_order method ops = Panic
    end.
  Proof.
    unfold desc_outcome, send_cmd, start. destruct url_ok; [|reflexivity]. simpl.
    pose proof (apply_ops_outcome ops request0) as Ho.
    destruct (apply_ops ops request0) as [r|e| |]; simpl; rewrite ?Ho; try contradiction.
    - exists r. split; reflexivity.
    - exists e. reflexivity.
    - reflexivity.
  Qed.

  Lemma send_cap_cmd method ops1 ops2 :
    send_cap url_ok url_str iter_order method ops1 ops2 = send_cmd url_ok url_str iter_order method (ops1 ++ ops2).
  Proof.
    unfold send_cap, send_cmd. destruct (start url_ok); simpl; try reflexivity.
    rewrite apply_ops_app. destruct (apply_ops ops1 a); reflexivity.
  Qed.

  Lemma send_cmd_sound method ops l : send_cmd url_ok url_str iter_order method ops = Ok l ->
    exists r, l = [r] /\ described false method url_str ops r /\ Forall (fun h => lower (fst h) = fst h) (q_headers r).
  Proof.
    intros H. pose proof (send_cmd_cases method ops) as Hc. destruct (desc_outcome url_ok ops).
    - destruct Hc as [r [Hb Hs]]. rewrite Hs in H. inversion H; subst.
      eexists. split; [reflexivity|]. apply built_described. exact Hb.
    - destruct Hc as [e He]. congruence.
    - congruence.
  Qed.

  (* the trace predicate holds of the model *)
  Lemma described_request_ok full method ops r : described full method url_str ops r ->
    request_ok full method url_str ops r = true.
  Proof.
    intros [Hm [Hu [Hb Hh]]]. unfold request_ok. rewrite Hm, Hu, Hb, !beqb_refl. simpl.
    apply forallb_forall. intros n _. apply lbeqb_eq. apply Hh.
  Qed.

  Lemma model_ok_sticky method ops :
    C14_ok false method url_ok url_str ops (obs_of_res (send_cmd url_ok url_str iter_order method ops)) = true.
  Proof.
    unfold C14_ok. pose proof (send_cmd_cases method ops) as Hc. destruct (desc_outcome url_ok ops).
    - destruct Hc as [r [Hb Hs]]. rewrite Hs. simpl. apply described_request_ok. apply built_described. exact Hb.
    - destruct Hc as [e He]. rewrite He. reflexivity.
    - rewrite Hc. reflexivity.
  Qed.

  Lemma described_full_sticky method ops r : known_rebody ops = false ->
    described false method url_str ops r -> described true method url_str ops r.
  Proof.
    intros Hk [Hm [Hu [Hb Hh]]]. repeat split; try assumption. intros n. rewrite spec_vals_full_sticky by exact Hk. apply Hh.
  Qed.

  Lemma model_ok_full method ops : known_rebody ops = false ->
    C14_ok true method url_ok url_str ops (obs_of_res (send_cmd url_ok url_str iter_order method ops)) = true.
  Proof.
    intros Hk. unfold C14_ok. pose proof (send_cmd_cases method ops) as Hc. destruct (desc_outcome url_ok ops).
    - destruct Hc as [r [Hb Hs]]. rewrite Hs. simpl. apply described_request_ok.
      apply described_full_sticky; [exact Hk|]. apply built_described. exact Hb.
    - destruct Hc as [e He]. rewrite He. reflexivity.
    - rewrite Hc. reflexivity.
  Qed.
End Main.

(* the trace predicate means the property: on ANY observation (the implementation's included) *)
Lemma request_ok_described full method url_str ops r : request_ok full method url_str ops r = true ->
  described full method url_str ops r.
Proof.
  unfold request_ok. intros H. apply andb_prop in H as [H Hh]. apply andb_prop in H as [H Hb]. apply andb_prop in H as [Hm Hu].
  apply beqb_eq in Hm. apply beqb_eq in Hu. apply beqb_eq in Hb. repeat split; try assumption.
  intros n. rewrite forallb_forall in Hh.
  destruct (in_dec (list_eq_dec N.eq_dec) n (map fst (q_headers r) ++ mentioned ops)) as [Hin|Hnin].
  - apply lbeqb_eq. apply Hh. exact Hin.
  - rewrite hvalues_absent by (intros Hx; apply Hnin; apply in_or_app; left; exact Hx).
    rewrite spec_vals_unmentioned by (intros Hx; apply Hnin; apply in_or_app; right; exact Hx). reflexivity.
Qed.

Lemma C14_ok_sent_sound full method url_ok url_str ops l :
  C14_ok full method url_ok url_str ops (ObsSent l) = true ->
  desc_outcome url_ok ops = Sent /\ exists r, l = [r] /\ described full method url_str ops r.
Proof.
  unfold C14_ok. destruct (desc_outcome url_ok ops); try discriminate.
  destruct l as [|r [|r' t]]; try discriminate. intros H. split; [reflexivity|].
  exists r. split; [reflexivity|]. apply request_ok_described. exact H.
Qed.

Lemma C14_ok_not_sent_sound full method url_ok url_str ops o :
  C14_ok full method url_ok url_str ops o = true -> desc_outcome url_ok ops <> Sent ->
  (o = ObsRefused /\ desc_outcome url_ok ops = Refused) \/ (o = ObsPanic /\ desc_outcome url_ok ops = Panicked).
Proof.
  unfold C14_ok. destruct (desc_outcome url_ok ops); intros H Hn; [congruence| |];
    destruct o as [[|r [|r' t]]| |]; try discriminate; auto.
Qed.

(* nothing is added: a header on the wire has a name the description mentions *)
Lemma described_nothing_added full method url_str ops r n v : described full method url_str ops r ->
  In (n, v) (q_headers r) -> In n (mentioned ops) /\ In v (spec_vals full n ops).
Proof.
  intros [_ [_ [_ Hh]]] Hin.
  assert (Hv : In v (hvalues n (q_headers r))).
  { unfold hvalues. change v with (snd (n, v)). apply in_map. apply filter_In. split; [exact Hin|apply beqb_refl]. }
  rewrite Hh in Hv. split; [|exact Hv].
  destruct (in_dec (list_eq_dec N.eq_dec) n (mentioned ops)) as [Hm|Hm]; [exact Hm|].
  rewrite spec_vals_unmentioned in Hv by exact Hm. contradiction.
Qed.

(* order independence: the emitted request does not depend on the iteration oracle *)
Lemma into_protocol_order_free url_str o1 o2 method r :
  (forall m, Permutation (o1 m) m) -> (forall m, Permutation (o2 m) m) -> wf (r_headers r) ->
  into_protocol url_str o1 method r = into_protocol url_str o2 method r.
Proof.
  intros P1 P2 Hw. unfold into_protocol. f_equal. f_equal. apply sort_entries_perm_eq.
  - eapply wf_perm; [apply Permutation_sym; apply P1|exact Hw].
  - eapply Permutation_trans; [apply P1|apply Permutation_sym; apply P2].
Qed.

Lemma send_cmd_order_free url_ok url_str o1 o2 method ops :
  (forall m, Permutation (o1 m) m) -> (forall m, Permutation (o2 m) m) ->
  send_cmd url_ok url_str o1 method ops = send_cmd url_ok url_str o2 method ops.
Proof.
  intros P1 P2. unfold send_cmd. destruct (start url_ok) as [r0| | |] eqn:Es; simpl; try reflexivity.
  assert (r0 = request0) by (unfold start in Es; destruct url_ok; congruence). subst r0.
  destruct (apply_ops ops request0) as [r| | |] eqn:E; simpl; try reflexivity.
  destruct (apply_ops_spec ops _ _ E inv0) as [[Hw _] _].
  rewrite (into_protocol_order_free url_str o1 o2 method r P1 P2 Hw). reflexivity.
Qed.

(* the faithful model does not satisfy the property as stated: two bodies of different kinds *)
Definition sticky_witness : list op := [OBody MPlain (Some [97]); OBody MJson (Some [49])].
Lemma sticky_refuted :
  known_rebody sticky_witness = true /\
  send_cmd true (fun _ => []) (fun m => m) [80;79;83;84] sticky_witness
    = Ok [{| q_method := [80;79;83;84]; q_url := []; q_headers := [(CT, mime_of MPlain)]; q_body := [49] |}] /\
  spec_vals true CT sticky_witness = [mime_of MJson] /\
  C14_ok true [80;79;83;84] true (fun _ => []) sticky_witness
    (obs_of_res (send_cmd true (fun _ => []) (fun m => m) [80;79;83;84] sticky_witness)) = false.
Proof. Transparent CT. vm_compute. repeat split. Qed.

(* accepted descriptions send exactly one request, the others none *)
Lemma accepted_sends_once url_ok url_str iter_order method ops :
  desc_outcome url_ok ops = Sent -> exists r, send_cmd url_ok url_str iter_order method ops = Ok [r].
Proof.
  intros H. pose proof (send_cmd_cases url_ok url_str iter_order method ops) as Hc. rewrite H in Hc.
  destruct Hc as [r [_ Hs]]. eexists. exact Hs.
Qed.
Lemma malformed_sends_nothing url_ok url_str iter_order method ops :
  desc_outcome url_ok ops <> Sent -> forall l, send_cmd url_ok url_str iter_order method ops <> Ok l.
Proof.
  intros H l. pose proof (send_cmd_cases url_ok url_str iter_order method ops) as Hc.
  destruct (desc_outcome url_ok ops); [congruence| |].
  - destruct Hc as [e He]. congruence.
  - congruence.
Qed.
Lemma send_cmd_once url_ok url_str iter_order method ops l :
  send_cmd url_ok url_str iter_order method ops = Ok l -> length l = 1%nat.
Proof.
  intros H. pose proof (send_cmd_cases url_ok url_str iter_order method ops) as Hc.
  destruct (desc_outcome url_ok ops).
  - destruct Hc as [r [_ Hs]]. rewrite Hs in H. inversion H. reflexivity.
  - destruct Hc as [e He]. congruence.
  - congruence.
Qed.
