(* Equality of the values the HTTP / KV / time APIs hand to an app or a test (C11, second half).

   crux_http/src/response/response.rs: `impl PartialEq for Response<Body>` is hand-written because
   http_types::Headers (a HashMap) has no equality.  [resp_eq] models the code after the fix: commit
   (headers compared by content); [resp_eq_before_fix] is the code as it was (both header maps'
   iterators zipped), kept to state what was wrong with it.  Both consult the iteration oracle of each
   map, so they take two oracles.

   HttpRequest, HttpHeader, HttpResponse, HttpResult, HttpError, KeyValueOperation, KeyValueResult,
   KeyValueResponse, KeyValueError, Value, TimeRequest, TimeResponse, TimerId, Instant, Duration all
   `#[derive(PartialEq, Eq)]`: structural equality, modelled on a generic value tree [val].

   Definitions only; lemmas are in EqProofs.v. *)
From Coq Require Import List NArith Bool.
From Crux Require Import Base.Res HttpReq.Model.
Import ListNotations.
Open Scope N_scope.

Record response := {
  p_version : option N;      (* Option<http_types::Version>, as its discriminant *)
  p_status : N;
  p_headers : hmap;
  p_body : option bytes      (* Option<Body> *)
}.

Definition opt_N_eqb (a b : option N) : bool :=
  match a, b with None, None => true | Some x, Some y => N.eqb x y | _, _ => false end.
Definition opt_bytes_eqb (a b : option bytes) : bool :=
  match a, b with None, None => true | Some x, Some y => beqb x y | _, _ => false end.
Definition opt_lbeqb (a b : option (list bytes)) : bool :=
  match a, b with None, None => true | Some x, Some y => lbeqb x y | _, _ => false end.

(* fn headers_eq(lhs, rhs): lhs.names().count() == rhs.names().count()
     && lhs.iter().all(|(name, lhs_values)| rhs.get(name).is_some_and(|r| lhs_values.iter().eq(r.iter()))) *)
Definition headers_eq (o1 o2 : hmap -> hmap) (a b : hmap) : bool :=
  Nat.eqb (length (o1 a)) (length (o2 b))
  && forallb (fun e => match hget (fst e) b with Some ws => lbeqb (snd e) ws | None => false end) (o1 a).

Definition resp_eq (o1 o2 : hmap -> hmap) (a b : response) : bool :=
  opt_N_eqb (p_version a) (p_version b) && N.eqb (p_status a) (p_status b)
  && headers_eq o1 o2 (p_headers a) (p_headers b)
  && opt_bytes_eqb (p_body a) (p_body b).

(* the code before the fix: Iterator::zip stops at the shorter side, for names and for values *)
Fixpoint zip_vals_all (a b : list bytes) : bool :=
  match a, b with x :: a', y :: b' => beqb x y && zip_vals_all a' b' | _, _ => true end.
Fixpoint zip_all (a b : hmap) : bool :=
  match a, b with
  | (n, vs) :: a', (m, ws) :: b' => beqb n m && zip_vals_all vs ws && zip_all a' b'
  | _, _ => true
  end.
Definition resp_eq_before_fix (o1 o2 : hmap -> hmap) (a b : response) : bool :=
  opt_N_eqb (p_version a) (p_version b) && N.eqb (p_status a) (p_status b)
  && zip_all (o1 (p_headers a)) (o2 (p_headers b))
  && opt_bytes_eqb (p_body a) (p_body b).

(* `mod header_serde`: the headers of a serialized Response, in the order in which they are written.
   After the fix: commit 369cd46 the entries are sorted by name; before it they were written in
   iteration order.  (Version, status and body are plain fields.) *)
Definition resp_wire_headers (o : hmap -> hmap) (r : response) : hmap := sort_entries (o (p_headers r)).
Definition resp_wire_headers_before_fix (o : hmap -> hmap) (r : response) : hmap := o (p_headers r).

(* "contents are equal": same version, status and body, and under every name the same values *)
Definition same_contents (a b : response) : Prop :=
  p_version a = p_version b /\ p_status a = p_status b /\ p_body a = p_body b /\
  forall n, hget n (p_headers a) = hget n (p_headers b).
(* decidable form, used on the implementation's observations *)
Definition same_contentsb (a b : response) : bool :=
  opt_N_eqb (p_version a) (p_version b) && N.eqb (p_status a) (p_status b)
  && opt_bytes_eqb (p_body a) (p_body b)
  && forallb (fun n => opt_lbeqb (hget n (p_headers a)) (hget n (p_headers b)))
             (map fst (p_headers a) ++ map fst (p_headers b)).

(* a response is described the way a test builds it: status, header calls on the Response
   (insert_header / append_header / remove_header: the same http-types map as a request), body *)
Record resp_desc := { rd_version : option N; rd_status : N; rd_calls : list op; rd_body : option bytes }.
Definition headers_of_calls (calls : list op) : option hmap :=
  match apply_ops calls request0 with Ok r => Some (r_headers r) | _ => None end.
Definition header_call_only (o : op) : bool :=
  match o with OHeader _ _ | OAppend _ _ | ORemove _ => true | _ => false end.
Definition build_response (d : resp_desc) : option response :=
  if forallb header_call_only (rd_calls d)
  then match headers_of_calls (rd_calls d) with
       | Some h => Some {| p_version := rd_version d; p_status := rd_status d; p_headers := h; p_body := rd_body d |}
       | None => None
       end
  else None.

(* ------------------------------------------------------------------ derived equality *)
Inductive val := VN (n : N) | VB (b : bytes) | VC (tag : N) (args : list val).

Fixpoint val_eqb (a b : val) : bool :=
  match a, b with
  | VN x, VN y => N.eqb x y
  | VB x, VB y => beqb x y
  | VC t xs, VC u ys =>
      N.eqb t u &&
      (fix go (l1 l2 : list val) : bool :=
         match l1, l2 with
         | [], [] => true
         | x :: l1', y :: l2' => val_eqb x y && go l1' l2'
         | _, _ => false
         end) xs ys
  | _, _ => false
  end.

(* ------------------------------------------------------------------ case evaluation *)
Inductive eq_case :=
| EqResp (a b : resp_desc) (ab ba : bool)      (* implementation: a == b, b == a *)
| EqVal (a b : val) (ab ba : bool).

(* 0 agree and == is content equality;  1 model <> implementation;  2 == is not content equality;
   9 malformed case *)
Definition eq_verdict (c : eq_case) : N :=
  match c with
  | EqResp a b ab ba =>
      match build_response a, build_response b with
      | Some ra, Some rb =>
          let spec := same_contentsb ra rb in
          if Bool.eqb ab spec && Bool.eqb ba spec
          then (if Bool.eqb ab (resp_eq (fun m => m) (fun m => m) ra rb) && Bool.eqb ba (resp_eq (fun m => m) (fun m => m) rb ra) then 0 else 1)
          else 2
      | _, _ => 9
      end
  | EqVal a b ab ba =>
      let spec := val_eqb a b in
      if Bool.eqb ab spec && Bool.eqb ba spec then 0 else 2
  end.
Definition eq_verdicts (cs : list eq_case) : list N := map eq_verdict cs.
